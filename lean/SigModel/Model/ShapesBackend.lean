/-
Model of the room API request path (C11):

  /repo/backend_server.go  roomHandler and the per-type helpers
                           (sendRoomInvite/Disinvite/Update/Incall/ParticipantsUpdate/Message/SwitchTo,
                            fixupUserSessions, startDialout)
  /repo/api_backend.go     BackendServerRoomRequest (+ CheckValid) and its sub-objects
  /repo/room.go            Room.processBackendRoomRequestRoom, UpdateProperties, PublishUsersInCallChanged(All),
                           PublishUsersChanged, addInternalSessions, publishRoomMessage, publishSwitchTo
  /repo/virtualsession.go  ProcessAsyncSessionMessage (a disinvite becomes a hang-up order), SetRoom (room session id)
  /repo/hub.go             Hub.Run hand-over and processRoomUpdated/Deleted/InCallChanged/Participants
  /repo/clientsession.go   filterMessage (participants update), CloseAfterSend (disinvite)

The decoded request is a structure whose sub-objects are `Option`s, field by field as in
api_backend.go.  Every place where the Go code goes through a sub-object pointer, or asserts the
dynamic type of a map entry, without a guard is an explicit failure branch here:

  * in the HTTP handler goroutine the panic is recovered by net/http: the connection is dropped and
    there is **no HTTP reply** (`Http.noReply`); publications made before the panic stay made;
  * behind the event bus (bus subscriber goroutines, the hub main loop) nothing recovers: the
    **process dies** (`crash = true`).

Whether the failure branches are reachable is decided by the request validation, which the model
takes from the facts regenerated from the source (`Generated/ShapesBackend.lean`): is
`request.CheckValid()` called before the first use, and which sub-objects does it require for which
type.  `Props/C11.lean` proves that with the generated table no failure branch is reachable.

Trusted / not modelled: the JSON decoder (the theorems quantify over decoded values), the
authentication that precedes decoding (C02), publish errors of the event bus (a NATS outage yields
500), clustering (remote room-session lookups), the `ReceivedTime` ordering filter in
processBackendRoomRequestRoom (it can only drop a message), secondary join/leave notifications
between several members of a room (C04/C05), media permissions (C08).
-/
import SigModel.Generated.ShapesBackend
import SigModel.Generated.LockBalance

namespace SigModel.ShapesBackend

/-! ## The decoded request (api_backend.go) -/

/-- A value of a `map[string]interface{}` participant entry, as far as the code inspects it. -/
inductive Val where
  | null
  | bool (b : Bool)
  | num (n : Int)                        -- float64; `n` is the integer the code's `int(value)` yields
  | str (s : String)
  | list (xs : List (Option String))     -- array; `some s` for a string element, `none` for anything else
  | other                                -- object
  deriving DecidableEq, Repr

/-- `map[string]interface{}`; a nil map is `[]`.  Keys are unique (last one wins when decoding). -/
abbrev Entry := List (String × Val)

def Entry.get (e : Entry) (k : String) : Option Val := e.lookup k
def Entry.set (e : Entry) (k : String) (v : Val) : Entry := (k, v) :: e.filter (fun p => p.1 != k)

/-- `json.RawMessage` fields are kept as their text; `""` is the empty (absent) raw message. -/
structure Invite where
  userIds : List String := []
  allUserIds : List String := []
  properties : String := ""
  deriving DecidableEq, Repr

structure Disinvite where
  userIds : List String := []
  sessionIds : List String := []
  allUserIds : List String := []
  properties : String := ""
  deriving DecidableEq, Repr

structure Update where
  userIds : List String := []
  properties : String := ""
  deriving DecidableEq, Repr

structure Delete where
  userIds : List String := []
  deriving DecidableEq, Repr

/-- The raw `incall` member as `processRoomInCallChanged` reads it: `json.Unmarshal` into `int`,
then into `bool`. -/
inductive RawInCall where
  | empty | int (n : Int) | bool (b : Bool) | other
  deriving DecidableEq, Repr

structure InCall where
  inCall : RawInCall := .empty
  all : Bool := false
  changed : List Entry := []
  users : List Entry := []
  deriving DecidableEq, Repr

structure Participants where
  changed : List Entry := []
  users : List Entry := []
  deriving DecidableEq, Repr

structure Message where
  data : String := ""
  deriving DecidableEq, Repr

/-- The raw `sessions` member of a switchto request, as `sendRoomSwitchTo` (and the validation)
reads it: is it non-empty, is its first byte `[`, what do `json.Unmarshal` into `[]string` and into
`map[string]json.RawMessage` (keys only) say.  The four observations are independent fields, so the
theorems also cover combinations no byte string can produce. -/
structure RawSessions where
  present : Bool := false
  bracket : Bool := false
  asList : Option (List String) := none
  asMap : Option (List String) := none
  deriving DecidableEq, Repr

structure SwitchTo where
  roomId : String := ""
  sessions : RawSessions := {}
  sessionsList : List String := []       -- "internal properties": decodable from the body all the same
  sessionsMap : List String := []        -- keys
  deriving DecidableEq, Repr

structure Dialout where
  number : String := ""
  deriving DecidableEq, Repr

structure Transient where
  action : String := ""
  key : String := ""
  deriving DecidableEq, Repr

structure Request where
  type : String := ""
  invite : Option Invite := none
  disinvite : Option Disinvite := none
  update : Option Update := none
  delete : Option Delete := none
  inCall : Option InCall := none
  participants : Option Participants := none
  message : Option Message := none
  switchTo : Option SwitchTo := none
  dialout : Option Dialout := none
  transient : Option Transient := none
  deriving DecidableEq, Repr

/-- Is the Go field `name` of the request non-nil? (Names as in api_backend.go; an unknown name is
never satisfied, so a validation table the model does not understand rejects everything.) -/
def Request.has (r : Request) (name : String) : Bool :=
  if name = "Invite" then r.invite.isSome
  else if name = "Disinvite" then r.disinvite.isSome
  else if name = "Update" then r.update.isSome
  else if name = "Delete" then r.delete.isSome
  else if name = "InCall" then r.inCall.isSome
  else if name = "Participants" then r.participants.isSome
  else if name = "Message" then r.message.isSome
  else if name = "SwitchTo" then r.switchTo.isSome
  else if name = "Dialout" then r.dialout.isSome
  else if name = "Transient" then r.transient.isSome
  else false

/-- What reaches `roomHandler` after authentication. -/
inductive Body where
  | tooLarge                  -- Content-Length above maxBodySize (parseRequestBody)
  | undecodable               -- json.Unmarshal returned an error
  | ok (r : Request)
  deriving DecidableEq, Repr

/-! ## Validation, as found in the source -/

structure Cfg where
  /-- `request.CheckValid()` is called after decoding and before the first use; failure => reply, return. -/
  validate : Bool
  validateStatus : Nat
  /-- per type, the sub-objects `CheckValid` requires to be non-nil -/
  required : List (String × List String)
  /-- `r.SwitchTo.CheckValid()` is called and test-decodes `sessions` exactly as the handler decodes it -/
  sessionsChecked : Bool
  unsupportedStatus : Nat
  maxBodySize : Nat
  deriving Repr

open SigModel.Generated.ShapesBackend in
/-- The configuration read from the current source tree. -/
def genCfg : Cfg where
  validate := validateCalled
  validateStatus := validateStatus
  required := required
  sessionsChecked := subValidated.contains ("switchto", "SwitchTo") &&
    switchtoValidByte == switchtoHandlerByte && switchtoValidKinds == switchtoHandlerKinds
  unsupportedStatus := unsupportedStatus
  maxBodySize := maxBodySize

def RawSessions.decodable (s : RawSessions) : Bool :=
  !s.present || (if s.bracket then s.asList.isSome else s.asMap.isSome)

/-- `(*BackendServerRoomRequest).CheckValid() == nil`. -/
def checkValid (cfg : Cfg) (r : Request) : Bool :=
  ((cfg.required.lookup r.type).getD []).all r.has &&
  (if cfg.sessionsChecked && r.type = "switchto" then
    match r.switchTo with
    | some s => s.sessions.decodable
    | none => true
   else true)

/-! ## The world the request meets -/

/-- What the internal dial-out client (a third party) does with a dial-out request. -/
inductive DialoutEnv where
  | noClient          -- no dial-out session registered for the backend
  | sendFailed        -- session.SendMessage returned false
  | accepted          -- {"type":"status","status":{"status":"accepted",…}}
  | errorReply        -- {"type":"error",…}
  | otherStatus       -- a status other than "accepted"
  | otherType         -- neither "error" nor "status"
  | timeout           -- nothing within ten seconds
  deriving DecidableEq, Repr

/-- The dial-out client is absent or does its job. -/
def DialoutEnv.cooperative : DialoutEnv → Bool
  | .noClient => true
  | .accepted => true
  | _ => false

def DialoutEnv.status : DialoutEnv → Nat
  | .noClient => 404
  | .sendFailed => 502
  | .accepted => 200
  | .errorReply => 502
  | .otherStatus => 502
  | .otherType => 502
  | .timeout => 504

/-- What kind of session: a websocket client of a user, an internal client (SIP bridge, recorder),
or a virtual session an internal client added to a room (no connection of its own). -/
inductive Kind where
  | client | internal | virtual
  deriving DecidableEq, Repr

/-- A session on this hub. -/
structure Sess where
  pub : String                    -- public session id
  user : String                   -- authenticated user id ("" = anonymous: no user subject)
  kind : Kind := .client
  room : Option String := none    -- the room it is a member of
  rsid : String := ""             -- Nextcloud session id it joined with ("" = none: not resolvable)
  inCall : Bool := false          -- in the inCallSessions of its room
  deriving DecidableEq, Repr

/-- Has a connection that receives events. -/
def Sess.connected (s : Sess) : Bool := s.kind != .virtual

/-- One hub, one backend, any number of rooms: a room exists while it has members. -/
structure World where
  sessions : List Sess := []
  props : List (String × String) := []    -- Room.properties of the existing rooms
  dialout : DialoutEnv := .noClient
  deriving DecidableEq, Repr

def World.members (w : World) (room : String) : List Sess := w.sessions.filter (·.room = some room)
def World.roomExists (w : World) (room : String) : Bool := !(w.members room).isEmpty
def World.propsOf (w : World) (room : String) : String := (w.props.lookup room).getD ""
def World.setProps (w : World) (room p : String) : World :=
  { w with props := (room, p) :: w.props.filter (·.1 != room) }

/-- A room whose last member is gone is removed, its properties with it. -/
def World.gc (w : World) : World := { w with props := w.props.filter (fun p => w.roomExists p.1) }

/-- `roomSessions.LookupSessionId`: Nextcloud session id → public session id (`none` = ErrNoSuchRoomSession).
The entry exists from the join to the leave of the session. -/
def World.lookup (w : World) (rs : String) : Option String :=
  (w.sessions.find? (fun s => s.room.isSome && s.rsid = rs && rs != "")).map (·.pub)

/-! ## Publications and events -/

inductive Ev where
  | roomlistInvite | roomlistUpdate
  | roomlistDisinvite (room : String)
  | roomProps | roomLeft | roomMessage | switchTo | participantsUpdate
  | roomLeave                              -- "another session left your room" (after a disinvite closed it)
  | roomDelete                             -- told to the internal clients of a room that is deleted
  | control                                -- "hang up": to the internal client whose virtual session is disinvited
  | closed                                 -- connection closed by the server after a disinvite
  deriving DecidableEq, Repr

structure Event where
  to : String          -- public session id
  ev : Ev
  deriving DecidableEq, Repr

inductive Pub where
  | user (uid : String) (ev : Ev)               -- PublishUserMessage
  | session (pub : String) (ev : Option Ev)     -- PublishSessionMessage; `none`: "permissions" (nothing client-visible)
  | room (roomId : String) (msg : Request)      -- PublishBackendRoomMessage: the request itself travels
  deriving DecidableEq, Repr

inductive Http where
  | status (code : Nat)
  | noReply                 -- panic in the handler goroutine: net/http drops the connection
  deriving DecidableEq, Repr

structure HRes where
  http : Http
  pubs : List Pub := []
  deriving DecidableEq, Repr

/-! ## roomHandler and its helpers -/

def sessionIdNotInMeeting : String := "0"

/-- `sendRoomInvite` -/
def inviteP (userIds : List String) : List Pub := userIds.map (fun u => .user u .roomlistInvite)

/-- `sendRoomUpdate`: users of `all` not in `notified`. -/
def updateP (notified all : List String) : List Pub :=
  (all.filter (fun u => !notified.contains u)).map (fun u => .user u .roomlistUpdate)

/-- `sendRoomDisinvite` -/
def disinviteP (w : World) (room : String) (userIds sessionIds : List String) : List Pub :=
  userIds.map (fun u => .user u (.roomlistDisinvite room)) ++
  (sessionIds.filter (· != sessionIdNotInMeeting)).filterMap (fun rs =>
    (w.lookup rs).map (fun sid => .session sid (some (.roomlistDisinvite room))))

/-- `fixupUserSessions`: entries whose "sessionId" is a string naming a known room session keep it,
rewritten to the public session id; every other entry is dropped. -/
def fixup (w : World) (es : List Entry) : List Entry :=
  es.filterMap fun e =>
    match e.get "sessionId" with
    | some (.str s) =>
      if s = sessionIdNotInMeeting then none
      else match w.lookup s with
        | some sid => some (e.set "sessionId" (.str sid))
        | none => none
    | _ => none

/-- The permission loop of `sendRoomParticipantsUpdate`; `none`: `user["sessionId"].(string)` panicked. -/
def permsP : List Entry → Option (List Pub)
  | [] => some []
  | e :: es =>
    match e.get "permissions" with
    | none => permsP es
    | some v =>
      match e.get "sessionId" with
      | some (.str sid) =>
        let here : List Pub := match v with
          | .list xs => if xs.all Option.isSome then [.session sid none] else []
          | _ => []
        (permsP es).map (here ++ ·)
      | _ => none

def isDigit (c : Char) : Bool := '0' ≤ c && c ≤ '9'

/-- `^\+\d{2,}$` -/
def isValidNumber (s : String) : Bool :=
  match s.toList with
  | '+' :: ds => ds.length ≥ 2 && ds.all isDigit
  | _ => false

/-- `^[0-9]+$` -/
def isNumeric (s : String) : Bool := !s.toList.isEmpty && s.toList.all isDigit

/-- `sendRoomSwitchTo` -/
def switchToH (w : World) (room : String) (r : Request) (s : SwitchTo) : HRes :=
  let cleared : RawSessions := {}
  if s.sessions.present then
    if s.sessions.bracket then
      match s.sessions.asList with
      | none => ⟨.status 500, []⟩                         -- `return err`
      | some l =>
        if l.isEmpty then ⟨.status 200, []⟩ else
        let ids := (l.filter (· != sessionIdNotInMeeting)).filterMap w.lookup
        if ids.isEmpty then ⟨.status 200, []⟩ else
        ⟨.status 200, [.room room { r with switchTo := some { s with sessions := cleared, sessionsList := ids, sessionsMap := [] } }]⟩
    else
      match s.sessions.asMap with
      | none => ⟨.status 500, []⟩
      | some l =>
        if l.isEmpty then ⟨.status 200, []⟩ else
        let ids := (l.filter (· != sessionIdNotInMeeting)).filterMap w.lookup
        if ids.isEmpty then ⟨.status 200, []⟩ else
        ⟨.status 200, [.room room { r with switchTo := some { s with sessions := cleared, sessionsList := [], sessionsMap := ids } }]⟩
  else
    ⟨.status 200, [.room room { r with switchTo := some { s with sessions := cleared } }]⟩

/-- The `switch request.Type` of roomHandler (after decoding and validation). -/
def dispatch (cfg : Cfg) (w : World) (room : String) (r : Request) : HRes :=
  if r.type = "invite" then
    match r.invite with
    | none => ⟨.noReply, []⟩                              -- request.Invite.UserIds
    | some i => ⟨.status 200, inviteP i.userIds ++ updateP i.userIds i.allUserIds⟩
  else if r.type = "disinvite" then
    match r.disinvite with
    | none => ⟨.noReply, []⟩
    | some d => ⟨.status 200, disinviteP w room d.userIds d.sessionIds ++ updateP d.userIds d.allUserIds⟩
  else if r.type = "update" then
    match r.update with
    | none => ⟨.noReply, [.room room r]⟩                  -- published, then request.Update.UserIds
    | some u => ⟨.status 200, .room room r :: updateP [] u.userIds⟩
  else if r.type = "delete" then
    match r.delete with
    | none => ⟨.noReply, [.room room r]⟩                  -- published, then request.Delete.UserIds
    | some d => ⟨.status 200, .room room r :: disinviteP w room d.userIds []⟩
  else if r.type = "incall" then
    match r.inCall with
    | none => ⟨.noReply, []⟩                              -- request.InCall.All
    | some ic =>
      if !ic.all then
        let users := fixup w ic.users
        let changed := fixup w ic.changed
        if users.isEmpty && changed.isEmpty then ⟨.status 200, []⟩
        else ⟨.status 200, [.room room { r with inCall := some { ic with users := users, changed := changed } }]⟩
      else ⟨.status 200, [.room room r]⟩
  else if r.type = "participants" then
    match r.participants with
    | none => ⟨.noReply, []⟩                              -- request.Participants.Users
    | some p =>
      let users := fixup w p.users
      let changed := fixup w p.changed
      if users.isEmpty && changed.isEmpty then ⟨.status 200, []⟩
      else match permsP changed with
        | none => ⟨.noReply, []⟩                          -- user["sessionId"].(string)
        | some ps => ⟨.status 200, ps ++ [.room room { r with participants := some { users := users, changed := changed } }]⟩
  else if r.type = "message" then
    ⟨.status 200, [.room room r]⟩
  else if r.type = "switchto" then
    match r.switchTo with
    | none => ⟨.noReply, []⟩                              -- request.SwitchTo.Sessions
    | some s => switchToH w room r s
  else if r.type = "dialout" then
    match r.dialout with
    | none => ⟨.noReply, []⟩                              -- request.Dialout.ValidateNumber()
    | some d =>
      if d.number = "" || !isValidNumber d.number then ⟨.status 400, []⟩
      else if !isNumeric room then ⟨.status 400, []⟩
      else ⟨.status w.dialout.status, []⟩
  else ⟨.status cfg.unsupportedStatus, []⟩

/-- `parseRequestBody` (size) + `roomHandler` from `json.Unmarshal` on. -/
def serve (cfg : Cfg) (w : World) (room : String) : Body → HRes
  | .tooLarge => ⟨.status 413, []⟩
  | .undecodable => ⟨.status 400, []⟩
  | .ok r =>
    if cfg.validate && !checkValid cfg r then ⟨.status cfg.validateStatus, []⟩
    else dispatch cfg w room r

/-! ## The consumers behind the bus -/

structure CRes where
  world : World
  events : List Event := []
  crash : Bool := false         -- a panic outside the handler goroutine: the process dies
  deriving DecidableEq, Repr

/-- Every entry carries a string "sessionId": what `addInternalSessions` and
`ClientSession.filterMessage` assert without a check. -/
def entryOk (e : Entry) : Bool :=
  match e.get "sessionId" with
  | some (.str _) => true
  | _ => false

def entriesOk (es : List Entry) : Bool := es.all entryOk

/-- `IsInCall` -/
def isInCall : Val → Option Bool
  | .bool b => some b
  | .num n => some (n % 2 = 1)
  | _ => none

/-- A room event: every member with a connection receives it. -/
def toMembers (w : World) (room : String) (ev : Ev) : List Event :=
  ((w.members room).filter (·.connected)).map (fun s => ⟨s.pub, ev⟩)

/-- The state part of `PublishUsersInCallChanged`: only members of the room can be in its call
(`r.HasSession`); an entry naming any other session of the hub is skipped. -/
def applyInCall (room : String) (ss : List Sess) : List Entry → List Sess
  | [] => ss
  | e :: es =>
    let ss' :=
      match e.get "inCall" with
      | none => ss
      | some v =>
        match isInCall v with
        | none => ss
        | some b =>
          let sidV := match e.get "sessionId" with
            | some x => some x
            | none => e.get "sessionid"
          match sidV with
          | some (.str sid) => ss.map (fun s => if s.pub = sid && s.room = some room then { s with inCall := b } else s)
          | _ => ss
    applyInCall room ss' es

/-- `PublishUsersInCallChangedAll`: joining concerns the user clients of the room (internal clients
and virtual sessions are passed over); leaving empties the call whoever is in it and tells every
member with a connection. -/
def inCallAll (w : World) (room : String) (flags : Int) : CRes :=
  let users := (w.members room).filter (·.kind = .client)
  if flags % 2 = 1 then
    if users.all (·.inCall) then { world := w }       -- nobody joined: no notification
    else { world := { w with sessions := w.sessions.map (fun s =>
                        if s.room = some room && s.kind = .client then { s with inCall := true } else s) },
           events := users.map (fun s => ⟨s.pub, .participantsUpdate⟩) }
  else if (w.members room).any (·.inCall) then
    { world := { w with sessions := w.sessions.map (fun s => if s.room = some room then { s with inCall := false } else s) },
      events := toMembers w room .participantsUpdate }
  else { world := w }

/-- `Room.processBackendRoomRequestRoom` and what it hands to the hub main loop. -/
def consumeRoom (w : World) (room : String) (m : Request) : CRes :=
  if !w.roomExists room then { world := w } else                     -- no subscriber for the subject
  if m.type = "update" then
    match m.update with
    | none => { world := w, crash := true }                          -- message.Update.Properties (Hub.Run)
    | some u =>
      if w.propsOf room = u.properties then { world := w }
      else { world := w.setProps room u.properties, events := toMembers w room .roomProps }
  else if m.type = "delete" then
    { world := ({ w with sessions := w.sessions.map (fun s =>
                    if s.room = some room then { s with room := none, rsid := "", inCall := false } else s) } : World).gc,
      events := toMembers w room .roomLeft ++
        ((w.members room).filter (·.kind = .internal)).map (fun s => ⟨s.pub, .roomDelete⟩) }    -- notifyInternalRoomDeleted
  else if m.type = "incall" then
    match m.inCall with
    | none => { world := w, crash := true }                          -- message.InCall.All (Hub.Run)
    | some ic =>
      if ic.all then
        match ic.inCall with
        | .int n => inCallAll w room n
        | .bool b => inCallAll w room (if b then 1 else 0)
        | _ => { world := w }
      else if !entriesOk (ic.users ++ ic.changed) then
        { world := w, crash := true }                                -- entry["sessionId"].(string)
      else { world := { w with sessions := applyInCall room w.sessions ic.changed },
             events := toMembers w room .participantsUpdate }
  else if m.type = "participants" then
    match m.participants with
    | none => { world := w, crash := true }                          -- message.Participants.Changed (Hub.Run)
    | some p =>
      if !entriesOk (p.users ++ p.changed) then { world := w, crash := true }
      else { world := w, events := toMembers w room .participantsUpdate }
  else if m.type = "message" then
    match m.message with
    | none => { world := w }                                         -- publishRoomMessage: `message == nil`
    | some msg => if msg.data = "" then { world := w } else { world := w, events := toMembers w room .roomMessage }
  else if m.type = "switchto" then
    match m.switchTo with
    | none => { world := w, crash := true }                          -- publishSwitchTo: len(message.SessionsList)
    | some s =>
      { world := w,
        events := (s.sessionsList ++ s.sessionsMap).flatMap (fun sid =>
          -- filterAsyncMessage: an event with target "room" is dropped by a session that joined no room
          (w.sessions.filter (fun x => x.pub = sid && x.room.isSome && x.connected)).map (fun x => ⟨x.pub, .switchTo⟩)) }
  else if m.type = "transient" then
    match m.transient with
    | none => { world := w, crash := true }                          -- message.Transient.Action
    | some _ => { world := w }                                       -- (transient data: C14; not reachable from HTTP)
  else { world := w }

/-- A message to one session: sent; a disinvite for the room the session is in closes it
(`CloseAfterSend`), which removes the session -- and, when it is an internal client, the virtual
sessions it added.  The members that stay are told who left (and, for an internal client, get the
new participants list). -/
def sendTo (w : World) (targets : List Sess) (ev : Ev) : CRes :=
  let closes (s : Sess) : Bool :=
    match ev with
    | .roomlistDisinvite r => s.room = some r
    | _ => false
  let closed := targets.filter closes
  let closedPubs := closed.map (·.pub)
  let internalGone := closed.any (·.kind = .internal)
  let gone (s : Sess) : Bool := closedPubs.contains s.pub || (internalGone && s.kind = .virtual)
  let sessions := w.sessions.filter (fun s => !gone s)
  let stay (room : Option String) : List Sess := sessions.filter (fun x => room.isSome && x.room = room && x.connected)
  { world := ({ w with sessions := sessions } : World).gc,
    events := targets.flatMap (fun s => if closes s then [⟨s.pub, ev⟩, ⟨s.pub, .closed⟩] else [⟨s.pub, ev⟩]) ++
      (w.sessions.filter gone).flatMap (fun s => (stay s.room).map (fun x => ⟨x.pub, .roomLeave⟩)) ++
      (closed.filter (·.kind = .internal)).flatMap (fun s => (stay s.room).map (fun x => ⟨x.pub, .participantsUpdate⟩)) }

def deliver (w : World) : Pub → CRes
  | .user uid ev => if uid = "" then { world := w } else sendTo w (w.sessions.filter (fun s => s.user = uid && s.kind = .client)) ev
  | .session sid (some ev) =>
    let c := sendTo w (w.sessions.filter (fun s => s.pub = sid && s.connected)) ev
    -- VirtualSession.ProcessAsyncSessionMessage: a disinvite from its room becomes a hang-up order
    -- for the internal client that added it; everything else is dropped
    let hangup : List Event := match ev with
      | .roomlistDisinvite r =>
        (w.sessions.filter (fun s => s.pub = sid && s.kind = .virtual && s.room = some r)).flatMap (fun _ =>
          (w.sessions.filter (·.kind = .internal)).map (fun i => ⟨i.pub, .control⟩))
      | _ => []
    { c with events := c.events ++ hangup }
  | .session _ none => { world := w }
  | .room room m => consumeRoom w room m

def deliverAll (w : World) : List Pub → CRes
  | [] => { world := w }
  | p :: ps =>
    let c := deliver w p
    let c' := deliverAll c.world ps
    { world := c'.world, events := c.events ++ c'.events, crash := c.crash || c'.crash }

/-! ## Coming back: locks

The consumers above are functions: they return.  Their Go counterparts run on goroutines that live
as long as the server (the hub main loop for update / delete / incall / participants, the room's bus
subscriber, the sessions' subscribers); they return iff they do not panic (the failure branches
above) and never wait for ever.  The only unbounded waits on these paths are mutex waits, and a
mutex wait is unbounded only when somebody keeps the mutex: a path that leaves a function with the
mutex still locked, or takes it a second time.  `Generated/LockBalance.lean` lists, for every
function of the package, the paths that do (abstract interpretation of each function body, see
tools/extract/lockbalance.go).  The list is compared with the reviewed one below. -/

/-- Findings of the lock-balance walk on the reviewed tree, each with the reason why it is harmless.

* `ClientSession.SubscribeRoomEvents` calls `doUnsubscribeRoomEvents` (which locks
  `roomSessionIdLock`) while holding that lock -- on the path where `SetRoomSession` fails.  The only
  implementation (`BuiltinRoomSessions.SetRoomSession`) never returns an error; a join, not a room
  API request.  Latent. -/
def reviewedLockFindings : List String :=
  ["clientsession.go:ClientSession.SubscribeRoomEvents:reentrant:ClientSession.roomSessionIdLock:" ++
   "held W, calls ClientSession.doUnsubscribeRoomEvents which locks it"]

/-- Functions with lock operations that the room API path runs through (handler, room subscriber,
hub main loop, delivery to the sessions): they must be among the analysed ones. -/
def roomApiLockFunctions : List String :=
  ["Room.UpdateProperties", "Room.PublishUsersInCallChanged", "Room.PublishUsersInCallChangedAll",
   "Room.addInternalSessions", "Room.Close", "Room.HasSession", "Room.RemoveSession", "Room.AddSession",
   "Room.notifyInternalRoomDeleted", "Hub.GetSessionByPublicId", "Hub.removeRoom",
   "BuiltinRoomSessions.GetSessionId", "ClientSession.SendMessage", "ClientSession.LeaveCall"]

open SigModel.Generated.LockBalance in
/-- No function of the package leaves a mutex locked, takes one twice, or is beyond the walk --
except the reviewed findings -- and the functions behind the room API were looked at. -/
def locksBalanced : Bool :=
  lockFindings == reviewedLockFindings && roomApiLockFunctions.all lockFunctions.contains &&
  decide (lockFilesAnalysed > 0)

/-! ## One request, end to end -/

structure Out where
  http : Http
  events : List Event
  crash : Bool
  world : World
  deriving DecidableEq, Repr

def step (cfg : Cfg) (w : World) (room : String) (b : Body) : Out :=
  let h := serve cfg w room b
  let c := deliverAll w h.pubs
  { http := h.http, events := c.events, crash := c.crash, world := c.world }

def run (cfg : Cfg) (w : World) : List (String × Body) → World × List Out
  | [] => (w, [])
  | (room, b) :: rest =>
    let o := step cfg w room b
    let (w', os) := run cfg o.world rest
    (w', o :: os)

end SigModel.ShapesBackend
