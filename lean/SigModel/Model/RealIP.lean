/-
Model of /repo/hub.go `GetRealUserIP`, /repo/allowed_ips.go (`AllowedIps.Allowed`,
`ParseAllowedIps`, the defaults) and of the stats / serverinfo / metrics gate of
backend_server.go and proxy/proxy_server.go: C16.

The model works on *tokenised* requests.  Everything that is string surgery with
the standard library (`net.SplitHostPort` on `RemoteAddr`, joining / splitting
the `X-Forwarded-For` lines at commas, `strings.TrimSpace`, port stripping,
`net.ParseIP`, `net.ParseCIDR`) is done by the harness with standard-library calls
of its own; a token is the resulting text together with what `net.ParseIP` makes
of it (`none` = does not parse).  What the model decides is what the *code*
decides: which token is the client address, and who may read the statistics.

Addresses are byte lists (`List Nat`), 16 bytes as `net.ParseIP` returns them
(IPv4 in the IPv4-in-IPv6 form) — the model also copes with 4-byte forms, like
`net.IPNet.Contains` does.  The order in which the headers are consulted, the
header names, the default lists and the gated routes come from
`Generated/RealIP.lean`, which the extractor rewrites from the source.
-/
import SigModel.Generated.RealIP

namespace SigModel.RealIP
open SigModel.Generated.RealIP

/-! ### addresses and networks (`net.IP`, `net.IPNet`) -/

/-- A piece of request text and what `net.ParseIP` returned for it. -/
structure Tok where
  text : String
  ip : Option (List Nat)
  deriving DecidableEq, Repr

/-- `len(ip) > 0` after `ip := net.ParseIP(text)`. -/
def Tok.valid (t : Tok) : Bool :=
  match t.ip with
  | some b => !b.isEmpty
  | none => false

def Tok.bytes (t : Tok) : List Nat := t.ip.getD []

/-- `net.IPNet`: raw `IP` and `Mask` byte slices, whatever their lengths. -/
structure Cidr where
  ip : List Nat
  mask : List Nat
  deriving DecidableEq, Repr

def v4InV6Prefix : List Nat := [0, 0, 0, 0, 0, 0, 0, 0, 0, 0, 255, 255]

/-- `IP.To4`: 4 bytes stay; 16 bytes with the `::ffff:0:0/96` prefix give the last four. -/
def to4 (ip : List Nat) : Option (List Nat) :=
  if ip.length = 4 then some ip
  else if ip.length = 16 ∧ ip.take 12 = v4InV6Prefix then some (ip.drop 12)
  else none

/-- `networkNumberAndMask` of package net (`([], [])` stands for `nil, nil`). -/
def networkNumberAndMask (n : Cidr) : List Nat × List Nat :=
  let ip? : Option (List Nat) :=
    match to4 n.ip with
    | some x => some x
    | none => if n.ip.length = 16 then some n.ip else none
  match ip? with
  | none => ([], [])
  | some ip =>
    if n.mask.length = 4 then (if ip.length = 4 then (ip, n.mask) else ([], []))
    else if n.mask.length = 16 then (if ip.length = 4 then (ip, n.mask.drop 12) else (ip, n.mask))
    else ([], [])

/-- The loop of `IPNet.Contains`: `nn[i]&m[i] == ip[i]&m[i]` for all `i`. -/
def maskedEq : List Nat → List Nat → List Nat → Bool
  | a :: nn, k :: m, b :: ip => (a &&& k) == (b &&& k) && maskedEq nn m ip
  | _, _, _ => true

/-- `(*net.IPNet).Contains`. -/
def contains (n : Cidr) (ip : List Nat) : Bool :=
  let (nn, m) := networkNumberAndMask n
  let ip' := (to4 ip).getD ip
  if ip'.length ≠ nn.length then false else maskedEq nn m ip'

/-- `(*AllowedIps).Allowed`. -/
def allowed (l : List Cidr) (ip : List Nat) : Bool := l.any (fun n => contains n ip)

/-! ### configuration (`ParseAllowedIps`, defaults, constructors and `Reload`) -/

/-- One comma-separated entry of a configured list after `strings.TrimSpace`. -/
inductive Entry where
  | skip                      -- empty after trimming: ignored
  | bad                       -- neither an address nor a CIDR: the whole list is refused
  | host (ip : List Nat)      -- no `/`: a single address, `ip` = what `net.ParseIP` returned for it
  | net (c : Cidr)            -- with `/`: the network `net.ParseCIDR` returned
  deriving DecidableEq, Repr

/-- `parseIPNet` for an entry without `/`:
`&net.IPNet{IP: ip, Mask: net.CIDRMask(len(ip)*8, len(ip)*8)}` — all mask bits set, as many mask bytes as the
address has.  (How the network is *represented* is not pinned by a fact: the correspondence run compares
networks in canonical form and the judge works on the written entries, so any code that reads a single
address as anything but that address is caught on a request, and a mere change of representation is not.) -/
def hostNet (ip : List Nat) : Cidr := { ip := ip, mask := List.replicate ip.length 255 }

/-- `ParseAllowedIps`: `none` = error. -/
def parseAllowed : List Entry → Option (List Cidr)
  | [] => some []
  | .skip :: es => parseAllowed es
  | .bad :: _ => none
  | .host ip :: es => (parseAllowed es).map (hostNet ip :: ·)
  | .net c :: es => (parseAllowed es).map (c :: ·)

def netsOf (l : List (List Nat × List Nat)) : List Cidr := l.map fun (i, m) => { ip := i, mask := m }

/-- `DefaultAllowedIps()`. -/
def defaultAllow : List Cidr := netsOf defaultAllowedNets

/-- `DefaultTrustedProxies` (= `DefaultPrivateIps()`). -/
def defaultTrusted : List Cidr := if defaultTrustedIsPrivate then netsOf privateNets else []

/-- `if !x.Empty() {…} else { x = <default> }`. -/
def effective (parsed dflt : List Cidr) : List Cidr :=
  if parsed.isEmpty && emptyFallsBackToDefault then dflt else parsed

/-- The two lists a server holds (`Hub.trustedProxies` / `ProxyServer.trustedProxies`,
`BackendServer.statsAllowedIps` / `ProxyServer.statsAllowedIps`). -/
structure Config where
  trusted : List Cidr
  allow : List Cidr
  deriving DecidableEq, Repr

def Config.default : Config := { trusted := defaultTrusted, allow := defaultAllow }

/-- Constructors (`NewHub` + `NewBackendServer`, `NewProxyServer`): an unparsable list is an error. -/
def Config.fresh (t a : List Entry) : Option Config :=
  match parseAllowed t, parseAllowed a with
  | some tl, some al => some { trusted := effective tl defaultTrusted, allow := effective al defaultAllow }
  | _, _ => none

/-- `Reload`: each list is replaced if it parses and left alone otherwise. -/
def Config.reload (c : Config) (t a : List Entry) : Config :=
  { trusted := match parseAllowed t with
      | some tl => effective tl defaultTrusted
      | none => c.trusted
    allow := match parseAllowed a with
      | some al => effective al defaultAllow
      | none => c.allow }

/-! ### `GetRealUserIP` -/

/-- A tokenised request. -/
structure Req where
  /-- host part of `RemoteAddr` (`RemoteAddr` itself when `net.SplitHostPort` fails) -/
  peer : Tok
  /-- the values of the `X-Real-IP` header lines, in order of appearance, verbatim -/
  xreal : List Tok
  /-- the comma-separated entries of all `X-Forwarded-For` lines, left to right,
      trimmed and with a port removed -/
  hops : List Tok
  deriving DecidableEq, Repr

/-- `if realIP := r.Header.Get(…); realIP != "" { if ip := net.ParseIP(realIP); len(ip) > 0 { return realIP } }`
(`Header.Get` = first value). -/
def fromXReal (r : Req) : Option Tok :=
  match r.xreal with
  | [] => none
  | t :: _ => if t.text ≠ "" ∧ t.valid then some t else none

/-- The loop over the hops in visiting order; `last` is `lastTrusted`. -/
def scan (trusted : List Cidr) : List Tok → Option Tok → Option Tok
  | [], last =>
    match last with
    | some t => if t.text ≠ "" then some t else none      -- `if lastTrusted != ""`
    | none => none
  | h :: rest, last =>
    if !h.valid then scan trusted rest last
    else if allowed trusted h.bytes then scan trusted rest (some h)
    else some h

def fromForwarded (trusted : List Cidr) (r : Req) : Option Tok :=
  scan trusted (if hopsReversed then r.hops.reverse else r.hops) none

/-- The headers are consulted in the order found in the source; the first one that
yields an address wins. Names are those of the source text. -/
def consult (trusted : List Cidr) (r : Req) : List String → Option Tok
  | [] => none
  | h :: rest =>
    let here :=
      if h = "X-Real-IP" then fromXReal r
      else if h = "X-Forwarded-For" then fromForwarded trusted r
      else none
    match here with
    | some t => some t
    | none => consult trusted r rest

/-- `GetRealUserIP(r, trusted)`; `trusted = none` is the nil pointer. The result is the
token whose text the function returns. -/
def realIP (trusted : Option (List Cidr)) (r : Req) : Tok :=
  if !r.peer.valid then r.peer
  else
    let untrustedPeer :=
      match trusted with
      | none => true
      | some l => !allowed l r.peer.bytes
    if peerGateFirst && untrustedPeer then r.peer
    else (consult (trusted.getD []) r headerOrder).getD r.peer

/-! ### the gate of the statistics endpoints -/

/-- `allowStatsAccess`: parse what `GetRealUserIP` returned, look it up in the allow-list. -/
def allowStats (c : Config) (r : Req) : Bool :=
  let t := realIP (some c.trusted) r
  t.valid && allowed c.allow t.bytes

inductive Server where
  | main | proxy
  deriving DecidableEq, Repr

def gatedRoutes : Server → List String
  | .main => if gateUsesRealIPMain then gatedRoutesMain else []
  | .proxy => if gateUsesRealIPProxy then gatedRoutesProxy else []

def openRoutes : Server → List String
  | .main => openRoutesMain
  | .proxy => openRoutesProxy

def deniedStatus : Server → Nat
  | .main => deniedStatusMain
  | .proxy => deniedStatusProxy

/-- HTTP status of a `GET` on a registered route (handlers behind the gate answer 200;
for the open routes the model only says "not refused by the gate" = 0). -/
def endpointStatus (s : Server) (route : String) (c : Config) (r : Req) : Nat :=
  if route ∈ gatedRoutes s then (if allowStats c r then 200 else deniedStatus s)
  else if route ∈ openRoutes s then 0
  else 404

end SigModel.RealIP
