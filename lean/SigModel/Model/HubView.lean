/-
Observer side of C04 in the hub model: what a session that replays the join and leave events written to it holds.

`Sess.seenJoin` (= `ClientSession.seenJoinedEvents`) *is* that replay: `filterMessage` lets exactly the ids through
that are not in it and adds them, a leave event removes its ids (`replay_filter` in Lemmas/HubView.lean).
`viewOkAt` is the executable form of the observer clause for one session, `ViewInv` the statement.
-/
import SigModel.Model.Hub

namespace SigModel.Hub

/-- What an observer holding `view` holds after it was written `m`. -/
def replay (view : List Nat) : Option Msg → List Nat
  | some (.join ss) => view ++ ss
  | some (.leave ss) => view.filter (fun s => !ss.contains s)
  | _ => view

def sameSet (a b : List Nat) : Bool := a.all (b.contains ·) && b.all (a.contains ·)

def viewOkAt (h : Hub) (s : Nat) : Bool :=
  match h.sess s with
  | none => true
  | some x =>
    if x.kind = .virtual then true else
    match x.room with
    | none => true
    | some r =>
      match h.rooms x.backend r with
      | none => false
      | some rm => sameSet x.seenJoin rm.members

/-- Sessions whose replayed view differs from the member set of their room. -/
def viewBad (h : Hub) : List Nat := (List.range h.nextSid).filter (fun s => !viewOkAt h s)

end SigModel.Hub
