/-
Model for C09 — publishers and subscribers of a session at the media server.

A small-step concurrent model of the critical sections of /repo/clientsession.go
around `mcu.NewPublisher` / `mcu.NewSubscriber`:

  * `GetOrCreatePublisher` / `GetOrCreateSubscriber` hold `s.mu` while they check
    the permission, look the object up and read `s.mcuGeneration` (`offerBegin`,
    `subBegin`), release it while the media server works, and take it again for
    the re-check and the store (`createEnd`), with the outcome of the media-server
    call (`ok | fail | timeout`) chosen by the environment;
  * `doLeaveRoom`, `LeaveCall` and `closeAndWait` call `releaseMcuObjects` under
    `s.mu`: the maps are dropped, every object that was in them is closed by a
    goroutine (`doClose`), `mcuGeneration` is incremented;
  * `closeAndWait` is three steps (`closeCancel`: the context is cancelled,
    `closeLeave`: `hub.removeSession` leaves the room, `closeRelease`); `Close()`
    may be called again on a closed session (it leaves and releases again);
  * `processAsyncMessage("permissions")` is `setPerms` (under `s.mu`) followed
    later by the revocation goroutine (`sweep`, under `s.mu`).

The media server is the list of objects it ever created with an `isOpen` flag.
Whether the re-check after a creation exists and whether the revocation sweep
stops after the first publisher it closes are read from the source
(`Generated/Mcu.lean`) into `codeCfg`; `step` is parametrised by such a `Cfg` so
that the repaired and the unrepaired behaviour are both expressible.
-/
import SigModel.Generated.Mcu

namespace SigModel.Mcu
open SigModel.Generated.Mcu

/-! ### vocabulary -/

/-- The stream types the media server accepts (`publishableStreams`). -/
inductive Stream where
  | video | screen
  deriving DecidableEq, Repr

def Stream.name : Stream → String
  | .video => "video"
  | .screen => "screen"

/-- Media kinds of an offer (its audio / video m-lines), `MediaType` in Go. -/
structure Media where
  audio : Bool
  video : Bool
  deriving DecidableEq, Repr

/-- The four publish permissions as `hasPermissionLocked` answers them. -/
structure Perms where
  media : Bool
  audio : Bool
  video : Bool
  screen : Bool
  deriving DecidableEq, Repr

/-- Key of an object in the session's maps: `publishers[streamType]`,
`subscribers[getStreamId(publisherSession, streamType)]`. -/
inductive Kind where
  | pub (t : Stream)
  | sub (ofSession : Nat) (t : Stream)
  deriving DecidableEq, Repr

/-- An object at the media server. `stamp` is the owner's `mcuGeneration` read in
the critical section that started the creation. -/
structure Obj where
  id : Nat
  owner : Nat
  kind : Kind
  media : Media
  stamp : Nat
  isOpen : Bool
  deriving DecidableEq, Repr

/-- A `NewPublisher` / `NewSubscriber` call the media server has not answered yet. -/
structure Pending where
  id : Nat
  owner : Nat
  kind : Kind
  media : Media
  stamp : Nat
  deriving DecidableEq, Repr

/-- `ClientSession.ClientType()` of the sessions of the harness world. -/
inductive CType where
  | client | federation | internal
  deriving DecidableEq, Repr

/-- What the hub knows about a session besides its media objects. None of it
matters for the ownership invariant; the operations of the harness need it to
say which sessions an event reaches. -/
structure Meta where
  ctype : CType := .client
  /-- feature `internal-incall` (an internal client without it is created with its own in-call flags set) -/
  feature : Bool := false
  /-- the session's own in-call flags (`ClientSession.inCall`, set by the internal client's `incall` message) -/
  flags : Nat := 0
  /-- a client connection is attached (`ClientSession.client`) -/
  connected : Bool := false
  /-- the connection was lost: the session waits in `Hub.expiredSessions` -/
  expiring : Bool := false
  deriving DecidableEq, Repr

structure Sess where
  /-- the context is cancelled: `Close()` was called at least once -/
  closed : Bool
  /-- `Close()` calls that have cancelled the context but not yet left the room (`hub.removeSession`) -/
  needLeave : Nat
  /-- `Close()` calls that have left the room but not yet released the media objects -/
  needRelease : Nat
  room : Option Nat
  inCall : Bool
  /-- `mcuGeneration`: number of `releaseMcuObjects` calls so far -/
  epoch : Nat
  perms : Perms
  /-- `publishers` and `subscribers` -/
  objs : Kind → Option Nat
  /-- revocation goroutines started and not yet run -/
  sweeps : Nat
  info : Meta := {}

structure State where
  sess : Nat → Sess
  objs : List Obj
  pend : List Pending
  /-- objects handed to a `go func() { x.Close(ctx) }()` that has not run yet -/
  closing : List Nat
  nextId : Nat

/-- An old-style session (no permissions received yet) has every permission that
`DefaultPermissionOverrides` does not deny. -/
def oldStylePerm (i : Nat) : Bool :=
  match publishPermissions[i]? with
  | some n => !(oldStyleDenied.contains n)
  | none => false

def Perms.oldStyle : Perms :=
  { media := oldStylePerm 0, audio := oldStylePerm 1, video := oldStylePerm 2, screen := oldStylePerm 3 }

def Sess.init : Sess :=
  { closed := false, needLeave := 0, needRelease := 0, room := none, inCall := false, epoch := 0, perms := Perms.oldStyle,
    objs := fun _ => none, sweeps := 0 }

def State.init : State :=
  { sess := fun _ => Sess.init, objs := [], pend := [], closing := [], nextId := 1 }

/-! ### configuration read from the source -/

structure Cfg where
  /-- `GetOrCreatePublisher` re-checks closed / generation / permission under the lock after the creation -/
  recheckPub : Bool
  /-- `GetOrCreateSubscriber` re-checks closed / generation under the lock after the creation -/
  recheckSub : Bool
  /-- the revocation goroutine returns after the first publisher it closes -/
  sweepEarly : Bool
  /-- every statement that takes client sessions out of a room's in-call set calls `LeaveCall()` for each of them
  (`PublishUsersInCallChanged`, `PublishUsersInCallChangedAll`, `NotifySessionChanged`) -/
  inCallExits : Bool := true
  /-- the hub / client functions that end a room stay or a session (bye, expiry, room deleted, room-session
  reconnect, disinvite) call `LeaveRoom` / `Close` on the session; the room pointer is only cleared and the
  context only cancelled by releasers -/
  hubExits : Bool := true
  deriving DecidableEq, Repr

/-- The order of lock / snapshot / create / re-check / store events the model of
`createEnd` with re-check stands for. -/
def expectedPublisherProgram : List String :=
  ["lock", "defer-unlock", "checkperm", "return-err", "lookup", "snapshot", "unlock", "create", "lock",
   "return-err", "checkgen", "checkperm", "go-close", "return-err", "lookup", "go-close", "store",
   "setmedia", "return"]

def expectedSubscriberProgram : List String :=
  ["lock", "defer-unlock", "lookup", "snapshot", "unlock", "create", "lock", "return-err", "checkgen",
   "go-close", "return-err", "lookup", "go-close", "store", "return"]

/-- The generation check is meaningful: it refuses closed sessions and changed
generations, and every release bumps the generation before anything else. -/
def generationCheckSound : Bool :=
  generationCheckConds == ["s.ctx.Err()!=nil", "s.mcuGeneration!=generation"] && releaseBumpsGenerationFirst

/-- The statements that take sessions out of `Room.inCallSessions`, with the sessions
for which `LeaveCall()` follows: a `delete` of one session is followed by its
`LeaveCall()` if it is a client session; the reset of the whole set ("call ended
for everybody") feeds *every member of the set* that is a client session to
`LeaveCall()`; `RemoveSession` (called by `doLeaveRoom`, after the release) needs none. -/
def expectedInCallRemovals : List String :=
  ["NotifySessionChanged:delete(session):is-ClientSession(session)",
   "PublishUsersInCallChanged:delete(session):is-ClientSession(session)",
   "PublishUsersInCallChangedAll:reset:r.inCallSessions : is-ClientSession(session)",
   "RemoveSession:delete(session):none"]

/-- What the functions that end a room stay or a session call on it. -/
def expectedExitCalls : List String :=
  ["processByeMsg:Close", "checkExpiredSessions:Close", "checkAnonymousSessions:Close",
   "processRoomDeleted:LeaveRoom", "disconnectByRoomSessionId:LeaveRoom,Close", "removeSession:LeaveRoom",
   "writeMessageLocked.CloseAfterSend:Close", "processAsyncMessage.bye:LeaveRoom,closeAndWait"]

def codeCfg : Cfg :=
  { recheckPub := publisherProgram == expectedPublisherProgram && generationCheckSound
    recheckSub := subscriberProgram == expectedSubscriberProgram && generationCheckSound
    sweepEarly := sweepReturnsEarly
    inCallExits := inCallRemovals == expectedInCallRemovals
    hubExits := exitCalls == expectedExitCalls && roomClearSites.all releasers.contains &&
      cancelSites.all releasers.contains }

/-- The repaired behaviour. -/
def Cfg.repaired : Cfg := { recheckPub := true, recheckSub := true, sweepEarly := false }

/-- The pinned tree before the `fix:` commit (and with the sweep of C08's finding). -/
def Cfg.asIs : Cfg := { recheckPub := false, recheckSub := false, sweepEarly := true }

/-! ### permissions -/

/-- `checkOfferTypeLocked` / `isSdpAllowedToSendLocked`, and the condition under
which the revocation goroutine keeps a publisher. -/
def permittedPub (p : Perms) (t : Stream) (m : Media) : Bool :=
  match t with
  | .screen => p.screen
  | .video => p.media || ((!m.audio || p.audio) && (!m.video || p.video))

def permitted (p : Perms) (k : Kind) (m : Media) : Bool :=
  match k with
  | .pub t => permittedPub p t m
  | .sub _ _ => true

/-! ### state helpers -/

def State.upd (st : State) (i : Nat) (f : Sess → Sess) : State :=
  { st with sess := fun j => if j = i then f (st.sess j) else st.sess j }

def findObj (objs : List Obj) (k : Nat) : Option Obj := objs.find? (fun o => o.id == k)

def findPend (pend : List Pending) (k : Nat) : Option Pending := pend.find? (fun p => p.id == k)

/-- Media of the object with id `k` (`publisher.HasMedia`). -/
def objMedia (st : State) (k : Nat) : Media :=
  match findObj st.objs k with
  | some o => o.media
  | none => { audio := false, video := false }

/-- Ids of the objects the session's maps refer to. -/
def trackedIds (st : State) (i : Nat) : List Nat :=
  (st.objs.filter fun o => o.owner == i && (st.sess i).objs o.kind == some o.id).map (·.id)

/-- `releaseMcuObjects`: bump the generation, hand every object of the maps to a
closing goroutine, drop the maps. -/
def release (st : State) (i : Nat) : State :=
  { (st.upd i fun s => { s with objs := fun _ => none, epoch := s.epoch + 1 }) with
    closing := st.closing ++ trackedIds st i }

def setMedia (objs : List Obj) (k : Nat) (m : Media) : List Obj :=
  objs.map fun o => if o.id = k then { o with media := m } else o

def closeObj (objs : List Obj) (k : Nat) : List Obj :=
  objs.map fun o => if o.id = k then { o with isOpen := false } else o

/-- Remove key `kd` from the maps of session `i` and hand object `k` to a closing goroutine. -/
def dropEntry (st : State) (i : Nat) (kd : Kind) (k : Nat) : State :=
  { (st.upd i fun s => { s with objs := fun kd' => if kd' = kd then none else s.objs kd' }) with
    closing := st.closing ++ [k] }

/-! ### actions -/

inductive Outcome where
  | ok | fail | timeout
  deriving DecidableEq, Repr

inductive Action where
  /-- `SetRoom(r)` of `processJoinRoom` (the previous room was left by a `leaveRoom` before) -/
  | join (s r : Nat)
  /-- `Room.inCallSessions` entry of the session set / deleted (under the room's lock) -/
  | inCallSet (s : Nat) (b : Bool)
  | leaveCall (s : Nat)
  | leaveRoom (s : Nat)
  | closeCancel (s : Nat)
  | closeLeave (s : Nat)
  | closeRelease (s : Nat)
  | setPerms (s : Nat) (p : Perms)
  | sweep (s : Nat)
  | offerBegin (s : Nat) (t : Stream) (m : Media)
  | subBegin (s : Nat) (ofSession : Nat) (t : Stream)
  | createEnd (k : Nat) (o : Outcome)
  | doClose (k : Nat)
  /-- client type / own in-call flags / connection state of a session change (no media object is touched) -/
  | setMeta (s : Nat) (m : Meta)
  deriving DecidableEq, Repr

def leaveRoomStep (st : State) (s : Nat) : State :=
  match (st.sess s).room with
  | none => st
  | some _ => release (st.upd s fun x => { x with room := none, inCall := false }) s

/-- The camera publisher the revocation goroutine closes: there is one, the session
lacks `publish-media`, and the publisher has audio resp. video without the
session having `publish-audio` resp. `publish-video`. -/
def videoToClose (st : State) (s : Nat) : Option Nat :=
  let p := (st.sess s).perms
  if p.media then none else
    match (st.sess s).objs (.pub .video) with
    | some k =>
      let m := objMedia st k
      if (m.audio && !p.audio) || (m.video && !p.video) then some k else none
    | none => none

/-- The revocation goroutine of `processAsyncMessage("permissions")`. -/
def sweepBody (cfg : Cfg) (st : State) (s : Nat) : State :=
  let cv := videoToClose st s
  let st1 := match cv with
    | some k => dropEntry st s (.pub .video) k
    | none => st
  if cv.isSome && cfg.sweepEarly then st1
  else if (st.sess s).perms.screen then st1
  else match (st1.sess s).objs (.pub .screen) with
    | some k => dropEntry st1 s (.pub .screen) k
    | none => st1

/-- Begin of a creation: under `s.mu` the lookup found nothing, the generation is
read, the lock is released and the media server is called. -/
def beginCreate (st : State) (s : Nat) (kd : Kind) (m : Media) : State :=
  { st with pend := st.pend ++ [{ id := st.nextId, owner := s, kind := kd, media := m, stamp := (st.sess s).epoch }],
            nextId := st.nextId + 1 }

/-- Does the critical section after a successful creation accept the object? -/
def recheckOk (cfg : Cfg) (st : State) (p : Pending) : Bool :=
  let s := st.sess p.owner
  match p.kind with
  | .pub t => !cfg.recheckPub || (!s.closed && s.epoch == p.stamp && permittedPub s.perms t p.media)
  | .sub _ _ => !cfg.recheckSub || (!s.closed && s.epoch == p.stamp)

def createEndOk (cfg : Cfg) (st : State) (p : Pending) : State :=
  let o : Obj := { id := p.id, owner := p.owner, kind := p.kind, media := p.media, stamp := p.stamp, isOpen := true }
  let st1 := { st with pend := st.pend.filter (fun q => q.id != p.id), objs := st.objs ++ [o] }
  if recheckOk cfg st p && ((st.sess p.owner).objs p.kind).isNone then
    st1.upd p.owner fun s => { s with objs := fun kd => if kd = p.kind then some p.id else s.objs kd }
  else
    -- refused by the re-check, or another request stored its object first: close the new one
    { st1 with closing := st1.closing ++ [p.id] }

def step (cfg : Cfg) (st : State) : Action → State
  | .join s r => st.upd s fun x => { x with room := some r, inCall := false }
  | .inCallSet s b => st.upd s fun x => { x with inCall := b }
  | .leaveCall s =>
    match (st.sess s).room with
    | none => st
    | some _ => release st s
  | .leaveRoom s => leaveRoomStep st s
  | .closeCancel s =>
    st.upd s fun x => { x with closed := true, needLeave := x.needLeave + 1 }
  | .closeLeave s =>
    if (st.sess s).needLeave = 0 then st
    else (leaveRoomStep st s).upd s fun x => { x with needLeave := x.needLeave - 1, needRelease := x.needRelease + 1 }
  | .closeRelease s =>
    if (st.sess s).needRelease = 0 then st
    else (release st s).upd s fun x => { x with needRelease := x.needRelease - 1 }
  | .setPerms s p => st.upd s fun x => { x with perms := p, sweeps := x.sweeps + 1 }
  | .sweep s =>
    if (st.sess s).sweeps = 0 then st
    else sweepBody cfg (st.upd s fun x => { x with sweeps := x.sweeps - 1 }) s
  | .offerBegin s t m =>
    if !permittedPub (st.sess s).perms t m then st
    else match (st.sess s).objs (.pub t) with
      | some k => { st with objs := setMedia st.objs k m }
      | none => beginCreate st s (.pub t) m
  | .subBegin s p t =>
    match (st.sess s).objs (.sub p t) with
    | some _ => st
    | none => beginCreate st s (.sub p t) { audio := false, video := false }
  | .createEnd k o =>
    match findPend st.pend k with
    | none => st
    | some p =>
      match o with
      | .ok => createEndOk cfg st p
      | _ => { st with pend := st.pend.filter (fun q => q.id != k) }
  | .doClose k => { st with objs := closeObj st.objs k, closing := st.closing.filter (· != k) }
  | .setMeta s m => st.upd s fun x => { x with info := m }

def run (cfg : Cfg) (st : State) (acts : List Action) : State := acts.foldl (step cfg) st

/-- States reachable from the initial state by any interleaving of actions. -/
def Reachable (cfg : Cfg) (st : State) : Prop := ∃ acts, st = run cfg State.init acts

/-! ### the operations of the correspondence harness

Each harness op runs the real code until nothing moves any more, i.e. it is a
sequence of actions followed by all pending `doClose`s.  `opActions` gives the
actions, `opOutput` what the harness observes. -/

inductive Op where
  | join (s r : Nat)
  | leave (s : Nat)
  | incall (s : Nat) (b : Bool)
  | perms (s : Nat) (p : Perms)
  /-- `t = none`: a stream type the media server does not accept -/
  | offer (s : Nat) (t : Option Stream) (m : Media)
  | request (s p : Nat) (t : Option Stream)
  | sendoffer (p s : Nat) (t : Option Stream)
  | finish (k : Nat) (o : Outcome)
  | close (s : Nat)
  | state
  /-- client types / features / connections of the sessions `0, 1, …` of the case -/
  | world (ms : List Meta)
  /-- backend request `incall` with `all = true` for room `r` (`Room.PublishUsersInCallChangedAll`);
  `all` lists the sessions of the world -/
  | incallAll (r : Nat) (b : Bool) (all : List Nat)
  /-- the internal client's own `incall` message (`Hub.processInternalMsg`) -/
  | intIncall (s : Nat) (flags : Nat)
  /-- backend request `delete` for room `r` (`Hub.processRoomDeleted`) -/
  | delRoom (r : Nat) (all : List Nat)
  /-- `roomlist` / `disinvite` event for room `r` sent to session `s` (closes the session when it is written to
  the connection of a session that is in that room) -/
  | disinvite (s r : Nat)
  /-- another connection joins with the room session id of `s` (`Hub.disconnectByRoomSessionId`) -/
  | kick (s : Nat)
  /-- asynchronous `bye` / `room_session_reconnected` message for `s` -/
  | asyncBye (s : Nat)
  /-- client message `bye` on the connection of `s` -/
  | bye (s : Nat)
  /-- the connection of `s` is lost -/
  | drop (s : Nat)
  /-- the expiry time of the sessions without connection passes (`Hub.checkExpiredSessions`) -/
  | expire (all : List Nat)
  /-- the internal client `s` adds a virtual session to room `r` (no media objects of its own) -/
  | virtual (s r : Nat)
  deriving DecidableEq, Repr

def isInternal (st : State) (s : Nat) : Bool := (st.sess s).info.ctype == .internal

/-- `Hub.isInSameCall` for two sessions of this hub: an internal client may
subscribe anything; otherwise both are in the same room, the sender is in the
call, and so is the recipient unless it is an internal client. -/
def sameCall (st : State) (s p : Nat) : Bool :=
  if isInternal st s then true else
  match (st.sess s).room, (st.sess p).room with
  | some r, some r' =>
    -- the recipient is looked up in the hub: a closed session is not found
    r == r' && (st.sess s).inCall && !(st.sess p).closed && (isInternal st p || (st.sess p).inCall)
  | _, _ => false

/-- `ClientSession.IsAllowedToSend` for a `sendoffer` message. -/
def allowedToSend (p : Perms) (t : Option Stream) : Bool :=
  match t with
  | some .screen => p.screen
  | _ => p.media || p.audio || p.video

/-- `Close()` run to the end; the connection (if any) is detached and the session
is no longer waiting for its expiry. -/
def closeActs (st : State) (s : Nat) : List Action :=
  [.closeCancel s, .closeLeave s, .closeRelease s,
   .setMeta s { (st.sess s).info with connected := false, expiring := false }]

/-- The client sessions in `Room.sessions` of room `r`. -/
def roomMembers (st : State) (r : Nat) (all : List Nat) : List Nat :=
  all.filter fun s => (st.sess s).room == some r

/-- A session is taken out of the in-call set of its room: `LeaveCall()` follows
(as long as the source has the shape `expectedInCallRemovals`). -/
def leaveCallActs (cfg : Cfg) (s : Nat) : List Action :=
  if cfg.inCallExits then [.inCallSet s false, .leaveCall s] else [.inCallSet s false]

/-- `FlagInCall` of in-call flags. -/
def flagInCall (flags : Nat) : Bool := flags % 2 == 1

/-- In-call flags an internal client is created with (`NewClientSession`):
`FlagInCall | FlagWithAudio` unless it has the feature `internal-incall`. -/
def initialFlags (t : CType) (feature : Bool) : Nat :=
  if t == .internal && !feature then 3 else 0

def setMetas : List Meta → Nat → List (List Action)
  | [], _ => []
  | m :: ms, i => [.setMeta i m] :: setMetas ms (i + 1)

/-- The actions of a harness op, grouped in blocks: one block is what happens to
one session (the blocks of an op that reaches several sessions follow each other). -/
def opBlocks (cfg : Cfg) (st : State) : Op → List (List Action)
  | .join s r => [[.leaveRoom s, .join s r]]
  | .leave s => [[.leaveRoom s]]
  | .incall s b =>
    match (st.sess s).room with
    | none => []
    | some _ =>
      -- `Room.PublishUsersInCallChanged` looks the session up in the hub: a closed one is skipped
      if (st.sess s).closed then []
      else if b then [[.inCallSet s true]] else [leaveCallActs cfg s]
  | .perms s p => [[.setPerms s p, .sweep s]]
  | .offer s (some t) m => [[.offerBegin s t m]]
  | .offer _ none _ => []
  | .request s p (some t) => if s ≠ p ∧ sameCall st s p then [[.subBegin s p t]] else []
  | .request _ _ none => []
  | .sendoffer p s (some t) =>
    if p ≠ s ∧ (st.sess s).closed = false ∧ allowedToSend (st.sess p).perms (some t) then [[.subBegin s p t]] else []
  | .sendoffer _ _ none => []
  | .finish k o => [[.createEnd k o]]
  | .close s => [closeActs st s]
  | .state => []
  | .world ms => setMetas ms 0
  | .incallAll r true all =>
    -- every user session of the room joins the call; internal and federation clients are not touched
    ((roomMembers st r all).filter fun s => (st.sess s).info.ctype == .client && !(st.sess s).inCall).map
      fun s => [.inCallSet s true]
  | .incallAll r false all =>
    -- the set is emptied; every member of it leaves the call
    ((roomMembers st r all).filter fun s => (st.sess s).inCall).map (leaveCallActs cfg)
  | .intIncall s f =>
    let m := (st.sess s).info
    if m.ctype != .internal || m.flags == f then []
    else [.setMeta s { m with flags := f } ::
      (match (st.sess s).room with
       | none => []
       | some _ => if flagInCall f then [.inCallSet s true] else leaveCallActs cfg s)]
  | .delRoom r all => if cfg.hubExits then (roomMembers st r all).map fun s => [.leaveRoom s] else []
  | .disinvite s r =>
    if cfg.hubExits && (st.sess s).info.connected && (st.sess s).room == some r then [closeActs st s] else []
  | .kick s =>
    -- the room session id leads to the session id, the session is looked up in the hub: a closed one is not found
    if cfg.hubExits && (st.sess s).room.isSome && !(st.sess s).closed then [.leaveRoom s :: closeActs st s] else []
  | .asyncBye s => if cfg.hubExits then [.leaveRoom s :: closeActs st s] else []
  | .bye s => if cfg.hubExits && (st.sess s).info.connected then [closeActs st s] else []
  | .drop s =>
    let m := (st.sess s).info
    if m.connected then [[.setMeta s { m with connected := false, expiring := true }]] else []
  | .expire all =>
    if cfg.hubExits then (all.filter fun s => (st.sess s).info.expiring).map (closeActs st) else []
  | .virtual _ _ => []

def opActions (cfg : Cfg) (st : State) (op : Op) : List Action := (opBlocks cfg st op).flatten

def beginOutput (st : State) (s : Nat) (kd : Kind) : String :=
  match (st.sess s).objs kd with
  | some k => s!"existing {k}"
  | none => s!"pending {st.nextId}"

def opOutput (cfg : Cfg) (st : State) : Op → String
  | .join _ _ => "ok"
  | .leave s => if (st.sess s).room.isSome then "ok" else "noroom"
  | .incall s _ => if (st.sess s).room.isSome then "ok" else "noroom"
  | .perms _ _ => "ok"
  | .offer s (some t) m =>
    if !permittedPub (st.sess s).perms t m then "denied" else beginOutput st s (.pub t)
  | .offer s none m =>
    -- any other stream type is checked like a camera stream and then refused by the media server
    if !permittedPub (st.sess s).perms .video m then "denied" else "error"
  | .request s p t =>
    if s = p then "self"
    else if !sameCall st s p then "denied"
    else match t with
      | some t => beginOutput st s (.sub p t)
      | none => "error"
  | .sendoffer p s t =>
    -- a live session never sends to itself; a closed one is no longer found and is treated like any absent recipient
    if p = s ∧ (st.sess p).closed = false then "self"
    else if !allowedToSend (st.sess p).perms t then "denied"
    else if p = s then "self"
    else if (st.sess s).closed then "nosession"
    else match t with
      | some t => beginOutput st s (.sub p t)
      | none => "error"
  | .finish k o =>
    match findPend st.pend k with
    | none => "bad"
    | some p =>
      match o with
      | .ok =>
        if !recheckOk cfg st p then
          let s := st.sess p.owner
          let gone := match p.kind with
            | .pub _ => !(!s.closed && s.epoch == p.stamp)
            | .sub _ _ => true
          if gone then "closed client_not_found" else "closed not_allowed"
        else if ((st.sess p.owner).objs p.kind).isSome then "closed none"
        else "stored"
      | _ => "failed"
  | .close _ => "ok"
  | .state => ""
  | .world ms => "ok " ++ " ".intercalate (ms.map fun m => toString m.flags)
  | .incallAll _ _ _ => "ok"
  | .intIncall s f => if isInternal st s then s!"ok {f}" else "ignored"
  | .delRoom _ _ => "ok"
  | .disinvite _ _ => "ok"
  | .kick s => if (st.sess s).room.isSome then "ok" else "noroom"
  | .asyncBye _ => "ok"
  | .bye s => if (st.sess s).info.connected then "ok" else "noclient"
  | .drop s => if (st.sess s).info.connected then "ok" else "noclient"
  | .expire _ => "ok"
  | .virtual s _ => if isInternal st s then "ok" else "ignored"

def drain (cfg : Cfg) (st : State) : State :=
  run cfg st (st.closing.map Action.doClose)

def exec (cfg : Cfg) (st : State) (op : Op) : State × String :=
  (drain cfg (run cfg st (opActions cfg st op)), opOutput cfg st op)

/-! ### printing the observation -/

def insertById (o : Obj) : List Obj → List Obj
  | [] => [o]
  | x :: xs => if o.id ≤ x.id then o :: x :: xs else x :: insertById o xs

def sortById (l : List Obj) : List Obj := l.foldr insertById []

def Media.token (m : Media) : String :=
  if m.audio && m.video then "av" else if m.audio then "a" else if m.video then "v" else "n"

def isTracked (st : State) (o : Obj) : Bool := (st.sess o.owner).objs o.kind == some o.id

/-- `name` maps object ids to the labels the harness knows them by. -/
def Obj.token (st : State) (name : Nat → Nat) (o : Obj) : String :=
  let tr := if isTracked st o then "T" else "U"
  match o.kind with
  | .pub .screen => s!"{name o.id}/{o.owner}/p/screen/s/{tr}"
  | .pub .video => s!"{name o.id}/{o.owner}/p/video/{o.media.token}/{tr}"
  | .sub p t => s!"{name o.id}/{o.owner}/s/{t.name}/{p}/{tr}"

def stateOutput (st : State) (name : Nat → Nat) : String :=
  let opn := sortById (st.objs.filter (·.isOpen))
  let body := if opn.isEmpty then "-" else " ".intercalate (opn.map (Obj.token st name))
  let n := (st.objs.filter (isTracked st)).length
  s!"{body} ; n={n}"

end SigModel.Mcu
