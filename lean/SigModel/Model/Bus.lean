/-
Small-step model of the event bus: C20.

  /repo/async_events.go          (listener sets, iteration over a snapshot with the mutex released
                                  around every callback)
  /repo/async_events_nats.go     (`asyncEventsNats`: Register*/Unregister*/Publish*, one receiver
                                  goroutine `asyncSubscriberNats.run` per subject)
  /repo/natsclient_loopback.go   (`LoopbackNatsClient`: global FIFO `incoming`, one dispatcher goroutine)

Atomic actions = the critical sections of the Go code (which mutex is held is noted at every action).
Any interleaving of the actions is an execution (`Reach`).  Messages are identified by their index in the
publication log; listeners, subjects and subscriptions are natural numbers.

Ghost components (not in the code, used by the theorems and by the recorded history): `clk`, the times in
`log`, `regs`, `unregs`, `recvs`, and `born`, `closedAt`, `stale`, `dropped`.
-/
import SigModel.Generated.Bus

namespace SigModel.Bus
open SigModel.Generated.Bus

/-! ### facts the model is defined over -/

/-- Locking skeleton (see `tools/extract/bus.go`) of an iteration over a snapshot of the listener set:
lock, copy the map, unlock, then per listener: lock, "still registered?", unlock, callback. -/
def snapshotProgram : String := "LMR(A)UI(LCU?(c)K)"

/-- All four subscriber kinds iterate over a snapshot. -/
def snapshotIteration : Bool :=
  iterProgramBackendRoom == snapshotProgram && iterProgramRoom == snapshotProgram &&
  iterProgramUser == snapshotProgram && iterProgramSession == snapshotProgram

/-- `Unregister*Listener` deletes the map entry and closes the subscriber exactly when `removeListener`
reports that no listener remains. -/
def closeOnLast : Bool :=
  unregisterClosesLastBackendRoom && unregisterClosesLastRoom && unregisterClosesLastUser &&
  unregisterClosesLastSession && removeReportsRemainingBackendRoom && removeReportsRemainingRoom &&
  removeReportsRemainingUser && removeReportsRemainingSession

/-- A subscriber made for a subject only starts processing after the closed subscriber of the same subject
has finished: `run` waits for `previous`, the deferred function of `run` closes `done`, `closeSubscriber`
remembers `done` under the key, and `Register*Listener` hands it to the new subscriber. -/
def waitsForPrevious : Bool :=
  runWaitsForPrevious && runSignalsDone && closeRemembersSubscriber &&
  registerAtomicBackendRoom && registerAtomicRoom && registerAtomicUser && registerAtomicSession

/-! ### state -/

/-- One `async*SubscriberNats` (subscription + receiver goroutine + listener set). -/
structure Sub where
  subj : Nat
  /-- `receiver` channel (capacity `chanCap`), oldest first -/
  chan : List Nat := []
  /-- message the goroutine is processing -/
  cur : Option Nat := none
  /-- the snapshot of the listener set has been taken for `cur` -/
  snapped : Bool := false
  /-- listeners of the snapshot not yet looked at -/
  tovisit : List Nat := []
  /-- listener found registered under the mutex; its callback has not been entered yet -/
  pending : Option Nat := none
  /-- `s.listeners` -/
  listeners : List Nat := []
  /-- `closeChan` closed -/
  closed : Bool := false
  /-- goroutine running and subscription present in `LoopbackNatsClient.subscriptions` -/
  attached : Bool := true
  /-- ghost: `disp` when the subscription was made / when it was closed -/
  born : Nat := 0
  closedAt : Nat := 0
  deriving Repr

/-- ghost record of a Register/Unregister call (time of its critical section) -/
structure CallEv where
  l : Nat
  s : Nat
  t : Nat
  deriving DecidableEq, Repr

/-- ghost record of a publication: subject and time; the index is the position in `log` -/
structure PubEv where
  s : Nat
  t : Nat
  deriving DecidableEq, Repr

/-- a callback: listener, message index, time, and (ghost) the subscription it came through -/
structure RecvEv where
  l : Nat
  i : Nat
  t : Nat
  k : Nat
  deriving DecidableEq, Repr

structure State where
  clk : Nat := 0
  /-- publication log; `incoming` of the loopback client is the index range `[disp, log.length)` -/
  log : List PubEv := []
  disp : Nat := 0
  /-- channels of the dispatcher's snapshot that still have to be served with message `disp - 1` -/
  sending : List Nat := []
  nsubs : Nat := 0
  sub : Nat → Sub := fun _ => { subj := 0 }
  /-- `asyncEventsNats.*Subscriptions`: subject ↦ subscriber -/
  active : Nat → Option Nat := fun _ => none
  regs : List CallEv := []
  unregs : List CallEv := []
  recvs : List RecvEv := []
  /-- ghost: a message was dropped at a full channel ("Slow consumer") -/
  dropped : Bool := false
  /-- ghost: number of callbacks entered for a listener that had been removed in the meantime -/
  stale : Nat := 0

def State.init : State := {}

def State.upd (st : State) (k : Nat) (f : Sub → Sub) : State :=
  { st with sub := fun k' => if k' = k then f (st.sub k') else st.sub k' }

/-- subject of publication `i` -/
def State.subjOf (st : State) (i : Nat) : Option Nat := (st.log[i]?).map (·.s)

/-! ### actions -/

inductive Act where
  /-- `Publish*Message` → `LoopbackNatsClient.Publish` (c.mu): append to `incoming` -/
  | publish (s : Nat)
  /-- dispatcher (c.mu): pop the front of `incoming`, copy the channels subscribed to its subject -/
  | dispatch
  /-- dispatcher (no lock): non-blocking send to the next channel of the copy -/
  | send
  /-- receiver goroutine `k`: `msg := <-s.receiver` (after `<-s.previous`: the earlier subscribers of the
  subject have finished) -/
  | take (k : Nat)
  /-- receiver goroutine `k` (s.mu): copy the listener set -/
  | snap (k : Nat)
  /-- receiver goroutine `k` (s.mu): next listener `l` of the copy — is it still registered? -/
  | pick (k l : Nat)
  /-- receiver goroutine `k` (no lock): the callback of the pending listener is entered -/
  | call (k : Nat)
  /-- receiver goroutine `k`: iteration finished, back to `select` -/
  | finish (k : Nat)
  /-- receiver goroutine `k`: `<-s.closeChan`, deferred `Unsubscribe` (c.mu) and `close(s.done)` -/
  | exit (k : Nat)
  /-- `Register*Listener` (e.mu held for the whole call; s.mu, c.mu inside) -/
  | register (l s : Nat)
  /-- `Unregister*Listener` (e.mu held for the whole call) -/
  | unregister (l s : Nat)
  deriving DecidableEq, Repr

def publish (st : State) (s : Nat) : State :=
  { st with log := st.log ++ [{ s := s, t := st.clk }], clk := st.clk + 1 }

def dispatch (st : State) : Option State :=
  if st.sending = [] then
    match st.log[st.disp]? with
    | some p =>
      some { st with
        disp := st.disp + 1
        sending := (List.range st.nsubs).filter fun k => (st.sub k).attached && (st.sub k).subj == p.s }
    | none => none
  else none

def send (st : State) : Option State :=
  match st.sending with
  | [] => none
  | k :: rest =>
    if (st.sub k).chan.length < chanCap then
      some (({ st with sending := rest } : State).upd k fun b => { b with chan := b.chan ++ [st.disp - 1] })
    else if sendNonBlocking then
      some { st with sending := rest, dropped := true }
    else none   -- a blocking send would stall the dispatcher here

/-- every earlier subscriber of the subject of `k` has left `run` -/
def earlierDone (st : State) (k : Nat) : Bool :=
  (List.range k).all fun k' => (st.sub k').subj != (st.sub k).subj || !(st.sub k').attached

def take (st : State) (k : Nat) : Option State :=
  let b := st.sub k
  if k < st.nsubs ∧ b.attached = true ∧ b.cur = none ∧ (waitsForPrevious = false ∨ earlierDone st k = true) then
    match b.chan with
    | i :: rest => some (st.upd k fun b => { b with chan := rest, cur := some i, snapped := false, tovisit := [], pending := none })
    | [] => none
  else none

def snap (st : State) (k : Nat) : Option State :=
  let b := st.sub k
  if k < st.nsubs ∧ b.cur.isSome = true ∧ b.snapped = false then
    some (st.upd k fun b => { b with snapped := true, tovisit := b.listeners })
  else none

def pick (st : State) (k l : Nat) : Option State :=
  let b := st.sub k
  if k < st.nsubs ∧ b.snapped = true ∧ b.pending = none ∧ l ∈ b.tovisit then
    some (st.upd k fun b =>
      { b with tovisit := b.tovisit.erase l, pending := if l ∈ b.listeners then some l else none })
  else none

def call (st : State) (k : Nat) : Option State :=
  let b := st.sub k
  if k < st.nsubs then
    match b.pending, b.cur with
    | some l, some i =>
      some (({ st with
        recvs := st.recvs ++ [{ l := l, i := i, t := st.clk, k := k }]
        clk := st.clk + 1
        stale := if l ∈ b.listeners then st.stale else st.stale + 1 } : State).upd k fun b => { b with pending := none })
    | _, _ => none
  else none

def finish (st : State) (k : Nat) : Option State :=
  let b := st.sub k
  if k < st.nsubs ∧ b.cur.isSome = true ∧ b.snapped = true ∧ b.tovisit = [] ∧ b.pending = none then
    some (st.upd k fun b => { b with cur := none, snapped := false })
  else none

def exit (st : State) (k : Nat) : Option State :=
  let b := st.sub k
  if k < st.nsubs ∧ b.attached = true ∧ b.closed = true ∧ b.cur = none then
    some (st.upd k fun b => { b with attached := false })
  else none

def register (st : State) (l s : Nat) : State :=
  let st1 : State :=
    match st.active s with
    | some k =>
      st.upd k fun b =>
        if l ∈ b.listeners then b
        else { b with
          listeners := b.listeners ++ [l]
          -- iteration over the live map (code before the repair): a new entry may be produced
          tovisit := if !snapshotIteration && b.snapped && !(l ∈ b.tovisit) then b.tovisit ++ [l] else b.tovisit }
    | none =>
      let k := st.nsubs
      { st with
        nsubs := k + 1
        sub := fun k' => if k' = k then { subj := s, listeners := [l], born := st.disp } else st.sub k'
        active := fun s' => if s' = s then some k else st.active s' }
  { st1 with regs := st1.regs ++ [{ l := l, s := s, t := st1.clk }], clk := st1.clk + 1 }

def unregister (st : State) (l s : Nat) : State :=
  let st1 : State :=
    match st.active s with
    | none => st
    | some k =>
      let ls := (st.sub k).listeners.erase l
      if ls = [] ∧ closeOnLast = true then
        { (st.upd k fun b => { b with listeners := ls, closed := true, closedAt := st.disp }) with
          active := fun s' => if s' = s then none else st.active s' }
      else
        st.upd k fun b =>
          { b with
            listeners := ls
            tovisit := if snapshotIteration then b.tovisit else b.tovisit.erase l }
  { st1 with unregs := st1.unregs ++ [{ l := l, s := s, t := st1.clk }], clk := st1.clk + 1 }

def step (st : State) : Act → Option State
  | .publish s => some (publish st s)
  | .dispatch => dispatch st
  | .send => send st
  | .take k => take st k
  | .snap k => snap st k
  | .pick k l => pick st k l
  | .call k => call st k
  | .finish k => finish st k
  | .exit k => exit st k
  | .register l s => some (register st l s)
  | .unregister l s => some (unregister st l s)

/-- States reachable by any interleaving of the actions. -/
inductive Reach : State → Prop where
  | init : Reach State.init
  | next {st st' : State} (a : Act) : Reach st → step st a = some st' → Reach st'

/-- Run a list of actions (used by examples and the driver); `none` if one is not enabled. -/
def runActs (st : State) : List Act → Option State
  | [] => some st
  | a :: as => match step st a with
    | some st' => runActs st' as
    | none => none

theorem Reach.runActs {st st' : State} (h : Reach st) : ∀ {as : List Act}, runActs st as = some st' → Reach st' := by
  intro as
  induction as generalizing st with
  | nil => intro e; simp [Bus.runActs] at e; exact e ▸ h
  | cons a as ih =>
    intro e
    simp only [Bus.runActs] at e
    cases hs : Bus.step st a with
    | none => simp [hs] at e
    | some s1 => rw [hs] at e; exact ih (Reach.next a h hs) e

/-! ### what a listener has received -/

def State.received (st : State) (l : Nat) : List Nat :=
  (st.recvs.filter (·.l = l)).map (·.i)

/-- received by `l`, restricted to messages of subject `s` -/
def State.receivedOn (st : State) (l s : Nat) : List Nat :=
  (st.received l).filter fun i => st.subjOf i = some s

/-- No internal action is enabled: nothing queued anywhere, every goroutine idle. -/
def Quiescent (st : State) : Prop :=
  st.disp = st.log.length ∧ st.sending = [] ∧
  ∀ k, k < st.nsubs → (st.sub k).attached = true → (st.sub k).chan = [] ∧ (st.sub k).cur = none

end SigModel.Bus
