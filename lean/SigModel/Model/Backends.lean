/-
Model of /repo/backend_configuration.go, backend_storage_static.go,
backend_storage_etcd.go (C13): the backend table, how it is built at start,
how a reload / an etcd event rewrites it, and how a URL is looked up.

The table `backendStorageCommon.backends : map[string][]*Backend` becomes an
association list `host ↦ entries` read with `tget` (Go maps have no order; every
theorem is stated pointwise in the host).  URL parsing (`net/url`) is not
modelled: the harness hands over, for every configured url, what the standard
library makes of it (`parseOk`, normalised text, host, scheme).

Two algorithms are kept for `UpsertHost`:
  * `mergeHost` — the code as it is now (entries rebuilt in configuration order);
  * `Legacy.upsertHost` — the in-place version of the pinned tree on Go's slice
    semantics (shared backing array, explicit bounds), kept as the proved witness
    of why it was replaced.
-/
import SigModel.Basic.Proto
import SigModel.Generated.Backends

namespace SigModel.Backends
open SigModel.Proto

structure Backend where
  id : String
  url : String          -- as stored: normalised; static entries end in "/", etcd entries are kept as given
  host : String         -- key of the table this entry is filed under
  allowHttp : Bool
  secret : String
  limit : Nat
  stream : Int
  screen : Int
  deriving DecidableEq, Repr, Inhabited

/-! ### the table -/

abbrev Table := List (String × List Backend)

def tget : Table → String → Option (List Backend)
  | [], _ => none
  | (k, v) :: t, h => if k = h then some v else tget t h

def tset : Table → String → List Backend → Table
  | [], h, v => [(h, v)]
  | (k, w) :: t, h, v => if k = h then (k, v) :: t else (k, w) :: tset t h v

def tdel : Table → String → Table
  | [], _ => []
  | (k, w) :: t, h => if k = h then tdel t h else (k, w) :: tdel t h

def allBackends (t : Table) : List Backend := t.flatMap (·.2)

/-! ### lookup: `BackendConfiguration.GetBackend` → `getBackendLocked` -/

/-- Right-hand side of a `case` of `Backend.IsUrlAllowed`, as extracted. -/
def ruleVal (rule : String) (b : Backend) : Bool :=
  if rule = "true" then true else if rule = "allowHttp" then b.allowHttp else false

def urlAllowed (b : Backend) (scheme : String) : Bool :=
  if scheme = "https" then ruleVal Generated.Backends.schemeHttps b
  else if scheme = "http" then ruleVal Generated.Backends.schemeHttp b
  else ruleVal Generated.Backends.schemeOther b

/-- `if x[len(x)-1] != '/' { x += "/" }` (for a non-empty `x`). -/
def withSlash (s : String) : String := if s.toList.getLast? = some '/' then s else s ++ "/"

/-- The url of an entry as the loop of `getBackendLocked` compares it: with a "/" appended when it is
stored without one (entries of the etcd storage keep the url as given) — if the source does so. -/
def entryUrl (e : Backend) : String :=
  if Generated.Backends.lookupEntrySlashTerminated then withSlash e.url else e.url

/-- One iteration of the loop of `getBackendLocked`. -/
def entryMatches (scheme url : String) (e : Backend) : Bool :=
  urlAllowed e scheme && (e.url == "" || hasPrefix (entryUrl e) url)

/-- `scheme`, `host`: of the looked-up URL after the default port was dropped;
`url`: its text with a trailing slash.  First matching entry of the host wins. -/
def getBackend (t : Table) (scheme host url : String) : Option Backend :=
  match tget t host with
  | none => none
  | some es => es.find? (entryMatches scheme url)

/-- A lookup as tokenised by the harness with net/url only: scheme and host after the default
port was dropped, the url text with a trailing slash, and whether the decoded path has a "." or
".." segment. -/
structure Probe where
  scheme : String
  host : String
  url : String
  dots : Bool := false
  deriving DecidableEq, Repr

/-- `BackendConfiguration.GetBackend`: urls with dot segments are refused before the storage is asked. -/
def lookup (t : Table) (p : Probe) : Option Backend :=
  if Generated.Backends.lookupRefusesDotSegments && p.dots then none
  else getBackend t p.scheme p.host p.url

/-! ### reading a static configuration: `getConfiguredBackendIDs`, `getConfiguredHosts` -/

structure Sec where
  id : String
  url : String            -- raw option value, "" when absent
  parseOk : Bool          -- url.Parse succeeded (on the value with "/" appended)
  norm : String           -- the text stored: "/" appended, default port dropped
  host : String
  scheme : String
  secret : String         -- "" when absent
  limit : Option Int      -- none: absent or not an integer
  stream : Option Int
  screen : Option Int
  deriving DecidableEq, Repr

structure RawCfg where
  common : String         -- [backend] secret
  ids : String            -- [backend] backends
  secs : List Sec
  deriving DecidableEq, Repr

def isSpace (c : Char) : Bool := c == ' ' || c == '\t' || c == '\n' || c == '\r'

def trimChars (cs : List Char) : List Char :=
  ((cs.dropWhile isSpace).reverse.dropWhile isSpace).reverse

def trimSp (s : String) : String := String.ofList (trimChars s.toList)

def dedupe : List String → List String
  | [] => []
  | x :: xs => x :: (dedupe xs).filter (· ≠ x)

/-- `strings.Split(s, ",")` on the characters (`acc`: the current item, reversed). -/
def splitComma : List Char → List Char → List (List Char)
  | acc, [] => [acc.reverse]
  | acc, c :: cs => if c = ',' then acc.reverse :: splitComma [] cs else splitComma (c :: acc) cs

def splitIds (ids : String) : List String :=
  dedupe (((splitComma [] ids.toList).map (fun cs => String.ofList (trimChars cs))).filter (· ≠ ""))

def clampNat : Option Int → Nat
  | some n => n.toNat
  | none => 0

def clampInt : Option Int → Int
  | some n => if n < 0 then 0 else n
  | none => 0

def entryOf (c : RawCfg) (id : String) : Option Backend :=
  match c.secs.find? (·.id = id) with
  | none => none
  | some s =>
    if s.url = "" then none
    else if !s.parseOk then none
    else
      let secret := if s.secret = "" ∧ c.common ≠ "" then c.common else s.secret
      if secret = "" then none
      else some { id := id, url := s.norm, host := s.host, allowHttp := s.scheme = "http", secret := secret,
                  limit := clampNat s.limit, stream := clampInt s.stream, screen := clampInt s.screen }

/-- The configured backends in configuration order (ids de-duplicated, incomplete entries skipped). -/
def normalise (c : RawCfg) : List Backend := (splitIds c.ids).filterMap (entryOf c)

/-! ### fresh start and reload (static storage) -/

def hostsOf (bs : List Backend) : List String := dedupe (bs.map (·.host))

def forHost (bs : List Backend) (h : String) : List Backend := bs.filter (·.host = h)

/-- `NewBackendStorageStatic` in "backends" mode. -/
def fresh (bs : List Backend) : Table := (hostsOf bs).map (fun h => (h, forHost bs h))

/-- `UpsertHost`: the new list in configuration order; an entry that did not
change keeps the existing object. -/
def mergeHost (existing new : List Backend) : List Backend :=
  new.map (fun nb =>
    match existing.find? (·.id = nb.id) with
    | some old => if old = nb then old else nb
    | none => nb)

/-- The loop `for hostname := range s.backends { if !configured { RemoveBackendsForHost } }`. -/
def removeUnconfigured (t : Table) (hosts : List String) : Table :=
  t.filter (fun e => hosts.contains e.1)

/-- `Reload` with a pluggable `UpsertHost` (`none` = the Go code panicked). -/
def reloadWith (upsert : List Backend → List Backend → Option (List Backend))
    (t : Table) (bs : List Backend) : Option Table :=
  (hostsOf bs).foldl (fun acc h =>
      match acc with
      | none => none
      | some t =>
        match upsert ((tget t h).getD []) (forHost bs h) with
        | none => none
        | some es => some (tset t h es))
    (some (removeUnconfigured t (hostsOf bs)))

def upsertNow (existing new : List Backend) : Option (List Backend) := some (mergeHost existing new)

/-- `backendStorageStatic.Reload` of the current tree (hosts visited in first-appearance order; the
result does not depend on the order, see `Lemmas`). -/
def reload? (t : Table) (bs : List Backend) : Option Table := reloadWith upsertNow t bs

def reload (t : Table) (bs : List Backend) : Table :=
  (hostsOf bs).foldl (fun t h => tset t h (mergeHost ((tget t h).getD []) (forHost bs h)))
    (removeUnconfigured t (hostsOf bs))

/-- `Reload` on a configuration file in "backends" mode (no `allowall` / `allowed` option, which the
code refuses to switch to).  `reloadIgnoresEmptyIds` is read from the source: the pinned tree skipped
a file whose `backends` value is empty. -/
def reloadRaw? (t : Table) (c : RawCfg) : Option Table :=
  if Generated.Backends.reloadIgnoresEmptyIds && c.ids = "" then some t else reload? t (normalise c)

def reloadRaw (t : Table) (c : RawCfg) : Table :=
  if Generated.Backends.reloadIgnoresEmptyIds && c.ids = "" then t else reload t (normalise c)

/-! ### which configuration the table is computed from

`getConfiguredHosts(backendIds, config, commonSecret)` (= `normalise`) is called at startup and by `Reload`; where
its three arguments come from in each caller is read from the source (`startHostsArgs`, `reloadHostsArgs`).  The
storage also keeps the common secret it saw when it was started (`s.commonSecret`): a caller that does not take the
common secret from the file it is loading is modelled as using that older value (startup: as having none). -/

def hostsArgsFromLoadedFile : List String :=
  ["backendIds, _ := config.GetString(\"backend\", \"backends\")", "param:config *goconf.ConfigFile",
   "commonSecret, _ := GetStringOptionWithEnv(config, \"backend\", \"secret\")"]
def hostsCallFromLoadedFile : String := "getConfiguredHosts(backendIds, config, commonSecret)"

def startFromLoadedFile : Bool :=
  Generated.Backends.startHostsCall == hostsCallFromLoadedFile && Generated.Backends.startHostsArgs == hostsArgsFromLoadedFile
def reloadFromLoadedFile : Bool :=
  Generated.Backends.reloadHostsCall == hostsCallFromLoadedFile && Generated.Backends.reloadHostsArgs == hostsArgsFromLoadedFile

/-- The static storage: the table, and the common secret of the configuration the server was started with. -/
structure StaticSt where
  table : Table := []
  cachedCommon : String := ""
  deriving Repr, DecidableEq

/-- The file as `getConfiguredHosts` reads it when its caller hands it `common` as the common secret. -/
def withCommon (c : RawCfg) (common : String) : RawCfg := { c with common := common }

/-- `NewBackendStorageStatic` in "backends" mode (`fromLoaded`: the common secret handed to `getConfiguredHosts`
is the one of `c`). -/
def startStaticWith (fromLoaded : Bool) (c : RawCfg) : StaticSt :=
  { table := fresh (normalise (if fromLoaded then c else withCommon c "")), cachedCommon := c.common }

/-- `backendStorageStatic.Reload` on a file, `none` = panicked. -/
def reloadStaticWith? (fromLoaded : Bool) (s : StaticSt) (c : RawCfg) : Option StaticSt :=
  (reloadRaw? s.table (if fromLoaded then c else withCommon c s.cachedCommon)).map (fun t => { s with table := t })

def reloadStaticWith (fromLoaded : Bool) (s : StaticSt) (c : RawCfg) : StaticSt :=
  { s with table := reloadRaw s.table (if fromLoaded then c else withCommon c s.cachedCommon) }

/-- The code as it is: the sources as extracted. -/
def startStatic (c : RawCfg) : StaticSt := startStaticWith startFromLoadedFile c
def reloadStatic? (s : StaticSt) (c : RawCfg) : Option StaticSt := reloadStaticWith? reloadFromLoadedFile s c
def reloadStatic (s : StaticSt) (c : RawCfg) : StaticSt := reloadStaticWith reloadFromLoadedFile s c

/-! ### the pinned tree's `UpsertHost` on Go slices (witness only) -/

namespace Legacy

/-- `s.backends[host]` during the loop: the shared backing array and the current length. -/
structure Slice where
  arr : List Backend
  len : Nat
  deriving Repr, DecidableEq

/-- `append(s[:i], s[i+1:]...)` on the shared array: shift left, the last cell keeps its old value. -/
def removeAt (s : Slice) (i : Nat) : Option Slice :=
  if i < s.len then
    some { arr := (s.arr.take i) ++ ((s.arr.drop (i + 1)).take (s.len - i - 1)) ++ (s.arr.drop (s.len - 1)),
           len := s.len - 1 }
  else none    -- `s.backends[host][existingIndex]`: index out of range

def setAt (s : Slice) (i : Nat) (b : Backend) : Option Slice :=
  if i < s.len then some { s with arr := s.arr.set i b } else none

/-- First new backend that is deep-equal to, or has the id of, the existing one. -/
def findNew (e : Backend) : List Backend → Option (Nat × Backend × Bool)
  | [] => none
  | n :: ns =>
    if n = e then some (0, n, true)
    else if n.id = e.id then some (0, n, false)
    else (findNew e ns).map (fun (i, b, eq) => (i + 1, b, eq))

/-- The outer loop: `for existingIndex, existingBackend := range s.backends[host]` ranges over the
*original* slice header (`n` iterations, reading cells of the shared array). -/
def loop : Nat → Nat → Slice → List Backend → Option (Slice × List Backend)
  | 0, _, s, new => some (s, new)
  | k + 1, i, s, new =>
    match s.arr[i]? with
    | none => none
    | some e =>
      match findNew e new with
      | some (j, _, true) => loop k (i + 1) s (new.eraseIdx j)
      | some (j, nb, false) =>
        match setAt s i nb with
        | none => none
        | some s' => loop k (i + 1) s' (new.eraseIdx j)
      | none =>
        match removeAt s i with
        | none => none
        | some s' => loop k (i + 1) s' new

def upsertHost (existing new : List Backend) : Option (List Backend) :=
  match loop existing.length 0 { arr := existing, len := existing.length } new with
  | none => none
  | some (s, rest) => some (s.arr.take s.len ++ rest)

end Legacy

/-! ### etcd storage -/

structure Info where
  url : String
  host : String
  scheme : String
  secret : String
  limit : Nat
  stream : Int
  screen : Int
  deriving DecidableEq, Repr

abbrev Infos := List (String × Info)

def iget : Infos → String → Option Info
  | [], _ => none
  | (k, v) :: t, key => if k = key then some v else iget t key

def iset : Infos → String → Info → Infos
  | [], key, v => [(key, v)]
  | (k, w) :: t, key, v => if k = key then (k, v) :: t else (k, w) :: iset t key v

def idel : Infos → String → Infos
  | [], _ => []
  | (k, w) :: t, key => if k = key then idel t key else (k, w) :: idel t key

structure EtcdSt where
  table : Table := []
  infos : Infos := []
  deriving Repr, DecidableEq

def backendOf (key : String) (i : Info) : Backend :=
  { id := key, url := i.url, host := i.host, allowHttp := i.scheme = "http", secret := i.secret,
    limit := i.limit, stream := i.stream, screen := i.screen }

def dropKey (key : String) (es : List Backend) : List Backend := es.filter (fun e => e.id ≠ key)

/-- Drop the entry of `key` from the list of `host`; an emptied host is deleted. -/
def removeKey (t : Table) (key host : String) : Table :=
  match tget t host with
  | none => t
  | some es => if dropKey key es = [] then tdel t host else tset t host (dropKey key es)

/-- New entries are filed in key order (the order in which a starting server receives them). -/
def insertSorted (b : Backend) : List Backend → List Backend
  | [] => [b]
  | e :: es => if b.id < e.id then b :: e :: es else e :: insertSorted b es

def replaceFirst (b : Backend) : List Backend → List Backend
  | [] => []
  | e :: es => if e.id = b.id then b :: es else e :: replaceFirst b es

def replaceOrInsert (b : Backend) (es : List Backend) : List Backend :=
  if es.any (·.id = b.id) then replaceFirst b es else insertSorted b es

def etcdDelete (s : EtcdSt) (key : String) : EtcdSt :=
  match iget s.infos key with
  | none => s
  | some old => { table := removeKey s.table key old.host, infos := idel s.infos key }

/-- `EtcdKeyUpdated`; `none` = the value does not decode or fails `CheckValid`. -/
def etcdPut (s : EtcdSt) (key : String) (v : Option Info) : EtcdSt :=
  match v with
  | none => etcdDelete s key
  | some i =>
    let t1 := match iget s.infos key with
      | some old => if old.host ≠ i.host then removeKey s.table key old.host else s.table
      | none => s.table
    let b := backendOf key i
    match tget t1 i.host with
    | none => { table := tset t1 i.host [b], infos := iset s.infos key i }
    | some es => { table := tset t1 i.host (replaceOrInsert b es), infos := iset s.infos key i }

inductive EtcdOp where
  | put (key : String) (v : Option Info)
  | del (key : String)
  deriving Repr, DecidableEq

def etcdStep (s : EtcdSt) : EtcdOp → EtcdSt
  | .put k v => etcdPut s k v
  | .del k => etcdDelete s k

/-- What a starting server does with the key/value pairs it is handed. -/
def etcdFresh (kvs : Infos) : EtcdSt := kvs.foldl (fun s kv => etcdPut s kv.1 (some kv.2)) {}

def insertKV (kv : String × Info) : Infos → Infos
  | [] => [kv]
  | e :: es => if kv.1 < e.1 then kv :: e :: es else e :: insertKV kv es

/-- Keys in ascending order (etcd range query). -/
def sortKV (kvs : Infos) : Infos := kvs.foldr insertKV []

end SigModel.Backends
