/-
Model of the client-input path of the hub (C10): /repo/client.go `ReadPump`
(size limit, frame type), /repo/hub.go `processMessage` and everything it
dispatches to, the `CheckValid` methods of /repo/api_signaling.go, the pending
dialout response handler of /repo/backend_server.go and the forwarding of client
messages of /repo/federation.go.

A client message is the structure the decoder produces: sub-objects are
`Option`s, leaves are strings / numbers / classes of strings the dispatch
compares them with ("is this the public id of another session of the room?").
"Every byte string" is reduced to "a decode error or a value of this structure";
the decoders (easyjson, encoding/json, url.Parse, the SDP parser) are trusted and
only exercised by the correspondence run.

`checkValid` is *defined over* `Generated.ShapesClient.validation`, the table the
extractor reads from every `CheckValid` method (which fields are compared with
nil under an error return, which sub-objects are validated).  Every place where
the Go code dereferences a sub-object has an explicit `crash` outcome here; the
list of those places (`sites`) has to cover `Generated.ShapesClient.derefs`.
-/
import SigModel.Generated.ShapesClient
import SigModel.Model.ShapesMedia
import SigModel.Model.ShapesDeferred

namespace SigModel.ShapesClient

/-! ## The decoded message -/

inductive UrlClass where
  | empty | bad | known | unknown      -- "", unparsable, the configured backend, another host
  deriving DecidableEq, Repr

inductive UserClass where
  | anon | restricted | named          -- what the (fake) Nextcloud backend answers for the credentials
  deriving DecidableEq, Repr

inductive RoomClass where
  | empty | by | deny | other (name : String)   -- "", the bystander's room, a room the backend refuses, another room
  deriving DecidableEq, Repr

inductive SidClass where
  | empty | self | by | virt | other   -- public session id: "", sender, bystander, a virtual session of the sender, anything else
  deriving DecidableEq, Repr

inductive UidClass where
  | empty | self | by | other
  deriving DecidableEq, Repr

inductive IdClass where
  | empty | pending | other            -- request id: "", the id of the pending dialout request, anything else
  deriving DecidableEq, Repr

inductive RtClass where
  | empty | valid | invalid            -- roomType of a message payload
  deriving DecidableEq, Repr

inductive SdpClass where
  | none | nostr | bad | ok            -- payload.sdp: absent, not a string, refused by the SDP parser, parsed
  deriving DecidableEq, Repr

inductive Url3 where
  | empty | bad | ok
  deriving DecidableEq, Repr

inductive Resume where
  | empty | other                      -- resume id: "" or something that is not the private id of a live session
  deriving DecidableEq, Repr

structure Auth where
  atype : String
  paramsNonEmpty : Bool
  url : UrlClass
  v2TokenOk : Bool                     -- params decode to an object with a non-empty string `token`
  v1Accept : Bool                      -- external party: the backend accepts the params of a v1 hello
  v1User : UserClass
  ipOk : Bool                          -- params decode as internal auth params
  iBackend : UrlClass
  iRandLen : Nat
  iTokenOk : Bool                      -- token = HMAC(secret, random)
  deriving DecidableEq, Repr

structure Hello where
  version : String
  resume : Resume
  featDialout : Bool
  featInCall : Bool
  auth : Option Auth
  deriving DecidableEq, Repr

structure Federation where
  sig : Url3
  url : Url3
  tokenNonEmpty : Bool
  deriving DecidableEq, Repr

structure RoomMsg where
  roomId : RoomClass
  sidEmpty : Bool
  federation : Option Federation
  deriving DecidableEq, Repr

structure Recipient where
  rtype : String
  sid : SidClass
  uid : UidClass
  deriving DecidableEq, Repr

/-- `msg.Data` as `MessageClientMessageData` (only looked at when a media server is configured). -/
structure DataShape where
  jsonOk : Bool
  dtype : String
  roomType : RtClass
  sdp : SdpClass
  deriving DecidableEq, Repr

/-- `msg.Data` as the *recipient's* side decodes it again (`MessageServerMessageData`: `type` and the
optional `chat` object with its `refresh` flag) - in `ClientSession.filterMessage` if the recipient has
the permission `hide-displaynames`, in `ServerMessage.IsChatRefresh` if the message has to be queued
because the recipient has no connection. -/
structure ServerData where
  jsonOk : Bool := false               -- the decode succeeds
  dtype : String := ""
  chat : Option Bool := none           -- `none`: member absent or null; `some r`: present, `refresh` = r
  deriving DecidableEq, Repr

structure MessageMsg where
  recipient : Recipient
  dataNonEmpty : Bool
  dataValid : Bool                     -- the raw `data` member is valid JSON (the decoder does not check)
  data : DataShape
  sdata : ServerData := {}
  deriving DecidableEq, Repr

structure Common where
  sid : String
  room : RoomClass
  deriving DecidableEq, Repr

structure AddSession where
  c : Common
  opts : Bool
  userValid : Bool                     -- the raw `user` member is absent or valid JSON
  deriving DecidableEq, Repr

structure UpdateSession where
  c : Common
  flags : Option Nat
  incall : Option Int
  deriving DecidableEq, Repr

structure Dialout where
  dtype : String
  room : RoomClass
  error : Option Unit
  status : Option String               -- status.status
  deriving DecidableEq, Repr

structure Internal where
  itype : String
  add : Option AddSession
  upd : Option UpdateSession
  rem : Option Common
  incall : Option Int
  dialout : Option Dialout
  deriving DecidableEq, Repr

structure Transient where
  ttype : String
  key : String
  value : Option String                -- raw JSON; `none` = member absent
  valueValid : Bool                    -- the raw `value` member is absent or valid JSON
  deriving DecidableEq, Repr

structure ClientMessage where
  id : IdClass
  mtype : String
  typeUtf8 : Bool                      -- the decoder does not check that strings are valid UTF-8
  hello : Option Hello
  bye : Option Unit
  room : Option RoomMsg
  message : Option MessageMsg
  control : Option MessageMsg
  internal : Option Internal
  transient : Option Transient
  deriving DecidableEq, Repr

inductive Decoded where
  | err
  | ok (m : ClientMessage)
  deriving DecidableEq, Repr

/-- One websocket frame as it reaches `ReadPump`. -/
structure Frame where
  size : Nat
  binary : Bool
  dec : Decoded
  deriving DecidableEq, Repr

/-! ## The regenerated facts the model is defined over -/

/-- Everything the model takes from the Go sources.  `Facts.current` is what the
extractor found in the working tree; the theorems of `Props/C10.lean` are about
`Facts.current`, the counter-examples there about variations of it. -/
structure Facts where
  validation : List (String × String × String × String)
  rawValidated : List (String × String)
  derefs : List (String × String × String)
  dispatchTable : List (String × String)
  localTypes : List String
  maxMessageSize : Nat
  readLimitIsMaxMessageSize : Bool
  binaryFrameAnsweredInvalidFormat : Bool
  validateBeforeDispatch : Bool
  preHelloOnlyHello : Bool
  messageCounterLabelFromFixedSet : Bool
  /-- The media code behind the handlers (Janus client, proxy MCU client, media proxy) contains no
  single-value type assertion, index expression, write to a possibly-nil map or unguarded dereference
  besides the reviewed ones (`Model/ShapesMedia.lean`). -/
  mediaTablesReviewed : Bool
  /-- (function, path below a payload decoded again on the recipient's side, conditions): dereferenced
  without a nil guard (`Generated.ShapesDeferred.payloadDerefs`). -/
  payloadDerefs : List (String × String × String)
  /-- (function, `x.<sel>`): uses of the nil result of a failed comma-ok type assertion. -/
  failedAssertionUses : List (String × String)
  /-- The tables of the code that handles a server message built from client data (delivery, filtering,
  queueing for a recipient without connection, flushing on resume) are the reviewed ones
  (`Model/ShapesDeferred.lean`). -/
  deferredTablesReviewed : Bool

def Facts.current : Facts :=
  { validation := Generated.ShapesClient.validation,
    rawValidated := Generated.ShapesClient.rawValidated,
    derefs := Generated.ShapesClient.derefs,
    dispatchTable := Generated.ShapesClient.dispatchTable,
    localTypes := Generated.ShapesClient.localTypes,
    maxMessageSize := Generated.ShapesClient.maxMessageSize,
    readLimitIsMaxMessageSize := Generated.ShapesClient.readLimitIsMaxMessageSize,
    binaryFrameAnsweredInvalidFormat := Generated.ShapesClient.binaryFrameAnsweredInvalidFormat,
    validateBeforeDispatch := Generated.ShapesClient.validateBeforeDispatch && Generated.ShapesClient.decodeBeforeUse,
    preHelloOnlyHello := Generated.ShapesClient.preHelloOnlyHello,
    messageCounterLabelFromFixedSet := Generated.ShapesClient.messageCounterLabelFromFixedSet,
    mediaTablesReviewed :=
      Generated.ShapesMedia.mediaTypeAssertions == ShapesMedia.reviewedTypeAssertions &&
      Generated.ShapesMedia.mediaIndexExprs == ShapesMedia.reviewedIndexExprs &&
      Generated.ShapesMedia.mediaMapWrites == ShapesMedia.reviewedMapWrites &&
      Generated.ShapesMedia.mediaDerefs == ShapesMedia.reviewedDerefs,
    payloadDerefs := Generated.ShapesDeferred.payloadDerefs,
    failedAssertionUses := Generated.ShapesClient.failedAssertionUses,
    deferredTablesReviewed := ShapesDeferred.tablesReviewed }

/-! ## Validation (`CheckValid`), defined over the regenerated table -/

section model
variable (F : Facts)

inductive V where
  | ok
  | err (code : String)
  | crash (site : String)
  deriving DecidableEq, Repr

def V.andThen : V → V → V
  | .ok, v => v
  | v, _ => v

def tbl (recv tag field kind : String) : Bool :=
  F.validation.contains (recv, tag, field, kind)

def invalid : V := .err "invalid_format"

/-- A pointer member of `recv` under `case tag`: compared with nil (error), validated, or left alone. -/
def checkField {α : Type} (recv tag field : String) (x : Option α) (sub : α → V) : V :=
  match x with
  | none =>
    if tbl F recv tag field "nil" then invalid
    else if tbl F recv tag field "sub" then .crash (recv ++ ".CheckValid: " ++ field ++ " is nil")
    else .ok
  | some a => if tbl F recv tag field "sub" then sub a else .ok

def effType (a : Auth) : String := if a.atype = "" then "client" else a.atype

def checkHello (h : Hello) : V :=
  if h.version ≠ "1.0" ∧ h.version ≠ "2.0" then .err "invalid_hello_version" else
  match h.resume with
  | .other => .ok
  | .empty =>
    match h.auth with
    | none =>
      if tbl F "HelloClientMessage" "ResumeId=" "Auth" "nil" then invalid
      else .crash "HelloClientMessage.CheckValid: Auth is nil"
    | some a =>
      if !a.paramsNonEmpty then invalid
      else if effType a = "client" ∨ effType a = "federation" then
        match a.url with
        | .empty => invalid
        | .bad => invalid
        | _ => if h.version = "2.0" ∧ !a.v2TokenOk then invalid else .ok
      else if effType a = "internal" then
        if !a.ipOk then invalid else
        match a.iBackend with
        | .empty => invalid
        | .bad => invalid
        | _ => .ok
      else invalid

def checkFederation (f : Federation) : V :=
  if f.sig ≠ .ok then invalid
  else if f.url ≠ .ok then invalid
  else if !f.tokenNonEmpty then invalid
  else .ok

def checkRoom (r : RoomMsg) : V :=
  match r.federation with
  | none => .ok
  | some f =>
    if tbl F "RoomClientMessage" "*" "Federation" "optsub" then checkFederation f else .ok

/-- Is the raw member `field` of `recv` passed to `json.Valid` by its `CheckValid`? -/
def rawChecked (recv field : String) : Bool := F.rawValidated.contains (recv, field)

def checkMessageMsg (m : MessageMsg) : V :=
  if !m.dataNonEmpty then invalid
  else if rawChecked F "MessageClientMessage" "Data" ∧ !m.dataValid then invalid
  else if m.recipient.rtype = "room" ∨ m.recipient.rtype = "call" then .ok
  else if m.recipient.rtype = "session" then (if m.recipient.sid = .empty then invalid else .ok)
  else if m.recipient.rtype = "user" then (if m.recipient.uid = .empty then invalid else .ok)
  else invalid

def checkControl (m : MessageMsg) : V :=
  if tbl F "ControlClientMessage" "*" "MessageClientMessage" "sub" then checkMessageMsg F m else .ok

def checkCommon (c : Common) : V :=
  if c.sid = "" then invalid else if c.room = .empty then invalid else .ok

def checkAdd (a : AddSession) : V :=
  if rawChecked F "AddSessionInternalClientMessage" "User" ∧ !a.userValid then invalid else
  if tbl F "AddSessionInternalClientMessage" "*" "CommonSessionInternalClientMessage" "sub" then checkCommon a.c else .ok

def checkUpd (a : UpdateSession) : V :=
  if tbl F "UpdateSessionInternalClientMessage" "*" "CommonSessionInternalClientMessage" "sub" then checkCommon a.c else .ok

def checkRem (c : Common) : V :=
  if tbl F "RemoveSessionInternalClientMessage" "*" "CommonSessionInternalClientMessage" "sub" then checkCommon c else .ok

def checkDialout (d : Dialout) : V :=
  if tbl F "DialoutInternalClientMessage" d.dtype "" "reject" then invalid else
  (checkField F "DialoutInternalClientMessage" d.dtype "Error" d.error (fun _ => .ok)).andThen
  (checkField F "DialoutInternalClientMessage" d.dtype "Status" d.status (fun _ => .ok))

def checkInternal (i : Internal) : V :=
  if tbl F "InternalClientMessage" i.itype "" "reject" then invalid else
  (checkField F "InternalClientMessage" i.itype "AddSession" i.add (checkAdd F)).andThen <|
  (checkField F "InternalClientMessage" i.itype "UpdateSession" i.upd (checkUpd F)).andThen <|
  (checkField F "InternalClientMessage" i.itype "RemoveSession" i.rem (checkRem F)).andThen <|
  (checkField F "InternalClientMessage" i.itype "InCall" i.incall (fun _ => .ok)).andThen <|
  (checkField F "InternalClientMessage" i.itype "Dialout" i.dialout (checkDialout F))

def checkTransient (t : Transient) : V :=
  if rawChecked F "TransientDataClientMessage" "Value" ∧ !t.valueValid then invalid else
  if (t.ttype = "set" ∨ t.ttype = "remove") ∧ t.key = "" then invalid else .ok

/-- `(*ClientMessage).CheckValid`. -/
def checkValid (m : ClientMessage) : V :=
  if tbl F "ClientMessage" m.mtype "" "reject" then invalid else
  (checkField F "ClientMessage" m.mtype "Hello" m.hello (checkHello F)).andThen <|
  (checkField F "ClientMessage" m.mtype "Room" m.room (checkRoom F)).andThen <|
  (checkField F "ClientMessage" m.mtype "Message" m.message (checkMessageMsg F)).andThen <|
  (checkField F "ClientMessage" m.mtype "Control" m.control (checkControl F)).andThen <|
  (checkField F "ClientMessage" m.mtype "Internal" m.internal (checkInternal F)).andThen <|
  (checkField F "ClientMessage" m.mtype "TransientData" m.transient (checkTransient F))

/-! ## State -/

inductive RoomRef where
  | none | by | other (name : String)
  deriving DecidableEq, Repr

def RoomClass.toRef : RoomClass → RoomRef
  | .by => .by
  | .other n => .other n
  | .deny => .other "deny"
  | .empty => .none

/-- What the model knows about the sender's session. -/
structure Sess where
  internal : Bool
  dialoutFeat : Bool      -- member of `Hub.dialoutSessions`
  restrictedUser : Bool   -- the backend answers room requests of this user with an (empty) permission list
  restricted : Bool       -- such an answer has been received: the session has no permissions
  anon : Bool
  room : RoomRef
  fed : Bool              -- a federation client is attached (messages are forwarded)
  deriving DecidableEq, Repr

inductive Conn where
  | dead | nosession | session (s : Sess)
  deriving DecidableEq, Repr

/-- The bystander as a *recipient*: what the server does with a message for it depends on this. -/
structure Rcpt where
  detached : Bool := false      -- its connection is gone, the session waits to be resumed: messages are queued
  pendingChat : Bool := false   -- a chat refresh is queued already (`hasPendingChat`)
  inCall : Bool := false        -- it is in the call of its room (`Room.IsSessionInCall`)
  hideNames : Bool := false     -- it has the permission `hide-displaynames` (`filterMessage` decodes payloads)
  deriving DecidableEq, Repr

structure World where
  mcu : Bool
  transient : List (String × String)          -- transient data of the bystander's room
  virt : List (String × RoomRef)              -- virtual sessions of the current sender: (client-chosen id, room)
  rcpt : Rcpt := {}
  deriving DecidableEq, Repr

structure St where
  world : World
  conn : Conn
  dialoutState : Bool     -- the harness arms a dialout request before every message if the sender is eligible
  /-- The sender's connection is not a websocket of this server (`*Client`) but one proxied from another
  node of the cluster (`remoteGrpcClient`): its frames have passed the other node's `ReadPump` and arrive
  through `Hub.processMessage` with another kind of `HandlerClient`. -/
  remote : Bool := false
  deriving DecidableEq, Repr

def St.init : St := { world := { mcu := false, transient := [], virt := [] }, conn := .nosession, dialoutState := false }

/-! ## Observations -/

inductive StPred where
  | same | chg | any
  deriving DecidableEq, Repr

/-- What a step makes observable: kinds of messages the sender / the bystander
must and may receive, whether the hub tables change, the HTTP status the
backend sees for a pending dialout request. -/
structure Obs where
  sMust : List String := []
  sMay : List String := []
  bMust : List String := []
  bMay : List String := []
  st : StPred := .same
  http : Option String := none
  deriving DecidableEq, Repr

inductive Outcome where
  | crash (site : String)
  | ok (obs : Obs) (next : St)
  deriving DecidableEq, Repr

def errObs (code : String) : Obs := { sMust := ["error:" ++ code] }

/-- Events a session in a room sees because of what happens in that room. -/
def ambient : List String :=
  ["event.room.join", "event.room.leave", "event.participants.update", "event.participants.flags",
   "transient.initial", "transient.set", "transient.remove"]

def mcuReplies : List String :=
  ["error:not_allowed", "error:client_not_found", "error:processing_failed", "message"]

def mcuTypes : List String :=
  ["requestoffer", "offer", "answer", "endOfCandidates", "selectStream", "candidate"]

def Sess.inBy (s : Sess) : Bool := s.room = .by

/-- The session takes part in a room (a local one, or a remote one through federation) and sees its events. -/
def Sess.seesRoom (s : Sess) : Bool := decide (s.room ≠ .none) || s.fed

def roomExists (s : Sess) : RoomClass → Bool
  | .by => true
  | .other n => s.room = .other n
  | .deny => s.room = .other "deny"
  | .empty => false

def lookupT (k : String) : List (String × String) → Option String
  | [] => none
  | (k', v) :: r => if k' = k then some v else lookupT k r

def eraseT (k : String) (l : List (String × String)) : List (String × String) :=
  l.filter (fun p => p.1 ≠ k)

/-! ## Handlers -/

section handlers
variable (st : St) (s : Sess)

def withSess (s' : Sess) : St := { st with conn := .session s' }

/-- `Hub.processHello` (connection without session) and what it calls. -/
def modelHello (m : ClientMessage) : Outcome :=
  match m.hello with
  | none => .crash "processHello: message.Hello"
  | some h =>
    match h.resume with
    | .other => .ok (errObs "no_such_session") st
    | .empty =>
      match h.auth with
      | none => .crash "processHello: message.Hello.Auth"
      | some a =>
        let t := if F.validateBeforeDispatch then effType a else a.atype
        let register (internal : Bool) (u : UserClass) : Outcome :=
          -- processRegister: `client, ok := c.(*Client)`; only a websocket of this server can register
          if st.remote then
            (if F.failedAssertionUses.any (fun d => d.1 = "Hub.processRegister") then
              .crash "processRegister: method call on the nil result of c.(*Client)"
             else .ok (errObs "internal_error") st)
          else
          let s' : Sess :=
            { internal := internal, dialoutFeat := internal && h.featDialout, restrictedUser := decide (u = .restricted), restricted := false,
              anon := !internal && decide (u = .anon), room := .none, fed := false }
          .ok { sMust := ["hello"], st := .chg } { st with conn := .session s' }
        if t = "client" ∨ t = "federation" then
          match a.url with
          | .empty => .crash "processHelloV1/V2: parsedUrl is nil"
          | .bad => .crash "processHelloV1/V2: parsedUrl is nil"
          | .unknown => .ok (errObs "invalid_backend") st
          | .known =>
            if h.version = "1.0" then
              (if a.v1Accept then register false a.v1User else .ok (errObs "auth_rejected") st)
            else if h.version = "2.0" then .ok (errObs "invalid_token") st
            else .ok (errObs "invalid_hello_version") st
        else if t = "internal" then
          if a.iRandLen < 32 ∨ !a.iTokenOk then .ok (errObs "invalid_token") st
          else match a.iBackend with
            | .known => register true .anon
            | _ => .ok (errObs "invalid_backend") st
        else .ok (errObs "invalid_client_type") st

/-- The session after `processJoinRoom`: in the room, no longer a dialout candidate,
permissions as sent by the backend. -/
def joined (s : Sess) (rid : RoomClass) : Sess :=
  let d := if s.internal then false else s.dialoutFeat
  let r := s.restricted || (!s.internal && s.restrictedUser)
  { s with room := rid.toRef, dialoutFeat := d, fed := false, restricted := r }

/-- `Hub.processRoom` / `processJoinRoom` / `ClientSession.LeaveRoomWithMessage`. -/
def modelRoom (m : ClientMessage) : Outcome :=
  match m.room with
  | none => .crash "processRoom: message.Room"
  | some r =>
    let leaveB : List String := if s.inBy then ["event.room.leave"] else []
    let leaveBMay : List String := if s.inBy then ["event.participants.update"] else []
    match r.roomId with
    | .empty =>
      if s.fed then
        -- forwarded to the federation target, which answers
        .ok { sMay := "room" :: "error:*" :: ambient, st := .any } (withSess st { s with fed := false, room := .none })
      else if s.room = .none then .ok {} st
      else .ok { sMust := ["room"], sMay := ambient, bMust := leaveB, bMay := leaveBMay, st := .chg }
              (withSess st { s with room := .none })
    | rid =>
      match r.federation with
      | some f =>
        if f.sig ≠ .ok then .crash "NewFederationClient: room.Federation.parsedSignalingUrl"
        else .ok { sMust := ["error:federation_error"], sMay := ambient } st   -- the harness only names an unreachable target
      | none =>
        -- a room session id sent along disconnects whoever else holds it (possibly a
        -- detached session that is still a member of the bystander's room)
        let kick : List String := if r.sidEmpty then [] else ["event.room.leave", "event.participants.update"]
        if s.room = rid.toRef then
          .ok { sMust := ["error:already_joined"], sMay := ambient, st := .any } st
        else if !s.internal ∧ rid = .deny then
          .ok { sMust := ["error:no_such_room"], sMay := ambient, bMay := kick, st := if r.sidEmpty then .same else .any } st
        else
          let joinB : List String := if rid = .by then ["event.room.join"] else []
          .ok { sMust := ["room"], sMay := ambient, bMust := leaveB ++ joinB,
                bMay := (if s.inBy ∨ rid = .by then ["event.participants.update"] else []) ++ (if s.internal then [] else kick), st := .chg }
            (withSess st (joined s rid))

/-- What is forwarded if the raw payload is not valid JSON: the frame is not well-formed. -/
def fwdKind (kind : String) (valid : Bool) : String := if valid then kind else "malformed"

/-- Routing of `message` / `control` to the two observers (`inCall`: the bystander is in the call of
its room; a message to the `call` is discarded by `filterAsyncMessage` of everybody else). -/
def route (kind : String) (rc : Recipient) (hasVirt : Bool) (inCall : Bool := false) : Obs :=
  -- a detached session of the addressed user / room stores the message (state of that session changes)
  if rc.rtype = "session" then
    match rc.sid with
    | .by => { bMust := [kind] }
    | .virt => if hasVirt then { sMust := [kind] } else {}
    | _ => {}
  else if rc.rtype = "user" then
    (if rc.uid = .by then { bMust := [kind], st := .any } else { st := .any })
  else if rc.rtype = "room" ∨ rc.rtype = "call" then
    (if s.inBy ∧ (rc.rtype = "room" ∨ inCall) then { bMust := [kind], st := .any } else { st := .any })
  else {}

def withAmbient (o : Obs) : Obs := if s.seesRoom then { o with sMay := o.sMay ++ ambient } else o

/-! ### The recipient's side of a forwarded `message` / `control` -/

/-- The regenerated table has an unguarded dereference of `path` in `fn` whose conditions hold for a
payload of type `dtype`. -/
def payloadUnguarded (fn path dtype : String) : Bool :=
  F.payloadDerefs.any (fun d => d.1 = fn ∧ d.2.1 = path ∧ (d.2.2 = "" ∨ d.2.2 = "Type=" ++ dtype))

inductive Delivered where
  | crash (site : String)
  | dropped                      -- filtered out, or folded into one that is queued already: the recipient sees nothing
  | sent (r : Rcpt)              -- written to the connection, or queued; the recipient's state afterwards
  deriving DecidableEq, Repr

/-- `ServerMessage.IsChatRefresh` on a forwarded `message`: decode the payload; `type` must be "chat"
and the optional `chat` member present. -/
def isChatRefresh (d : ServerData) : Except String Bool :=
  if !d.jsonOk then .ok false
  else match d.chat with
    | some r => .ok (d.dtype = "chat" && r)
    | none =>
      if payloadUnguarded F "ServerMessage.IsChatRefresh" "<@MessageServerMessageData>.Chat" d.dtype then
        .error "ServerMessage.IsChatRefresh: data.Chat"
      else .ok false

/-- `ClientSession.SendMessage` for a `message` / `control` built from client data, in the state `r` of
the recipient: `filterMessage` (with `hide-displaynames` the payload of a `message` is decoded,
`nickChanged` is dropped), then the connection - or, without one, `storePendingMessage`
(`IsChatRefresh`: only one chat refresh is kept). -/
def deliverRcpt (r : Rcpt) (kind : String) (d : ServerData) : Delivered :=
  if !F.deferredTablesReviewed then
    .crash "recipient side: a decode / dereference / type assertion / index expression / call that is not a reviewed one"
  else if kind = "message" ∧ r.hideNames ∧ d.jsonOk ∧ d.chat.isNone ∧
      payloadUnguarded F "ClientSession.filterMessage" "<@MessageServerMessageData>.Chat" d.dtype then
    .crash "ClientSession.filterMessage: data.Chat"
  else if kind = "message" ∧ r.hideNames ∧ d.jsonOk ∧ d.dtype = "nickChanged" then .dropped
  else if !r.detached then .sent r
  else if kind = "message" then
    match isChatRefresh F d with
    | .error site => .crash site
    | .ok true => if r.pendingChat then .dropped else .sent { r with pendingChat := true }
    | .ok false => .sent r
  else .sent r

/-- What the bystander sees of a forwarded message that `route` addresses to it (`o.bMust ≠ []`):
nothing if it is dropped; if it is queued the tables change. -/
def deliver (kind : String) (d : ServerData) (o : Obs) : Outcome :=
  if o.bMust.isEmpty then .ok o st
  else
    match deliverRcpt F st.world.rcpt kind d with
    | .crash site => .crash site
    | .dropped => .ok { o with bMust := [] } st
    | .sent r =>
      .ok (if st.world.rcpt.detached then { o with st := .chg } else o)
        { st with world := { st.world with rcpt := r } }

/-- `withAmbient` on the observation of an outcome. -/
def Outcome.amb (s : Sess) : Outcome → Outcome
  | .crash site => .crash site
  | .ok o next => .ok (if s.seesRoom then { o with sMay := o.sMay ++ ambient } else o) next

/-- Media-server work: the reply comes from an external party (and from goroutines of its own). -/
def mcuObs (rc : Recipient) : Obs :=
  { sMay := mcuReplies ++ ambient, bMay := if rc.rtype = "session" ∧ rc.sid = .by then ["message"] else [], st := .any }

/-- The message is handed to the media code (`McuClient.SendMessage` of a publisher / subscriber and
everything behind it).  Its payload is a `map[string]interface{}` with members of any JSON type; that
code runs in goroutines nobody recovers.  It is not modelled statement by statement: it is safe as long
as every expression of it that can panic on a value of the wrong dynamic type is a reviewed one. -/
def mediaCode (rc : Recipient) : Outcome :=
  if F.mediaTablesReviewed then .ok (mcuObs rc) st
  else .crash "media code: a type assertion / index expression / map write / dereference that is not a reviewed one"

/-- `MessageClientMessageData.CheckValid` on the payload. -/
def checkData (d : DataShape) : V :=
  if d.roomType = .invalid then invalid
  else if d.dtype = "offer" ∨ d.dtype = "answer" then
    match d.sdp with
    | .none => .err "no_sdp"
    | .nostr => .err "invalid_sdp"
    | .bad => .err "invalid_sdp"
    | .ok => .ok
  else .ok

/-- `Hub.processMessageMsg`. -/
def modelMessage (m : ClientMessage) : Outcome :=
  match m.message with
  | none => .crash "processMessageMsg: message.Message"
  | some mm =>
    let rc := mm.recipient
    let hasVirt := !st.world.virt.isEmpty
    let looksAtData := st.world.mcu ∧ (rc.rtype = "session" ∨ ((rc.rtype = "room" ∨ rc.rtype = "call") ∧ s.room ≠ .none))
    if looksAtData ∧ mm.data.jsonOk then
      match checkData mm.data with
      | .err c => .ok (withAmbient s (errObs c)) st
      | .crash site => .crash site
      | .ok =>
        if rc.rtype = "session" ∧ mcuTypes.contains mm.data.dtype then mediaCode F st rc
        else if mm.data.dtype = "sendoffer" then mediaCode F st rc
        else (deliver F st "message" mm.sdata (route s (fwdKind "message" mm.dataValid) rc hasVirt st.world.rcpt.inCall)).amb s
    else (deliver F st "message" mm.sdata (route s (fwdKind "message" mm.dataValid) rc hasVirt st.world.rcpt.inCall)).amb s

/-- `Hub.processControlMsg`. -/
def modelControl (m : ClientMessage) : Outcome :=
  match m.control with
  | none => .crash "processControlMsg: message.Control"
  | some mm =>
    if !s.internal ∧ s.restricted then .ok (withAmbient s {}) st
    else (deliver F st "control" mm.sdata
            (route s (fwdKind "control" mm.dataValid) mm.recipient (!st.world.virt.isEmpty) st.world.rcpt.inCall)).amb s

/-- The response handler registered by `BackendServer.startDialout`: the
extracted dereference table says whether it still touches
`message.Internal.Dialout` without looking at the type first. -/
def dialoutHandlerGuarded : Bool :=
  !F.derefs.any (fun d => d.1 = "BackendServer.startDialout.func1")

inductive Handled where
  | crash (site : String)
  | notConsumed
  | consumed (stop : Bool) (http : String)

def dialoutHandler (i : Internal) : Handled :=
  let consume (d : Dialout) : Handled :=
    let http :=
      if d.dtype = "error" then (if d.error.isSome then "502" else "-1")
      else if d.dtype = "status" then
        match d.status with
        | none => "-1"                         -- nil dereference in the backend request handler
        | some v => if v = "accepted" then "200" else "502"
      else "502"
    .consumed d.error.isSome http
  if dialoutHandlerGuarded F then
    (if i.itype = "dialout" then
      match i.dialout with
      | none => .notConsumed
      | some d => consume d
    else .notConsumed)
  else
    match i.dialout with
    | none => .crash "startDialout response handler: message.Internal.Dialout"
    | some d => consume d

/-- The type switch of `Hub.processInternalMsg`. -/
def internalSwitch (i : Internal) (http : Option String) : Outcome :=
  let w := st.world
  let amb (o : Obs) : Obs := { withAmbient s o with http := http }
  if i.itype = "addsession" then
    match i.add with
    | none => .crash "processInternalMsg: msg.AddSession"
    | some a =>
      if roomExists s a.c.room ∧ !a.userValid then .ok (amb { sMust := ["error:add_failed"] }) st
      else if roomExists s a.c.room then
        .ok (amb { bMust := if a.c.room = .by then ["event.room.join"] else [],
                   bMay := if a.c.room = .by then ["event.participants.update", "event.participants.flags"] else [],
                   sMay := ["error:add_failed"], st := .chg })
          { st with world := { w with virt := (a.c.sid, a.c.room.toRef) :: w.virt } }
      else .ok (amb {}) st
  else if i.itype = "updatesession" then
    match i.upd with
    | none => .crash "processInternalMsg: msg.UpdateSession"
    | some u =>
      if roomExists s u.c.room ∧ w.virt.any (fun v => v.1 = u.c.sid) then
        .ok (amb { bMay := if u.c.room = .by then ["event.participants.update", "event.participants.flags"] else [], st := .any }) st
      else .ok (amb {}) st
  else if i.itype = "removesession" then
    match i.rem with
    | none => .crash "processInternalMsg: msg.RemoveSession"
    | some c =>
      if roomExists s c.room ∧ w.virt.any (fun v => v.1 = c.sid) then
        let inBy := w.virt.any (fun v => v.1 = c.sid ∧ v.2 = .by)
        .ok (amb { bMay := if inBy then ["event.room.leave", "event.participants.update"] else [],
                   sMay := ["error:remove_failed"], st := .any })
          { st with world := { w with virt := w.virt.filter (fun v => v.1 ≠ c.sid) } }
      else .ok (amb {}) st
  else if i.itype = "incall" then
    match i.incall with
    | none => .crash "processInternalMsg: msg.InCall"
    | some _ => .ok (amb { bMay := if s.inBy then ["event.participants.update"] else [], st := .any }) st
  else if i.itype = "dialout" then
    match i.dialout with
    | none => .crash "processInternalMsg: msg.Dialout"
    | some d =>
      if d.dtype = "status" then
        match d.status with
        | none => .crash "processInternalMsg: msg.Dialout.Status"
        | some _ =>
          if d.room = .by then
            .ok (amb { bMay := ["transient.set"], st := .any }) st
          else .ok (amb { st := .any }) st
      else
        .ok (amb { bMust := if d.room = .by then ["dialout"] else [],
                   sMust := if d.room = .by ∧ s.inBy then ["dialout"] else [],
                   sMay := if roomExists s d.room then ["dialout"] else [], st := .any }) st
  else .ok (amb {}) st

/-- `Hub.processInternalMsg`. -/
def modelInternal (m : ClientMessage) : Outcome :=
  match m.internal with
  | none => .crash "processInternalMsg: message.Internal"
  | some i =>
    if !s.internal then .ok (withAmbient s {}) st
    else
      let armed := st.dialoutState && s.dialoutFeat
      if armed ∧ m.id = .pending then
        match dialoutHandler F i with
        | .crash site => .crash site
        | .notConsumed => internalSwitch st s i (some "1")
        | .consumed stop http =>
          if stop then .ok { withAmbient s {} with http := some http } st
          else internalSwitch st s i (some http)
      else internalSwitch st s i none

/-- `Hub.processTransientMsg`. -/
def modelTransient (m : ClientMessage) : Outcome :=
  if s.room = .none then .ok (errObs "not_in_room") st
  else
    match m.transient with
    | none => .crash "processTransientMsg: message.TransientData"
    | some t =>
      let allowed := s.internal ∨ !s.restricted
      let w := st.world
      if t.ttype = "set" ∨ t.ttype = "remove" then
        if !allowed then .ok (withAmbient s (errObs "not_allowed")) st
        else if !s.inBy then .ok { sMay := ambient, st := .any } st
        else
          let setKind := fwdKind "transient.set" t.valueValid
          match (if t.ttype = "set" then t.value else none), lookupT t.key w.transient with
          | some v, some old =>
            if v = old then .ok { sMay := ambient } st
            else .ok { sMust := [setKind], sMay := ambient, bMust := [setKind], st := .chg }
                  { st with world := { w with transient := (t.key, v) :: eraseT t.key w.transient } }
          | some v, none =>
            .ok { sMust := [setKind], sMay := ambient, bMust := [setKind], st := .chg }
              { st with world := { w with transient := (t.key, v) :: w.transient } }
          | none, some _ =>
            .ok { sMust := ["transient.remove"], sMay := ambient, bMust := ["transient.remove"], st := .chg }
              { st with world := { w with transient := eraseT t.key w.transient } }
          | none, none => .ok { sMay := ambient } st
      else .ok (withAmbient s (errObs "ignored")) st

/-- `Hub.processByeMsg`. -/
def modelBye (_m : ClientMessage) : Outcome :=
  let virtBy := st.world.virt.any (fun v => v.2 = .by)
  .ok { sMust := ["bye", "closed"], sMay := ambient,
        bMust := if s.inBy then ["event.room.leave"] else [],
        bMay := if s.inBy ∨ virtBy then ["event.room.leave", "event.participants.update"] else [],
        st := .chg }
    { st with conn := .dead, world := { st.world with virt := [] } }

/-- `FederationClient.ProxyMessage`: everything that is not handled locally is
forwarded to the federation target, which answers. -/
def modelProxy (m : ClientMessage) : Outcome :=
  if m.mtype = "message" then
    match m.message with
    | none => .crash "FederationClient.ProxyMessage: message.Message"
    | some _ => .ok { sMay := "message" :: "control" :: "error:*" :: ambient, st := .any } st
  else .ok { sMay := "message" :: "control" :: "error:*" :: ambient, st := .any } st

end handlers

/-- A hello that gets as far as the credentials (re)starts the hello timeout of the connection
(`defer h.startExpectHello(client)`): a websocket is on that list from the moment it connects, a connection
proxied from another node gets onto it this way - the tables may change even if the hello is refused. -/
def Outcome.remoteSt (remote : Bool) : Outcome → Outcome
  | .crash site => .crash site
  | .ok o next => .ok (if remote ∧ o.st = .same then { o with st := .any } else o) next

def handlerFor (t : String) : String :=
  match F.dispatchTable.lookup t with
  | some h => h
  | none => (F.dispatchTable.lookup "*").getD ""

/-- The `switch message.Type` of `Hub.processMessage`, through the regenerated dispatch table. -/
def dispatchSession (st : St) (s : Sess) (m : ClientMessage) : Outcome :=
  let h := handlerFor F m.mtype
  if h = "processRoom" then modelRoom st s m
  else if h = "processMessageMsg" then modelMessage F st s m
  else if h = "processControlMsg" then modelControl F st s m
  else if h = "processInternalMsg" then modelInternal F st s m
  else if h = "processTransientMsg" then modelTransient st s m
  else if h = "processByeMsg" then modelBye st s m
  else if h = "" then .ok { sMay := if s.seesRoom then ambient else [] } st
  else .crash ("processMessage dispatches to a handler the model does not know: " ++ h)

/-- `Hub.processMessage` after decoding. -/
def processMessage (st : St) (m : ClientMessage) : Outcome :=
  let validated : V := if F.validateBeforeDispatch then checkValid F m else .ok
  match validated with
  | .crash site => .crash site
  | .err c =>
    let amb := match st.conn with
      | .session s => if s.seesRoom then ambient else []
      | _ => []
    .ok { errObs c with sMay := amb } st
  | .ok =>
    if !F.messageCounterLabelFromFixedSet ∧ !m.typeUtf8 then
      .crash "processMessage: statsMessagesTotal.WithLabelValues(message.Type) with a type that is not valid UTF-8"
    else
    match st.conn with
    | .dead => .ok {} st
    | .nosession =>
      if F.preHelloOnlyHello ∧ m.mtype ≠ "hello" then .ok (errObs "hello_expected") st
      else (modelHello F st m).remoteSt st.remote
    | .session s =>
      if s.fed ∧ !F.localTypes.contains m.mtype then modelProxy st m
      else dispatchSession F st s m

/-- Was a dialout request pending (armed by the harness) while this frame was processed? -/
def armed (st : St) : Bool :=
  match st.conn with
  | .session s => st.dialoutState && s.dialoutFeat
  | _ => false

/-- The HTTP status the backend sees for the pending request: decided by the
response handler if it consumed the message; otherwise the harness completes the
request itself (`1`), or cannot any more because the connection is gone (`0`). -/
def withHttp (st : St) : Outcome → Outcome
  | .crash site => .crash site
  | .ok o next =>
    if armed st then
      match o.http with
      | some _ => .ok o next
      | none => .ok { o with http := some (if next.conn = .dead then "0" else "1") } next
    else .ok { o with http := none } next

/-- One frame: `Client.ReadPump` (size limit, frame type), decoding, `processMessage`. -/
def processFrame (st : St) (f : Frame) : Outcome :=
  match st.conn with
  | .dead => .ok {} st
  | conn =>
    withHttp st <|
    if F.readLimitIsMaxMessageSize ∧ f.size > F.maxMessageSize then
      .ok { sMust := ["closed"], st := .chg } { st with conn := .dead }
    else
      let amb := match conn with
        | .session s => if s.seesRoom then ambient else []
        | _ => []
      if f.binary ∧ F.binaryFrameAnsweredInvalidFormat then
        .ok { errObs "invalid_format" with sMay := amb } st
      else
        match f.dec with
        | .err => .ok { errObs "invalid_format" with sMay := amb } st
        | .ok m => processMessage F st m

end model

/-! ## The dereference sites the model accounts for

Every entry of `Generated.ShapesClient.derefs` (function, path, conditions) has
to be one of these; each of them is a `crash` branch above (or a function the
handler of that branch calls with the same message). -/
def sites : List (String × String × String) := [
  ("FederationClient.ProxyMessage", "Message", "Type=message"),
  ("Hub.processControlMsg", "Control", ""),
  ("Hub.processHelloClient", "Hello", ""),
  ("Hub.processHelloInternal", "Hello.Auth", ""),
  ("Hub.processHelloInternal", "Hello", ""),
  ("Hub.processHelloV1", "Hello.Auth", ""),
  ("Hub.processHelloV1", "Hello", ""),
  ("Hub.processHelloV2", "Hello.Auth", ""),
  ("Hub.processHelloV2", "Hello", ""),
  ("Hub.processHello", "Hello.Auth", ""),
  ("Hub.processHello", "Hello", ""),
  ("Hub.processInternalMsg", "Internal.AddSession", "Internal.Type=addsession"),
  ("Hub.processInternalMsg", "Internal.Dialout.Status", "Internal.Dialout.Type=status;Internal.Type=dialout"),
  ("Hub.processInternalMsg", "Internal.Dialout", "Internal.Type=dialout"),
  ("Hub.processInternalMsg", "Internal.InCall", "Internal.Type=incall"),
  ("Hub.processInternalMsg", "Internal.RemoveSession", "Internal.Type=removesession"),
  ("Hub.processInternalMsg", "Internal.UpdateSession", "Internal.Type=updatesession"),
  ("Hub.processInternalMsg", "Internal", ""),
  ("Hub.processJoinRoom", "Room", ""),
  ("Hub.processMessageMsg", "Message", ""),
  ("Hub.processRegister", "Hello.Auth", ""),
  ("Hub.processRegister", "Hello", ""),
  ("Hub.processRoom", "Room", ""),
  ("Hub.processTransientMsg", "TransientData", ""),
  ("Hub.sendHelloResponse", "Hello", ""),
  ("NewClientSession", "<HelloClientMessage>.Auth", ""),
  ("NewFederationClient", "Room.Federation.parsedSignalingUrl", "Type=room")]

/-- Unchecked type assertions in functions that see a client message: both are
behind `sess.ClientType() == HelloClientTypeVirtual`, which only `VirtualSession` returns. -/
def knownTypeAssertions : List (String × String) := [
  ("Hub.processControlMsg", "sess.(*VirtualSession)"),
  ("Hub.processMessageMsg", "sess.(*VirtualSession)")]

/-- Uses of the nil result of a failed comma-ok type assertion: none (the one of `processRegister`,
`client.SendMessage` for a connection that is not a `*Client`, was repaired). -/
def knownFailedAssertionUses : List (String × String) := []

/-- Index expressions over client-controlled values: a map read, and the last
byte of a string that was just compared with "". -/
def knownIndexExprs : List (String × String) := [
  ("MessageClientMessageData.CheckValid", "m.Payload[\"sdp\"]"),
  ("RoomFederationMessage.CheckValid", "m.SignalingUrl[len(m.SignalingUrl)-1]")]

end SigModel.ShapesClient
