/-
C10, recipient side: reviewed tables for the code that looks at a message again
*after* the handler of the sender's frame has turned it into a `ServerMessage`.

The raw `data` of a `message` / `control` is opaque to the handler (it only has
to be valid JSON) and travels on inside a `ServerMessage`, directly or inside an
`AsyncMessage` over the event bus.  What happens to it then depends on the state
of the *recipient*: `filterAsyncMessage` (sender type `call`: is the recipient in
the call?), `filterMessage` (recipient has `hide-displaynames`: the payload is
decoded again), `sendMessageUnlocked` (connection gone or write failed:
`storePendingMessage`, which asks `IsChatRefresh` - another decode - and
`IsParticipantsUpdate`), `NotifySessionResumed` (the queue is flushed).

`tools/extract/shapesdeferred.go` lists, for every hand-written file of the root
package except the media code and `federation.go`:

* `payloadParsers` - where raw bytes are decoded into a local in a function that
  sees a message; `payloadDerefs` - pointer members of such a local dereferenced
  without a nil guard.  The *payload* is client-controlled: every entry of
  `payloadDerefs` has to be one of `payloadSites`, and each of those is a `crash`
  branch of the model (`Model/ShapesClient.lean`, `deliverRcpt`).  On the
  unchanged tree the table is empty: every decode is followed by a nil check.
* `envelopeDerefs`, `envelopeFlows`, `deferredTypeAssertions`,
  `deferredIndexExprs` - the same walker below the `*ServerMessage` /
  `*AsyncMessage` parameter itself and the calls it flows into.  The *envelope*
  is built by this server; the lists below are the reviewed ones, with the
  reason why client input cannot make the entry panic.  A new entry means: read
  it, and either guard the code or add it here with its reason.
-/
import SigModel.Generated.ShapesDeferred

namespace SigModel.ShapesDeferred

/-- Decodes of raw bytes in functions that see a message.
* `Hub.processMessageMsg` (twice): the payload as `MessageClientMessageData` when a media server is
  configured - modelled (`DataShape`, `checkData`).
* `ServerMessage.IsChatRefresh`: the payload as `MessageServerMessageData` when the message is queued
  for a recipient without connection - modelled (`ServerData`, `isChatRefresh`).
* `ClientSession.filterMessage`: the payload of a forwarded `message` as `MessageServerMessageData` if
  the recipient has `hide-displaynames` - modelled (`deliverRcpt`); the `RoomEventMessageData` is the
  payload of a room message of the Nextcloud backend (not client input). -/
def reviewedPayloadParsers : List (String × String × String) := [
  ("ClientSession.filterMessage", "MessageServerMessageData", "message.Message.Data"),
  ("ClientSession.filterMessage", "RoomEventMessageData", "message.Event.Message.Data"),
  ("Hub.processMessageMsg", "MessageClientMessageData", "msg.Data"),
  ("Hub.processMessageMsg", "MessageClientMessageData", "msg.Data"),
  ("ServerMessage.IsChatRefresh", "MessageServerMessageData", "r.Message.Data")]

/-- Unguarded dereferences below a decoded payload that the model knows as `crash` branches
(function, path, conditions).  None of them exists on the unchanged tree. -/
def payloadSites : List (String × String × String) := [
  ("ServerMessage.IsChatRefresh", "<@MessageServerMessageData>.Chat", ""),
  ("ServerMessage.IsChatRefresh", "<@MessageServerMessageData>.Chat", "Type=chat"),
  ("ClientSession.filterMessage", "<@MessageServerMessageData>.Chat", ""),
  ("ClientSession.filterMessage", "<@MessageServerMessageData>.Chat", "Type=chat"),
  ("ClientSession.filterMessage", "<@MessageServerMessageData>.Chat", "Type=nickChanged")]

/-- Unguarded dereferences below a `*ServerMessage` / `*AsyncMessage`.  The envelope is never decoded
from client bytes: it is built by `Hub.processMessageMsg` / `processControlMsg` (`Type` "message" /
"control" with that member set), by `Room` (`Type: "event"` with `Event` set, `participants`/`update`
with `Update` set), by `sendMcuMessageResponse`, by the backend server.  An `AsyncMessage` comes from
this server or another one of the cluster over the event bus (trusted, C20): `Type: "message"` is
published with `Message` set, `"sendoffer"` with `SendOffer` and its `Data`, a `bye` with `Bye`.
Server messages of a federation target are validated first (`ServerMessage.CheckValid`, C12). -/
def reviewedEnvelopeDerefs : List (String × String × String) := [
  ("ClientSession.filterAsyncMessage", "<AsyncMessage>.Message.Event", "Message.Type=event;Type=message"),
  ("ClientSession.filterMessage", "<ServerMessage>.Event.Update", "Event.Type=update;Type=event"),
  ("ClientSession.filterMessage", "<ServerMessage>.Event", "Type=event"),
  ("ClientSession.processAsyncMessage", "<AsyncMessage>.Message.Bye", "Message.Type=bye;Type=message"),
  ("ClientSession.processAsyncMessage", "<AsyncMessage>.Message", "Type=message"),
  ("ClientSession.processAsyncMessage", "<AsyncMessage>.SendOffer.Data", "Type=sendoffer"),
  ("ClientSession.processAsyncMessage", "<AsyncMessage>.SendOffer", "Type=sendoffer"),
  ("VirtualSession.ProcessAsyncSessionMessage", "<AsyncMessage>.Message.Event", "Message.Type=event;Type=message")]

/-- Where a server / async message flows: the delivery path the model follows
(`Process…Message → processAsyncMessage → filterAsyncMessage`, `SendMessage → filterMessage →
sendMessageUnlocked → Client.SendMessage | storePendingMessage → IsChatRefresh, IsParticipantsUpdate,
append`), the virtual session handing on to its owner, the event bus, `String()` for logging. -/
def reviewedEnvelopeFlows : List (String × String) := [
  ("AsyncMessage.String", "json.Marshal"),
  ("ClientSession.ProcessAsyncRoomMessage", "s.processAsyncMessage"),
  ("ClientSession.ProcessAsyncSessionMessage", "s.processAsyncMessage"),
  ("ClientSession.ProcessAsyncUserMessage", "s.processAsyncMessage"),
  ("ClientSession.SendMessage", "s.filterMessage"),
  ("ClientSession.processAsyncMessage", "s.filterAsyncMessage"),
  ("ClientSession.sendMessageUnlocked", "c.SendMessage"),
  ("ClientSession.sendMessageUnlocked", "s.storePendingMessage"),
  ("ClientSession.storePendingMessage", "append"),
  ("ClientSession.storePendingMessage", "message.IsChatRefresh"),
  ("ClientSession.storePendingMessage", "message.IsParticipantsUpdate"),
  ("Hub.setWelcomeMessage", "h.welcome.Store"),
  ("ServerMessage.String", "json.Marshal"),
  ("VirtualSession.ProcessAsyncSessionMessage", "s.session.ProcessAsyncSessionMessage"),
  ("VirtualSession.SendMessage", "s.session.SendMessage"),
  ("asyncBackendRoomSubscriber.processBackendRoomRequest", "listener.ProcessBackendRoomRequest"),
  ("asyncEventsNats.PublishBackendRoomMessage", "e.publish"),
  ("asyncEventsNats.PublishRoomMessage", "e.publish"),
  ("asyncEventsNats.PublishSessionMessage", "e.publish"),
  ("asyncEventsNats.PublishUserMessage", "e.publish"),
  ("asyncEventsNats.publish", "e.client.Publish"),
  ("asyncRoomSubscriber.processAsyncRoomMessage", "listener.ProcessAsyncRoomMessage"),
  ("asyncSessionSubscriber.processAsyncSessionMessage", "listener.ProcessAsyncSessionMessage"),
  ("asyncUserSubscriber.processAsyncUserMessage", "listener.ProcessAsyncUserMessage")]

/-- The assertion of `processMessageMsg` is the known one of `knownTypeAssertions` (listed again because
the function decodes the payload into a local). -/
def reviewedTypeAssertions : List (String × String) := [
  ("Hub.processMessageMsg", "sess.(*VirtualSession)")]

/-- A map read behind `data.Chat != nil && data.Chat.Comment != nil`, on a room message of the backend. -/
def reviewedIndexExprs : List (String × String) := [
  ("ClientSession.filterMessage", "(*data.Chat.Comment)[\"actorDisplayName\"]")]

/-- The regenerated tables are the reviewed ones, and every unguarded dereference below a decoded
payload is a site the model accounts for. -/
def tablesReviewed : Bool :=
  Generated.ShapesDeferred.payloadParsers == reviewedPayloadParsers &&
  Generated.ShapesDeferred.payloadDerefs.all (fun d => payloadSites.contains d) &&
  Generated.ShapesDeferred.envelopeDerefs == reviewedEnvelopeDerefs &&
  Generated.ShapesDeferred.envelopeFlows == reviewedEnvelopeFlows &&
  Generated.ShapesDeferred.deferredTypeAssertions == reviewedTypeAssertions &&
  Generated.ShapesDeferred.deferredIndexExprs == reviewedIndexExprs

end SigModel.ShapesDeferred
