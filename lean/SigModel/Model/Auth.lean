/-
Model of the hello path of /repo/hub.go (C01): `processMessage` for a connection,
`HelloClientMessage.CheckValid`, `processHello` (resume branch, client type
switch), `processHelloV1`, `processHelloV2` (including what `jwt.ParseWithClaims`
of golang-jwt v5 does with the options the hub passes), `processHelloInternal`,
`processRegister`, and the backend lookup `BackendConfiguration.GetBackend` /
`backendStorageStatic.GetBackend` / `getBackendLocked`.

Decision logic only.  Everything the server cannot compute itself is an input:

* what `net/url` makes of a URL string (`Url`: parse result, scheme, host, port,
  the two renderings of `u.String()`, whether the path has dot segments) and which
  web server (`srv`, a tenant name) answers requests sent to it;
* the answer of that server to a protocol-1.0 auth request (`V1Ans`);
* for a protocol-2.0 token the decoded header/claims and, per tenant, the bit
  "the signature verifies under the key that tenant publishes, with the scheme named
  in the header" (`Tok.verifies`, obtained from `SigningMethod.Verify` by the harness);
* for an internal hello the bit "token = hex(HMAC-SHA256(secret, random))";
* for a resume id whether the string is exactly the private id of a session and
  whether it decodes under the private-id codec (C15).

Constants, the algorithm allow-list, the key-loader type switch, parser options and
error codes come from `Generated/Auth.lean`, rewritten from the source on every run.
Throttling is the model of C17 (`Model/Throttle.lean`).
-/
import SigModel.Generated.Auth
import SigModel.Model.Throttle
import SigModel.Basic.Proto

namespace SigModel.Auth
open SigModel.Generated.Auth
open SigModel.Proto (hasPrefix)

/-- The wire code of one of the hub's `*Error` variables. -/
def errCode (name : String) : String := (errorCodes.lookup name).getD ("?" ++ name)

/-! ## configuration and environment -/

structure Backend where
  id : String
  /-- normalised URL with trailing slash; `""` for the host-only compat backend -/
  url : String
  allowHttp : Bool
  /-- session limit, 0 = unlimited -/
  limit : Nat
  /-- (spec only, never read by the model) the tenant whose web server lives at `url`;
  `"*"` for host-only / allow-all backends, where every server on the host is the backend -/
  owner : String
  deriving DecidableEq, Repr

structure Cfg where
  /-- `backendStorageCommon.backends`: host ↦ entries in lookup order -/
  hosts : List (String × List Backend) := []
  /-- `allowall = true`: the compat backend returned for every unknown host -/
  allowAll : Option Backend := none
  /-- `len(h.internalClientsSecret) > 0` -/
  secretSet : Bool := false
  deriving Repr

inductive KeyFam where
  | rsa | ecdsa | ed25519
  deriving DecidableEq, Repr

/-- A Nextcloud instance reachable from the server. -/
structure Tenant where
  name : String
  /-- family of the (parsable) public key it publishes in its capabilities; `none`: no key or garbage -/
  key : Option KeyFam
  /-- capability feature `federation-v2` -/
  fed : Bool
  deriving DecidableEq, Repr

structure Env where
  tenants : List Tenant := []
  deriving Repr

def Env.tenant (e : Env) (n : String) : Option Tenant := e.tenants.find? (fun t => t.name = n)

/-! ## URLs as `net/url` sees them -/

structure Url where
  /-- the string as sent -/
  raw : String := ""
  /-- `url.ParseRequestURI` (hello url) / `url.Parse` (internal backend) succeeded -/
  ok : Bool := false
  scheme : String := ""
  /-- `u.Host` -/
  host : String := ""
  /-- `u.Hostname()` -/
  hostname : String := ""
  /-- `u.Port()` -/
  port : String := ""
  /-- `u.String()` -/
  strHost : String := ""
  /-- `u.String()` after `u.Host = u.Hostname()` -/
  strHostname : String := ""
  /-- the (decoded) path contains a `.` or `..` segment -/
  dotSeg : Bool := false
  /-- tenant whose web server answers requests to this URL (`""`: nobody) -/
  srv : String := ""
  deriving DecidableEq, Repr

/-- `hasStandardPort` over the generated table. -/
def hasStandardPort (scheme port : String) : Bool := standardPorts.contains (scheme ++ ":" ++ port)

/-- `if strings.Contains(u.Host, ":") && hasStandardPort(u) { u.Host = u.Hostname() }`:
the host used for the lookup and the rendering of the URL. -/
def Url.norm (u : Url) : String × String :=
  if u.host.toList.contains ':' && hasStandardPort u.scheme u.port then (u.hostname, u.strHostname)
  else (u.host, u.strHost)

def withSlash (s : String) : String := if s.toList.getLast? = some '/' then s else s ++ "/"

/-- `Backend.IsUrlAllowed` -/
def isUrlAllowed (b : Backend) (scheme : String) : Bool :=
  scheme = "https" || (scheme = "http" && b.allowHttp)

/-- one entry of the loop in `getBackendLocked`: an entry without url (only hosts configured) matches;
otherwise the entry's url — with a "/" appended if it is stored without one, as backends received
from etcd are — must be a prefix of the looked-up url (`str`: already "/"-terminated) -/
def entryMatches (scheme str : String) (b : Backend) : Bool :=
  isUrlAllowed b scheme && (b.url = "" || hasPrefix (withSlash b.url) str)

/-- `BackendConfiguration.GetBackend` → `backendStorageStatic.GetBackend` → `getBackendLocked`;
`rejectDots`: whether `GetBackend` refuses URLs with dot segments (generated fact, see `getBackend`). -/
def getBackendWith (rejectDots : Bool) (cfg : Cfg) (u : Url) : Option Backend :=
  if rejectDots && u.dotSeg then none else
  let (host, s) := u.norm
  match cfg.hosts.lookup host with
  | none => cfg.allowAll
  | some entries => entries.find? (entryMatches u.scheme (withSlash s))

/-- the lookup as the current source does it -/
def getBackend (cfg : Cfg) (u : Url) : Option Backend := getBackendWith lookupRejectsDotSegments cfg u

/-! ## protocol-2.0 tokens -/

structure Tok where
  /-- the token string is empty (`HelloV2AuthParams.CheckValid`) -/
  empty : Bool := false
  /-- three segments; header and claims are base64url JSON of the right types -/
  wellFormed : Bool := true
  /-- header `alg` if it is a string -/
  alg : Option String := none
  sigDecodes : Bool := true
  iat : Option Int := none
  nbf : Option Int := none
  exp : Option Int := none
  sub : String := ""
  /-- tenant ↦ `SigningMethod(alg).Verify(signingInput, signature, key published by tenant)` succeeds -/
  verifies : String → Bool := fun _ => false

/-- `jwt.GetSigningMethod`: Go type of the method registered under an `alg` name (golang-jwt v5). -/
def jwtMethodType (alg : String) : Option String :=
  if alg ∈ ["RS256", "RS384", "RS512"] then some "SigningMethodRSA"
  else if alg ∈ ["PS256", "PS384", "PS512"] then some "SigningMethodRSAPSS"
  else if alg ∈ ["ES256", "ES384", "ES512"] then some "SigningMethodECDSA"
  else if alg = "EdDSA" then some "SigningMethodEd25519"
  else if alg ∈ ["HS256", "HS384", "HS512"] then some "SigningMethodHMAC"
  else if alg = "none" then some "signingMethodNone"
  else none

/-- key family a `jwt.Parse…PublicKeyFromPEM` loader yields -/
def loaderFamily (loader : String) : Option KeyFam :=
  if loader = "ParseRSAPublicKeyFromPEM" then some .rsa
  else if loader = "ParseECPublicKeyFromPEM" then some .ecdsa
  else if loader = "ParseEdPublicKeyFromPEM" then some .ed25519
  else none

/-- the keyfunc's `switch token.Method.(type)` (generated): key family the hub will load for `alg` -/
def keyFamilyFor (alg : String) : Option KeyFam :=
  match jwtMethodType alg with
  | none => none
  | some mt =>
    match keyfuncCases.lookup mt with
    | none => none
    | some loader => loaderFamily loader

/-- leeway handed to the library's validator -/
def libLeeway : Int := if jwtWithLeeway && jwtLeewayArg = "tokenLeeway" then (tokenLeeway : Int) else 0

/-- `Validator.Validate` of golang-jwt v5 for `RegisteredClaims` with the hub's options:
the names of the errors it joins. -/
def jwtValidate (now : Int) (t : Tok) : List String :=
  (if t.exp.any (fun e => !decide (now < e + libLeeway)) then ["ErrTokenExpired"] else []) ++
  (if t.nbf.any (fun n => decide (now < n - libLeeway)) then ["ErrTokenNotValidYet"] else []) ++
  (if jwtWithIssuedAt && t.iat.any (fun i => decide (now < i - libLeeway)) then ["ErrTokenUsedBeforeIssued"] else [])

/-- the `errors.Is` cascade after `jwt.ParseWithClaims` (generated) -/
def mapJwtErrors (errs : List String) : String :=
  match jwtErrorMap.find? (fun p => p.1.any (fun n => errs.contains n)) with
  | some p => p.2
  | none => jwtErrorDefault

/-- `jwt.ParseWithClaims(token, claims, keyfunc, WithValidMethods…, WithIssuedAt, WithLeeway)`:
`none` = parsed and valid, `some e` = the hub error variable returned. -/
def jwtParse (env : Env) (srv : String) (now : Int) (t : Tok) : Option String :=
  if !t.wellFormed then some jwtErrorDefault else
  match t.alg with
  | none => some jwtErrorDefault
  | some a =>
    if (jwtMethodType a).isNone then some jwtErrorDefault
    else if !validMethods.contains a then some jwtErrorDefault
    else if !t.sigDecodes then some jwtErrorDefault
    else
      match keyFamilyFor a with
      | none => some jwtErrorDefault
      | some kf =>
        if ((env.tenant srv).bind (·.key)) ≠ some kf then some jwtErrorDefault
        else if !t.verifies srv then some jwtErrorDefault
        else
          match jwtValidate now t with
          | [] => none
          | errs => some (mapJwtErrors errs)

def ruleErr (i : Nat) : String := ((hubTimeRules[i]?).map (·.2)).getD "?"

/-- the hub's own rules after parsing (`issuedAt`/`expiresAt` chain) -/
def hubTimeCheck (now : Int) (t : Tok) : Option String :=
  if (match t.iat, t.exp with
      | some i, some e => decide (e < i)
      | _, _ => false) then some (ruleErr 0)
  else if t.iat.isNone then some (ruleErr 1)
  else if (match t.exp with
           | none => true
           | some e => decide (e < now - (tokenLeeway : Int))) then some (ruleErr 2)
  else none

/-! ## the hello message -/

inductive V1Ans where
  | auth (user : String)
  | error (code : String)
  | other
  | fail
  deriving DecidableEq, Repr

structure Resume where
  /-- `resumeid ≠ ""` -/
  present : Bool := false
  /-- the string is exactly the private id issued for session `sid` -/
  exact : Option Nat := none
  /-- `decodePrivateSessionId` yields data -/
  decodes : Bool := false
  deriving DecidableEq, Repr

structure Hello where
  version : String := ""
  resume : Resume := {}
  hasAuth : Bool := false
  /-- `len(auth.params) > 0` -/
  hasParams : Bool := false
  authType : String := ""
  url : Url := {}
  /-- protocol 1.0: what the server behind `url` answers to the auth request -/
  v1ans : V1Ans := .fail
  /-- `json.Unmarshal(params, &…Params)` succeeds (2.0 / federation / internal) -/
  paramsOk : Bool := false
  tok : Tok := {}
  /-- internal: `random` -/
  rnd : String := ""
  /-- internal: `token == hex(HMAC-SHA256(secret, random))` (computed outside the server) -/
  tokenOk : Bool := false
  /-- internal: `backend` -/
  burl : Url := {}

def effType (m : Hello) : String := if m.authType = "" then HelloClientTypeClient else m.authType

/-- `HelloClientMessage.CheckValid`: `none` = valid, `some e` = error variable sent
(`InvalidFormat` for every error that is not an `*Error`). -/
def checkValid (m : Hello) : Option String :=
  if m.version ≠ HelloVersionV1 ∧ m.version ≠ HelloVersionV2 then some "InvalidHelloVersion"
  else if m.resume.present then none
  else if !m.hasAuth || !m.hasParams then some "InvalidFormat"
  else
    let ty := effType m
    if ty = HelloClientTypeClient ∨ ty = HelloClientTypeFederation then
      if m.url.raw = "" then some "InvalidFormat"
      else if !m.url.ok then some "InvalidFormat"
      else if m.version = HelloVersionV2 then
        if !m.paramsOk then some "InvalidFormat"
        else if m.tok.empty then some "InvalidFormat"
        else none
      else none
    else if ty = HelloClientTypeInternal then
      if !m.paramsOk then some "InvalidFormat"
      else if m.burl.raw = "" then some "InvalidFormat"
      else if !m.burl.ok then some "InvalidFormat"
      else none
    else some "InvalidFormat"

/-! ## hub state -/

structure Sess where
  sid : Nat
  backend : String
  kind : String
  user : String
  conn : Option Nat
  deriving DecidableEq, Repr

structure Hub where
  /-- `Hub.sessions` in creation order -/
  sessions : List Sess := []
  nextSid : Nat := 1
  /-- open connections and their remote address (as `net.ParseIP` classifies it, see C17) -/
  conns : List (Nat × Throttle.Addr) := []
  thr : Throttle.State := Throttle.State.empty

inductive Reply where
  | welcome
  | hello (sid : Nat) (backend kind user : String)
  | error (code : String)
  | bye
  | done
  | ignored
  | closed
  deriving DecidableEq, Repr

def Hub.isOpen (h : Hub) (c : Nat) : Bool := (h.conns.lookup c).isSome

/-- `client.GetSession()` -/
def Hub.sessionOf (h : Hub) (c : Nat) : Option Sess := h.sessions.find? (fun s => s.conn = some c)

def Hub.tkey (h : Hub) (c : Nat) : Throttle.Key := Throttle.throttleKey ((h.conns.lookup c).getD (.raw ""))

/-- `len(Backend.sessions)`: live sessions of the backend that count to its limit -/
def Hub.count (h : Hub) (b : String) : Nat :=
  (h.sessions.filter (fun s => s.backend = b && s.kind != HelloClientTypeInternal)).length

/-- `processRegister` with an `auth` response (`Backend.AddSession`, table insert, hello reply). -/
def register (h : Hub) (c : Nat) (b : Backend) (kind user : String) : Hub × Reply :=
  if kind ≠ HelloClientTypeInternal ∧ b.limit > 0 ∧ h.count b.id ≥ b.limit then
    (h, .error (errCode "SessionLimitExceeded"))
  else
    ({ h with sessions := h.sessions ++ [{ sid := h.nextSid, backend := b.id, kind := kind, user := user, conn := some c }],
              nextSid := h.nextSid + 1 },
     .hello h.nextSid b.id kind user)

/-- resume branch of `processHello` -/
def helloResume (now : Int) (h : Hub) (c : Nat) (m : Hello) : Hub × Reply :=
  let k := h.tkey c
  let r := Throttle.check h.thr now k "HelloResume"
  if r.2 then ({ h with thr := r.1 }, .error (errCode "TooManyRequests"))
  else if !m.resume.decodes then
    ({ h with thr := (Throttle.throttle r.1 now k "HelloResume").1 }, .error (errCode "NoSuchSession"))
  else
    match m.resume.exact.bind (fun sid => h.sessions.find? (fun s => s.sid = sid)) with
    | none => ({ h with thr := r.1 }, .error (errCode "NoSuchSession"))
    | some s =>
      ({ h with thr := r.1,
                sessions := h.sessions.map (fun x => if x.sid = s.sid then { x with conn := some c } else x),
                conns := match s.conn with
                  | some p => h.conns.filter (fun q => q.1 ≠ p)
                  | none => h.conns },
       .hello s.sid s.backend s.kind s.user)

/-- `processHelloV1` + `processRegister` -/
def helloV1 (cfg : Cfg) (h : Hub) (c : Nat) (m : Hello) : Hub × Reply :=
  match getBackend cfg m.url with
  | none => (h, .error (errCode "InvalidBackendUrl"))
  | some b =>
    match m.v1ans with
    | .fail => (h, .error "internal_error")
    | .error code => (h, .error code)
    | .other => (h, .error (errCode "UserAuthFailed"))
    | .auth user => register h c b (effType m) user

/-- `processHelloV2` + `processRegister` -/
def helloV2 (cfg : Cfg) (env : Env) (now : Int) (h : Hub) (c : Nat) (m : Hello) : Hub × Reply :=
  match getBackend cfg m.url with
  | none => (h, .error (errCode "InvalidBackendUrl"))
  | some b =>
    if effType m = HelloClientTypeFederation ∧ ((env.tenant m.url.srv).map (·.fed)).getD false = false then
      (h, .error (errCode "ErrFederationNotSupported"))
    else
      match jwtParse env m.url.srv now m.tok with
      | some e => (h, .error (errCode e))
      | none =>
        match hubTimeCheck now m.tok with
        | some e => (h, .error (errCode e))
        | none => register h c b (effType m) m.tok.sub

/-- `processHelloInternal` -/
def helloInternal (cfg : Cfg) (now : Int) (h : Hub) (c : Nat) (m : Hello) : Hub × Reply :=
  if !cfg.secretSet then (h, .error (errCode internalSecretGuardError))
  else
    let k := h.tkey c
    let r := Throttle.check h.thr now k "HelloInternal"
    if r.2 then ({ h with thr := r.1 }, .error (errCode "TooManyRequests"))
    else if decide (m.rnd.utf8ByteSize < minTokenRandomLength) || !m.tokenOk then
      ({ h with thr := (Throttle.throttle r.1 now k "HelloInternal").1 }, .error (errCode "InvalidToken"))
    else
      match getBackend cfg m.burl with
      | none => ({ h with thr := (Throttle.throttle r.1 now k "HelloInternal").1 }, .error (errCode "InvalidBackendUrl"))
      | some b => register { h with thr := r.1 } c b HelloClientTypeInternal ""

/-- `processHello` for a connection without session and a message that passed `CheckValid`. -/
def processHello (cfg : Cfg) (env : Env) (now : Int) (h : Hub) (c : Nat) (m : Hello) : Hub × Reply :=
  if m.resume.present then helloResume now h c m
  else
    let ty := effType m
    if ty = HelloClientTypeClient ∨ ty = HelloClientTypeFederation then
      if m.version = HelloVersionV1 then helloV1 cfg h c m
      else if m.version = HelloVersionV2 then helloV2 cfg env now h c m
      else (h, .error (errCode "InvalidHelloVersion"))
    else if ty = HelloClientTypeInternal then helloInternal cfg now h c m
    else (h, .error (errCode clientTypeDefaultError))

/-! ## operations -/

inductive Shape where
  /-- not JSON / not a text frame: `UnmarshalJSON` fails -/
  | undecodable
  /-- decodes, `CheckValid` fails -/
  | invalid
  /-- decodes and passes `CheckValid` -/
  | valid
  deriving DecidableEq, Repr

inductive Op where
  | connect (c : Nat) (addr : Throttle.Addr)
  | disconnect (c : Nat)
  /-- a decodable message of type `hello` with a `hello` member -/
  | hello (c : Nat) (m : Hello)
  /-- any other frame: type `ty` (whatever the client wrote), decodable or not, valid or not -/
  | msg (c : Nat) (ty : String) (shape : Shape)
  /-- `bye` on a connection -/
  | bye (c : Nat)

/-- A frame that is not a valid hello. -/
def Op.isOther : Op → Bool
  | .msg _ ty shape => ty ≠ preAuthOnlyType || shape ≠ .valid
  | _ => false

def step (cfg : Cfg) (env : Env) (now : Int) (h : Hub) : Op → Hub × Reply
  | .connect c addr =>
    if h.isOpen c then (h, .closed) else ({ h with conns := h.conns ++ [(c, addr)] }, .welcome)
  | .disconnect c =>
    if !h.isOpen c then (h, .closed)
    else ({ h with conns := h.conns.filter (fun q => q.1 ≠ c),
                   sessions := h.sessions.map (fun s => if s.conn = some c then { s with conn := none } else s) }, .done)
  | .hello c m =>
    if !h.isOpen c then (h, .closed)
    else
      match checkValid m with
      | some e => (h, .error (errCode e))
      | none =>
        match h.sessionOf c with
        | some _ => (h, .ignored)
        | none => processHello cfg env now h c m
  | .msg c ty shape =>
    if !h.isOpen c then (h, .closed)
    else
      match h.sessionOf c with
      | some _ => (h, .ignored)     -- authenticated connections are outside this model; the harness does not send
      | none =>
        match shape with
        | .undecodable => (h, .error (errCode "InvalidFormat"))
        | .invalid => (h, .error (errCode "InvalidFormat"))
        | .valid => if ty ≠ preAuthOnlyType then (h, .error (errCode preAuthError)) else (h, .ignored)
  | .bye c =>
    if !h.isOpen c then (h, .closed)
    else
      match h.sessionOf c with
      | none => (h, .error (errCode preAuthError))
      | some s =>
        ({ h with sessions := h.sessions.filter (fun x => x.sid ≠ s.sid),
                  conns := h.conns.filter (fun q => q.1 ≠ c) }, .bye)

/-! ## critical sections of the hello path

The functions above are sequential: "look the session up, compare the id, attach the connection"
is one step of `helloResume`.  The source does the same only while these statements sit inside one
critical section of `Hub.mu`.  `Generated.Auth.resumePaths` lists, per control-flow path of the resume
branch, the critical sections with the events inside them; `resumeShape` reads off which of the two
shapes below the source has, and `resumeConc` is the resume branch run against an adversary that may
change the hub wherever the mutex is not held. -/

abbrev LockPath := List (String × List String)

def LockPath.has (p : LockPath) (e : String) : Bool := p.any (fun s => s.2.contains e)

/-- no section is still held when the path returns (`W!` / `R!` mark a leaked lock) -/
def LockPath.released (p : LockPath) : Bool := p.all (fun s => s.1 == "W" || s.1 == "R" || s.1 == "-")

/-- `e` does not occur before section `s` nor inside it -/
def LockPath.onlyAfter (p : LockPath) (s : String × List String) (e : String) : Bool :=
  !s.2.contains e && !(p.takeWhile (fun t => t != s)).any (fun t => t.2.contains e)

def resumeLookupEvents : List String := ["lookup:sessions", "check:privateId", "check:clientSession", "check:connected"]
def resumeAttachEvents : List String := ["attach:SetClient", "delete:expiredSessions", "store:clients", "delete:expectHelloClients"]

/-- the sections of a path that look the session up, check it or attach the connection -/
def resumeCore (p : LockPath) : LockPath :=
  p.filter (fun s => (resumeLookupEvents ++ resumeAttachEvents).any s.2.contains)

inductive ResumeShape where
  /-- lookup, checks and attach inside one critical section held for writing, the reply after it -/
  | one
  /-- the connection is attached in a later section than the one that looked the session up -/
  | split
  /-- not understood -/
  | other
  deriving DecidableEq, Repr

/-- a path that attaches the connection or answers with a session -/
def LockPath.resumes (p : LockPath) : Bool := p.has "reply:hello" || resumeAttachEvents.any p.has

def pathShape (p : LockPath) : ResumeShape :=
  match resumeCore p with
  | [s] =>
    if s.1 == "W" && (resumeLookupEvents ++ ["attach:SetClient"]).isSublist s.2 && resumeAttachEvents.all s.2.contains
        && p.onlyAfter s "reply:hello" && p.has "reply:hello" then .one
    else .other
  | _ :: _ :: _ => if p.has "lookup:sessions" then .split else .other
  | [] => .other

/-- the shape of the resume branch: `one` if every path that attaches has it (and there is one),
`split` as soon as one path attaches in a later section -/
def resumeShapeOf (paths : List LockPath) : ResumeShape :=
  let rs := (paths.filter (·.resumes)).map pathShape
  if rs.contains .split then .split
  else if rs.isEmpty || rs.contains .other || !paths.all (·.released) then .other
  else .one

def resumeShape : ResumeShape := resumeShapeOf resumePaths

/-- The resume branch against an adversary: `mid` is whatever other connections, the housekeeping
or the backend do to the hub between the section that looks the session up and the one that
attaches the connection (nothing can happen inside a section).  Shape `one` has no such place. -/
def resumeConc (shape : ResumeShape) (mid : Hub → Hub) (now : Int) (h : Hub) (c : Nat) (m : Hello) : Hub × Reply :=
  match shape with
  | .split =>
    let k := h.tkey c
    let r := Throttle.check h.thr now k "HelloResume"
    if r.2 then ({ h with thr := r.1 }, .error (errCode "TooManyRequests"))
    else if !m.resume.decodes then
      ({ h with thr := (Throttle.throttle r.1 now k "HelloResume").1 }, .error (errCode "NoSuchSession"))
    else
      match m.resume.exact.bind (fun sid => h.sessions.find? (fun s => s.sid = sid)) with
      | none => ({ h with thr := r.1 }, .error (errCode "NoSuchSession"))
      | some s =>
        let h' := mid { h with thr := r.1 }
        ({ h' with sessions := h'.sessions.map (fun x => if x.sid = s.sid then { x with conn := some c } else x),
                   conns := match s.conn with
                     | some p => h'.conns.filter (fun q => q.1 ≠ p)
                     | none => h'.conns },
         .hello s.sid s.backend s.kind s.user)
  | _ => helloResume now h c m

/-- `Session.Close()` of session `sid` by the hub itself (expiry, kick): the session leaves the table,
its connection — if it has one — stays open without session. -/
def endSession (h : Hub) (sid : Nat) : Hub := { h with sessions := h.sessions.filter (fun x => x.sid ≠ sid) }

/-- At rest after a hello with the resume id of session `sid` on connection `c` and the end of that session
(`bye` on its connection `o`, or the hub closing it), in whichever order: the session is gone, `o` is closed,
`c` is open without session; the throttle table has seen the resume's check. -/
def raceRest (now : Int) (h : Hub) (c sid : Nat) (o : Option Nat) : Hub :=
  let r := Throttle.check h.thr now (h.tkey c) "HelloResume"
  let h1 := endSession { h with thr := r.1 } sid
  match o with
  | some p => { h1 with conns := h1.conns.filter (fun q => q.1 ≠ p) }
  | none => h1

def run (cfg : Cfg) (env : Env) (now : Int) (h : Hub) : List Op → Hub × List Reply
  | [] => (h, [])
  | op :: ops =>
    let r := step cfg env now h op
    let rs := run cfg env now r.1 ops
    (rs.1, r.2 :: rs.2)

end SigModel.Auth
