/-
Model of /repo/throttle.go (memoryThrottler): C17.

Times are Go `time.Int`/`time.Duration` values in nanoseconds, as unbounded
`Int` (saturation of `Int.Sub` at ±292 years is not modelled).  The constants
come from `Generated/Throttle.lean`, which the extractor rewrites from the
current source on every run.

State: `clients[key][action] : []throttleEntry` becomes a total function
`Key → Action → List Int` (`[]` = map entry absent; the Go code never stores an
empty slice, see `setEntries`/`cleanup`).
-/
import SigModel.Generated.Throttle

namespace SigModel.Throttle
open SigModel.Generated.Throttle

-- Times and durations are `Int` nanoseconds (no abbrev: `omega` must see `Int`).

/-- A comparison operator as extracted from the source text. -/
def cmpInt (op : String) (a b : Int) : Bool :=
  if op = "<=" then decide (a ≤ b) else if op = "<" then decide (a < b)
  else if op = ">=" then decide (a ≥ b) else if op = ">" then decide (a > b) else false

def cmpNat (op : String) (a b : Nat) : Bool := cmpInt op a b

/-! ### getThrottleIp -/

/-- What `net.ParseIP` makes of the address string (computed by the harness with
the standard library, not by the code under test). -/
inductive Addr where
  | raw (s : String)                 -- unparsable, IPv4, or IPv4-in-IPv6: key is the string itself
  | v6 (bytes : List Nat)            -- 16 bytes of a genuine IPv6 address
  deriving DecidableEq, Repr

inductive Key where
  | str (s : String)
  | net64 (pfx : List Nat)           -- first 8 bytes (the /64), rest zero
  deriving DecidableEq, Repr

def throttleKey : Addr → Key
  | .raw s => .str s
  | .v6 bs => .net64 (bs.take (subnetBits / 8))

/-! ### getDelay -/

def intPow (n m : Nat) : Nat :=
  if m = 0 then 1 else n ^ m   -- `result := n; for i := 2; i <= m; i++ { result *= n }`

/-- `getDelay` over unbounded integers (ns). -/
def getDelay (count : Nat) : Nat :=
  if count > overflowGuard then maxThrottleDelay
  else
    let d := delayFactor * intPow powBase count * delayUnit
    if d > maxThrottleDelay then maxThrottleDelay else d

/-- The loop of `intPow` on Go's 64-bit `int` (wrap-around multiplication). -/
def intPowLoop64 (n : BitVec 64) : Nat → BitVec 64 → BitVec 64
  | 0, acc => acc
  | k+1, acc => intPowLoop64 n k (acc * n)

def intPow64 (n : BitVec 64) (m : Nat) : BitVec 64 :=
  if m = 0 then 1#64 else intPowLoop64 n (m - 1) n

/-- `getDelay` as the machine computes it: `int`/`time.Duration` are int64 and
wrap; comparisons are signed. -/
def getDelay64 (count : Nat) : BitVec 64 :=
  if count > overflowGuard then BitVec.ofNat 64 maxThrottleDelay
  else
    let d := (BitVec.ofNat 64 delayFactor * intPow64 (BitVec.ofNat 64 powBase) count)
               * BitVec.ofNat 64 delayUnit
    if (BitVec.ofNat 64 maxThrottleDelay).slt d then BitVec.ofNat 64 maxThrottleDelay else d

/-! ### entries -/

abbrev Action := String
abbrev State := Key → Action → List Int

def State.empty : State := fun _ _ => []

def State.set (st : State) (k : Key) (a : Action) (es : List Int) : State :=
  fun k' a' => if k' = k ∧ a' = a then es else st k' a'

/-- `filterEntries`: drop the longest prefix of entries older than `maxBruteforceAge`. -/
def filterEntries (now : Int) : List Int → List Int
  | [] => []
  | e :: es => if cmpInt ageCmp (now - e) (maxBruteforceAge : Int) then filterEntries now es else e :: es

/-- The refusal test of `CheckBruteforce`. -/
def blocked (now : Int) (es : List Int) : Bool :=
  let l := es.length
  if cmpNat attemptsCmp l maxBruteforceAttempts then
    match es[l - maxBruteforceAttempts]? with
    | some t => cmpInt windowCmp (now - t) (maxBruteforceDurationThreshold : Int)
    | none => false
  else false

/-- `CheckBruteforce` (without the returned closure): refusal and new state. -/
def check (st : State) (now : Int) (k : Key) (a : Action) : State × Bool :=
  let es := st k a
  if es = [] then (st, false)
  else if blocked now es then (st, true)
  else (st.set k a (filterEntries now es), false)

/-- `throttle`: called by the caller only for a failed, non-refused attempt;
`now` is the time captured by the preceding `CheckBruteforce`. -/
def throttle (st : State) (now : Int) (k : Key) (a : Action) : State × Nat :=
  let es := st k a ++ [now]
  (st.set k a es, getDelay (es.length - 1))

/-- `cleanup(now)` of the housekeeping goroutine. -/
def cleanup (st : State) (now : Int) : State :=
  fun k a => filterEntries now (st k a)

/-! ### operations as seen by the correspondence harness -/

inductive Op where
  /-- a whole attempt: CheckBruteforce, then (if not refused and `failed`) throttle -/
  | attempt (now : Int) (addr : Addr) (a : Action) (failed : Bool)
  | cleanup (now : Int)
  /-- two-phase variant (check now, throttle later with the captured time) -/
  | checkOnly (now : Int) (addr : Addr) (a : Action)
  | throttleOnly (now : Int) (addr : Addr) (a : Action)
  deriving Repr

inductive Out where
  | refused
  | passed                      -- not refused, attempt succeeded: nothing recorded
  | delayed (ns : Nat)          -- not refused, failed: reply delayed by ns
  | none
  deriving DecidableEq, Repr

def step (st : State) : Op → State × Out
  | .attempt now addr a failed =>
    let k := throttleKey addr
    let (st1, r) := check st now k a
    if r then (st1, .refused)
    else if failed then
      let (st2, d) := throttle st1 now k a
      (st2, .delayed d)
    else (st1, .passed)
  | .cleanup now => (cleanup st now, .none)
  | .checkOnly now addr a =>
    let (st1, r) := check st now (throttleKey addr) a
    (st1, if r then .refused else .passed)
  | .throttleOnly now addr a =>
    let (st1, d) := throttle st now (throttleKey addr) a
    (st1, .delayed d)

def run (st : State) : List Op → State × List Out
  | [] => (st, [])
  | op :: ops =>
    let (st1, o) := step st op
    let (st2, os) := run st1 ops
    (st2, o :: os)

end SigModel.Throttle
