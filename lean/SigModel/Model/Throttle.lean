/-
Model of /repo/throttle.go (memoryThrottler): C17.

Times are Go `time.Int`/`time.Duration` values in nanoseconds, as unbounded
`Int` (saturation of `Int.Sub` at ±292 years is not modelled).  The constants
come from `Generated/Throttle.lean`, which the extractor rewrites from the
current source on every run.

State: `clients[key][action] : []throttleEntry` becomes a total function
`Key → Action → List Int` (`[]` = map entry absent; the Go code never stores an
empty slice, see `pruneEntries`/`cleanup`).
-/
import SigModel.Generated.Throttle
import SigModel.Generated.ThrottleSites

namespace SigModel.Throttle
open SigModel.Generated.Throttle

-- Times and durations are `Int` nanoseconds (no abbrev: `omega` must see `Int`).

/-- A comparison operator as extracted from the source text. -/
def cmpInt (op : String) (a b : Int) : Bool :=
  if op = "<=" then decide (a ≤ b) else if op = "<" then decide (a < b)
  else if op = ">=" then decide (a ≥ b) else if op = ">" then decide (a > b) else false

def cmpNat (op : String) (a b : Nat) : Bool := cmpInt op a b

/-! ### getThrottleIp -/

/-- What `net.ParseIP` makes of the address string (computed by the harness with
the standard library, not by the code under test). -/
inductive Addr where
  | raw (s : String)                 -- unparsable, IPv4, or IPv4-in-IPv6: key is the string itself
  | v6 (bytes : List Nat)            -- 16 bytes of a genuine IPv6 address
  deriving DecidableEq, Repr

inductive Key where
  | str (s : String)
  | net64 (pfx : List Nat)           -- first 8 bytes (the /64), rest zero
  deriving DecidableEq, Repr

def throttleKey : Addr → Key
  | .raw s => .str s
  | .v6 bs => .net64 (bs.take (subnetBits / 8))

/-! ### getDelay -/

def intPow (n m : Nat) : Nat :=
  if m = 0 then 1 else n ^ m   -- `result := n; for i := 2; i <= m; i++ { result *= n }`

/-- `getDelay` over unbounded integers (ns). -/
def getDelay (count : Nat) : Nat :=
  if count > overflowGuard then maxThrottleDelay
  else
    let d := delayFactor * intPow powBase count * delayUnit
    if d > maxThrottleDelay then maxThrottleDelay else d

/-- The loop of `intPow` on Go's 64-bit `int` (wrap-around multiplication). -/
def intPowLoop64 (n : BitVec 64) : Nat → BitVec 64 → BitVec 64
  | 0, acc => acc
  | k+1, acc => intPowLoop64 n k (acc * n)

def intPow64 (n : BitVec 64) (m : Nat) : BitVec 64 :=
  if m = 0 then 1#64 else intPowLoop64 n (m - 1) n

/-- `getDelay` as the machine computes it: `int`/`time.Duration` are int64 and
wrap; comparisons are signed. -/
def getDelay64 (count : Nat) : BitVec 64 :=
  if count > overflowGuard then BitVec.ofNat 64 maxThrottleDelay
  else
    let d := (BitVec.ofNat 64 delayFactor * intPow64 (BitVec.ofNat 64 powBase) count)
               * BitVec.ofNat 64 delayUnit
    if (BitVec.ofNat 64 maxThrottleDelay).slt d then BitVec.ofNat 64 maxThrottleDelay else d

/-! ### entries -/

abbrev Action := String
abbrev State := Key → Action → List Int

def State.empty : State := fun _ _ => []

def State.set (st : State) (k : Key) (a : Action) (es : List Int) : State :=
  fun k' a' => if k' = k ∧ a' = a then es else st k' a'

/-- `filterEntries`: drop the longest prefix of entries older than `maxBruteforceAge`. -/
def filterEntries (now : Int) : List Int → List Int
  | [] => []
  | e :: es => if cmpInt ageCmp (now - e) (maxBruteforceAge : Int) then filterEntries now es else e :: es

/-- The refusal test of `CheckBruteforce`. -/
def blocked (now : Int) (es : List Int) : Bool :=
  let l := es.length
  if cmpNat attemptsCmp l maxBruteforceAttempts then
    match es[l - maxBruteforceAttempts]? with
    | some t => cmpInt windowCmp (now - t) (maxBruteforceDurationThreshold : Int)
    | none => false
  else false

/-- `CheckBruteforce` (without the returned closure): refusal and new state. -/
def check (st : State) (now : Int) (k : Key) (a : Action) : State × Bool :=
  let es := st k a
  if es = [] then (st, false)
  else if blocked now es then (st, true)
  else (st.set k a (filterEntries now es), false)

/-- `throttle`: called by the caller only for a failed, non-refused attempt;
`now` is the time captured by the preceding `CheckBruteforce`. -/
def throttle (st : State) (now : Int) (k : Key) (a : Action) : State × Nat :=
  let es := st k a ++ [now]
  (st.set k a es, getDelay (es.length - 1))

/-- `cleanup(now)` of the housekeeping goroutine. -/
def cleanup (st : State) (now : Int) : State :=
  fun k a => filterEntries now (st k a)

/-! ### critical sections (regenerated) and interleavings

`Generated.Throttle.*Paths` list, per control-flow path of a method, the critical sections of the
throttler's mutex it goes through and the kinds of access to the failure table made inside each.
The sequential model above treats `check`, `throttle` and `cleanup` as single steps; the definitions
below interpret the regenerated sections as programs of concurrent threads, so that "no interleaving of
concurrent checks and failures loses a record" is a theorem about the sections the source really has
(`Props/C17.lean`, section 6). -/

inductive Acc where
  | read      -- local copy := the shared entry list
  | write     -- shared entry list := what the thread computes from its local copy
  | other     -- an access kind the model does not know (makes the fact theorems fail)
  deriving DecidableEq, Repr

def Acc.ofString (s : String) : Acc :=
  if s = "read" then .read else if s = "write" then .write else .other

/-- A program: the critical sections of one path, each a list of accesses. Sections of one mutex are
atomic with respect to each other (read-only sections under the read lock commute with each other). -/
abbrev Prog := List (List Acc)

def progOf (path : List (String × List String)) : Prog := path.map fun sec => sec.2.map Acc.ofString

/-- Every section is taken under the mutex, and every section that writes holds the write lock. -/
def wellLocked (paths : List (List (String × List String))) : Bool :=
  !paths.isEmpty && paths.all fun p => p.all fun sec =>
    (sec.1 == "W" || sec.1 == "R") && (!sec.2.contains "write" || sec.1 == "W") &&
      sec.2.all fun a => a == "read" || a == "write"

/-- The programs a thread inside `addEntry` may follow (one per control-flow path). -/
def addEntryProgs : List Prog := addEntryPaths.map progOf

/-- The programs a thread inside `CheckBruteforce` may follow.  If some function that touches the table
is handed an entry list from outside (`tableAccessorsWithListParam`), what later sections write is that
list — read in the *first* section — and their own reads do not refresh it. -/
def checkProgs : List Prog :=
  checkBruteforcePaths.map fun path =>
    if tableAccessorsWithListParam.isEmpty then progOf path
    else match progOf path with
      | [] => []
      | first :: later => first :: later.map fun sec => sec.filter (· ≠ .read)

/-- What a thread is doing: recording the failure `entry` (`addEntry`), or pruning at time `now`
(the write of `CheckBruteforce`). -/
inductive Job where
  | record (entry : Int)
  | prune (now : Int)
  deriving DecidableEq, Repr

def Job.isRecord : Job → Bool
  | .record _ => true
  | .prune _ => false

structure Thr where
  job : Job
  todo : Prog
  loc : List Int := []
  deriving Repr, DecidableEq

/-- `shared` = `clients[key][action]`; `log` is a ghost variable: every entry ever appended, in order
(what the never-forgetting spec would remember). -/
structure Conc where
  shared : List Int
  log : List Int := []
  thr : List Thr
  deriving Repr, DecidableEq

structure Mem where
  shared : List Int
  log : List Int
  loc : List Int

def runAcc (job : Job) (m : Mem) : Acc → Mem
  | .read => { m with loc := m.shared }
  | .write =>
    match job with
    | .record e => { m with shared := m.loc ++ [e], log := m.log ++ [e] }
    | .prune now => { m with shared := filterEntries now m.loc }
  | .other => m

def runSection (job : Job) (m : Mem) (sec : List Acc) : Mem := sec.foldl (runAcc job) m

/-- The scheduler lets thread `i` run its next critical section. -/
def Conc.sched (c : Conc) (i : Nat) : Conc :=
  match c.thr[i]? with
  | some t =>
    match t.todo with
    | sec :: rest =>
      let r := runSection t.job ⟨c.shared, c.log, t.loc⟩ sec
      { shared := r.shared, log := r.log, thr := c.thr.set i { t with todo := rest, loc := r.loc } }
    | [] => c
  | none => c

def Conc.run (c : Conc) (schedule : List Nat) : Conc := schedule.foldl Conc.sched c

/-- Threads that still have a section to run. -/
def Conc.pending (c : Conc) : Nat := c.thr.countP fun t => !t.todo.isEmpty

/-- Recording threads that have not recorded yet. -/
def Conc.pendingRec (c : Conc) : Nat := c.thr.countP fun t => t.job.isRecord && !t.todo.isEmpty

/-- Threads `(job, program)` about to start on the entry list `init`. -/
def Conc.start (init : List Int) (ts : List (Job × Prog)) : Conc :=
  { shared := init, thr := ts.map fun jp => { job := jp.1, todo := jp.2 } }

/-! ### operations as seen by the correspondence harness -/

inductive Op where
  /-- a whole attempt: CheckBruteforce, then (if not refused and `failed`) throttle -/
  | attempt (now : Int) (addr : Addr) (a : Action) (failed : Bool)
  | cleanup (now : Int)
  /-- two-phase variant (check now, throttle later with the captured time) -/
  | checkOnly (now : Int) (addr : Addr) (a : Action)
  | throttleOnly (now : Int) (addr : Addr) (a : Action)
  /-- `n` connections from one address pass CheckBruteforce (at `now`), then all fail at once: their
  `throttle` calls run concurrently — and concurrently with further checks of that address made at
  `now + dt`.  Observed at rest, at `now + dt`. -/
  | par (now : Int) (addr : Addr) (a : Action) (n : Nat) (dt : Nat)
  deriving Repr

inductive Out where
  | refused
  | passed                      -- not refused, attempt succeeded: nothing recorded
  | delayed (ns : Nat)          -- not refused, failed: reply delayed by ns
  | none
  /-- state at rest after a `par`: how many were let through, number of records of the key/kind not
  older than twelve hours, whether a further attempt is refused, the delays (ascending) -/
  | rest (passed : Nat) (records : Nat) (blocked : Bool) (delays : List Nat)
  deriving DecidableEq, Repr

/-- Records of a list that are not older than `maxBruteforceAge` at `now`. -/
def youngCount (now : Int) (es : List Int) : Nat :=
  (es.filter fun t => !cmpInt ageCmp (now - t) (maxBruteforceAge : Int)).length

/-- `par`: the checks at `now` come first (only the first one can prune), then — no interleaving of
the concurrent `throttle` calls and checks loses a record (`C17_concurrent_no_record_lost`) — the `n`
failures, all carrying the time `now`, are appended, and what is left at rest is what a check at
`now + dt` makes of that list. -/
def par (st : State) (now : Int) (k : Key) (a : Action) (n dt : Nat) : State × Out :=
  let (st1, r) := check st now k a
  let p := if r then 0 else n          -- refused: nobody gets as far as failing
  let es0 := st1 k a
  let st2 := st1.set k a (es0 ++ List.replicate p now)
  let (st3, r') := check st2 (now + dt) k a
  (st3, .rest p (youngCount (now + dt) (st3 k a)) r' ((List.range p).map fun i => getDelay (es0.length + i)))

def step (st : State) : Op → State × Out
  | .attempt now addr a failed =>
    let k := throttleKey addr
    let (st1, r) := check st now k a
    if r then (st1, .refused)
    else if failed then
      let (st2, d) := throttle st1 now k a
      (st2, .delayed d)
    else (st1, .passed)
  | .cleanup now => (cleanup st now, .none)
  | .checkOnly now addr a =>
    let (st1, r) := check st now (throttleKey addr) a
    (st1, if r then .refused else .passed)
  | .throttleOnly now addr a =>
    let (st1, d) := throttle st now (throttleKey addr) a
    (st1, .delayed d)
  | .par now addr a n dt => par st now (throttleKey addr) a n dt

def run (st : State) : List Op → State × List Out
  | [] => (st, [])
  | op :: ops =>
    let (st1, o) := step st op
    let (st2, os) := run st1 ops
    (st2, o :: os)

/-! ### the call sites (regenerated)

The throttler decides nothing by itself: three handlers consult it — the room API (`BackendRoomAuth`,
backend_server.go `roomHandler`), the internal hello (`HelloInternal`, hub.go `processHelloInternal`) and the
resuming hello (`HelloResume`, hub.go `processHello`).  `Generated.ThrottleSites.*SitePaths` list, for each
handler, every control-flow path as the sequence of its events (see tools/extract/throttlesites.go): the
consultation `("check", action)`, the branch on `ErrBruteforceDetected` `("blocked", "+"/"-")`, the call of
the returned function `("throttle", "")`, the answers `("reply", …)`, and — up to the consultation — every
call made.  The predicates below are the three things the statement needs from a call site; the model of
a handled attempt (`siteAttempt`) is defined over their values. -/

abbrev Ev := String × String
abbrev SitePath := List Ev

/-- What is expected of one call site (reviewed by hand, against the statement). -/
structure SiteSpec where
  action : String
  /-- the answer a blocked address gets -/
  refusal : String
  /-- the answers that tell the peer its credential was rejected -/
  rejected : List String
  /-- events after which a rejection is deliberately not counted as a failure (resume: the id was
  well-formed and the session table was looked at — a session that has expired meanwhile) -/
  exempt : List Ev
  /-- what may happen before the throttler is consulted -/
  before : List Ev
  /-- what a path that never consults the throttler may do: nothing that looks at the credential -/
  unchecked : List Ev

def isCheck (e : Ev) : Bool := e.1 == "check"

/-- Events before / after the (first) consultation. -/
def SitePath.pre (p : SitePath) : SitePath := p.takeWhile fun e => !isCheck e
def SitePath.post (p : SitePath) : SitePath := (p.dropWhile fun e => !isCheck e).drop 1

def SitePath.throttles (p : SitePath) : Nat := p.countP fun e => e.1 == "throttle"

/-- The path ends in a rejection of the credential that counts as a failure. -/
def SitePath.rejected (s : SiteSpec) (p : SitePath) : Bool :=
  p.post.any (fun e => e.1 == "reply" && s.rejected.contains e.2) && !p.post.any fun e => s.exempt.contains e

/-- **The throttler is consulted before the credential is looked at**: a path that consults it does so
once, for the site's own kind of attempt, after nothing but harmless calls; a path that does not, does
nothing but what `unchecked` lists and never answers "rejected". -/
def pathConsultsFirst (s : SiteSpec) (p : SitePath) : Bool :=
  match p.find? isCheck with
  | some c => c.2 == s.action && p.pre.all (fun e => s.before.contains e) && !p.post.any isCheck
  | none => p.all fun e => s.unchecked.contains e || e.1 == "return" ||
      (e.1 == "reply" && !s.rejected.contains e.2 && e.2 != s.refusal)

def consultsFirst (s : SiteSpec) (paths : List SitePath) : Bool :=
  paths.all (pathConsultsFirst s) && paths.any fun p => p.any isCheck

/-- **A blocked address is refused, whatever it presents**: the first thing after the consultation is
the test for `ErrBruteforceDetected`, and the branch taken when it holds answers with the refusal and
returns — nothing else happens on it. -/
def pathRefuses (s : SiteSpec) (p : SitePath) : Bool :=
  if p.any isCheck then
    match p.post with
    | ("blocked", "+") :: rest => rest == [("reply", s.refusal), ("return", "")]
    | ("blocked", "-") :: rest => !rest.any fun e => e.1 == "blocked"
    | _ => false
  else true

def refusesBlocked (s : SiteSpec) (paths : List SitePath) : Bool :=
  paths.all (pathRefuses s) && paths.any fun p => p.post.head? == some ("blocked", "+")

/-- **A failure is recorded exactly when the attempt fails**: the function returned by the consultation
is called once — before the answer — on the paths that reject the credential, and on no other path; it
is not handed to code the analysis does not follow. -/
def pathCounts (s : SiteSpec) (p : SitePath) : Bool :=
  !p.any (fun e => e.1 == "escape" || e.1 == "?") &&
  if p.rejected s then
    p.throttles == 1 && (p.post.takeWhile fun e => !(e.1 == "reply")).any fun e => e.1 == "throttle"
  else p.throttles == 0

def countsFailures (s : SiteSpec) (paths : List SitePath) : Bool :=
  paths.all (pathCounts s) && paths.any (fun p => p.rejected s) &&
  -- there is a way through: consulted, not blocked, nothing recorded, no rejection
  paths.any fun p => p.post.head? == some ("blocked", "-") && !p.rejected s && p.throttles == 0 &&
    !p.post.any fun e => e.1 == "reply" && s.rejected.contains e.2

structure SiteCfg where
  consultsFirst : Bool
  refusesBlocked : Bool
  countsFailures : Bool
  deriving DecidableEq, Repr

def SiteCfg.guarded : SiteCfg := ⟨true, true, true⟩

def siteCfg (s : SiteSpec) (paths : List SitePath) : SiteCfg :=
  ⟨consultsFirst s paths, refusesBlocked s paths, countsFailures s paths⟩

/-- The answer given on the branch taken for a blocked address (what the model predicts for a refusal). -/
def refusalOf (paths : List SitePath) : String :=
  match paths.find? fun p => p.post.head? == some ("blocked", "+") with
  | some p => match p.post.find? fun e => e.1 == "reply" with
    | some e => e.2
    | none => "none"
  | none => "none"

def roomSpec : SiteSpec where
  action := "BackendRoomAuth"
  refusal := "http:429"
  rejected := ["http:403"]
  exempt := []
  before := [("call", "r.Context"), ("call", "b.hub.getRealUserIP")]
  unchecked := []

def internalSpec : SiteSpec where
  action := "HelloInternal"
  refusal := "error:too_many_requests"
  rejected := ["error:invalid_token", "error:invalid_backend"]
  exempt := []
  before := [("defer", "h.startExpectHello"), ("call", "context.TODO"), ("call", "client.RemoteAddr")]
  -- no secret for internal clients configured: nothing to guess
  unchecked := [("defer", "h.startExpectHello")]

def resumeSpec : SiteSpec where
  action := "HelloResume"
  refusal := "error:too_many_requests"
  rejected := ["error:no_such_session"]
  -- hub.go: "we don't throttle if the resume id syntax is valid but the session has expired already"
  exempt := [("lock", "h.mu")]
  before := [("call", "context.TODO"), ("call", "client.RemoteAddr")]
  -- a hello without resume id: handed on to the other kinds of hello
  unchecked := [("call", "context.TODO"), ("lock", "h.mu"), ("call", "h.mu.Unlock"), ("call", "h.processHelloClient"),
    ("call", "h.processHelloInternal"), ("call", "h.startExpectHello")]

open SigModel.Generated.ThrottleSites in
/-- The three call sites as the source has them now. -/
def sites : List (SiteSpec × List SitePath) :=
  [(roomSpec, roomSitePaths), (internalSpec, internalSitePaths), (resumeSpec, resumeSitePaths)]

def siteOf (a : Action) : Option (SiteSpec × List SitePath) := sites.find? fun sp => sp.1.action == a

/-- **One attempt as a handler treats it.**  `failed` = the credential is one the handler rejects.  A
handler that consults the throttler first sees a blocked address before it looks at the credential; one
that does not only gets to the throttler once it has found the credential bad.  With all three facts
this is `step (.attempt …)` (`C17_site_is_attempt`). -/
def siteAttempt (c : SiteCfg) (st : State) (now : Int) (addr : Addr) (a : Action) (failed : Bool) : State × Out :=
  let k := throttleKey addr
  if c.consultsFirst || failed then
    let (st1, r) := check st now k a
    if r && c.refusesBlocked then (st1, .refused)
    else if failed then
      if c.countsFailures then
        let (st2, d) := throttle st1 now k a
        (st2, .delayed d)
      else (st1, .passed)
    else (st1, .passed)
  else (st, .passed)

def siteRun (c : SiteCfg) (st : State) : List (Int × Addr × Action × Bool) → State × List Out
  | [] => (st, [])
  | (now, addr, a, failed) :: rest =>
    let (st1, o) := siteAttempt c st now addr a failed
    let (st2, os) := siteRun c st1 rest
    (st2, o :: os)

/-- Which credentials the handlers reject (as the code has it; the exemption of `resumeSpec` makes a
well-formed id of a session that is gone a non-failure). -/
def credFails (a : Action) (cred : String) : Option Bool :=
  if a = "BackendRoomAuth" then
    if cred = "good" ∨ cred = "goodold" then some false
    else if cred = "bad" ∨ cred = "nobackend" ∨ cred = "badold" then some true else none
  else if a = "HelloInternal" then
    if cred = "good" then some false
    else if cred = "bad" ∨ cred = "short" ∨ cred = "nobackend" then some true else none
  else if a = "HelloResume" then
    if cred = "good" ∨ cred = "stale" then some false else if cred = "bad" then some true else none
  else none

/-- The answer a non-blocked attempt gets. -/
def credAnswer (a : Action) (cred : String) : String :=
  if a = "BackendRoomAuth" then (if cred = "good" ∨ cred = "goodold" then "http:200" else "http:403")
  else if a = "HelloInternal" then
    (if cred = "good" then "hello" else if cred = "nobackend" then "error:invalid_backend" else "error:invalid_token")
  else (if cred = "good" then "hello" else "error:no_such_session")

end SigModel.Throttle
