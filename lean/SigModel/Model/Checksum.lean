/-
Model of the backend request authentication: C02.

* `api_backend.go`: `CalculateBackendChecksum`, `ValidateBackendChecksumValue`,
  `AddBackendChecksum`, `newRandomString`;
* `backend_server.go`: `parseRequestBody` and the authentication part of `roomHandler`
  — the latter is *interpreted* from the list of decision statements the extractor reads
  from the source (`Generated.Checksum.roomHandlerSteps`), so that removing or reordering
  a statement changes the function the theorems are about;
* `backend_client.go`: `PerformJSONRequest` as far as the two headers are concerned.

* `backend_configuration.go` / `backend_storage_static.go` / `backend_storage_etcd.go`: which
  configured backend a URL belongs to (`getBackendLocked`; URLs stored by `getConfiguredHosts`
  resp. `EtcdKeyUpdated`), interpreted from the extracted statements, for URLs of the plain
  shape `http(s)://host/path`.

The MAC is a parameter (`Hmac.Mac`).  Which backend a `Spreed-Signaling-Backend` header
value resolves to is computed by `hdrOf` for plain URLs in a configuration with backend
URLs; for other values (`url.Parse` failures, escapes, dot segments, other schemes) and in
the compat modes it is an input (`Hdr`; the table itself is C13's subject).  Whether an authenticated body decodes into a valid,
supported room request is an input too (`bodyOk`): that is C11's subject.
-/
import SigModel.Basic.Hmac
import SigModel.Generated.Checksum

namespace SigModel.Checksum
open SigModel SigModel.Hmac SigModel.Generated.Checksum

structure Backend where
  id : String
  secret : Bytes
  deriving DecidableEq, Repr

/-! ### api_backend.go -/

/-- The bytes fed to the MAC, in the order of the `mac.Write` calls in the source. -/
def macInput (random body : Bytes) : Bytes :=
  (checksumWrites.map fun w => if w = "random" then random else if w = "body" then body else []).flatten

/-- `CalculateBackendChecksum`. -/
def checksumOf (mac : Mac) (random body secret : Bytes) : Bytes :=
  if checksumIsHexOfMac then Bytes.toHex (mac secret (macInput random body)) else mac secret (macInput random body)

/-- `ValidateBackendChecksumValue`: comparison of the whole strings. -/
def validate (mac : Mac) (checksum random body secret : Bytes) : Bool :=
  if validateComparesWholeStrings then checksumOf mac random body secret == checksum else false

/-- `newRandomString(length)` given the bytes `crypto/rand` delivered. -/
def newRandomString (length : Nat) (entropy : Bytes) : Bytes := Bytes.toHex (entropy.take (length / 2))

/-- `AddBackendChecksum`: the two header values. -/
def addChecksum (mac : Mac) (entropy body secret : Bytes) : Bytes × Bytes :=
  let rnd := newRandomString outgoingRandomLength entropy
  (rnd, checksumOf mac rnd body secret)

/-! ### backend_server.go -/

/-- What the `Spreed-Signaling-Backend` header amounts to. -/
inductive Hdr where
  | absent                      -- no header / empty value
  | unknown                     -- a value that does not parse or resolves to no backend
  | known (b : Backend)         -- resolves to backend `b`
  deriving DecidableEq, Repr

structure Cfg where
  compat : Option Backend       -- `GetCompatBackend()`
  backends : List Backend       -- `GetBackends()` (in the order the handler sees them)
  deriving Repr

/-- The authentication-relevant part of a request, header values as the handler reads them. -/
structure Req where
  hdr : Hdr
  random : Bytes
  checksum : Bytes
  body : Bytes
  deriving Repr

inductive Auth where
  | running (backend : Option Backend)     -- still deciding; `backend` = the local variable
  | forbidden                              -- throttle(…); 403; return
  | authenticated (b : Backend)            -- reached the JSON decoding with this backend
  | crash                                  -- `backend.Secret()` on nil
  | unknownStep (s : String)
  deriving DecidableEq, Repr

/-- One decision statement of `roomHandler`, by the name the extractor gave it. -/
def authStep (mac : Mac) (cfg : Cfg) (r : Req) (st : Auth) (step : String) : Auth :=
  match st with
  | .running backend =>
    if step = "bruteforce-check" ∨ step = "bruteforce-429" ∨ step = "read-backend-header" then st
    else if step = "backend-nil" then .running none
    else if step = "header:lookup-or-403" then
      match r.hdr with
      | .absent => st
      | .unknown => .forbidden
      | .known b => .running (some b)
    else if step = "noheader:compat-else-search-or-403" then
      match backend with
      | some _ => st
      | none =>
        let found := match cfg.compat with
          | some c => some c
          | none => cfg.backends.find? (fun b => validate mac r.checksum r.random r.body b.secret)
        match found with
        | some b => .running (some b)
        | none => .forbidden
    else if step = "validate-or-403" then
      match backend with
      | some b => if validate mac r.checksum r.random r.body b.secret then st else .forbidden
      | none => .crash
    else if step = "decode" then
      match backend with
      | some b => .authenticated b
      | none => .crash
    else .unknownStep step
  | _ => st

/-- `roomHandler` up to the JSON decoding. -/
def roomAuth (mac : Mac) (cfg : Cfg) (r : Req) : Auth :=
  roomHandlerSteps.foldl (authStep mac cfg r) (.running none)

/-- A publication on the event bus: backend-room subject of (room, backend). -/
structure Event where
  room : String
  backend : String
  deriving DecidableEq, Repr

structure Http where
  room : String
  contentLength : Option Nat     -- `none` = unknown (-1)
  contentTypeJson : Bool
  req : Req
  bodyOk : Bool                  -- decodes, passes `CheckValid`, supported type
  deriving Repr

structure Resp where
  status : Nat
  throttled : Bool := false      -- the failure was recorded with the throttler
  events : List Event := []
  deriving DecidableEq, Repr

/-- `parseRequestBody(roomHandler)`; an accepted request is a `message` request, which
publishes once on the backend-room subject of the authenticated backend. -/
def handle (mac : Mac) (cfg : Cfg) (h : Http) : Resp :=
  match h.contentLength with
  | none => { status := 411 }
  | some n =>
    if n > maxBodySize then { status := 413 }
    else if !h.contentTypeJson then { status := 400 }
    else if missingAuthHeadersForbidden ∧ (h.req.random.isEmpty ∨ h.req.checksum.isEmpty) then { status := 403 }
    else match roomAuth mac cfg h.req with
      | .forbidden => { status := 403, throttled := true }
      | .authenticated b =>
        if h.bodyOk then { status := 200, events := [⟨h.room, b.id⟩] } else { status := 400 }
      | _ => { status := 500 }

/-! ### backend_client.go -/

/-- `PerformJSONRequest`: the request carries the headers made by `AddBackendChecksum` with
the secret of `GetBackend(url)`; without a backend no request is sent. -/
def performRequest (mac : Mac) (target : Option Backend) (entropy body : Bytes) : Option (Bytes × Bytes) :=
  match target with
  | none => none
  | some b => if outgoingPostSitesSigned = outgoingPostSites then some (addChecksum mac entropy body b.secret) else none

/-! ### backend_configuration.go / backend_storage_static.go: which backend a URL belongs to

`BackendConfiguration.GetBackend` → `storage.GetBackend` → `getBackendLocked`, for URLs of the plain
shape `http(s)://host[:port]/path` without query, fragment, escapes or dot segments (`url.Parse` followed
by `u.String()` is then the identity; everything else stays an input, see `Hdr`).  Interpreted from the
extracted statement lists: the `'/'`-termination of the looked-up URL and the comparison in the loop (with
the entry's URL `'/'`-terminated as well — stored that way by `getConfiguredHosts`, completed in the loop for
the entries of the etcd storage, which keeps URLs as given).
Not modelled separately because subsumed for such URLs by the comparison of whole URL strings with a
`'/'`-terminated entry URL: the host table (`s.backends[u.Host]`) and the scheme rule (`IsUrlAllowed`). -/

/-- A configured backend with the URL stored for it (`getConfiguredHosts`: `'/'`-terminated; `EtcdKeyUpdated`: as given). -/
structure Entry where
  backend : Backend
  url : List Char
  deriving Repr

def endsSlash (u : List Char) : Bool := u.getLast? == some '/'

/-- `if x[len(x)-1] != '/' { x += "/" }`. -/
def slashTerm (u : List Char) : List Char := if endsSlash u then u else u ++ ['/']

def stmtConfigAppendsSlash : String := "if u[len(u)-1] != '/' { u += \"/\" }"
def stmtLookupAppendsSlash : String := "if url[len(url)-1] != '/' { url += \"/\" }"
def stmtLookupLoop : String :=
  "for _, entry := range entries { if !entry.IsUrlAllowed(u) { continue } if entry.url == \"\" { return entry } entryUrl := entry.url if entryUrl[len(entryUrl)-1] != '/' { entryUrl += \"/\" } if strings.HasPrefix(url, entryUrl) { return entry } }"

/-- `getConfiguredHosts`: the URL an entry is stored with. -/
def configUrl (u : List Char) : List Char :=
  if configUrlProgram.contains stmtConfigAppendsSlash then slashTerm u else u

/-- `EtcdKeyUpdated` stores `info.Url` as `BackendInformationEtcd.CheckValid` leaves it: as given (the
only rewriting there drops a standard port) — unless a `'/'`-terminating statement appears in `CheckValid`. -/
def stmtEtcdAppendsSlash : String := "if p.Url[len(p.Url)-1] != '/' { p.Url += \"/\" }"
def etcdUrl (u : List Char) : List Char :=
  if etcdUrlProgram.contains stmtEtcdAppendsSlash then slashTerm u else u

/-- The local `url` of `getBackendLocked` when the loop starts. -/
def lookupKey (u : List Char) : List Char :=
  if lookupProgram.contains stmtLookupAppendsSlash then slashTerm u else u

/-- The loop body: an entry without URL (compat: only hosts are configured) matches; otherwise
`entryUrl := entry.url; if entryUrl[len(entryUrl)-1] != '/' { entryUrl += "/" }; strings.HasPrefix(url, entryUrl)`
— the entry's URL is `'/'`-terminated for the comparison if it is not stored that way (backends from etcd). -/
def entryMatches (key : List Char) (e : Entry) : Bool :=
  if lookupProgram.contains stmtLookupLoop then e.url.isEmpty || (slashTerm e.url).isPrefixOf key else false

/-- `getBackendLocked`: the first entry that matches, in the order of the configuration. -/
def lookup (es : List Entry) (u : List Char) : Option Backend :=
  (es.find? (entryMatches (lookupKey u))).map (·.backend)

/-- What a `Spreed-Signaling-Backend` value of the plain shape amounts to. -/
def hdrOf (es : List Entry) (value : List Char) : Hdr :=
  if value.isEmpty then .absent else
  match lookup es value with
  | some b => .known b
  | none => .unknown


/-! ### backend_storage_static.go: which configuration a backend's secret comes from

`getConfiguredHosts(backendIds, config, commonSecret)` gives every configured section its secret: the section's own
`secret`, else the common `[backend] secret` it was handed, and skips a section that then has none.  It is called at
startup (`NewBackendStorageStatic`) and by `Reload`; where its arguments come from in each caller is read from the
source (`startHostsArgs`, `reloadHostsArgs`).  The storage also keeps the common secret it saw at startup
(`s.commonSecret`): a caller that does not take the common secret from the file it is loading is modelled as using
that older value. -/

def stmtSecretOwn : String := "secret, _ := GetStringOptionWithEnv(config, id, \"secret\")"
def stmtSecretFallback : String :=
  "if secret == \"\" && commonSecret != \"\" { log.Printf(\"Backend %s has no own shared secret set, using common shared secret\", id) secret = commonSecret }"
def stmtSecretSkip : String :=
  "if u == \"\" || secret == \"\" { log.Printf(\"Backend %s is missing or incomplete, skipping\", id) continue }"

/-- The secret `getConfiguredHosts` stores for a section with own secret `own` (empty = option absent) when handed
`common`; `none` = the section is skipped. -/
def effectiveSecret (own common : Bytes) : Option Bytes :=
  let s := if secretProgram.contains stmtSecretFallback then (if own.isEmpty && !common.isEmpty then common else own) else own
  if secretProgram.contains stmtSecretSkip then (if s.isEmpty then none else some s) else some s

/-- A configuration file as far as secrets go: the common secret and, per configured backend id, its own secret. -/
structure SecretFile where
  common : Bytes
  backends : List Backend       -- `secret` = the section's own `secret` option (empty = absent)
  deriving Repr

def resolveSecrets (common : Bytes) (raw : List Backend) : List Backend :=
  raw.filterMap fun r => (effectiveSecret r.secret common).map fun s => ⟨r.id, s⟩

/-- Where the three arguments of `getConfiguredHosts` come from when all of them are read from the file being loaded. -/
def hostsArgsFromLoadedFile : List String :=
  ["backendIds, _ := config.GetString(\"backend\", \"backends\")", "param:config *goconf.ConfigFile",
   "commonSecret, _ := GetStringOptionWithEnv(config, \"backend\", \"secret\")"]
def hostsCallFromLoadedFile : String := "getConfiguredHosts(backendIds, config, commonSecret)"

def startFromLoadedFile : Bool := startHostsCall == hostsCallFromLoadedFile && startHostsArgs == hostsArgsFromLoadedFile
def reloadFromLoadedFile : Bool := reloadHostsCall == hostsCallFromLoadedFile && reloadHostsArgs == hostsArgsFromLoadedFile

/-- The secrets held by the static storage: what it cached at startup and the configured backends. -/
structure SecretState where
  cachedCommon : Bytes := []
  backends : List Backend := []
  deriving Repr

/-- `NewBackendStorageStatic` (new-style `backends` list). -/
def startSecrets (f : SecretFile) : SecretState :=
  ⟨f.common, resolveSecrets (if startFromLoadedFile then f.common else []) f.backends⟩

/-- `backendStorageStatic.Reload`. -/
def reloadSecrets (st : SecretState) (f : SecretFile) : SecretState :=
  { st with backends := resolveSecrets (if reloadFromLoadedFile then f.common else st.cachedCommon) f.backends }

/-! ### http_client_pool.go: redirects of a signed request

`PerformJSONRequest` sends through an `http.Client` of the pool; its `CheckRedirect` (statements read from the source)
refuses a redirect whose scheme or host (`URL.Host`: name and port) differs from those of the request before.  Go's
client (trusted, not proved): 301/302/303 turn the POST into a GET without body, 307/308 repeat it with its body;
in both cases the headers of the first request — among them random and checksum — are sent again
(`net/http`'s `redirectBehavior`; observed by the harness on every redirect op). -/

def stmtCheckRedirect : String :=
  "if len(via) >= 10 { return errors.New(\"stopped after 10 redirects\") } else if len(via) > 0 { viaReq := via[len(via)-1] if req.URL.Scheme != viaReq.URL.Scheme || req.URL.Host != viaReq.URL.Host { return ErrNotRedirecting } }"

/-- `URL.Scheme` of a plain URL. -/
def schemeOf (u : List Char) : List Char := u.takeWhile (· != ':')
/-- `URL.Host` of a plain URL `scheme://host/path`: what stands between `://` and the next slash (name and port). -/
def hostOf (u : List Char) : List Char := ((u.dropWhile (· != ':')).drop 3).takeWhile (· != '/')

/-- Every signed request goes through a pool client, every pool client has the recognised `CheckRedirect`. -/
def clientGuarded : Bool :=
  outgoingSentThroughPoolClient && poolClientLiterals == poolClientLiteralsWithCheckRedirect && outgoingOwnClients == 0 &&
  checkRedirectProgram == [stmtCheckRedirect, "return nil"]

/-- Does `CheckRedirect` let the client go from `prev` to `next`?  Without the recognised guard every redirect is followed. -/
def redirectAllowed (prev next : List Char) : Bool :=
  if clientGuarded then schemeOf next == schemeOf prev && hostOf next == hostOf prev else true

/-- One answer of a server: status code and `Location`. -/
structure Hop where
  code : Nat
  location : List Char
  deriving Repr

/-- A request on the wire: where it goes, whether it still is a POST, whether it carries the body of the first. -/
structure Sent where
  url : List Char
  post : Bool
  body : Bool
  deriving DecidableEq, Repr

def isRedirectCode (c : Nat) : Bool := c == 301 || c == 302 || c == 303 || c == 307 || c == 308
/-- 307/308: same method, the body of the first request again (even if a 301/302/303 on the way made the method GET). -/
def keepsBody (c : Nat) : Bool := c == 307 || c == 308

/-- The requests sent after the one to `prev`, when the servers answer with `chain` (one answer per request, 200 after it). -/
def follow (prev : List Char) (post : Bool) : List Hop → List Sent
  | [] => []
  | h :: rest =>
    if !isRedirectCode h.code then []
    else if !redirectAllowed prev h.location then []
    else ⟨h.location, post && keepsBody h.code, keepsBody h.code⟩ :: follow h.location (post && keepsBody h.code) rest

/-- All requests one `PerformJSONRequest(u, …)` puts on the wire: none without a backend for `u`, else the signed POST
and whatever the redirects lead to; every one of them carries the headers of the first. -/
def deliveries (target : Option Backend) (u : List Char) (chain : List Hop) : List Sent :=
  match target with
  | none => []
  | some _ => ⟨u, true, true⟩ :: follow u true chain

end SigModel.Checksum
