/-
Model of the backend request authentication: C02.

* `api_backend.go`: `CalculateBackendChecksum`, `ValidateBackendChecksumValue`,
  `AddBackendChecksum`, `newRandomString`;
* `backend_server.go`: `parseRequestBody` and the authentication part of `roomHandler`
  — the latter is *interpreted* from the list of decision statements the extractor reads
  from the source (`Generated.Checksum.roomHandlerSteps`), so that removing or reordering
  a statement changes the function the theorems are about;
* `backend_client.go`: `PerformJSONRequest` as far as the two headers are concerned.

The MAC is a parameter (`Hmac.Mac`).  Which backend a `Spreed-Signaling-Backend` header
value resolves to (`url.Parse` + `BackendConfiguration.GetBackend`) is an input (`Hdr`):
that lookup is C13's subject.  Whether an authenticated body decodes into a valid,
supported room request is an input too (`bodyOk`): that is C11's subject.
-/
import SigModel.Basic.Hmac
import SigModel.Generated.Checksum

namespace SigModel.Checksum
open SigModel SigModel.Hmac SigModel.Generated.Checksum

structure Backend where
  id : String
  secret : Bytes
  deriving DecidableEq, Repr

/-! ### api_backend.go -/

/-- The bytes fed to the MAC, in the order of the `mac.Write` calls in the source. -/
def macInput (random body : Bytes) : Bytes :=
  (checksumWrites.map fun w => if w = "random" then random else if w = "body" then body else []).flatten

/-- `CalculateBackendChecksum`. -/
def checksumOf (mac : Mac) (random body secret : Bytes) : Bytes :=
  if checksumIsHexOfMac then Bytes.toHex (mac secret (macInput random body)) else mac secret (macInput random body)

/-- `ValidateBackendChecksumValue`: comparison of the whole strings. -/
def validate (mac : Mac) (checksum random body secret : Bytes) : Bool :=
  if validateComparesWholeStrings then checksumOf mac random body secret == checksum else false

/-- `newRandomString(length)` given the bytes `crypto/rand` delivered. -/
def newRandomString (length : Nat) (entropy : Bytes) : Bytes := Bytes.toHex (entropy.take (length / 2))

/-- `AddBackendChecksum`: the two header values. -/
def addChecksum (mac : Mac) (entropy body secret : Bytes) : Bytes × Bytes :=
  let rnd := newRandomString outgoingRandomLength entropy
  (rnd, checksumOf mac rnd body secret)

/-! ### backend_server.go -/

/-- What the `Spreed-Signaling-Backend` header amounts to. -/
inductive Hdr where
  | absent                      -- no header / empty value
  | unknown                     -- a value that does not parse or resolves to no backend
  | known (b : Backend)         -- resolves to backend `b`
  deriving DecidableEq, Repr

structure Cfg where
  compat : Option Backend       -- `GetCompatBackend()`
  backends : List Backend       -- `GetBackends()` (in the order the handler sees them)
  deriving Repr

/-- The authentication-relevant part of a request, header values as the handler reads them. -/
structure Req where
  hdr : Hdr
  random : Bytes
  checksum : Bytes
  body : Bytes
  deriving Repr

inductive Auth where
  | running (backend : Option Backend)     -- still deciding; `backend` = the local variable
  | forbidden                              -- throttle(…); 403; return
  | authenticated (b : Backend)            -- reached the JSON decoding with this backend
  | crash                                  -- `backend.Secret()` on nil
  | unknownStep (s : String)
  deriving DecidableEq, Repr

/-- One decision statement of `roomHandler`, by the name the extractor gave it. -/
def authStep (mac : Mac) (cfg : Cfg) (r : Req) (st : Auth) (step : String) : Auth :=
  match st with
  | .running backend =>
    if step = "bruteforce-check" ∨ step = "bruteforce-429" ∨ step = "read-backend-header" then st
    else if step = "backend-nil" then .running none
    else if step = "header:lookup-or-403" then
      match r.hdr with
      | .absent => st
      | .unknown => .forbidden
      | .known b => .running (some b)
    else if step = "noheader:compat-else-search-or-403" then
      match backend with
      | some _ => st
      | none =>
        let found := match cfg.compat with
          | some c => some c
          | none => cfg.backends.find? (fun b => validate mac r.checksum r.random r.body b.secret)
        match found with
        | some b => .running (some b)
        | none => .forbidden
    else if step = "validate-or-403" then
      match backend with
      | some b => if validate mac r.checksum r.random r.body b.secret then st else .forbidden
      | none => .crash
    else if step = "decode" then
      match backend with
      | some b => .authenticated b
      | none => .crash
    else .unknownStep step
  | _ => st

/-- `roomHandler` up to the JSON decoding. -/
def roomAuth (mac : Mac) (cfg : Cfg) (r : Req) : Auth :=
  roomHandlerSteps.foldl (authStep mac cfg r) (.running none)

/-- A publication on the event bus: backend-room subject of (room, backend). -/
structure Event where
  room : String
  backend : String
  deriving DecidableEq, Repr

structure Http where
  room : String
  contentLength : Option Nat     -- `none` = unknown (-1)
  contentTypeJson : Bool
  req : Req
  bodyOk : Bool                  -- decodes, passes `CheckValid`, supported type
  deriving Repr

structure Resp where
  status : Nat
  throttled : Bool := false      -- the failure was recorded with the throttler
  events : List Event := []
  deriving DecidableEq, Repr

/-- `parseRequestBody(roomHandler)`; an accepted request is a `message` request, which
publishes once on the backend-room subject of the authenticated backend. -/
def handle (mac : Mac) (cfg : Cfg) (h : Http) : Resp :=
  match h.contentLength with
  | none => { status := 411 }
  | some n =>
    if n > maxBodySize then { status := 413 }
    else if !h.contentTypeJson then { status := 400 }
    else if missingAuthHeadersForbidden ∧ (h.req.random.isEmpty ∨ h.req.checksum.isEmpty) then { status := 403 }
    else match roomAuth mac cfg h.req with
      | .forbidden => { status := 403, throttled := true }
      | .authenticated b =>
        if h.bodyOk then { status := 200, events := [⟨h.room, b.id⟩] } else { status := 400 }
      | _ => { status := 500 }

/-! ### backend_client.go -/

/-- `PerformJSONRequest`: the request carries the headers made by `AddBackendChecksum` with
the secret of `GetBackend(url)`; without a backend no request is sent. -/
def performRequest (mac : Mac) (target : Option Backend) (entropy body : Bytes) : Option (Bytes × Bytes) :=
  match target with
  | none => none
  | some b => if outgoingPostSitesSigned = outgoingPostSites then some (addChecksum mac entropy body b.secret) else none

end SigModel.Checksum
