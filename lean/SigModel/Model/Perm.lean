/-
Model for C08 — media actions need the matching permission or call membership.

The decision logic of /repo around permissions and call membership:

  * `ClientSession.hasPermissionLocked` (old-style sessions: everything except the
    `DefaultPermissionOverrides`), `isSdpAllowedToSendLocked` (an offer SDP is its
    list of m-line kinds), `IsAllowedToSend`, `checkOfferTypeLocked`,
    `GetOrCreatePublisher` (check first; an existing publisher gets the new media
    types), the revocation goroutine of `processAsyncMessage("permissions")`;
  * `Hub.processMcuMessage` (which message kind runs which check),
    the `sendoffer` path of `processMessageMsg`, `isInSameCall`,
    `isAllowedToControl` / `processControlMsg`,
    `isAllowedToUpdateTransientData` / `processTransientMsg`;
  * `Room.PublishUsersInCallChanged(All)`, `LeaveCall`, `doLeaveRoom`,
    `processJoinRoom` as far as they change permissions, the in-call flag and the
    publishers / subscribers of a session.

State: per session the permission set as last received (`none` = old style), room,
in-call flag, the publishers per stream type with their media types, the
subscribers, and the number of revocation goroutines that have not run yet; per
room the transient data.  The media server is the fake one of the harness: it
creates a publisher at once for the stream types `mcu_janus.go` accepts, a
subscriber at once if the publisher exists (C09 is about slow answers).

`step` is parametrised by a `Cfg`; `codeCfg` is read from the source
(`Generated/Perm.lean`).  Names, tables and the blocks of the revocation goroutine
are data of the `Cfg`; for the decision functions the `Cfg` says whether the
function in the source is the program the model stands for (`expected…`) —
if not, the model lets everything through, so that no theorem about `codeCfg`
survives an edit of such a function unexamined.
-/
import SigModel.Generated.Perm

namespace SigModel.Perm
open SigModel.Generated

/-! ### vocabulary -/

/-- Kind of an m-line of an offer SDP (`md.MediaName.Media`). -/
inductive MLine where
  | audio | video | other
  deriving DecidableEq, Repr

/-- `MediaType` bit set of a publisher. -/
structure Media where
  audio : Bool := false
  video : Bool := false
  screen : Bool := false
  deriving DecidableEq, Repr

/-- `data.type` of a client message addressed to a session. -/
inductive Kind where
  | offer | answer | candidate | endOfCandidates | selectStream | requestoffer | sendoffer
  /-- anything else: not for the media server, forwarded as it is -/
  | other
  deriving DecidableEq, Repr

def Kind.name : Kind → String
  | .offer => "offer" | .answer => "answer" | .candidate => "candidate"
  | .endOfCandidates => "endOfCandidates" | .selectStream => "selectStream"
  | .requestoffer => "requestoffer" | .sendoffer => "sendoffer" | .other => "other"

/-- One `if !s.hasPermissionLocked(guard) { if publisher, found := s.publishers[stream]; found { … } }`
block of the revocation goroutine. `conds = []`: the publisher is closed unconditionally;
otherwise if `publisher.HasMedia(bit) && !s.hasPermissionLocked(perm)` for one of them.
`early`: the block `return`s after closing. -/
structure SweepBlock where
  stream : String
  guard : String
  conds : List (Nat × String)
  early : Bool
  deriving DecidableEq, Repr

structure Cfg where
  permMedia : String
  permAudio : String
  permVideo : String
  permScreen : String
  permControl : String
  permTransient : String
  /-- `DefaultPermissionOverrides` -/
  overrides : List (String × Bool)
  /-- `StreamTypeScreen` (also the room type `IsAllowedToSend` compares with) -/
  streamScreen : String
  /-- stream types the media server creates publishers / subscribers for -/
  mcuStreams : List String
  bitAudio : Nat
  bitVideo : Nat
  bitScreen : Nat
  sweep : List SweepBlock
  /-- the permissions of a join reply are installed like a permissions update (with revocation) -/
  joinSweeps : Bool
  /-- the functions in the source are the programs modelled here -/
  hasPermOk : Bool
  sdpOk : Bool
  sendOk : Bool
  offerTypeOk : Bool
  publisherOk : Bool
  dispatchOk : Bool
  sendofferGuarded : Bool
  sameCallOk : Bool
  controlOk : Bool
  transientOk : Bool
  releaseOk : Bool
  incallOk : Bool
  deriving DecidableEq, Repr

/-! ### the programs the model stands for -/

def expectedHasPermission : List String :=
  ["if !s.supportsPermissions {", "if result,found:=DefaultPermissionOverrides[permission]; found {", "return result", "}",
   "return true", "}", "if val,found:=s.permissions[permission]; found {", "return val", "}", "return false"]

def expectedHasAnyPermission : List String :=
  ["if len(permission)==0 {", "return false", "}", "for _,p:=range permission {", "if s.hasPermissionLocked(p) {",
   "return true", "}", "}", "return false"]

def expectedSetPermissions : List String :=
  ["var p map[Permission]bool", "for _,permission:=range permissions {", "if p==nil {", "p=make(map[Permission]bool)", "}",
   "p[permission]=true", "}", "s.mu.Lock()", "defer s.mu.Unlock()",
   "if s.supportsPermissions&&permissionsEqual(s.permissions,p) {", "return", "}", "s.permissions=p", "s.supportsPermissions=true"]

def expectedSdpAllowed : List String :=
  ["if sdp==nil {", "return 0,ErrNoSdp", "}", "var mediaTypes MediaType",
   "mayPublishMedia:=s.hasPermissionLocked(PERMISSION_MAY_PUBLISH_MEDIA)", "for _,md:=range sdp.MediaDescriptions {",
   "switch md.MediaName.Media {", "case \"audio\":",
   "if !mayPublishMedia&&!s.hasPermissionLocked(PERMISSION_MAY_PUBLISH_AUDIO) {",
   "return 0,&PermissionError{PERMISSION_MAY_PUBLISH_AUDIO}", "}", "mediaTypes|=MediaTypeAudio", "case \"video\":",
   "if !mayPublishMedia&&!s.hasPermissionLocked(PERMISSION_MAY_PUBLISH_VIDEO) {",
   "return 0,&PermissionError{PERMISSION_MAY_PUBLISH_VIDEO}", "}", "mediaTypes|=MediaTypeVideo", "}", "}",
   "return mediaTypes,nil"]

def expectedAllowedToSend : List String :=
  ["s.mu.Lock()", "defer s.mu.Unlock()", "if data!=nil&&data.RoomType==\"screen\" {",
   "if s.hasPermissionLocked(PERMISSION_MAY_PUBLISH_SCREEN) {", "return nil", "}",
   "return &PermissionError{PERMISSION_MAY_PUBLISH_SCREEN}", "} else if s.hasPermissionLocked(PERMISSION_MAY_PUBLISH_MEDIA) {",
   "return nil", "} else if data!=nil&&data.Type==\"offer\" {",
   "if _,err:=s.isSdpAllowedToSendLocked(data.offerSdp); err!=nil {", "return err", "}", "return nil", "} else {",
   "if s.hasAnyPermissionLocked(PERMISSION_MAY_PUBLISH_AUDIO,PERMISSION_MAY_PUBLISH_VIDEO) {", "return nil", "}",
   "return fmt.Errorf(\"permission check failed\")", "}"]

def expectedCheckOfferType : List String :=
  ["if streamType==StreamTypeScreen {", "if !s.hasPermissionLocked(PERMISSION_MAY_PUBLISH_SCREEN) {",
   "return 0,&PermissionError{PERMISSION_MAY_PUBLISH_SCREEN}", "}", "return MediaTypeScreen,nil",
   "} else if data!=nil&&data.Type==\"offer\" {", "mediaTypes,err:=s.isSdpAllowedToSendLocked(data.offerSdp)",
   "if err!=nil {", "return 0,err", "}", "return mediaTypes,nil", "}", "return 0,nil"]

def expectedPublisherHead : List String :=
  ["s.mu.Lock()", "defer s.mu.Unlock()", "mediaTypes,err:=s.checkOfferTypeLocked(streamType,data)", "if err!=nil {",
   "return nil,err", "}", "publisher,found:=s.publishers[streamType]", "if !found {"]

def expectedSameCall : List String :=
  ["if senderSession.ClientType()==HelloClientTypeInternal {", "return true", "}", "senderRoom:=senderSession.GetRoom()",
   "if senderRoom==nil||!senderRoom.IsSessionInCall(senderSession) {", "return false", "}",
   "recipientSession:=h.GetSessionByPublicId(recipientSessionId)", "if recipientSession==nil {",
   "return h.isInSameCallRemote(ctx,senderSession,senderRoom,recipientSessionId)", "}",
   "recipientRoom:=recipientSession.GetRoom()",
   "if recipientRoom==nil||!senderRoom.IsEqual(recipientRoom)||(recipientSession.ClientType()!=HelloClientTypeInternal&&!recipientRoom.IsSessionInCall(recipientSession)) {",
   "return false", "}", "return true"]

def expectedIsSessionInCall : List String :=
  ["r.mu.RLock()", "_,result:=r.inCallSessions[session]", "r.mu.RUnlock()", "return result"]

def expectedAllowedToControl : List String :=
  ["if session.ClientType()==HelloClientTypeInternal {", "return true", "}",
   "if session.HasPermission(PERMISSION_MAY_CONTROL) {", "return true", "}", "return false"]

def expectedControlHead : List String :=
  ["msg:=message.Control", "if !isAllowedToControl(session) {", "return", "}"]

def expectedAllowedToUpdateTransient : List String :=
  ["if session.ClientType()==HelloClientTypeInternal {", "return true", "}",
   "if session.HasPermission(PERMISSION_TRANSIENT_DATA) {", "return true", "}", "return false"]

def expectedTransientMsg : List String :=
  ["room:=session.GetRoom()", "if room==nil {",
   "response:=message.NewErrorServerMessage(NewError(\"not_in_room\",\"No room joined yet.\"))", "session.SendMessage(response)",
   "return", "}", "msg:=message.TransientData", "switch msg.Type {", "case \"set\":",
   "if !isAllowedToUpdateTransientData(session) {",
   "sendNotAllowed(session,message,\"Not allowed to update transient data.\")", "return", "}", "if msg.Value==nil {",
   "room.SetTransientDataTTL(msg.Key,nil,msg.TTL)", "} else {", "room.SetTransientDataTTL(msg.Key,msg.Value,msg.TTL)", "}",
   "case \"remove\":", "if !isAllowedToUpdateTransientData(session) {",
   "sendNotAllowed(session,message,\"Not allowed to update transient data.\")", "return", "}",
   "room.RemoveTransientData(msg.Key)", "default:",
   "response:=message.NewErrorServerMessage(NewError(\"ignored\",\"Unsupported message type.\"))", "session.SendMessage(response)",
   "}"]

def expectedLeaveCall : List String :=
  ["s.mu.Lock()", "defer s.mu.Unlock()", "room:=s.GetRoom()", "if room==nil {", "return", "}", "s.releaseMcuObjects()"]

def expectedDoLeaveRoom : List String :=
  ["room:=s.GetRoom()", "if room==nil {", "return nil", "}", "s.doUnsubscribeRoomEvents(notify)", "s.SetRoom(nil)",
   "s.releaseMcuObjects()", "room.RemoveSession(s)", "return room"]

def expectedMcuCases : List String := ["requestoffer", "sendoffer", "offer", "selectStream", "default"]

def expectedMcuDispatched : List String :=
  ["requestoffer", "offer", "answer", "endOfCandidates", "selectStream", "candidate"]

def expectedCaseRequestoffer : List String :=
  ["if session.PublicId()==message.Recipient.SessionId {", "return", "}",
   "if !h.allowSubscribeAnyStream&&!h.isInSameCall(ctx,session,message.Recipient.SessionId) {",
   "sendNotAllowed(session,client_message,\"Not allowed to request offer.\")", "return", "}", "clientType=\"subscriber\"",
   "mc,err=session.GetOrCreateSubscriber(ctx,h.mcu,message.Recipient.SessionId,StreamType(data.RoomType))"]

def expectedCaseSendoffer : List String := ["return"]

def expectedCaseOffer : List String :=
  ["clientType=\"publisher\"", "mc,err=session.GetOrCreatePublisher(ctx,h.mcu,StreamType(data.RoomType),data)",
   "if err,ok:=err.(*PermissionError); ok {", "sendNotAllowed(session,client_message,\"Not allowed to publish.\")", "return",
   "}"]

def expectedCaseSelectStream : List String :=
  ["if session.PublicId()==message.Recipient.SessionId {", "return", "}", "clientType=\"subscriber\"",
   "mc=session.GetSubscriber(message.Recipient.SessionId,StreamType(data.RoomType))"]

def expectedCaseDefault : List String :=
  ["if session.PublicId()==message.Recipient.SessionId {", "if err:=session.IsAllowedToSend(data); err!=nil {",
   "sendNotAllowed(session,client_message,\"Not allowed to send candidate.\")", "return", "}", "clientType=\"publisher\"",
   "mc=session.GetPublisher(StreamType(data.RoomType))", "} else {", "clientType=\"subscriber\"",
   "mc=session.GetSubscriber(message.Recipient.SessionId,StreamType(data.RoomType))", "}"]

def expectedMcuTail : List String :=
  ["if err!=nil {", "sendMcuClientNotFound(session,client_message)", "return", "} else if mc==nil {",
   "sendMcuClientNotFound(session,client_message)", "return", "}",
   "mc.SendMessage(session.Context(),message,data,func{if err!=nil {;sendMcuProcessingFailed(session,client_message);return;} else if response==nil {;return;};h.sendMcuMessageResponse(session,mc,message,data,response)})"]

def expectedSendofferGuard : String :=
  "if err:=session.IsAllowedToSend(clientData); err!=nil {;sendNotAllowed(session,message,\"Not allowed to send offer\");return;}"

/-- The two ways `processJoinRoom` may install the permissions of the join reply:
plainly (no revocation) or like a permissions update of the backend. -/
def joinPlain : String := "session.SetPermissions(*room.Room.Permissions)"
def joinAsUpdate : String :=
  "session.processAsyncMessage(&AsyncMessage{Type:\"permissions\",Permissions:*room.Room.Permissions})"

def toBlock (b : String × String × List (Nat × String) × Bool) : SweepBlock :=
  { stream := b.1, guard := b.2.1, conds := b.2.2.1, early := b.2.2.2 }

/-- The configuration of the current source tree. -/
def codeCfg : Cfg :=
  { permMedia := Perm.permMedia, permAudio := Perm.permAudio, permVideo := Perm.permVideo, permScreen := Perm.permScreen
    permControl := Perm.permControl, permTransient := Perm.permTransient
    overrides := Perm.defaultOverrides
    streamScreen := Perm.streamScreen
    mcuStreams := if Perm.mcuRejectsOtherStreams then Perm.mcuStreams else Perm.validStreamTypes ++ [""]
    bitAudio := Perm.bitAudio, bitVideo := Perm.bitVideo, bitScreen := Perm.bitScreen
    sweep := if Perm.sweepFollowsSetPermissions then Perm.sweepBlocks.map toBlock else []
    joinSweeps := Perm.joinInstallsPermissions == joinAsUpdate
    hasPermOk := Perm.progHasPermission == expectedHasPermission && Perm.progHasAnyPermission == expectedHasAnyPermission
                 && Perm.progSetPermissions == expectedSetPermissions
    sdpOk := Perm.progSdpAllowed == expectedSdpAllowed
    sendOk := Perm.progAllowedToSend == expectedAllowedToSend
    offerTypeOk := Perm.progCheckOfferType == expectedCheckOfferType
    publisherOk := Perm.publisherHead == expectedPublisherHead && Perm.publisherSetsMediaOnExisting
    dispatchOk := Perm.mcuCases == expectedMcuCases && Perm.mcuDispatched == expectedMcuDispatched
                  && Perm.mcuCaseRequestoffer == expectedCaseRequestoffer && Perm.mcuCaseSendoffer == expectedCaseSendoffer
                  && Perm.mcuCaseOffer == expectedCaseOffer && Perm.mcuCaseSelectStream == expectedCaseSelectStream
                  && Perm.mcuCaseDefault == expectedCaseDefault && Perm.mcuTail == expectedMcuTail
    sendofferGuarded := Perm.sendofferBlocks == [expectedSendofferGuard, expectedSendofferGuard]
    sameCallOk := Perm.progSameCall == expectedSameCall && Perm.sameCallRemoteFalseWithoutPeers
                  && Perm.progIsSessionInCall == expectedIsSessionInCall
    controlOk := Perm.progAllowedToControl == expectedAllowedToControl && Perm.controlHead == expectedControlHead
    transientOk := Perm.progAllowedToUpdateTransient == expectedAllowedToUpdateTransient
                   && Perm.progTransientMsg == expectedTransientMsg
    releaseOk := Perm.progLeaveCall == expectedLeaveCall && Perm.progDoLeaveRoom == expectedDoLeaveRoom
    incallOk := Perm.incallMembersOnly && Perm.incallFalseLeavesCall && Perm.incallTrueMarks
                && Perm.incallAllSkipsInternal && Perm.incallAllLeaveReleases && Perm.removeSessionClearsInCall
                && (Perm.joinInstallsPermissions == joinPlain || Perm.joinInstallsPermissions == joinAsUpdate) }

/-- The blocks of the revocation goroutine the theorems are about. -/
def Cfg.goodSweep (cfg : Cfg) (streamVideo : String) : List SweepBlock :=
  [{ stream := streamVideo, guard := cfg.permMedia, conds := [(cfg.bitAudio, cfg.permAudio), (cfg.bitVideo, cfg.permVideo)], early := false },
   { stream := cfg.streamScreen, guard := cfg.permScreen, conds := [], early := false }]

/-- What the theorems need of a configuration (decidable; `codeCfg.sound` by evaluation). -/
def Cfg.sound (cfg : Cfg) : Bool :=
  cfg.hasPermOk && cfg.sdpOk && cfg.sendOk && cfg.offerTypeOk && cfg.publisherOk && cfg.dispatchOk
  && cfg.sendofferGuarded && cfg.sameCallOk && cfg.controlOk && cfg.transientOk && cfg.releaseOk && cfg.incallOk
  && cfg.joinSweeps
  && cfg.bitAudio != cfg.bitVideo && cfg.bitAudio != cfg.bitScreen && cfg.bitVideo != cfg.bitScreen
  && match cfg.mcuStreams with
     | [v, s] => v != cfg.streamScreen && s == cfg.streamScreen && cfg.sweep == cfg.goodSweep v
     | _ => false

/-! ### permissions -/

/-- `hasPermissionLocked`: `none` is an old-style session (no permissions received from the backend). -/
def hasPerm (cfg : Cfg) (ps : Option (List String)) (p : String) : Bool :=
  match ps with
  | none =>
    match cfg.overrides.lookup p with
    | some b => b
    | none => true
  | some l => l.contains p

/-- `isSdpAllowedToSendLocked` over the m-lines, with the media types collected so far:
`none` = `PermissionError` at the first m-line that is not allowed. -/
def sdpAllowed (cfg : Cfg) (ps : Option (List String)) : List MLine → Media → Option Media
  | [], acc => some acc
  | .audio :: r, acc =>
    if !hasPerm cfg ps cfg.permMedia && !hasPerm cfg ps cfg.permAudio then none
    else sdpAllowed cfg ps r { acc with audio := true }
  | .video :: r, acc =>
    if !hasPerm cfg ps cfg.permMedia && !hasPerm cfg ps cfg.permVideo then none
    else sdpAllowed cfg ps r { acc with video := true }
  | .other :: r, acc => sdpAllowed cfg ps r acc

/-- `IsAllowedToSend(data)`: room type, message kind and (for offers) the m-lines. -/
def allowedToSend (cfg : Cfg) (ps : Option (List String)) (roomType : String) (k : Kind) (ml : List MLine) : Bool :=
  if !cfg.sendOk || !cfg.hasPermOk then true
  else if roomType == cfg.streamScreen then hasPerm cfg ps cfg.permScreen
  else if hasPerm cfg ps cfg.permMedia then true
  else if k == .offer then (if cfg.sdpOk then (sdpAllowed cfg ps ml {}).isSome else true)
  else hasPerm cfg ps cfg.permAudio || hasPerm cfg ps cfg.permVideo

/-- `checkOfferTypeLocked(streamType, data)` for an offer: `none` = `PermissionError`. -/
def checkOfferType (cfg : Cfg) (ps : Option (List String)) (stream : String) (ml : List MLine) : Option Media :=
  if !cfg.offerTypeOk || !cfg.hasPermOk || !cfg.sdpOk || !cfg.publisherOk || !cfg.dispatchOk then
    some { audio := ml.contains .audio, video := ml.contains .video }
  else if stream == cfg.streamScreen then
    if !hasPerm cfg ps cfg.permScreen then none else some { screen := true }
  else sdpAllowed cfg ps ml {}

/-- `publisher.HasMedia(bit)`. -/
def hasMedia (cfg : Cfg) (m : Media) (bit : Nat) : Bool :=
  if bit = cfg.bitAudio then m.audio
  else if bit = cfg.bitVideo then m.video
  else if bit = cfg.bitScreen then m.screen
  else false

/-! ### state -/

structure Pub where
  stream : String
  media : Media
  deriving DecidableEq, Repr

structure Sub where
  /-- the session whose stream is received -/
  src : Nat
  stream : String
  deriving DecidableEq, Repr

structure Sess where
  live : Bool
  internal : Bool
  perms : Option (List String)
  room : Option Nat
  inCall : Bool
  pubs : List Pub
  subs : List Sub
  /-- revocation goroutines started and not yet run -/
  sweeps : Nat
  deriving DecidableEq, Repr

structure St where
  sess : Nat → Sess
  /-- sessions are `0 … n-1` -/
  n : Nat
  /-- `Hub.allowSubscribeAnyStream` -/
  allowAny : Bool
  /-- transient data per room -/
  store : Nat → List (String × String)

def Sess.fresh (internal : Bool) : Sess :=
  { live := true, internal := internal, perms := none, room := none, inCall := false, pubs := [], subs := [], sweeps := 0 }

def Sess.absent : Sess := { Sess.fresh false with live := false }

/-- `n` sessions, those in `internals` are internal clients. -/
def St.init (n : Nat) (internals : List Nat) : St :=
  { sess := fun i => if i < n then Sess.fresh (internals.contains i) else Sess.absent
    n := n, allowAny := false, store := fun _ => [] }

def St.upd (st : St) (s : Nat) (f : Sess → Sess) : St :=
  { st with sess := fun i => if i = s then f (st.sess i) else st.sess i }

/-! ### what a step emits -/

inductive Ev where
  /-- message to the acting session: an error code, `answer`, `offer<j` -/
  | reply (s : Nat) (what : String)
  /-- message of `frm` delivered to another session -/
  | deliver (to : Nat) (what : String) (frm : Nat)
  /-- transient data event caused by a write of `frm` -/
  | tev (to : Nat) (what : String) (frm : Nat)
  | pubNew (s : Nat) (stream : String) (m : Media)
  | pubSet (s : Nat) (stream : String) (m : Media)
  | pubMsg (s : Nat) (stream : String) (k : Kind)
  | pubClose (s : Nat) (stream : String)
  | subNew (s src : Nat) (stream : String)
  | subMsg (s src : Nat) (stream : String) (k : Kind)
  | subClose (s src : Nat) (stream : String)
  /-- the hub acts on a `sendoffer` of `s` for `r` -/
  | sendofferOk (s r : Nat) (stream : String)
  /-- the hub lets `s` subscribe the stream of `p` (`requestoffer` passed the gate) -/
  | requestOk (s p : Nat) (stream : String)
  deriving DecidableEq, Repr

/-- Recipient of a control message. -/
inductive Rcpt where
  | session (r : Nat) | room | call
  deriving DecidableEq, Repr

inductive TAct where
  | set (k v : String) | remove (k : String) | other
  deriving DecidableEq, Repr

inductive Act where
  /-- `processJoinRoom` with the backend's reply: leave the previous room, enter `r`, install the permissions of the reply -/
  | join (s r : Nat) (perms : Option (List String))
  | leave (s : Nat)
  /-- the session receives a `permissions` message: `SetPermissions`, the revocation goroutine is started -/
  | setPerms (s : Nat) (p : List String)
  /-- one revocation goroutine of `s` runs -/
  | sweep (s : Nat)
  /-- backend `incall` request for room `r` naming `s` -/
  | incall (s r : Nat) (f : Bool)
  /-- backend `incall` request for room `r` with `all` -/
  | incallAll (r : Nat) (f : Bool)
  | close (s : Nat)
  | setAllowAny (b : Bool)
  | offer (s : Nat) (stream : String) (ml : List MLine)
  /-- answer / candidate / endOfCandidates / selectStream / other message of `s` addressed to session `r` -/
  | msg (s r : Nat) (k : Kind) (stream : String)
  | request (s p : Nat) (stream : String)
  | sendoffer (s r : Nat) (stream : String)
  | control (s : Nat) (rc : Rcpt)
  | transient (s : Nat) (a : TAct)
  deriving DecidableEq, Repr

/-! ### release, leave, join -/

def closeEvs (s : Nat) (x : Sess) : List Ev :=
  x.pubs.map (fun p => Ev.pubClose s p.stream) ++ x.subs.map (fun b => Ev.subClose s b.src b.stream)

/-- `releaseMcuObjects` -/
def Sess.release (x : Sess) : Sess := { x with pubs := [], subs := [] }

/-- nobody is left in room `r` (the `Room` object and its transient data go away) -/
def roomEmpty (st : St) (r : Nat) : Bool :=
  (List.range st.n).all fun i => (st.sess i).room != some r

def dropStoreIfEmpty (st : St) (r : Nat) : St :=
  if roomEmpty st r then { st with store := fun q => if q = r then [] else st.store q } else st

/-- `doLeaveRoom` -/
def leaveRoom (st : St) (s : Nat) : St × List Ev :=
  match (st.sess s).room with
  | none => (st, [])
  | some r =>
    (dropStoreIfEmpty (st.upd s fun x => { x.release with room := none, inCall := false }) r, closeEvs s (st.sess s))

def joinRoom (cfg : Cfg) (st : St) (s r : Nat) (perms : Option (List String)) : St × List Ev :=
  if !(st.sess s).live then (st, []) else
  let (st1, ev) := leaveRoom st s
  (st1.upd s fun x =>
    { x with room := some r, inCall := false
             perms := match perms with
               | some p => some p
               | none => x.perms
             sweeps := if perms.isSome && cfg.joinSweeps then x.sweeps + 1 else x.sweeps }, ev)

/-! ### the revocation goroutine -/

def blockHits (cfg : Cfg) (ps : Option (List String)) (b : SweepBlock) (pubs : List Pub) : Bool :=
  !hasPerm cfg ps b.guard &&
    match pubs.find? (fun p => p.stream == b.stream) with
    | none => false
    | some p => b.conds.isEmpty || b.conds.any fun c => hasMedia cfg p.media c.1 && !hasPerm cfg ps c.2

/-- Runs the blocks in order; result: the publishers kept and the stream types closed. -/
def runSweep (cfg : Cfg) (ps : Option (List String)) : List SweepBlock → List Pub → List Pub × List String
  | [], pubs => (pubs, [])
  | b :: bs, pubs =>
    if blockHits cfg ps b pubs then
      let pubs' := pubs.filter fun p => p.stream != b.stream
      if b.early then (pubs', [b.stream])
      else
        let r := runSweep cfg ps bs pubs'
        (r.1, b.stream :: r.2)
    else runSweep cfg ps bs pubs

def sweepStep (cfg : Cfg) (st : St) (s : Nat) : St × List Ev :=
  let x := st.sess s
  if x.sweeps = 0 then (st, [])
  else
    let r := runSweep cfg x.perms cfg.sweep x.pubs
    (st.upd s fun x => { x with sweeps := x.sweeps - 1, pubs := r.1 }, r.2.map fun t => Ev.pubClose s t)

/-! ### in-call changes -/

def incallStep (cfg : Cfg) (st : St) (s r : Nat) (f : Bool) : St × List Ev :=
  let x := st.sess s
  if !x.live || (cfg.incallOk && x.room != some r) || x.room.isNone then (st, [])
  else if f then (st.upd s fun x => { x with inCall := true }, [])
  else (st.upd s fun x => { x.release with inCall := false }, closeEvs s x)

def incallAllStep (st : St) (r : Nat) (f : Bool) : St × List Ev :=
  if f then
    ({ st with sess := fun i =>
        let x := st.sess i
        if i < st.n && x.live && x.room == some r && !x.internal then { x with inCall := true } else x }, [])
  else
    ({ st with sess := fun i =>
        let x := st.sess i
        if i < st.n && x.room == some r && x.inCall then { x.release with inCall := false } else x },
     (List.range st.n).flatMap fun i =>
        let x := st.sess i
        if x.room == some r && x.inCall then closeEvs i x else [])

def closeStep (st : St) (s : Nat) : St × List Ev :=
  if !(st.sess s).live then (st, []) else
  let (st1, ev) := leaveRoom st s
  (st1.upd s fun x => { x.release with live := false }, ev ++ closeEvs s (st1.sess s))

/-! ### messages for the media server -/

def findPub (x : Sess) (stream : String) : Option Pub := x.pubs.find? fun p => p.stream == stream
def hasSub (x : Sess) (src : Nat) (stream : String) : Bool := x.subs.contains { src := src, stream := stream }

/-- `"offer"`: `GetOrCreatePublisher`, then the offer goes to the publisher, which answers. -/
def offerStep (cfg : Cfg) (st : St) (s : Nat) (stream : String) (ml : List MLine) : St × List Ev :=
  let x := st.sess s
  if !x.live then (st, []) else
  match checkOfferType cfg x.perms stream ml with
  | none => (st, [.reply s "not_allowed"])
  | some m =>
    match findPub x stream with
    | some _ =>
      (st.upd s fun x => { x with pubs := x.pubs.map fun p => if p.stream == stream then { p with media := m } else p },
       [.pubSet s stream m, .pubMsg s stream .offer, .reply s "answer"])
    | none =>
      if cfg.mcuStreams.contains stream then
        (st.upd s fun x => { x with pubs := x.pubs ++ [{ stream := stream, media := m }] },
         [.pubNew s stream m, .pubMsg s stream .offer, .reply s "answer"])
      else (st, [.reply s "client_not_found"])

/-- `isInSameCall` -/
def sameCall (cfg : Cfg) (st : St) (s p : Nat) : Bool :=
  if !cfg.sameCallOk || !cfg.incallOk || !cfg.releaseOk then true else
  let x := st.sess s
  let y := st.sess p
  if x.internal then true
  else match x.room with
    | none => false
    | some r =>
      if !x.inCall then false
      else if !y.live then false
      else match y.room with
        | none => false
        | some r' => if r != r' then false else if !y.internal && !y.inCall then false else true

/-- `GetOrCreateSubscriber(src, stream)` of session `s`: the subscribers afterwards and whether there is one. -/
def getOrCreateSub (cfg : Cfg) (st : St) (s src : Nat) (stream : String) : St × List Ev × Bool :=
  let x := st.sess s
  if hasSub x src stream then (st, [], true)
  else if cfg.mcuStreams.contains stream && (findPub (st.sess src) stream).isSome && x.live then
    (st.upd s fun x => { x with subs := x.subs ++ [{ src := src, stream := stream }] }, [.subNew s src stream], true)
  else (st, [], false)

/-- `"requestoffer"` -/
def requestStep (cfg : Cfg) (st : St) (s p : Nat) (stream : String) : St × List Ev :=
  let x := st.sess s
  if !x.live then (st, []) else
  if s = p then (st, [])
  else if cfg.dispatchOk && !st.allowAny && !sameCall cfg st s p then (st, [.reply s "not_allowed"])
  else
    let (st1, ev, ok) := getOrCreateSub cfg st s p stream
    if ok then (st1, .requestOk s p stream :: ev ++ [.subMsg s p stream .requestoffer, .reply s ("offer<" ++ toString p)])
    else (st1, [.requestOk s p stream, .reply s "client_not_found"])

/-- `"sendoffer"` (handled in `processMessageMsg`) -/
def sendofferStep (cfg : Cfg) (st : St) (s r : Nat) (stream : String) : St × List Ev :=
  let x := st.sess s
  if !x.live then (st, []) else
  if s = r then (st, [])
  else if cfg.sendofferGuarded && !allowedToSend cfg x.perms stream .sendoffer [] then (st, [.reply s "not_allowed"])
  else if !(st.sess r).live then (st, [.sendofferOk s r stream])
  else
    let (st1, ev, ok) := getOrCreateSub cfg st r s stream
    if ok then (st1, .sendofferOk s r stream :: ev ++ [.subMsg r s stream .sendoffer, .deliver r "offer" s])
    else (st1, [.sendofferOk s r stream, .reply s "client_not_found"])

/-- answer / candidate / endOfCandidates / selectStream / other message of `s` addressed to session `r`. -/
def msgStep (cfg : Cfg) (st : St) (s r : Nat) (k : Kind) (stream : String) : St × List Ev :=
  let x := st.sess s
  if !x.live then (st, []) else
  match k with
  | .other =>
    -- not for the media server
    if s = r || !(st.sess r).live then (st, []) else (st, [.deliver r "msg" s])
  | .offer | .requestoffer | .sendoffer => (st, [])  -- own actions
  | .selectStream =>
    if s = r then (st, [])
    else if hasSub x r stream then (st, [.subMsg s r stream k]) else (st, [.reply s "client_not_found"])
  | _ =>
    if s = r then
      if cfg.dispatchOk && !allowedToSend cfg x.perms stream k [] then (st, [.reply s "not_allowed"])
      else match findPub x stream with
        | some _ => (st, [.pubMsg s stream k])
        | none => (st, [.reply s "client_not_found"])
    else if hasSub x r stream then (st, [.subMsg s r stream k]) else (st, [.reply s "client_not_found"])

/-! ### control messages and transient data -/

def mayControl (cfg : Cfg) (x : Sess) : Bool :=
  !cfg.controlOk || !cfg.hasPermOk || x.internal || hasPerm cfg x.perms cfg.permControl

def mayTransient (cfg : Cfg) (x : Sess) : Bool :=
  !cfg.transientOk || !cfg.hasPermOk || x.internal || hasPerm cfg x.perms cfg.permTransient

def controlStep (cfg : Cfg) (st : St) (s : Nat) (rc : Rcpt) : St × List Ev :=
  let x := st.sess s
  if !x.live then (st, []) else
  if !mayControl cfg x then (st, [])
  else match rc with
    | .session r => if r = s || !(st.sess r).live then (st, []) else (st, [.deliver r "ctl" s])
    | .room =>
      match x.room with
      | none => (st, [])
      | some rm => (st, ((List.range st.n).filter fun i => i != s && (st.sess i).live && (st.sess i).room == some rm).map
                          fun i => Ev.deliver i "ctl" s)
    | .call =>
      match x.room with
      | none => (st, [])
      | some rm => (st, ((List.range st.n).filter fun i =>
                          i != s && (st.sess i).live && (st.sess i).room == some rm && (st.sess i).inCall).map
                          fun i => Ev.deliver i "ctl" s)

def roomSessions (st : St) (rm : Nat) : List Nat :=
  (List.range st.n).filter fun i => (st.sess i).live && (st.sess i).room == some rm

def transientStep (cfg : Cfg) (st : St) (s : Nat) (a : TAct) : St × List Ev :=
  let x := st.sess s
  if !x.live then (st, []) else
  match x.room with
  | none => (st, [.reply s "not_in_room"])
  | some rm =>
    match a with
    | .other => (st, [.reply s "ignored"])
    | .set k v =>
      if !mayTransient cfg x then (st, [.reply s "not_allowed"])
      else if (st.store rm).lookup k == some v then (st, [])
      else ({ st with store := fun q => if q = rm then (k, v) :: (st.store rm).filter (fun e => e.1 != k) else st.store q },
            (roomSessions st rm).map fun i => Ev.tev i ("tset." ++ k ++ "." ++ v) s)
    | .remove k =>
      if !mayTransient cfg x then (st, [.reply s "not_allowed"])
      else if ((st.store rm).lookup k).isNone then (st, [])
      else ({ st with store := fun q => if q = rm then (st.store rm).filter (fun e => e.1 != k) else st.store q },
            (roomSessions st rm).map fun i => Ev.tev i ("trm." ++ k) s)

/-! ### one step -/

def step (cfg : Cfg) (st : St) : Act → St × List Ev
  | .join s r perms => joinRoom cfg st s r perms
  | .leave s => leaveRoom st s
  | .setPerms s p =>
    if !(st.sess s).live then (st, [])
    else (st.upd s fun x => { x with perms := some p, sweeps := x.sweeps + 1 }, [])
  | .sweep s => sweepStep cfg st s
  | .incall s r f => incallStep cfg st s r f
  | .incallAll r f => incallAllStep st r f
  | .close s => closeStep st s
  | .setAllowAny b => ({ st with allowAny := b }, [])
  | .offer s stream ml => offerStep cfg st s stream ml
  | .msg s r k stream => msgStep cfg st s r k stream
  | .request s p stream => requestStep cfg st s p stream
  | .sendoffer s r stream => sendofferStep cfg st s r stream
  | .control s rc => controlStep cfg st s rc
  | .transient s a => transientStep cfg st s a

def run (cfg : Cfg) (st : St) (acts : List Act) : St := acts.foldl (fun st a => (step cfg st a).1) st

/-- States reachable from an initial state by any sequence of actions (in particular with the
revocation goroutines delayed arbitrarily). -/
def Reachable (cfg : Cfg) (st : St) : Prop := ∃ n internals acts, st = run cfg (St.init n internals) acts

end SigModel.Perm
