/-
Go's `sync.RWMutex` as a transition system (C13, "never blocks").

`sync.RWMutex` is writer-preferring: `Lock()` first takes the internal writer
mutex `w` and announces itself (readerCount -= rwmutexMaxReaders); from then on
every new `RLock()` blocks until that writer has called `Unlock()`; the writer
itself proceeds once the readers that were active at the announcement have
left.  That is why a goroutine that calls `RLock()` twice without releasing in
between can deadlock with a writer arriving in the middle — the nested call is
"new" and waits for the writer, the writer waits for the first hold.

A thread runs a lock program (the sequence of lock calls of the functions it
executes — extracted from the Go source, see `Generated/Backends.lean`).
-/
import SigModel.Generated.Backends

namespace SigModel.RWLock

inductive LockOp where
  | rlock | runlock | lock | unlock
  deriving DecidableEq, Repr

def LockOp.ofString (s : String) : Option LockOp :=
  if s = "RLock" then some .rlock
  else if s = "RUnlock" then some .runlock
  else if s = "Lock" then some .lock
  else if s = "Unlock" then some .unlock
  else none

/-- A lock program from its extracted spelling; an unknown call makes it `none`. -/
def parseProg : List String → Option (List LockOp)
  | [] => some []
  | s :: ss =>
    match LockOp.ofString s, parseProg ss with
    | some o, some os => some (o :: os)
    | _, _ => none

/-- The mutex: number of active readers, whether the writer mutex `w` is taken
(a writer announced itself or holds the lock), whether a writer holds the lock. -/
structure Mutex where
  readers : Nat := 0
  wlocked : Bool := false
  active : Bool := false
  deriving DecidableEq, Repr

/-- A thread: the lock calls still to do, plus ghost state (what it holds). -/
structure Thread where
  todo : List LockOp
  r : Nat := 0           -- read holds
  w : Bool := false      -- holds the write lock
  ann : Bool := false    -- inside `Lock()`: announced, waiting for the readers to leave
  deriving DecidableEq, Repr

/-- One step of a thread, if it is not blocked. -/
def stepThread (mu : Mutex) (t : Thread) : Option (Mutex × Thread) :=
  match t.todo with
  | [] => none
  | .rlock :: rest =>
    if mu.wlocked then none     -- a writer is pending or active: RLock blocks
    else some ({ mu with readers := mu.readers + 1 }, { t with todo := rest, r := t.r + 1 })
  | .runlock :: rest =>
    some ({ mu with readers := mu.readers - 1 }, { t with todo := rest, r := t.r - 1 })
  | .lock :: rest =>
    if t.ann then
      if mu.readers = 0 then
        some ({ mu with active := true }, { t with todo := rest, ann := false, w := true })
      else none                 -- waiting for the active readers
    else if mu.wlocked then none   -- another writer owns `w`
    else some ({ mu with wlocked := true }, { t with ann := true })
  | .unlock :: rest =>
    some ({ mu with wlocked := false, active := false }, { t with todo := rest, w := false })

structure Cfg where
  mu : Mutex := {}
  threads : List Thread
  deriving DecidableEq, Repr

def Cfg.init (progs : List (List LockOp)) : Cfg :=
  { threads := progs.map (fun p => { todo := p }) }

inductive Step : Cfg → Cfg → Prop where
  | mk (mu mu' : Mutex) (pre post : List Thread) (t t' : Thread) :
      stepThread mu t = some (mu', t') →
      Step ⟨mu, pre ++ t :: post⟩ ⟨mu', pre ++ t' :: post⟩

inductive Reach (c₀ : Cfg) : Cfg → Prop where
  | refl : Reach c₀ c₀
  | step {c c'} : Reach c₀ c → Step c c' → Reach c₀ c'

/-- Everything has run to completion. -/
def Cfg.final (c : Cfg) : Bool := c.threads.all (fun t => t.todo.isEmpty)

/-- Some thread can move. -/
def Cfg.enabled (c : Cfg) : Bool := c.threads.any (fun t => (stepThread c.mu t).isSome)

/-- What a thread holds, for the syntactic check of a lock program. -/
inductive Held where
  | none | read | write
  deriving DecidableEq, Repr

/-- Well-bracketed and non-nested: a sequence of `RLock RUnlock` and `Lock Unlock` pairs
(continuing from a state in which `h` is held). -/
def flatFrom : Held → List LockOp → Bool
  | .none, [] => true
  | .none, .rlock :: rest => flatFrom .read rest
  | .none, .lock :: rest => flatFrom .write rest
  | .read, .runlock :: rest => flatFrom .none rest
  | .write, .unlock :: rest => flatFrom .none rest
  | _, _ => false

def Flat (p : List LockOp) : Bool := flatFrom .none p

/-- All paths of all extracted entry points parse and are flat. -/
def allFlat (progs : List (String × List (List String))) : Bool :=
  progs.all (fun e => e.2.all (fun p =>
    match parseProg p with
    | some ops => Flat ops
    | none => false))

end SigModel.RWLock
