/-
Model of /repo/sessionid_codec.go (SessionIdCodec over gorilla/securecookie v1.1.2)
and of the decode cache of hub.go (decode*SessionId, setDecodedSessionId,
invalidateSessionId): C15.

Wire format restated from securecookie.go (`Encode`/`Decode`):

    id      = b64url( date "|" b64url(value) "|" tag )
    tag     = MAC(hashKey, name "|" date "|" b64url(value))
    value   = serialized SessionIdData, AES-CTR encrypted (iv ++ ct) when a block key is set
    public  = b64url( reverse( bytes of the cookie made with the public name ) )

The MAC is a parameter (`Hmac.Mac`); encryption and protobuf (de)serialisation
are outside the model: `value` is a byte string, and what becomes of it after the
MAC stage is the parameter `open_ : Bytes → Option Bytes` (decrypt ∘ deserialise).
Names, the reversal, `MaxAge` and the canonical-spelling guard come from
`Generated/SessionId.lean`.
-/
import SigModel.Basic.Base64
import SigModel.Basic.Hmac
import SigModel.Generated.SessionId

namespace SigModel.SessionId
open SigModel.Generated.SessionId SigModel.Hmac

abbrev b64 := Base64.encode Base64.url
abbrev unb64 := Base64.decode Base64.url

def sep : UInt8 := 124     -- '|'

/-- securecookie's default `maxLength` (not changed by NewSessionIdCodec). -/
def maxLength : Nat := 4096

inductive Kind where
  | priv | pub
  deriving DecidableEq, Repr

/-! ### strconv.ParseInt(s, 10, 64) -/

def isDigit (c : UInt8) : Bool := 48 ≤ c.toNat && c.toNat ≤ 57

/-- Value of a little-endian digit list. -/
def valRev : Bytes → Nat
  | [] => 0
  | c :: r => (c.toNat - 48) + 10 * valRev r

/-- Is there a leading minus sign? -/
def isNeg : Bytes → Bool
  | 45 :: _ => true
  | _ => false

/-- The text without its optional sign. -/
def unsigned : Bytes → Bytes
  | 43 :: r => r
  | 45 :: r => r
  | d => d

def parseInt64 (d : Bytes) : Option Int :=
  let ds := unsigned d
  if ds.isEmpty || !ds.all isDigit then none
  else
    let n := valRev ds.reverse
    if isNeg d then (if n ≤ 2 ^ 63 then some (-(n : Int)) else none)
    else (if n < 2 ^ 63 then some (n : Int) else none)

/-- `fmt.Sprintf("%d", n)` for a non-negative timestamp, least significant digit first. -/
def decRev (n : Nat) : Bytes :=
  if h : n < 10 then [UInt8.ofNat (48 + n)] else UInt8.ofNat (48 + n % 10) :: decRev (n / 10)
termination_by n
decreasing_by omega

def decDigits (n : Nat) : Bytes := (decRev n).reverse

/-! ### securecookie Encode / Decode (steps that do not need the block cipher) -/

/-- The authenticated message `name|date|b64(value)`. -/
def macMsg (name date vb : Bytes) : Bytes := name ++ sep :: (date ++ sep :: vb)

/-- The bytes inside the outer base64: `date|b64(value)|tag`. -/
def cookieBytes (date vb tag : Bytes) : Bytes := date ++ sep :: (vb ++ sep :: tag)

/-- `SecureCookie.Encode` from step 3 on; `value` is the serialised (and, with a
block key, encrypted) data; `now` the timestamp. -/
def cookieEncode (mac : Mac) (hashKey name : Bytes) (now : Nat) (value : Bytes) : Option Bytes :=
  if hashKey.isEmpty then none
  else
    let date := decDigits now
    let vb := b64 value
    let out := b64 (cookieBytes date vb (mac hashKey (macMsg name date vb)))
    if out.length > maxLength then none else some out

/-- `SecureCookie.Decode` steps 1–5a: returns the value bytes (before decryption /
deserialisation).  `now` only matters when `maxAge ≠ 0`. -/
def cookieDecode (mac : Mac) (hashKey name : Bytes) (now : Int) (s : Bytes) : Option Bytes :=
  if hashKey.isEmpty then none
  else if s.length > maxLength then none
  else match unb64 s with
    | none => none
    | some b =>
      match Bytes.splitFirst sep b with
      | none => none
      | some (date, r1) =>
        match Bytes.splitFirst sep r1 with
        | none => none
        | some (vb, tag) =>
          if tag ≠ mac hashKey (macMsg name date vb) then none
          else match parseInt64 date with
            | none => none
            | some t1 =>
              if maxAge ≠ 0 ∧ t1 < now - (maxAge : Int) then none
              else unb64 vb

/-! ### sessionid_codec.go -/

/-- `reverseSessionId`. -/
def reverseId (s : Bytes) : Option Bytes :=
  match unb64 s with
  | some b => some (b64 b.reverse)
  | none => none

/-- `sessionCookieNames`: what is appended to both cookie names when a block key is
configured (`bk ≠ []`): `"/" ++ hex(MAC(hashKey, "block-key|" ++ blockKey))`.  The names are
only ever MAC input, so this binds the block key to every tag. -/
def nameSuffix (mac : Mac) (hashKey bk : Bytes) : Bytes :=
  if blockKeyBoundToNames ∧ ¬ bk.isEmpty then
    Bytes.ascii blockKeyNameSep ++ Bytes.toHex (mac hashKey (Bytes.ascii blockKeyBindingPrefix ++ bk))
  else []

def Kind.encodeBase : Kind → Bytes
  | .priv => Bytes.ascii encodePrivateName
  | .pub => Bytes.ascii encodePublicName

def Kind.decodeBase : Kind → Bytes
  | .priv => Bytes.ascii decodePrivateName
  | .pub => Bytes.ascii decodePublicName

/-- The cookie name `EncodePrivate`/`EncodePublic` authenticate under (`bk = []`: no block key). -/
def Kind.encodeName (k : Kind) (mac : Mac) (hashKey bk : Bytes) : Bytes := k.encodeBase ++ nameSuffix mac hashKey bk

def Kind.decodeName (k : Kind) (mac : Mac) (hashKey bk : Bytes) : Bytes := k.decodeBase ++ nameSuffix mac hashKey bk

def Kind.reversesOnEncode : Kind → Bool
  | .priv => false
  | .pub => encodePublicReverses

def Kind.reversesOnDecode : Kind → Bool
  | .priv => false
  | .pub => decodePublicReverses

def Kind.checksCanonical : Kind → Bool
  | .priv => decodePrivateChecksCanonical
  | .pub => decodePublicChecksCanonical

/-- `EncodePrivate` / `EncodePublic` (after serialisation and encryption); `bk` = block key,
`[]` if none is configured. -/
def encodeId (mac : Mac) (hashKey bk : Bytes) (k : Kind) (now : Nat) (value : Bytes) : Option Bytes :=
  match cookieEncode mac hashKey (k.encodeName mac hashKey bk) now value with
  | none => none
  | some s => if k.reversesOnEncode then reverseId s else some s

/-- `DecodePrivate` / `DecodePublic` up to the value bytes. -/
def decodeValue (mac : Mac) (hashKey bk : Bytes) (k : Kind) (now : Int) (s : Bytes) : Option Bytes :=
  if k.checksCanonical ∧ Base64.canonical Base64.url s = false then none
  else if k.reversesOnDecode then
    match reverseId s with
    | none => none
    | some r => cookieDecode mac hashKey (k.decodeName mac hashKey bk) now r
  else cookieDecode mac hashKey (k.decodeName mac hashKey bk) now s

/-- Full decode: `open_` = decrypt (if a block key is set) and deserialise. -/
def decodeId (mac : Mac) (hashKey bk : Bytes) (open_ : Bytes → Option Bytes) (k : Kind) (now : Int) (s : Bytes) :
    Option Bytes :=
  match decodeValue mac hashKey bk k now s with
  | none => none
  | some v => open_ v

/-! ### hub.go: decode cache -/

def Kind.cacheName : Kind → Bytes
  | .priv => Bytes.ascii cachePrivateName
  | .pub => Bytes.ascii cachePublicName

def cacheKey (k : Kind) (id : Bytes) : Bytes := id ++ Bytes.ascii cacheKeySep ++ k.cacheName

/-- The 32 LRU shards together: key ↦ decoded data.  (Sharding is by a hash of the
key and does not change what a lookup returns; eviction is the op `evict`.) -/
abbrev Cache := List (Bytes × Bytes)

def Cache.get (c : Cache) (key : Bytes) : Option Bytes :=
  match c with
  | [] => none
  | (k, v) :: r => if k = key then some v else Cache.get r key

def Cache.remove (c : Cache) (key : Bytes) : Cache := c.filter (fun e => e.1 ≠ key)

def Cache.set (c : Cache) (key v : Bytes) : Cache := (key, v) :: Cache.remove c key

structure Hub where
  hashKey : Bytes
  blockKey : Bytes := []
  cache : Cache := []

/-- `Hub.decodePrivateSessionId` / `Hub.decodePublicSessionId`. -/
def Hub.decode (mac : Mac) (open_ : Bytes → Option Bytes) (h : Hub) (k : Kind) (now : Int) (id : Bytes) :
    Hub × Option Bytes :=
  if id.isEmpty then (h, none)
  else
    let key := cacheKey k id
    match h.cache.get key with
    | some d => (h, some d)
    | none =>
      if cacheFilledOnlyAfterSuccessfulDecode then
        match decodeId mac h.hashKey h.blockKey open_ k now id with
        | none => (h, none)
        | some d => ({ h with cache := h.cache.set key d }, some d)
      else
        -- a cache filled before the error check would store failures too
        let r := decodeId mac h.hashKey h.blockKey open_ k now id
        ({ h with cache := h.cache.set key (r.getD []) }, r)

/-- `Hub.invalidateSessionId`. -/
def Hub.invalidate (h : Hub) (k : Kind) (id : Bytes) : Hub :=
  if id.isEmpty then h else { h with cache := h.cache.remove (cacheKey k id) }

/-- `Hub.setDecodedSessionId`. -/
def Hub.setDecoded (h : Hub) (k : Kind) (id d : Bytes) : Hub :=
  if id.isEmpty then h else { h with cache := h.cache.set (cacheKey k id) d }

/-- `processRegister` as far as ids are concerned: mint both ids for the new
session data `d` and pre-fill the cache with them.  `vp`, `vq` = the serialised
(and encrypted: two `Encode` calls, two IVs) data. -/
def Hub.register (mac : Mac) (h : Hub) (now : Nat) (vp vq d : Bytes) : Hub × Option (Bytes × Bytes) :=
  match encodeId mac h.hashKey h.blockKey .priv now vp, encodeId mac h.hashKey h.blockKey .pub now vq with
  | some p, some q => ((h.setDecoded .priv p d).setDecoded .pub q d, some (p, q))
  | _, _ => (h, none)

end SigModel.SessionId
