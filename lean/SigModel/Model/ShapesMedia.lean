/-
C10, media part: reviewed tables for the code *behind* the hub's handlers that
receives (parts of) a client message - the Janus client (`mcu_janus*.go`,
`janus_client.go`), the proxy MCU client (`mcu_proxy.go`) and the media proxy
(`proxy/proxy_*.go`), which hands the same payloads to its own Janus client.

The payload of a `message` for the media server is a `map[string]interface{}`
decoded from the client's bytes; it travels through these files as plain maps
and interface values, where a single-value type assertion, an index expression
or a write to a nil map is a panic in a goroutine nobody recovers.  The
differential run reaches this code through the fake Janus gateway of the harness
(`world mcu=2`); the tables below tie the *rest* of it (proxy client, media
proxy, remote publishers) to the sources: `tools/extract/shapesmedia.go` lists
every such expression of these files (duplicates kept), and
`C10_media_tables_reviewed` (Props/C10.lean) states that the lists are exactly
the ones reviewed here.  A new entry means: read it, and either guard the code
or add it here with the reason why client input cannot make it panic.
-/
import SigModel.Generated.ShapesMedia

namespace SigModel.ShapesMedia

/-- Single-value type assertions in the media files.  None of them is applied to a value
that comes from a client:
* `mcuJanus.notifyOn…`, `mcuProxyConnection.Country/Version/Features`, `mcuProxy.getContinentsMap`,
  `tokensEtcd.getKeys`, `tokensStatic.getTokenKeys`: `atomic.Value`s that the constructor (or the
  configuration loader) fills with a value of that type before anybody reads them;
* `mcuProxyConnection.SessionId`: after a nil check, only strings are stored;
* `doProcessPayload`: a message of the media proxy (an authenticated server), not of a client. -/
def reviewedTypeAssertions : List (String × String) := [
  ("mcuJanus.notifyOnConnected", "m.onConnected.Load().(func())"),
  ("mcuJanus.notifyOnDisconnected", "m.onDisconnected.Load().(func())"),
  ("mcuProxy.getContinentsMap", "continentsMap.(map[string][]string)"),
  ("mcuProxyConnection.Country", "c.country.Load().(string)"),
  ("mcuProxyConnection.Features", "c.features.Load().([]string)"),
  ("mcuProxyConnection.SessionId", "sid.(string)"),
  ("mcuProxyConnection.Version", "c.version.Load().(string)"),
  ("mcuProxyPubSubCommon.doProcessPayload", "msg.Payload[\"offer\"].(map[string]interface{})"),
  ("proxy/tokensEtcd.getKeys", "t.tokenFormats.Load().([]string)"),
  ("proxy/tokensStatic.getTokenKeys", "t.tokenKeys.Load().(map[string]*ProxyToken)")]

/-- Index / slice expressions that are not recognisably map lookups:
* map lookups the syntactic filter does not see (`gateway.Sessions[…]`, `data.Data[key]`, `m.clients[…]`,
  `m[continent]`, `tokenKeys[id]`);
* `getFmtpValue`: `kv` has exactly two elements (`len(kv) != 2 ⇒ continue`);
* `GetStreams`: `Formats[0]` after `len(Formats) == 0 ⇒ continue`; `offerSdp.MediaDescriptions[idx]` with
  `idx` ranging over the answer of the media server, which has one section per section of the offer;
* `NewSubscriber`: `connections[0]` behind `len(connections) > 0 &&`;
* `removeConnection`, `deferMessage`: `idx` comes from a `range` over the same slice under its lock;
* `mcuProxyConnectionsList.Less/Swap`: `sort.Interface`;
* `IsPublicIP`: `ip4 := IP.To4(); ip4 != nil` has four bytes;
* `getByKey`: after `len(resp.Kvs) == 0 ⇒ return`. -/
def reviewedIndexExprs : List (String × String) := [
  ("JanusGateway.Create", "gateway.Sessions[session.Id]"),
  ("JanusGateway.recv", "gateway.Sessions[base.Session]"),
  ("getFmtpValue", "kv[0]"),
  ("getFmtpValue", "kv[1]"),
  ("getPluginValue", "data.Data[key]"),
  ("mcuJanus.registerClient", "m.clients[client]"),
  ("mcuJanusPublisher.GetStreams", "m.MediaName.Formats[0]"),
  ("mcuJanusPublisher.GetStreams", "m.MediaName.Formats[0]"),
  ("mcuJanusPublisher.GetStreams", "offerSdp.MediaDescriptions[idx]"),
  ("mcuProxy.NewSubscriber", "connections[0]"),
  ("mcuProxy.removeConnection", "conns[:idx]"),
  ("mcuProxy.removeConnection", "conns[idx+1:]"),
  ("mcuProxyConnection.IsSameContinent", "m[continent]"),
  ("mcuProxyConnectionsList.Less", "l[i]"),
  ("mcuProxyConnectionsList.Less", "l[j]"),
  ("mcuProxyConnectionsList.Swap", "l[i]"),
  ("mcuProxyConnectionsList.Swap", "l[i]"),
  ("mcuProxyConnectionsList.Swap", "l[j]"),
  ("mcuProxyConnectionsList.Swap", "l[j]"),
  ("proxy/IsPublicIP", "ip4[0]"),
  ("proxy/IsPublicIP", "ip4[0]"),
  ("proxy/IsPublicIP", "ip4[0]"),
  ("proxy/IsPublicIP", "ip4[1]"),
  ("proxy/IsPublicIP", "ip4[1]"),
  ("proxy/IsPublicIP", "ip4[1]"),
  ("proxy/RemoteConnection.deferMessage", "c.pendingMessages[idx]"),
  ("proxy/tokensEtcd.getByKey", "resp.Kvs[len(resp.Kvs)-1]"),
  ("proxy/tokensStatic.Get", "tokenKeys[id]")]

/-- Writes to maps that are neither made in the same function nor tables of the receiver:
* `janus_client.go`: `req` is the result of `newRequest` (`make`), `msg` is such a `req` of the caller;
* `AddRemotePublisher`: `remote` is looked up or made a few lines above;
* `streamSelection.AddToMessage`: only called with the `join_msg` / `configure_msg` literals of the subscriber. -/
def reviewedMapWrites : List (String × String) := [
  ("JanusGateway.send", "msg[\"transaction\"]"),
  ("JanusHandle.Message", "req[\"body\"]"),
  ("JanusHandle.Message", "req[\"jsep\"]"),
  ("JanusHandle.Request", "req[\"body\"]"),
  ("JanusHandle.TrickleMany", "req[\"candidates\"]"),
  ("JanusHandle.Trickle", "req[\"candidate\"]"),
  ("JanusHandle.send", "msg[\"handle_id\"]"),
  ("JanusSession.Attach", "req[\"plugin\"]"),
  ("JanusSession.send", "msg[\"session_id\"]"),
  ("proxy/ProxySession.AddRemotePublisher", "remote[key]"),
  ("streamSelection.AddToMessage", "message[\"audio\"]"),
  ("streamSelection.AddToMessage", "message[\"substream\"]"),
  ("streamSelection.AddToMessage", "message[\"temporal\"]"),
  ("streamSelection.AddToMessage", "message[\"video\"]")]

/-- Pointer members of a client message dereferenced without a nil guard in the media files: none
(`data.offerSdp` is compared with nil before it is stored). -/
def reviewedDerefs : List (String × String × String) := []

end SigModel.ShapesMedia
