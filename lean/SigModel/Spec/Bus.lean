/-
Spec for C20, written from the property statement — not from the code.

A *history* is what an observer outside the bus can record: every `Register…`, `Unregister…` and
`Publish…` call with a logical timestamp taken before it starts (`ts`) and after it returned (`te`),
and every callback of a listener (`t`, taken at callback entry) together with the message it was handed.
`admits` is the statement of C20 read as a predicate on such a history:

  P  publication indices are unique and agree with real time;
  A  a listener is only ever handed messages that were published (unmodified: the message carries its
     own index and subject, the harness compares the payload), and only after publication began;
  B  … on a subject it registered for, not published after the unregistration returned: some
     registration of the listener on that subject started before the callback, and every unregistration
     that started after that registration returned, returned only after the publication began;
  C  no message is handed to the same listener twice;
  D  per listener and subject, callbacks come in publication order;
  E  (histories that end in quiescence, below the slow-consumer threshold) a listener whose registration
     completed before a publication began and that did not unregister afterwards has received it.

Every clause is monotone under widening of the call intervals (`Lemmas/Bus.lean: admits_widen`), so it
is sound to evaluate it with timestamps taken around the calls instead of at their linearisation points.
-/
namespace SigModel.Bus

/-- a `Register*Listener` / `Unregister*Listener` call -/
structure HCall where
  l : Nat
  s : Nat
  ts : Nat
  te : Nat
  deriving DecidableEq, Repr

/-- a `Publish*Message` call; `idx` = position in the publication order of the bus -/
structure HPub where
  s : Nat
  idx : Nat
  ts : Nat
  te : Nat
  deriving DecidableEq, Repr

/-- a callback: listener, index and subject of the message it was handed, time -/
structure HRecv where
  l : Nat
  idx : Nat
  s : Nat
  t : Nat
  deriving DecidableEq, Repr

structure Hist where
  regs : List HCall := []
  unregs : List HCall := []
  pubs : List HPub := []
  recvs : List HRecv := []
  deriving Repr

def okP (h : Hist) : Bool :=
  h.pubs.all fun p => h.pubs.all fun q =>
    (p.idx = q.idx → p = q) && (p.te < q.ts → p.idx < q.idx)

def okA (h : Hist) : Bool :=
  h.recvs.all fun r => h.pubs.any fun p => p.idx = r.idx && p.s = r.s && p.ts < r.t

/-- Is the callback `r` of a message whose publication started at `pts` justified by a registration? -/
def justified (h : Hist) (r : HRecv) (pts : Nat) : Bool :=
  h.regs.any fun R => R.l = r.l && R.s = r.s && R.ts < r.t &&
    h.unregs.all fun U => (U.l = r.l ∧ U.s = r.s ∧ R.te < U.ts → pts < U.te)

def okB (h : Hist) : Bool :=
  h.recvs.all fun r => h.pubs.all fun p => (p.idx = r.idx → justified h r p.ts)

def okC (h : Hist) : Bool :=
  h.recvs.all fun r => h.recvs.all fun r' => (r.l = r'.l ∧ r.idx = r'.idx → r = r')

def okD (h : Hist) : Bool :=
  h.recvs.all fun r => h.recvs.all fun r' => (r.l = r'.l ∧ r.s = r'.s ∧ r.t < r'.t → r.idx < r'.idx)

/-- `R` is a registration that was never followed by an unregistration of the same listener and subject. -/
def stays (h : Hist) (R : HCall) : Bool :=
  h.unregs.all fun U => (U.l = R.l ∧ U.s = R.s → U.te < R.ts)

def okE (h : Hist) : Bool :=
  h.regs.all fun R => !stays h R ||
    h.pubs.all fun p => (p.s = R.s ∧ R.te < p.ts → h.recvs.any fun r => r.l = R.l && r.idx = p.idx)

/-- the safety part (every prefix of an admitted history satisfies it) -/
def admitsSafe (h : Hist) : Bool := okP h && okA h && okB h && okC h && okD h

/-- `complete`: the recording ends in quiescence and no message was dropped at a full channel -/
def admits (h : Hist) (complete : Bool) : Bool := admitsSafe h && (!complete || okE h)

/-- verdict with the first failing clause -/
def judge (h : Hist) (complete : Bool) : String :=
  if !okP h then "violated:publication-order-inconsistent"
  else if !okA h then "violated:received-unpublished-or-modified-message"
  else if !okB h then "violated:received-while-not-registered"
  else if !okC h then "violated:duplicate-delivery"
  else if !okD h then "violated:out-of-order-delivery"
  else if complete && !okE h then "violated:message-lost-for-registered-listener"
  else "ok"

theorem judge_ok_iff (h : Hist) (c : Bool) : judge h c = "ok" ↔ admits h c = true := by
  unfold judge admits admitsSafe
  cases okP h <;> cases okA h <;> cases okB h <;> cases okC h <;> cases okD h <;> cases c <;> cases okE h <;> decide

end SigModel.Bus
