/-
Spec for C12, written from the property statement:

  "Whatever a remote signaling server sends on a federation connection,
   including well-formed JSON with missing members, the local server keeps
   running; at worst the one federated session gets an error or is
   disconnected from the remote room.  Other sessions are unaffected."

On the model: a step is *safe* when it neither crashes nor deadlocks, and
*contained* when everything it does is addressed to the federated session
itself or to the remote server (the effect type has no other addressee; the
classification below says which effects are possible at all).

"Every byte string" is reduced to "every value of `Dec`": an undecodable frame
or a decoded `ServerMessage` value.  The decoder (encoding/json + easyjson) is
trusted; the correspondence run feeds truncated and type-confused documents
through the real decoder on both sides.

On the implementation: `judge` evaluates the statement on what the harness
observed (local client, hostile peer, bystander session, liveness probes).
A death of the process is seen by tools/check.py (`violated:process-died`).
-/
import SigModel.Model.ShapesFederation

namespace SigModel.ShapesFederation

/-- The local server keeps running: the read loop neither panics nor blocks forever. -/
def Safe (c : Ctx) : Prop := c.fault = none

/-- What the statement allows a step to do beyond talking to the remote server. -/
structure Perm where
  /-- the remote hello is complete: messages of the remote server may be forwarded -/
  fwd : Bool
  /-- the frame being processed is a "bye" of the remote server -/
  bye : Bool

/-- What a step may do: everything is addressed to the federated session itself (its own
connection) or to the remote server.  Messages of the remote server are forwarded only once the
remote hello is complete, and the session itself is ended only by a forwarded "bye". -/
def Eff.contained (p : Perm) : Eff → Bool
  | .toLocal .forwarded _ => p.fwd
  | .toLocal _ _ => true      -- an error answering the join request / a federation state event
  | .toPeer _ => true         -- a message to the remote server
  | .connClosed => true       -- leaving the remote server
  | .reconnected => true
  | .sessionClosed => p.fwd && p.bye

/-! ### Which regenerated facts make the model safe

`requires t f`: a message of type `t` only reaches the handlers if sub-object `f` is present. -/

def Facts.validates (F : Facts) : Bool := F.checkValidExists && F.readPumpValidates

def Facts.requires (F : Facts) (t f : String) : Bool :=
  F.validates && (lookup t F.requiredByType).contains f

def Facts.requiresEv (F : Facts) (target type f : String) : Bool :=
  F.requires "event" "Event" && F.eventValidated && (lookup (target, type) F.requiredByEvent).contains f

def Facts.requiresEntries (F : Facts) (target type f : String) : Bool :=
  F.requires "event" "Event" && F.eventValidated && (lookup (target, type) F.entriesByEvent).contains f

/-- Is a dereference found in the Go handlers (message type, event target, event type, path)
covered by the validation tables? -/
def Facts.covers (F : Facts) : String × String × String × String → Bool
  | (t, target, type, path) =>
    let ev (f : String) : Bool := t = "event" && F.requiresEv target type f
    if path = "Event" then t = "event" && F.requires t "Event"
    else if path = "Event.Join[]" then t = "event" && F.requiresEntries target type "Join"
    else if path = "Event.Change[]" then t = "event" && F.requiresEntries target type "Change"
    else if path = "Event.Update" then ev "Update"
    else if path = "Event.Flags" then ev "Flags"
    else if path = "Event.Message" then ev "Message"
    else if path = "Event.Invite" then ev "Invite"
    else if path = "Event.Disinvite" then ev "Disinvite"
    else if path = "Event.SwitchTo" then ev "SwitchTo"
    else if path = "Welcome" || path = "Error" || path = "Hello" || path = "Room" || path = "Message" ||
        path = "Control" || path = "Bye" || path = "TransientData" || path = "Internal" || path = "Dialout" then
      F.requires t path
    else false

/-- The dereferences the model knows (its `crash` branches). -/
def modelDerefs : List (String × String × String × String) :=
  [("welcome", "", "", "Welcome"), ("error", "", "", "Error"), ("hello", "", "", "Hello"),
   ("control", "", "", "Control"), ("message", "", "", "Message"), ("room", "", "", "Room"),
   ("event", "", "", "Event"), ("event", "participants", "", "Event"), ("event", "room", "", "Event"),
   ("event", "roomlist", "", "Event"),
   ("event", "participants", "update", "Event"), ("event", "participants", "update", "Event.Update"),
   ("event", "participants", "flags", "Event"), ("event", "participants", "flags", "Event.Flags"),
   ("event", "participants", "message", "Event"), ("event", "participants", "message", "Event.Message"),
   ("event", "room", "join", "Event"), ("event", "room", "join", "Event.Join[]"),
   ("event", "room", "leave", "Event"),
   ("event", "room", "message", "Event"), ("event", "room", "message", "Event.Message"),
   ("event", "roomlist", "invite", "Event"), ("event", "roomlist", "invite", "Event.Invite"),
   ("event", "roomlist", "disinvite", "Event"), ("event", "roomlist", "disinvite", "Event.Disinvite"),
   ("event", "roomlist", "update", "Event"), ("event", "roomlist", "update", "Event.Update")]

/-- The conditions on the regenerated facts under which the theorems hold. -/
def Facts.soundList (F : Facts) : List Bool :=
  [ -- every sub-object the handlers dereference is guaranteed by the validation in front of them
    F.requires F.preHelloWelcomeType "Welcome", F.requires "error" "Error", F.requires "hello" "Hello",
    F.requires "control" "Control", F.requires "message" "Message", F.requires "room" "Room",
    F.requires "event" "Event",
    F.requiresEv "participants" "update" "Update", F.requiresEv "participants" "flags" "Flags",
    F.requiresEv "participants" "message" "Message", F.requiresEv "room" "message" "Message",
    F.requiresEv "roomlist" "invite" "Invite", F.requiresEv "roomlist" "disinvite" "Disinvite",
    F.requiresEv "roomlist" "update" "Update", F.requiresEntries "room" "join" "Join",
    -- no unchecked type assertion in filterMessage
    F.filterUncheckedAsserts == 0,
    -- the mutexes of the hello path are three different ones
    F.deferMessageLock != F.helloLock, F.deferMessageLock != F.sendLock, F.helloLock != F.sendLock,
    -- closeConnection looks at c.conn again after the bye; undecodable frames are skipped
    F.closeRechecksConn, F.readPumpSkipsUndecodable,
    -- nor in the handlers or the helpers they call (map entries / interface values of decoded JSON)
    F.handlerUncheckedAsserts == 0,
    -- every loop the read loop runs is a `range` (bounded by construction), and the pending messages are sent
    -- from a snapshot of the queue: a failed write re-queues, a loop over the live queue would never end
    F.unboundedLoops.isEmpty, F.flushOverSnapshot,
    -- the Go handlers dereference nothing the model does not know about, and all of it is covered
    F.derefs.all (fun d => modelDerefs.contains d), F.derefs.all F.covers ]

/-- Decidable; re-evaluated on the regenerated facts on every run (`C12_generated_sound`). -/
def Facts.sound (F : Facts) : Bool := F.soundList.all id

def isInfix (p s : List Char) : Bool :=
  match s with
  | [] => p.isEmpty
  | _ :: t => p.isPrefixOf s || isInfix p t

def containsStr (s p : String) : Bool := isInfix p.toList s.toList

/-- Field `B:<n>` of an observation line. -/
def bystanderField (toks : List String) : Option String :=
  (toks.find? (fun t => Proto.hasPrefix "B:" t)).map (Proto.dropS 2)

/-- The statement evaluated on one observed step of the implementation. -/
def judge (opKind : String) (impl : List String) : String :=
  let line := Proto.joinToks impl
  if impl.isEmpty then "na"
  else if Proto.hasPrefix "fail:" line || line = "bad-op" || line = "no-conn" || line = "session-gone" then "na"
  else if containsStr line "deadlock" || containsStr line "spin:" then "violated:stall:federation-client-deadlocked"
  else if containsStr line "stuck" then "violated:stall:no-progress"
  else if containsStr line "stalled" then "violated:stall:hub-blocked"
  else if opKind = "probe" then
    if line = "alive" then "ok" else "violated:liveness:" ++ line
  else if opKind = "expire" then
    if line = "expired" then "ok" else "violated:liveness:" ++ line
  else match bystanderField impl with
    | some "0" => "ok"
    | some b => "violated:other-session-affected:" ++ b
    | none => "violated:no-observation"

end SigModel.ShapesFederation
