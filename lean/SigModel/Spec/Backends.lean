/-
Spec for C13, written from the property statement.

"After any sequence of reloads / etcd events the set of backend URLs the server
accepts, and the secret, limits and bitrates tied to each, are exactly those a
freshly started server would derive from the final configuration; a URL removed
or moved is no longer accepted.  Reloading never panics; lookups and reloads
running concurrently always complete."

The judge looks at what the *implementation* did:
  * every reload / etcd event returned (no panic, not stuck);
  * the answer of the long-lived instance to a lookup equals the answer of a
    fresh instance of the real code built from the final configuration
    (both observed by the harness — no model involved);
  * and, from the statement's own reading of the final configuration
    (`specMatches`: same host, the url lies under the backend's url — the backend's url, closed by a
    "/" when written without one, is a prefix of it; a sibling path `/foobar` does not lie under
    `/foo` —, scheme permitted): an accepted
    URL is matched by the configured backend that was returned, with exactly
    its secret/limit/bitrates (nothing stale, nothing foreign), and a URL that
    some configured backend matches is not rejected.
-/
import SigModel.Model.Backends

namespace SigModel.Backends
open SigModel.Proto

/-- What a lookup returned: the attributes the statement talks about. -/
structure Ans where
  id : String
  secret : String
  limit : Nat
  stream : Int
  screen : Int
  url : String
  deriving DecidableEq, Repr

def ansOf (b : Backend) : Ans :=
  { id := b.id, secret := b.secret, limit := b.limit, stream := b.stream, screen := b.screen, url := b.url }

def specMatches (p : Probe) (b : Backend) : Bool :=
  b.host == p.host &&
  (p.scheme == "https" || (p.scheme == "http" && b.allowHttp)) &&
  (b.url == "" || hasPrefix (withSlash b.url) p.url)

/-- A url with "." / ".." path segments is attributed to no backend (the web server behind it would
resolve them before routing); otherwise: some configured backend matches. -/
def specAccepts (final : List Backend) (p : Probe) : Bool := !p.dots && final.any (specMatches p)

def kvStep (kv : Infos) : EtcdOp → Infos
  | .put k (some i) => iset kv k i
  | .put k none => idel kv k          -- an undecodable / invalid value configures nothing
  | .del k => idel kv k

/-- The final key/value map of an etcd history. -/
def kvAfter (ops : List EtcdOp) : Infos := ops.foldl kvStep []

inductive Op where
  | mode (static : Bool)
  | load (c : RawCfg)
  | reload (c : RawCfg)
  | put (key : String) (v : Option Info)
  | del (key : String)
  | probe (p : Probe)
  | list
  | raceBegin
  | raceEnd
  deriving Repr

/-- What the implementation reported for an op. -/
inductive Obs where
  | ok
  | panicked
  | stuck
  | inconsistent
  | skipped
  | answers (chain fresh : Option Ans)
  | lists (chain fresh : String)
  | other
  deriving Repr, DecidableEq

structure Judge where
  final : List Backend := []      -- the backends of the final configuration, in its order
  kv : Infos := []                -- etcd: final key/value map
  deriving Repr

def judgeProbe (final : List Backend) (p : Probe) (chain fresh : Option Ans) : String :=
  match chain with
  | some a =>
    if !(!p.dots && final.any (fun b => ansOf b == a && specMatches p b)) then
      "violated:accepted-by-a-backend-that-is-not-in-the-final-configuration"
    else if fresh == chain then "ok"
    else match fresh with
      | none => "violated:accepted-but-a-fresh-start-rejects"
      | some _ => "violated:another-backend-than-after-a-fresh-start"
  | none =>
    if specAccepts final p then "violated:configured-url-rejected"
    else if fresh == none then "ok"
    else "violated:rejected-but-a-fresh-start-accepts"

def mutationVerdict : Obs → String
  | .ok => "ok"
  | .panicked => "violated:reload-panicked"
  | .stuck => "violated:reload-blocked-forever"
  | .skipped => "na"
  | _ => "na"

def Judge.observe (j : Judge) (op : Op) (o : Obs) : Judge × String :=
  match op with
  | .mode _ => (j, "na")
  | .load c => ({ j with final := normalise c }, mutationVerdict o)
  | .reload c => ({ j with final := normalise c }, mutationVerdict o)
  | .put k v =>
    let kv := kvStep j.kv (.put k v)
    ({ final := kv.map (fun e => backendOf e.1 e.2), kv := kv }, mutationVerdict o)
  | .del k =>
    let kv := kvStep j.kv (.del k)
    ({ final := kv.map (fun e => backendOf e.1 e.2), kv := kv }, mutationVerdict o)
  | .probe p =>
    match o with
    | .answers c f => (j, judgeProbe j.final p c f)
    | .panicked => (j, "violated:lookup-panicked")
    | _ => (j, "na")
  | .list =>
    match o with
    | .lists c f => (j, if c == f then "ok" else "violated:backend-set-differs-from-a-fresh-start")
    | _ => (j, "na")
  | .raceBegin => (j, "na")
  | .raceEnd =>
    match o with
    | .ok => (j, "ok")
    | .stuck => (j, "violated:concurrent-lookup-blocked-forever")
    | .inconsistent => (j, "violated:concurrent-lookup-saw-a-state-of-no-configuration")
    | _ => (j, "na")

end SigModel.Backends
