/-
Spec for C08, written from the property statement, not from the code.

  * A session may publish (create or update a publisher with) audio / video only
    while it holds `publish-media` or the matching `publish-audio` /
    `publish-video`; a screen share only while it holds `publish-screen`;
    candidates and other signalling for an own publisher and `sendoffer` need a
    publish permission of the stream's class.  "Holds" = as last set by its
    backend; a session whose backend never set permissions holds everything but
    `hide-displaynames`.
  * When a permission is withdrawn the affected publisher is closed: at rest no
    open publisher exceeds the permissions of its owner.
  * `requestoffer` is honoured only for internal clients, or if both sessions are
    in the same room and both in the call (an internal recipient need not be).
  * Control messages are dropped without `control`, transient data writes are
    refused without `transient-data` (internal clients excepted).

The names below are the statement's own; `Props/C08.lean` proves that the names the
code uses (`Generated/Perm.lean`) are these.  The judge evaluates the statement on
the implementation's observed output, tracking only what the backend said
(join replies, permission updates, in-call changes) — never the model's decisions.
-/
import SigModel.Model.Perm
import SigModel.Basic.Proto

namespace SigModel.Perm.Spec
open SigModel.Perm

def publishMedia : String := "publish-media"
def publishAudio : String := "publish-audio"
def publishVideo : String := "publish-video"
def publishScreen : String := "publish-screen"
def control : String := "control"
def transientData : String := "transient-data"
def hideDisplaynames : String := "hide-displaynames"
def screen : String := "screen"

/-- Does a session with permission set `ps` (as last set by the backend; `none`: never set) hold `p`? -/
def holds (ps : Option (List String)) (p : String) : Bool :=
  match ps with
  | none => p != hideDisplaynames
  | some l => l.contains p

/-- May a publisher of this stream type with these media exist / be created / be updated? -/
def mayPublish (ps : Option (List String)) (stream : String) (m : Media) : Bool :=
  if stream == screen then holds ps publishScreen
  else (!m.audio || holds ps publishMedia || holds ps publishAudio) &&
       (!m.video || holds ps publishMedia || holds ps publishVideo)

/-- May the session send candidates etc. for an own stream of this type, or `sendoffer` it? -/
def maySignal (ps : Option (List String)) (stream : String) : Bool :=
  if stream == screen then holds ps publishScreen
  else holds ps publishMedia || holds ps publishAudio || holds ps publishVideo

/-- What the backend said about a session. -/
structure Told where
  live : Bool := true
  internal : Bool := false
  perms : Option (List String) := none
  room : Option Nat := none
  inCall : Bool := false
  deriving Repr

/-- May `x` subscribe a stream of `y`? -/
def maySubscribe (allowAny : Bool) (x y : Told) : Bool :=
  allowAny || x.internal ||
    (x.room.isSome && x.room == y.room && x.inCall && y.live && (y.inCall || y.internal))

def mayControl (x : Told) : Bool := x.internal || holds x.perms control
def mayWriteTransient (x : Told) : Bool := x.internal || holds x.perms transientData

end SigModel.Perm.Spec

/-! ### harness-level operations (one line of the op protocol each) -/

namespace SigModel.Perm
open SigModel.Proto

inductive HOp where
  | join (s r : Nat) (perms : Option (List String))
  | leave (s : Nat)
  /-- signed `participants` request naming the session -/
  | perms (s : Nat) (p : List String)
  /-- `permissions` message on the session's bus subject -/
  | permsDirect (s : Nat) (p : List String)
  /-- `participants` request whose permissions entry is malformed (ignored by the server) -/
  | permsBad (s : Nat)
  /-- signed `incall` request for room `r` naming `s` -/
  | incall (s r : Nat) (f : Bool)
  | incallAll (r : Nat) (f : Bool)
  | close (s : Nat)
  | any (b : Bool)
  | offer (s : Nat) (stream : String) (ml : List MLine)
  | msg (s r : Nat) (k : Kind) (stream : String)
  | request (s p : Nat) (stream : String)
  | sendoffer (s r : Nat) (stream : String)
  /-- message for the media server that does not validate: reply is `code` -/
  | badmsg (s : Nat) (code : String)
  | control (s : Nat) (rc : Rcpt)
  | transient (s : Nat) (a : TAct)
  | state
  /-- real-concurrency operation of the harness: the last of the racing permission updates of `s` is `p` -/
  | storm (s : Nat) (p : List String)
  deriving Repr

/-- The acting session of a client operation. -/
def HOp.actor : HOp → Option Nat
  | .offer s .. | .msg s .. | .request s .. | .sendoffer s .. | .badmsg s .. | .control s .. | .transient s .. => some s
  | _ => none

namespace Spec

/-! ### the judge -/

def nSessions : Nat := 4

structure Judge where
  told : List Told := [{}, {}, {}, { internal := true }]
  allowAny : Bool := false

def Judge.get (j : Judge) (i : Nat) : Told := j.told.getD i { live := false }

def Judge.set (j : Judge) (i : Nat) (f : Told → Told) : Judge :=
  { j with told := j.told.mapIdx fun k x => if k = i then f x else x }

/-- Sections of an implementation line: `outcome ; msgs ; media-server log ; open objects`. -/
def sections (impl : List String) : List (List String) :=
  let rec go (cur : List String) (acc : List (List String)) : List String → List (List String)
    | [] => (cur.reverse :: acc).reverse
    | t :: ts => if t == ";" then go [] (cur.reverse :: acc) ts else go (t :: cur) acc ts
  go [] [] impl

def parseMedia (tok : String) : Media :=
  { audio := tok.toList.contains 'a', video := tok.toList.contains 'v', screen := tok.toList.contains 's' }

def streamOfTok (tok : String) : String := (dec tok).getD tok

/-- What the backend says with this operation (given the implementation's outcome token). -/
def Judge.track (j : Judge) (op : HOp) (outcome : String) : Judge :=
  match op with
  | .join s r perms =>
    if outcome != "ok" then j else
    j.set s fun x => { x with room := some r, inCall := false,
                              perms := match perms with
                                | some p => if x.internal then x.perms else some p
                                | none => x.perms }
  | .leave s => j.set s fun x => { x with room := none, inCall := false }
  | .perms s p => j.set s fun x => if x.live && x.room.isSome then { x with perms := some p } else x
  | .permsDirect s p => j.set s fun x => if x.live then { x with perms := some p } else x
  | .storm s p => j.set s fun x => if x.live then { x with perms := some p } else x
  | .incall s r f => j.set s fun x => if x.live && x.room == some r then { x with inCall := f } else x
  | .incallAll r f =>
    { j with told := j.told.map fun x =>
        if x.room == some r then
          (if f then (if x.live && !x.internal then { x with inCall := true } else x) else { x with inCall := false })
        else x }
  | .close s => j.set s fun x => { x with live := false, room := none, inCall := false }
  | .any b => { j with allowAny := b }
  | _ => j

/-- `i/p/T/M` or `i/s/j/T` -/
def splitObj (tok : String) : List String := tok.splitOn "/"

/-- First violation among the open publishers (after the operation, at rest). -/
def openViolation (j : Judge) (open_ : List String) : Option String :=
  open_.findSome? fun tok =>
    match splitObj tok with
    | [i, "p", t, m] =>
      match toNat? i with
      | some i =>
        let x := j.get i
        if mayPublish x.perms (streamOfTok t) (parseMedia m) then none
        else some ("violated:publisher-without-permission:" ++ t)
      | none => none
    | _ => none

/-- First violation in the media-server log of a client operation of `s` (state before the operation). -/
def logViolation (j : Judge) (op : HOp) (log : List String) : Option String :=
  log.findSome? fun tok =>
    match tok.splitOn ":" with
    | [what, obj] =>
      match what, splitObj obj with
      | "new", [i, "p", t, m] | "set", [i, "p", t, m] =>
        match toNat? i with
        | some i => if mayPublish (j.get i).perms (streamOfTok t) (parseMedia m) then none
                    else some "violated:publish-without-permission"
        | none => none
      | "msg", [i, "p", tk] =>
        match toNat? i, tk.splitOn "<" with
        | some i, [t, k] =>
          if k == "offer" then none  -- judged by its new / set entry
          else if maySignal (j.get i).perms (streamOfTok t) then none
          else some "violated:candidate-without-permission"
        | _, _ => none
      | "new", [i, "s", p, _] =>
        match toNat? i, toNat? p with
        | some i, some p =>
          match op with
          | .request s q _ =>
            if s == i && q == p then
              (if maySubscribe j.allowAny (j.get i) (j.get p) then none else some "violated:subscribe-outside-call")
            else some "violated:unrequested-subscriber"
          | .sendoffer s r t =>
            if s == p && r == i then
              (if maySignal (j.get s).perms t then none else some "violated:sendoffer-without-permission")
            else some "violated:unrequested-subscriber"
          | _ => some "violated:unrequested-subscriber"
        | _, _ => none
      | "msg", [i, "s", p, tk] =>
        match toNat? i, toNat? p, tk.splitOn "<" with
        | some i, some p, [_, k] =>
          if k == "requestoffer" then
            (if maySubscribe j.allowAny (j.get i) (j.get p) then none else some "violated:subscribe-outside-call")
          else if k == "sendoffer" then
            (match op with
             | .sendoffer s _ t => if maySignal (j.get s).perms t then none else some "violated:sendoffer-without-permission"
             | _ => some "violated:unrequested-sendoffer")
          else none
        | _, _, _ => none
      | _, _ => none
    | _ => none

/-- First violation among the messages the sessions received. -/
def msgViolation (j : Judge) (op : HOp) (msgs : List String) : Option String :=
  msgs.findSome? fun tok =>
    match tok.splitOn ":" with
    | [_, what] =>
      if hasPrefix "ctl<" what then
        match op with
        | .control s _ => if mayControl (j.get s) then none else some "violated:control-without-permission"
        | _ => some "violated:unexpected-control-message"
      else if hasPrefix "tset." what || hasPrefix "trm." what then
        match op with
        | .transient s _ => if mayWriteTransient (j.get s) then none else some "violated:transient-write-without-permission"
        | _ => some "violated:unexpected-transient-event"
      else if hasPrefix "offer<" what then
        match op with
        | .request s p _ => if maySubscribe j.allowAny (j.get s) (j.get p) then none else some "violated:subscribe-outside-call"
        | .sendoffer s _ t => if maySignal (j.get s).perms t then none else some "violated:sendoffer-without-permission"
        | _ => none
      else none
    | _ => none

/-- A transient write without the permission must be refused (`not_allowed`), not just ignored. -/
def refusalViolation (j : Judge) (op : HOp) (msgs : List String) : Option String :=
  match op with
  | .transient s (.set ..) | .transient s (.remove ..) =>
    let x := j.get s
    if x.live && x.room.isSome && !mayWriteTransient x && !msgs.contains (toString s ++ ":err.not_allowed") then
      some "violated:transient-write-not-refused"
    else none
  | _ => none

def Judge.observe (j : Judge) (op : HOp) (impl : List String) : Judge × String :=
  match sections impl with
  | [[outcome], msgs, log, open_] =>
    -- a storm is judged on the objects that are open at rest only
    let v1 := match op with
      | .storm .. => none
      | _ => (logViolation j op log).orElse fun _ => (msgViolation j op msgs).orElse fun _ => refusalViolation j op msgs
    let j' := j.track op outcome
    match v1.orElse fun _ => openViolation j' open_ with
    | some v => (j', v)
    | none => (j', "ok")
  | _ => (j, "na")

end Spec
end SigModel.Perm
