/-
Spec for C15, written from the property statement, not from the code.

"Only strings minted by a server holding the same keys decode as session ids,
and decoding returns exactly the data that was encoded.  Any modification of a
valid id makes it invalid, a public id never decodes as a private (resume) id
nor the reverse, and ids minted under different keys are rejected."

The judge remembers every id minted in the case — by the real encoder (`mint`,
`hreg`) or by the harness, which holds the keys and builds ids from attributes
(`forge`) — as (hash key, block key, kind, string, data).  A decode call of the
implementation is then judged by membership alone:

  * accepted with data `d`  ⇒  exactly this string was minted under exactly these
    keys for exactly this kind with data `d`;
  * a string minted by the real encoder under these keys and kind is accepted.

No base64, MAC or layout knowledge is used here.
-/
import SigModel.Model.SessionId

namespace SigModel.SessionId

structure MintRec where
  hashKey : Bytes
  blockKey : Bytes
  kind : Kind
  id : Bytes
  data : Bytes
  /-- minted by the real encoder: must decode (harness-forged ids may be malformed on purpose) -/
  must : Bool
  deriving Repr

structure Judge where
  minted : List MintRec := []

def Judge.add (j : Judge) (r : MintRec) : Judge := { j with minted := r :: j.minted }

/-- Verdict on one decode call of the implementation (`impl = some data` / `none`). -/
def Judge.observeDecode (j : Judge) (hashKey blockKey : Bytes) (k : Kind) (id : Bytes) (impl : Option Bytes) : String :=
  let sameKeys (r : MintRec) : Bool := r.hashKey == hashKey && r.blockKey == blockKey
  match impl with
  | some d =>
    if j.minted.any (fun r => sameKeys r && r.kind == k && r.id == id && r.data == d) then "ok"
    else if j.minted.any (fun r => sameKeys r && r.kind == k && r.id == id) then "violated:decoded-data-differs-from-encoded"
    else if j.minted.any (fun r => sameKeys r && r.kind != k && r.id == id) then "violated:id-accepted-in-other-role"
    else if j.minted.any (fun r => !sameKeys r && r.id == id) then "violated:id-of-other-keys-accepted"
    else if j.minted.any (fun r => sameKeys r && r.kind == k && r.data == d) then "violated:altered-id-accepted"
    else "violated:unminted-string-accepted"
  | none =>
    if j.minted.any (fun r => sameKeys r && r.kind == k && r.id == id && r.must) then "violated:minted-id-rejected"
    else "ok"

end SigModel.SessionId
