/-
Spec for the room level of C14, written from the statement:

  "Each session in a room receives the current transient data when it joins and
   thereafter set/remove notifications that, applied in order to what it received,
   always reproduce the room's current data; setting an unchanged value sends
   nothing.  A value set with a time-to-live disappears once that time has passed
   unless … a later request governs."

A room is the set of sessions in it; its transient data exists as long as the room
has a session (a room everybody has left, or that the backend deleted, starts from
nothing when somebody joins it again).  There are no Room objects, listener sets or
timers here: per room id the ideal store of `Spec/Transient.lean`, per session the
room it is in and its replica (emptied when it joins a room).

`RJudge.observe` evaluates this on what the implementation reported for one step:
the outcome, the transient messages every session received, the data of every room.
-/
import SigModel.Spec.Transient
import SigModel.Model.TransientRooms

namespace SigModel.Transient

/-- What the harness reports for one step of the implementation (room level). -/
structure RObs where
  oc : String
  msgs : Out                               -- (session, message) in the order received per session
  datas : List (Nat × List (Key × Val))    -- room id ↦ GetData() of the room the hub knows under that id
  deriving Repr

structure RJudge where
  /-- the room a session is in -/
  roomOf : Lid → Option Nat := fun _ => none
  closed : List Lid := []
  /-- ideal store of every room id (`{}` while nobody is in the room) -/
  spec : Nat → Spec := fun _ => {}
  view : Lid → Replica := fun _ => []

def sessions : List Lid := [0, 1, 2, 3]
def roomIds : List Nat := [1, 2]

def RJudge.membersOf (j : RJudge) (r : Nat) : List Lid := sessions.filter (fun s => j.roomOf s == some r)

def RJudge.setRoomOf (j : RJudge) (s : Lid) (r : Option Nat) : RJudge :=
  { j with roomOf := fun s' => if s' = s then r else j.roomOf s' }

/-- A room nobody is in has no data. -/
def RJudge.gc (j : RJudge) : RJudge :=
  { j with spec := fun r => if (j.membersOf r).isEmpty then {} else j.spec r }

def RJudge.onRoom (j : RJudge) (r : Nat) (op : Op) : RJudge :=
  if (j.membersOf r).isEmpty then j else
  { j with spec := fun r' => if r' = r then (j.spec r).step op else j.spec r' }

/-- The statement's reading of one op, given the outcome the implementation reported. -/
def RJudge.next (j : RJudge) (op : ROp) (oc : String) : RJudge :=
  match op with
  | .join s r =>
    if oc == "ok" ∧ s ∉ j.closed then
      ({ (j.setRoomOf s (some r)) with view := fun s' => if s' = s then [] else j.view s' }).gc
    else j
  | .leave s => if s ∈ j.closed then j else (j.setRoomOf s none).gc
  | .close s => if s ∈ j.closed then j else ({ (j.setRoomOf s none) with closed := s :: j.closed }).gc
  | .set s k v ttl =>
    if s ∈ j.closed then j else
    match j.roomOf s with
    | some r => j.onRoom r (.set k v ttl)
    | none => j
  | .rm s k =>
    if s ∈ j.closed then j else
    match j.roomOf s with
    | some r => j.onRoom r (.remove k)
    | none => j
  | .bset r k v ttl => j.onRoom r (.set k (some v) ttl)
  | .brm r k => j.onRoom r (.remove k)
  | .del r => ({ j with roomOf := fun s => if j.roomOf s == some r then none else j.roomOf s }).gc
  | .adv dt => { j with spec := fun r => (j.spec r).settle dt }
  | .get => j

def specData (sp : Spec) : List (Key × Val) := canonMap (sp.ents.map (fun p => (p.1, p.2.val)))

def RJudge.observe (j : RJudge) (op : ROp) (o : RObs) : RJudge × String :=
  let j1 := j.next op o.oc
  let joiner : Option Lid := match op with
    | .join s _ => if o.oc == "ok" then some s else none
    | _ => none
  let view' : Lid → Replica := fun s => applyMsgs (j1.view s) (msgsFor s o.msgs)
  let j' : RJudge := { j1 with view := view' }
  let got (r : Nat) : Option (List (Key × Val)) := (o.datas.find? (fun p => p.1 == r)).map (fun p => canonMap p.2)
  -- 1. every room somebody is in has the data the statement says (TTLs honoured, latest request governs)
  let vData : Option String := firstSome (fun r =>
    if (j1.membersOf r).isEmpty then none else
    match got r with
    | none => some s!"violated:room-without-data:room{r}"
    | some g =>
      let want := specData (j1.spec r)
      if g = want then none else
      match firstSome (fun p : Key × Val => if kvGet g p.1 = none then some p.1 else none) want with
      | some k => some s!"violated:value-lost:room{r}:{k}"
      | none =>
        match firstSome (fun p : Key × Val => if kvGet want p.1 = none then some p.1 else none) g with
        | some k => some s!"violated:value-not-gone:room{r}:{k}"
        | none => some s!"violated:wrong-value:room{r}") roomIds
  -- 2. a session that is in no room hears nothing
  let vOutside : Option String := firstSome (fun p : Lid × Msg =>
    if (j1.roomOf p.1).isSome then none else some s!"violated:notified-outside-room:S{p.1}") o.msgs
  -- 3. a session whose room's data is what it was hears nothing (the one that joins gets the snapshot)
  let vSilent : Option String := firstSome (fun s =>
    if (msgsFor s o.msgs).isEmpty ∨ joiner = some s then none else
    match j1.roomOf s with
    | none => none
    | some r =>
      if j.roomOf s = some r ∧ specData (j.spec r) = specData (j1.spec r) then
        some s!"violated:unchanged-but-notified:S{s}"
      else none) sessions
  -- 4. every session's replica reproduces the data of the room it is in
  let vReplica : Option String := firstSome (fun s =>
    match j1.roomOf s with
    | none => none
    | some r =>
      match got r with
      | none => none
      | some g => if canonMap (view' s) = g then none else some s!"violated:replica-diverged:S{s}") sessions
  match vData, vOutside, vReplica, vSilent with
  | some v, _, _, _ => (j', v)
  | _, some v, _, _ => (j', v)
  | _, _, some v, _ => (j', v)
  | _, _, _, some v => (j', v)
  | _, _, _, _ => (j', "ok")

end SigModel.Transient
