/-
Spec for C02, written from the property statement, not from the code.

"The room API accepts a POST only when its checksum header equals HMAC-SHA256 over
random||body under the secret of the backend the request claims to come from; any
change to body, random, checksum, or use of another backend's secret yields 403 and
no event reaches any client.  Every request the server sends to a backend carries a
fresh random of at least 32 bytes and the matching checksum under that backend's
secret."

The judge recomputes the checksum as the statement defines it (`stmtChecksum`) and
knows, for every request of a case, the valid request it was derived from (`Ref`).
-/
import SigModel.Model.Checksum

namespace SigModel.Checksum
open SigModel SigModel.Hmac

/-- HMAC over `random || body`, hex — the statement's definition. -/
def stmtChecksum (mac : Mac) (secret random body : Bytes) : Bytes := Bytes.toHex (mac secret (random ++ body))

/-- A valid request as sent by a backend: the reference a test request is a variation of. -/
structure Ref where
  label : String
  random : Bytes
  body : Bytes
  checksum : Bytes
  secret : Bytes         -- the secret it was signed with
  deriving Repr

structure Judge where
  refs : List Ref := []
  seenRandoms : List Bytes := []     -- randoms of the outgoing requests seen so far

/-- The backends a request may be taken to come from, by the statement: the one named by
the header; without a header the single compat backend, else whichever backend's secret
made the checksum. -/
def claimed (cfg : Cfg) (hdr : Hdr) : List Backend :=
  match hdr with
  | .known b => [b]
  | .unknown => []
  | .absent => match cfg.compat with
    | some c => [c]
    | none => cfg.backends

/-! ### "the backend the request claims to come from", for a header that is a plain URL

Written from the meaning of a backend URL, not from the lookup code: a URL belongs to a backend iff
the backend URL's components — scheme, (empty), host, path segments, i.e. the pieces between the
slashes — are the leading components of the URL.  `http://h/cloud2/x` has the components
`http:`, ``, `h`, `cloud2`, `x`; it lies under `http://h/cloud2/` and not under `http://h/cloud/`. -/

/-- The pieces between the slashes. -/
def splitSlash : List Char → List (List Char)
  | [] => [[]]
  | c :: cs =>
    if c = '/' then [] :: splitSlash cs else
    match splitSlash cs with
    | s :: ss => (c :: s) :: ss
    | [] => [[c]]

/-- One trailing slash is not a component. -/
def stripSlash (u : List Char) : List Char := if endsSlash u then u.dropLast else u

def components (u : List Char) : List (List Char) := splitSlash (stripSlash u)

/-- `u` lies under the backend URL `b`. -/
def under (b u : List Char) : Bool := (components b).isPrefixOf (components u)

/-- The configured backends a URL belongs to (at most one unless backend URLs are nested). -/
def owners (es : List Entry) (u : List Char) : List Backend :=
  (es.filter fun e => under e.url u).map (·.backend)

/-- `claimed` when the header value is given as a URL. -/
def claimedUrl (cfg : Cfg) (es : List Entry) (value : List Char) : List Backend :=
  if value.isEmpty then claimed cfg .absent else owners es value

/-- Verdict on one room API request.  `claimedBy` = the backends the request may be taken to come from;
`wellFormed` = JSON content type and a body within the size limit (otherwise only "not accepted" is
required). -/
def Judge.observeReqOf (mac : Mac) (claimedBy : List Backend) (ref : Option Ref) (wellFormed : Bool) (r : Req) (impl : Resp) : String :=
  let cands := claimedBy.filter fun b => stmtChecksum mac b.secret r.random r.body == r.checksum
  let accepted := impl.status == 200 || !impl.events.isEmpty
  if accepted && cands.isEmpty then "violated:accepted-without-matching-checksum"
  else if impl.events.any (fun e => !(cands.any fun b => b.id == e.backend)) then "violated:event-for-another-backend"
  else if !wellFormed then "ok"
  else match ref with
    | none => "ok"
    | some rf =>
      let unchanged := r.random == rf.random && r.body == rf.body && r.checksum == rf.checksum &&
        claimedBy.any (fun b => b.secret == rf.secret)
      -- the same bytes under the same checksum, only the random/body boundary moved
      let shifted := r.random ++ r.body == rf.random ++ rf.body && r.checksum == rf.checksum &&
        claimedBy.any (fun b => b.secret == rf.secret)
      if unchanged then "ok"
      else if !impl.events.isEmpty then "violated:changed-request-reached-clients"
      else if impl.status != 403 then
        (if shifted then s!"violated:boundary-shifted-request-not-403:status={impl.status}"
         else s!"violated:changed-request-not-403:status={impl.status}")
      else "ok"

/-- The claim taken from the op's token (compat modes, header values that are not plain URLs). -/
def Judge.observeReq (mac : Mac) (cfg : Cfg) (ref : Option Ref) (wellFormed : Bool) (r : Req) (impl : Resp) : String :=
  Judge.observeReqOf mac (claimed cfg r.hdr) ref wellFormed r impl

/-- Number of random bytes a random string stands for: a hex string encodes half its length
(the statement's "at least 32 bytes" is about the random, not about its spelling). -/
def randomBytes (random : Bytes) : Nat :=
  if (Bytes.ofHex random).isSome then random.length / 2 else random.length

/-- Verdict on one outgoing request: matching checksum under the target backend's secret,
random of at least 32 bytes, not seen before. -/
def Judge.observeOut (j : Judge) (mac : Mac) (target : Option Backend) (random body checksum : Bytes) : Judge × String :=
  let j' := { j with seenRandoms := random :: j.seenRandoms }
  match target with
  | none => (j', "violated:request-sent-to-unconfigured-backend")
  | some b =>
    if stmtChecksum mac b.secret random body != checksum then (j', "violated:outgoing-checksum-does-not-match")
    else if randomBytes random < 32 then (j', "violated:outgoing-random-shorter-than-32-bytes")
    else if j.seenRandoms.contains random then (j', "violated:outgoing-random-reused")
    else (j', "ok")


/-! ### "that backend's secret": the configuration in force

A backend's secret is the `secret` of its own section, else the common `[backend] secret` **of the same file**; a
backend that has neither is not a configured backend.  After a reload the file in force is the one loaded last —
nothing of an earlier file remains. -/

def specSecrets (f : SecretFile) : List Backend :=
  f.backends.filterMap fun r =>
    let s := if r.secret.isEmpty then f.common else r.secret
    if s.isEmpty then none else some ⟨r.id, s⟩

/-- The configuration in force after starting with `f0` and reloading `fs` in turn. -/
def fileInForce (f0 : SecretFile) (fs : List SecretFile) : SecretFile := (f0 :: fs).getLast (by simp)

/-! ### "every request the server sends to a backend carries … the matching checksum under that backend's secret"

One `PerformJSONRequest` may put several requests on the wire (redirects).  Each of them that carries a checksum
is a request sent to the backend its URL belongs to. -/

/-- Scheme and host (name and port) of a URL, as components. -/
def origin (u : List Char) : List (List Char) := (components u).take 3

/-- A request as a (fake) backend received it. -/
structure Recv where
  url : List Char
  post : Bool            -- still a POST (else the GET a 301/302/303 made of it)
  random : Bytes
  body : Bytes
  checksum : Bytes
  deriving Repr

/-- A request that followed a redirect: fine iff the URL it went to belongs to a backend whose secret made the checksum
it carries (over the body it carries; over the body of the first request if the redirect dropped the body). -/
def redirectedOk (mac : Mac) (es : List Entry) (body0 : Bytes) (r : Recv) : Bool :=
  (owners es r.url).any fun b =>
    stmtChecksum mac b.secret r.random (if r.body.isEmpty then body0 else r.body) == r.checksum

def redirectVerdicts (mac : Mac) (es : List Entry) (body0 : Bytes) : List Char → List Recv → String
  | _, [] => "ok"
  | prev, r :: rest =>
    if redirectedOk mac es body0 r then redirectVerdicts mac es body0 r.url rest
    else if origin r.url == origin prev then "violated:redirect-within-origin-leaves-backend-url"
    else "violated:signed-request-redirected-to-another-origin"

/-- Verdict on everything one outgoing request put on the wire.  `target` = the backend the first URL belongs to;
`byUrl` = the configuration consists of backends with URLs (else only the first request is judged). -/
def Judge.observeDeliveries (j : Judge) (mac : Mac) (es : List Entry) (byUrl : Bool) (target : Option Backend)
    (rs : List Recv) : Judge × String :=
  match rs with
  | [] => (j, if target.isNone then "ok" else "violated:no-request-sent")
  | r0 :: rest =>
    let (j', v0) := j.observeOut mac target r0.random r0.body r0.checksum
    if v0 != "ok" then (j', v0)
    else if !r0.post then (j', "violated:first-request-is-not-a-post")
    else if !byUrl then (j', "ok")
    else (j', redirectVerdicts mac es r0.body r0.url rest)

end SigModel.Checksum
