/-
Specs for the hub properties, written from the statements (C03, C05, C04, C07).
They read the abstract population (who is live, on which backend, which user, in
which room, in the call, virtual parent) off a `Hub` value; the correspondence
check validates that value against the implementation's tables at every step.
-/
import SigModel.Model.Hub

namespace SigModel.Hub

/-- All session ids that were ever allocated. -/
def sids (h : Hub) : List Nat := List.range h.nextSid

def liveSids (h : Hub) : List Nat := (sids h).filter (fun s => (h.sess s).isSome)

/-- Sessions whose *room* (by their own record) is `(b, r)`. -/
def inRoom (h : Hub) (b : Nat) (r : String) (s : Nat) : Bool :=
  match h.sess s with
  | some x => x.backend = b && x.room = some r
  | none => false

/-- C03: the backend on whose behalf an operation acts — the backend named in a hello or a room API call,
or the backend of the session that sends the request (none: housekeeping, a plain connect, a limit change,
requests of sessions or connections that do not exist). -/
def originOf (h : Hub) : Op → Option Nat
  | .hello _ b _ _ _ _ => some b
  | .resume _ (some s) => (h.sess s).map (·.backend)
  | .bye c | .disconnect c => ((h.connSess c).bind h.sess).map (·.backend)
  | .join s _ _ _ | .message s _ _ _ | .addVirtual s _ _ _ _ _ | .removeVirtual s _ _ | .internalInCall s _ =>
    (h.sess s).map (·.backend)
  | .api b _ _ => some b
  | _ => none

/-- C19: the virtual sessions that were part of a room before a step and exist no more after it,
with the room they were in: the removals the backend has to be told about. -/
def goneVirtual (pre post : Hub) : List (String × Nat) :=
  (sids pre).filterMap fun v =>
    match pre.sess v with
    | some x =>
      if x.kind = .virtual && (post.sess v).isNone then x.room.map (fun r => (r, v)) else none
    | none => none

/-- C05: the set of sessions a message from `s` to recipient `rc` is addressed to.
Virtual sessions have no connection of their own: what is addressed to them is
delivered to their internal client (with the recipient rewritten). Sessions that
take part only as rooms' virtual members receive nothing themselves. -/
def addressed (h : Hub) (s : Nat) (rc : Rcpt) : List Nat :=
  match h.sess s with
  | none => []
  | some x =>
    match rc with
    | .session none => []
    | .session (some t) =>
      match h.sess t with
      | none => []
      | some y => if y.backend ≠ x.backend || t = s then [] else [t]
    | .user u =>
      if u = "" || u = userOf h s x then [] else
      (liveSids h).filter fun t =>
        match h.sess t with
        | some y => t ≠ s && y.backend = x.backend && y.kind ≠ .virtual && y.user = u
        | none => false
    | .room =>
      match x.room with
      | none => []
      | some r => (liveSids h).filter fun t =>
          t ≠ s && inRoom h x.backend r t && (match h.sess t with | some y => y.kind ≠ .virtual | none => false)
    | .call =>
      match x.room with
      | none => []
      | some r => (liveSids h).filter fun t =>
          t ≠ s && inRoom h x.backend r t && roomInCall h x.backend r t &&
          (match h.sess t with | some y => y.kind ≠ .virtual | none => false)

end SigModel.Hub
