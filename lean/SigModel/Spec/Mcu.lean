/-
Spec for C09, written from the statement:

  "Every publisher and subscriber created at the media server on behalf of a
   session is closed there when the session leaves its room, leaves the call, is
   closed, or loses the permission; a creation that completes after the owner is
   already gone is closed too.  At most one publisher exists per session and
   stream type, and concurrent requests for the same stream do not leave an
   unowned duplicate open."

`Entitled` is the entitlement predicate on model states, `Quiescent` says that no
goroutine has a step left.  `Judge` is the same statement evaluated on what the
harness observed of the real code (independent bookkeeping: it never looks at
the model state, only at the op lines and at the implementation's answers).
-/
import SigModel.Model.Mcu
import SigModel.Basic.Proto

namespace SigModel.Mcu

/-- An open object is *entitled* to exist: its owner is live, has not released
its media objects (left the room, left the call, been closed) since the request
that created the object started, still has the permission the object needs, and
refers to the object (so that the next leave / close will close it). -/
def Entitled (st : State) (o : Obj) : Prop :=
  (st.sess o.owner).closed = false ∧
  o.stamp = (st.sess o.owner).epoch ∧
  permitted (st.sess o.owner).perms o.kind o.media = true ∧
  (st.sess o.owner).objs o.kind = some o.id

/-- Nothing is in flight: no media-server call unanswered, no closing goroutine
or revocation goroutine waiting to run, no `Close()` half-way. -/
def Quiescent (st : State) : Prop :=
  st.pend = [] ∧ st.closing = [] ∧
  ∀ i, (st.sess i).sweeps = 0 ∧ (st.sess i).needLeave = 0 ∧ (st.sess i).needRelease = 0

/-! ### Judge -/

structure JSess where
  closed : Bool := false
  room : Option Nat := none
  inCall : Bool := false
  /-- number of times the session left a room, left a call or was closed -/
  epoch : Nat := 0
  perms : Perms := { media := true, audio := true, video := true, screen := true }
  /-- step of the last permission change -/
  permsAt : Nat := 0
  /-- client type, own in-call flags (internal clients), connection, waiting for expiry -/
  info : Meta := {}

structure JObj where
  id : Nat
  owner : Nat
  kind : Kind
  media : Media
  /-- the owner's `epoch` when the request started -/
  stamp : Nat
  storedAt : Option Nat := none

structure Judge where
  sess : List (Nat × JSess) := []
  objs : List JObj := []
  now : Nat := 0

def Judge.get (j : Judge) (i : Nat) : JSess :=
  match j.sess.find? (fun p => p.1 == i) with
  | some p => p.2
  | none => {}

def Judge.set (j : Judge) (i : Nat) (s : JSess) : Judge :=
  { j with sess := (i, s) :: j.sess.filter (fun p => p.1 != i) }

def Judge.leaveRoom (j : Judge) (i : Nat) : Judge :=
  let s := j.get i
  match s.room with
  | none => j
  | some _ => j.set i { s with room := none, inCall := false, epoch := s.epoch + 1 }

/-- The session is closed (by whatever way): it has left its room and its call. -/
def Judge.closeSess (j : Judge) (i : Nat) : Judge :=
  let x := j.get i
  j.set i { x with closed := true, room := none, inCall := false, epoch := x.epoch + 1,
                   info := { x.info with connected := false, expiring := false } }

/-- The session leaves the call of its room if it was in it. -/
def Judge.leaveCall (j : Judge) (i : Nat) : Judge :=
  let x := j.get i
  if x.inCall then j.set i { x with inCall := false, epoch := x.epoch + 1 } else j

def Judge.setInfos (j : Judge) : List Meta → Nat → Judge
  | [], _ => j
  | m :: ms, i => (j.set i { j.get i with info := m }).setInfos ms (i + 1)

/-- An observed open object: `id/owner/p/<stream>/<media>/<T|U>` or `id/owner/s/<stream>/<publisher>/<T|U>`. -/
structure Seen where
  id : Nat
  owner : Nat
  kind : Kind
  media : Media
  tracked : Bool

def parseStream (s : String) : Option Stream :=
  if s = "video" then some .video else if s = "screen" then some .screen else none

def parseMedia (s : String) : Media :=
  { audio := s.toList.contains 'a', video := s.toList.contains 'v' }

def parseSeen (tok : String) : Option Seen :=
  match tok.splitOn "/" with
  | [id, owner, "p", t, m, tr] => do
    let id ← id.toNat?; let owner ← owner.toNat?; let t ← parseStream t
    some { id, owner, kind := .pub t, media := parseMedia m, tracked := tr == "T" }
  | [id, owner, "s", t, p, tr] => do
    let id ← id.toNat?; let owner ← owner.toNat?; let t ← parseStream t; let p ← p.toNat?
    some { id, owner, kind := .sub p t, media := { audio := false, video := false }, tracked := tr == "T" }
  | _ => none

/-- Verdict on one observed open object (`none` = entitled). -/
def Judge.objVerdict (j : Judge) (o : Seen) : Option String :=
  match j.objs.find? (fun x => x.id == o.id) with
  | none => some "unknown-object"
  | some x =>
    if x.owner != o.owner || x.kind != o.kind then some "object-mismatch" else
    let s := j.get o.owner
    if s.closed then some "open-after-owner-closed"
    else if x.stamp != s.epoch then some "open-after-owner-left"
    else if !permitted s.perms o.kind o.media then
      match x.storedAt with
      | some t =>
        if t < s.permsAt then
          (match o.kind with
           | .pub .screen => some "screen-publisher-survives-revocation"
           | _ => some "publisher-survives-revocation")
        else some "stored-without-permission"
      | none => some "stored-without-permission"
    else if !o.tracked then some "open-not-owned"
    else none

def firstSome : List (Option String) → Option String
  | [] => none
  | some s :: _ => some s
  | none :: r => firstSome r

def hasDuplicate : List Seen → Bool
  | [] => false
  | o :: r => r.any (fun x => x.owner == o.owner && x.kind == o.kind) || hasDuplicate r

def Judge.stateVerdict (j : Judge) (impl : List String) : String :=
  let toks := impl.takeWhile (· ≠ ";")
  if toks = ["-"] then "ok" else
  let seen := toks.map parseSeen
  if seen.any Option.isNone then "violated:unparsable-observation" else
  let seen := seen.filterMap id
  match firstSome (seen.map j.objVerdict) with
  | some why => "violated:" ++ why
  | none => if hasDuplicate seen then "violated:duplicate-object" else "ok"

/-- Record the request labelled `l` that started a creation (`pending` answered by the implementation). -/
def Judge.began (j : Judge) (impl : List String) (l : Nat) (owner : Nat) (kind : Kind)
    (media : Media := { audio := false, video := false }) : Judge :=
  match impl with
  | ["pending"] => { j with objs := { id := l, owner, kind, media, stamp := (j.get owner).epoch } :: j.objs }
  | _ => j

/-- `label`: the label of the request (begin ops) resp. of the answered request (`finish`);
the object ids inside `op` are the model's and are not looked at. -/
def Judge.observe (j : Judge) (op : Op) (label : Nat) (impl : List String) : Judge × String :=
  let j := { j with now := j.now + 1 }
  match op with
  | .join s r =>
    let j := j.leaveRoom s
    (j.set s { j.get s with room := some r, inCall := false }, "ok")
  | .leave s => (j.leaveRoom s, "ok")
  | .incall s b =>
    let x := j.get s
    match x.room with
    | none => (j, "ok")
    | some _ =>
      if b then (j.set s { x with inCall := true }, "ok")
      else if x.inCall then (j.set s { x with inCall := false, epoch := x.epoch + 1 }, "ok")
      else (j, "ok")
  | .perms s p => (j.set s { j.get s with perms := p, permsAt := j.now }, "ok")
  | .close s => (j.closeSess s, "ok")
  | .world ms => (j.setInfos ms 0, "ok")
  | .incallAll r true all =>
    -- "everybody joins the call" is addressed to the user sessions of the room
    (all.foldl (fun j s =>
      let x := j.get s
      if x.room == some r && x.info.ctype == .client then j.set s { x with inCall := true } else j) j, "ok")
  | .incallAll r false all =>
    -- "the call ended for everybody": every session of the room that was in the call has left it
    (all.foldl (fun j s => if (j.get s).room == some r then j.leaveCall s else j) j, "ok")
  | .intIncall s f =>
    let x := j.get s
    -- a message that repeats the flags the client already has announces nothing
    if x.info.ctype != .internal || x.info.flags == f then (j, "ok") else
    let was := x.inCall || flagInCall x.info.flags
    let x := { x with info := { x.info with flags := f } }
    match x.room with
    | none => (j.set s x, "ok")
    | some _ =>
      if flagInCall f then (j.set s { x with inCall := true }, "ok")
      else if was then (j.set s { x with inCall := false, epoch := x.epoch + 1 }, "ok")
      else (j.set s x, "ok")
  | .delRoom r all =>
    (all.foldl (fun j s => if (j.get s).room == some r then j.leaveRoom s else j) j, "ok")
  | .disinvite s r =>
    -- takes effect when it is delivered to the connection of a session in that room
    let x := j.get s
    if x.info.connected && x.room == some r then (j.closeSess s, "ok") else (j, "ok")
  | .kick s => if (j.get s).room.isSome && !(j.get s).closed then (j.closeSess s, "ok") else (j, "ok")
  | .asyncBye s => (j.closeSess s, "ok")
  | .bye s => if (j.get s).info.connected then (j.closeSess s, "ok") else (j, "ok")
  | .drop s =>
    let x := j.get s
    if x.info.connected then (j.set s { x with info := { x.info with connected := false, expiring := true } }, "ok")
    else (j, "ok")
  | .expire all => (all.foldl (fun j s => if (j.get s).info.expiring then j.closeSess s else j) j, "ok")
  | .virtual _ _ => (j, "ok")
  | .offer s t m =>
    let started := match impl with
      | ["pending"] => true
      | ["existing", _] => true
      | _ => false
    let t' := t.getD .video
    if started && !permittedPub (j.get s).perms t' m then (j, "violated:publish-without-permission")
    else match t with
      | some t => (j.began impl label s (.pub t) m, "ok")
      | none => (j, if started then "violated:unsupported-stream-created" else "ok")
  | .request s p t =>
    match t with
    | some t => (j.began impl label s (.sub p t), "ok")
    | none => (j, "ok")
  | .sendoffer p s t =>
    match t with
    | some t => (j.began impl label s (.sub p t), "ok")
    | none => (j, "ok")
  | .finish _ _ =>
    let k := label
    match impl with
    | ["stored"] =>
      let j := { j with objs := j.objs.map fun (x : JObj) => if x.id = k then { x with storedAt := some j.now } else x }
      match j.objs.find? (fun (x : JObj) => x.id == k) with
      | none => (j, "violated:unknown-object")
      | some x =>
        let s := j.get x.owner
        if s.closed then (j, "violated:stored-after-owner-closed")
        else if x.stamp != s.epoch then (j, "violated:stored-after-owner-left")
        else if !permitted s.perms x.kind x.media then (j, "violated:stored-without-permission")
        else (j, "ok")
    | "open-untracked" :: _ => (j, "violated:open-not-owned")
    | _ => (j, "ok")
  | .state => (j, j.stateVerdict impl)

/-! ### stress runs: real concurrency, judged on the state at quiescence only

`stress s0=<l|c>:<perms> s1=… s2=… open=<owner/p/stream/media/T|U,…|-> final=<n>`:
the order of the concurrent events is unknown, so only the state-based part of
the statement is evaluated: no open object of a closed session, every open
object referred to by its owner and covered by the owner's permissions, at most
one per session and key, and nothing open once every session has been closed. -/

def parseStressSess (tok : String) : Option (Nat × Bool × Perms) :=
  match tok.splitOn "=" with
  | [name, rest] =>
    match rest.splitOn ":" with
    | [st, perms] =>
      match (String.ofList (name.toList.drop 1)).toNat? with
      | some i => some (i, st == "c",
          { media := perms.toList.contains 'm', audio := perms.toList.contains 'a',
            video := perms.toList.contains 'v', screen := perms.toList.contains 's' })
      | none => none
    | _ => none
  | _ => none

def stressVerdict (impl : List String) : String :=
  match impl with
  | "stress" :: rest =>
    let sess := rest.filterMap parseStressSess
    let openTok := (rest.find? (fun t => t.startsWith "open=")).getD "open=-"
    let finalTok := (rest.find? (fun t => t.startsWith "final=")).getD "final=?"
    let body := String.ofList (openTok.toList.drop 5)
    let seen := if body = "-" then [] else (body.splitOn ",").map (fun t => parseSeen ("0/" ++ t))
    if sess.length != 3 || seen.any Option.isNone then "violated:unparsable-observation" else
    let seen := seen.filterMap id
    let bad := seen.filterMap fun o =>
      match sess.find? (fun s => s.1 == o.owner) with
      | none => some "stress-unknown-owner"
      | some (_, closed, perms) =>
        if closed then some "stress-open-after-owner-closed"
        else if !o.tracked then some "stress-open-not-owned"
        else if !permitted perms o.kind o.media then
          (match o.kind with
           | .pub .screen => some "screen-publisher-survives-revocation"
           | _ => some "stress-open-without-permission")
        else none
    match bad with
    | why :: _ => "violated:" ++ why
    | [] =>
      if hasDuplicate seen then "violated:stress-duplicate-object"
      else if finalTok != "final=0" then "violated:stress-open-after-all-closed"
      else "ok"
  | _ => "violated:unparsable-observation"

/-- The assumption about the real Janus client (`Close()` destroys the room and
detaches the handles, the publisher leaves `mcuJanus.publishers`), as observed
against the repository's test gateway: one room and two handles are created by
a publisher and a subscriber, nothing is left after both were closed. -/
def janusExpected : String := "created=1/2 left=0/0 publishers=0"

/-- … and a publisher creation whose `join` request is never answered (the caller's
context expires) leaves neither the room it had created nor a handle. -/
def janusTimeoutExpected : String := "err=timeout left=0/0 publishers=0"

end SigModel.Mcu
