/-
Spec for C18, written from the property statement:

  "The media proxy creates a session only for a hello whose token is
   RS256/384/512-signed by the key configured for its issuer and was issued
   within the accepted age window; every command or payload before that is
   refused.  When a proxy session ends or expires, or the media server
   connection is lost, every publisher and subscriber it created is closed and
   its client ids stop resolving; deleting a publisher or subscriber works only
   for the session that owns it."

`ValidToken` is the first sentence.  The `Judge` evaluates all four clauses on
what the *implementation* did (replies on every connection, the server's
session / client tables, the media server's open objects) — independently of
the model and of the constants found in the code.
-/
import SigModel.Model.Proxy

namespace SigModel.Proxy

/-- The algorithms named in the statement. -/
def stmtAlgs : List String := ["RS256", "RS384", "RS512"]
/-- The accepted age window (ns): a token may be five minutes old; clocks may
differ by one minute in either direction. -/
def stmtMaxAge : Int := 300000000000
def stmtLeeway : Int := 60000000000

/-- First sentence of the statement. -/
def ValidToken (cfg : Cfg) (now : Int) (t : Tok) : Prop :=
  t.alg ∈ stmtAlgs ∧
  (∃ k, lookupKey cfg t.issuer = some k ∧ k ∈ t.verifies) ∧
  (∃ i, t.iat = some i ∧ now - (stmtMaxAge + stmtLeeway) ≤ i ∧ i ≤ now + stmtLeeway)

def validTokenB (cfg : Cfg) (now : Int) (t : Tok) : Bool :=
  stmtAlgs.contains t.alg &&
  (match lookupKey cfg t.issuer with
   | some k => t.verifies.contains k
   | none => false) &&
  (match t.iat with
   | some i => decide (now - (stmtMaxAge + stmtLeeway) ≤ i) && decide (i ≤ now + stmtLeeway)
   | none => false)

theorem validTokenB_iff (cfg : Cfg) (now : Int) (t : Tok) :
    validTokenB cfg now t = true ↔ ValidToken cfg now t := by
  unfold validTokenB ValidToken
  cases hk : lookupKey cfg t.issuer <;> cases hi : t.iat <;> simp [and_assoc]

/-! ## Observations of the implementation -/

structure SessObs where
  sid : Nat
  client : Option Nat
  lastUsed : Int
  pubs : List Nat
  subs : List Nat
deriving DecidableEq, Repr

structure Obs where
  outs : Outs := []
  sess : List SessObs := []
  /-- ids that resolve in the global table: (id, isPublisher, session that created it) -/
  clients : List (Nat × Bool × Nat) := []
  /-- objects open at the media server: (id, session that created it) -/
  mcu : List (Nat × Nat) := []
  conns : List Nat := []                  -- connections still open (client side)
deriving DecidableEq, Repr

def Obs.live (o : Obs) : List Nat := o.sess.map (·.sid)
def Obs.resolves (o : Obs) (id : Nat) : Bool := o.clients.any (·.1 == id)
def Obs.isOpen (o : Obs) (id : Nat) : Bool := o.mcu.any (·.1 == id)
/-- The session that created object `id` (the media server's record of its listener). -/
def Obs.creator (o : Obs) (id : Nat) : Option Nat :=
  match o.clients.find? (·.1 == id) with
  | some e => some e.2.2
  | none => (o.mcu.find? (·.1 == id)).map (·.2)

/-- Tables identical (including the use stamps). -/
def Obs.sameTables (a b : Obs) : Bool :=
  a.sess == b.sess && a.clients == b.clients && a.mcu == b.mcu

/-! ## Judge -/

structure Judge where
  now : Int := 0
  /-- connection → the session it was told it has (hello replies; cleared by bye / close). -/
  connSess : List (Nat × Nat) := []
  prev : Obs := {}
deriving Repr

def Judge.sessOf (j : Judge) (c : Nat) : Option Nat := j.connSess.lookup c
def Judge.ownerOf (j : Judge) (id : Nat) : Option Nat := j.prev.creator id

def outsTo (o : Outs) (c : Nat) : List SMsg := (o.filter (·.1 == c)).map (·.2)

/-- Verdict of the op-specific clauses. -/
def Judge.clause (cfg : Cfg) (j : Judge) (op : Op) (obs : Obs) : Option String :=
  match op with
  | .msg c m =>
    let replies := outsTo obs.outs c
    let accepted := replies.filterMap (fun | .hello sid => some sid | _ => none)
    match j.sessOf c with
    | none =>
      -- connection without session
      match m with
      | .hello (.token t) =>
        match accepted with
        | sid :: _ =>
          if !(validTokenB cfg j.now t) then some "session-without-valid-token"
          else if j.prev.live.contains sid then some "hello-attached-to-existing-session"
          else none
        | [] => if j.prev.sameTables obs then none else some "refused-hello-has-effect"
      | .hello (.resume tgt) =>
        match accepted with
        | sid :: _ =>
          if tgt == some sid && j.prev.live.contains sid then none else some "resume-of-unknown-session"
        | [] => if j.prev.sameTables obs then none else some "refused-hello-has-effect"
      | _ =>
        if !(j.prev.conns.contains c) then none
        else if !(replies.all SMsg.isErr) then some "served-before-hello"
        else if !(j.prev.sameTables obs) then some "pre-hello-message-has-effect"
        else if obs.outs.any (·.1 != c) then some "pre-hello-message-reaches-others"
        else none
    | some s =>
      let del (id : Nat) : Option String :=
        if replies.contains (.deleted id) then
          (if j.ownerOf id == some s then none else some "foreign-delete-succeeded")
        else
          match j.ownerOf id with
          | some s' =>
            if s' != s && j.prev.resolves id && j.prev.isOpen id && !(obs.resolves id && obs.isOpen id)
            then some "foreign-delete-had-effect" else none
          | none => none
      match m with
      | .deletePub id => del id
      | .deleteSub id => del id
      | _ => none
  | .mcuDown =>
    if obs.clients.isEmpty && obs.mcu.isEmpty then none else some "objects-survive-mcu-loss"
  | _ => none

/-- Bookkeeping from the replies of this step. -/
def Judge.learn (j : Judge) (obs : Obs) : Judge :=
  obs.outs.foldl (fun j (c, m) =>
    match m with
    | .hello sid => { j with connSess := (c, sid) :: j.connSess.filter (fun p => p.1 != c && p.2 != sid) }
    | .bye _ => { j with connSess := j.connSess.filter (fun p => p.1 != c) }
    | _ => j) j

/-- Cleanup clause, evaluated after every step: an object created by a session
that is no longer live must be closed and its id must not resolve. -/
def Judge.residue (_j : Judge) (obs : Obs) : Option String :=
  if obs.clients.any (fun e => !(obs.live.contains e.2.2)) || obs.mcu.any (fun e => !(obs.live.contains e.2))
  then some "object-outlives-session" else none

def Judge.observe (cfg : Cfg) (j : Judge) (op : Op) (obs : Obs) : Judge × String :=
  let v1 := j.clause cfg op obs
  let j1 := j.learn obs
  -- a connection the client closed no longer speaks for a session
  let j1 := match op with
    | .close c =>
      if obs.conns.contains c then j1 else { j1 with connSess := j1.connSess.filter (fun p => p.1 != c) }
    | .sleep d => { j1 with now := j1.now + (d : Int) }
    | _ => j1
  let v2 := j1.residue obs
  let j2 := { j1 with prev := obs }
  match v1, v2 with
  | some w, _ => (j2, "violated:" ++ w)
  | none, some w => (j2, "violated:" ++ w)
  | none, none => (j2, "ok")

end SigModel.Proxy
