/-
Spec for C14, written from the property statement (not from the code):

  * the room's transient data is a finite map key ↦ value;
  * every *request that takes effect* on a key (a set, or a compare-and-set whose
    comparison holds) governs the key from then on: it fixes the value and —
    with a positive ttl — a deadline `now + ttl`, without one no deadline at all
    (so a later set replaces, clears, extends or shortens an earlier ttl);
  * a remove (or compare-and-remove whose comparison holds) makes the key absent;
  * when time has passed a deadline the key disappears;
  * a listener starts from the snapshot it is given when it joins (nothing = the
    empty map) and applies `set` / `remove` notifications in order;
  * a request that leaves the data as it is notifies nobody.

There are no timers, timer ids or maps of timers here.  `Judge` evaluates these
clauses on the *implementation's* observed output of every step.
-/
import SigModel.Model.Transient

namespace SigModel.Transient

/-! ### the ideal store -/

structure Entry where
  val : Val
  deadline : Option Nat
  deriving DecidableEq, Repr

structure Spec where
  now : Nat := 0
  ents : List (Key × Entry) := []
  deriving DecidableEq, Repr

def Spec.value (sp : Spec) (k : Key) : Option Val := (kvGet sp.ents k).map (·.val)

/-- The deadline a request with this ttl asks for (the statement: "with a time-to-live"). -/
def deadlineOf (now : Nat) (ttl : Int) : Option Nat :=
  if 0 < ttl then some (now + ttl.toNat) else none

def Spec.put (sp : Spec) (k : Key) (v : Val) (ttl : Int) : Spec :=
  { sp with ents := kvSet sp.ents k { val := v, deadline := deadlineOf sp.now ttl } }

def Spec.del (sp : Spec) (k : Key) : Spec := { sp with ents := kvErase sp.ents k }

def Entry.overdue (now : Nat) (e : Entry) : Bool :=
  match e.deadline with
  | some d => decide (d ≤ now)
  | none => false

/-- Is key `k` past its deadline at time `now`? -/
def Spec.overdue (sp : Spec) (now : Nat) (k : Key) : Bool :=
  match kvGet sp.ents k with
  | some e => e.overdue now
  | none => false

/-- Time has passed: everything whose deadline is reached is gone. -/
def Spec.settle (sp : Spec) (dt : Nat) : Spec :=
  { now := sp.now + dt, ents := sp.ents.filter (fun p => !sp.overdue (sp.now + dt) p.1) }

/-- The expiry of one key takes place (no effect unless its deadline is reached). -/
def Spec.expire (sp : Spec) (k : Key) : Spec :=
  match kvGet sp.ents k with
  | some e => if e.overdue sp.now then sp.del k else sp
  | none => sp

def Spec.step (sp : Spec) : Op → Spec
  | .set k (some v) ttl => sp.put k v ttl
  | .set k none _ => sp.del k
  | .cas k old (some v) ttl => if old = sp.value k then sp.put k v ttl else sp
  | .cas k old none _ => if old.isSome ∧ old = sp.value k then sp.del k else sp
  | .remove k => sp.del k
  | .casRemove k old => if old.isSome ∧ old = sp.value k then sp.del k else sp
  | .addListener _ => sp
  | .removeListener _ => sp
  | .get => sp
  | .advance dt => sp.settle dt
  -- the two asynchronous events are below the level of this spec: time passes …
  | .fire dt => { sp with now := sp.now + dt }
  -- … and which key a callback belongs to is not visible here (see `Props/C14`, async part)
  | .runCb _ => sp

def Spec.run (sp : Spec) : List Op → Spec
  | [] => sp
  | op :: ops => Spec.run (sp.step op) ops

/-- Ops whose effect the ideal store defines (API calls and quiescent passage of time). -/
def Op.quiescent : Op → Bool
  | .fire _ => false
  | .runCb _ => false
  | _ => true

/-! ### a listener's replica -/

abbrev Replica := List (Key × Val)

def applyMsg (r : Replica) : Msg → Replica
  | .initial d => d
  | .set k v _ => kvSet r k v
  | .remove k _ => kvErase r k

def applyMsgs (r : Replica) (ms : List Msg) : Replica := ms.foldl applyMsg r

/-- The messages of one step addressed to listener `l`, in order. -/
def msgsFor (l : Lid) (out : Out) : List Msg := (out.filter (fun p => p.1 == l)).map (·.2)

/-- What a listener knows after a step: joining starts from nothing. -/
def viewStep (view : Lid → Replica) (op : Op) (out : Out) : Lid → Replica :=
  fun l =>
    let base := match op with
      | .addListener l' => if l' = l then [] else view l
      | _ => view l
    applyMsgs base (msgsFor l out)

/-- Same content (maps are compared extensionally). -/
def sameMap (a b : List (Key × Val)) : Prop := ∀ k, kvGet a k = kvGet b k

/-! ### canonical (sorted) rendering, shared by driver and judge -/

def insertKey {α : Type} (p : Key × α) : List (Key × α) → List (Key × α)
  | [] => [p]
  | q :: r => if p.1 ≤ q.1 then p :: q :: r else q :: insertKey p r

/-- Sorted by key, first binding of a key wins (= `kvGet`). -/
def canonMap {α : Type} : List (Key × α) → List (Key × α)
  | [] => []
  | p :: r => insertKey p (kvErase (canonMap r) p.1)

/-! ### Judge: the statement evaluated on an observed step -/

/-- What the harness reports for one step of the implementation. -/
structure Obs where
  ret : Option Bool
  msgs : Out                       -- (listener, message) in the order received per listener
  data : List (Key × Val)          -- GetData()
  tkeys : List Key                 -- keys of t.timers (not judged; compared with the model only)
  deriving Repr

structure Judge where
  spec : Spec := {}
  listeners : List Lid := []
  view : List (Lid × Replica) := []

def Judge.viewOf (j : Judge) (l : Lid) : Replica :=
  match j.view.find? (fun p => p.1 == l) with
  | some p => p.2
  | none => []

def firstSome {α : Type} (f : α → Option String) : List α → Option String
  | [] => none
  | a :: r => match f a with
    | some s => some s
    | none => firstSome f r

/-- The key on which a request takes effect, so that it — and no earlier request — governs the key
from then on ("replaced, removed, or had its time-to-live cleared or extended by a later set"). -/
def Spec.effectOn (sp : Spec) : Op → Option Key
  | .set k _ _ => some k
  | .cas k old (some _) _ => if old = sp.value k then some k else none
  | .cas k old none _ => if old.isSome ∧ old = sp.value k then some k else none
  | .remove k => some k
  | .casRemove k old => if old.isSome ∧ old = sp.value k then some k else none
  | _ => none

/-- The statement's reading of the harness choreography `late k v ttl a` (`SetTTL(k,v,ttl)`; the
ttl passes; request `a` is served; only then does the expiry of the first request get its turn):
if `a` took effect on `k` the later request governs and nothing expires, otherwise `k` is gone. -/
def Spec.late (sp : Spec) (k : Key) (v : Val) (ttl : Int) (a : Op) : Spec :=
  let sp1 := sp.put k v ttl
  let sp2 := { sp1 with now := sp1.now + ttl.toNat }
  let sp3 := sp2.step a
  if sp2.effectOn a = some k then sp3 else sp3.expire k

/-- Core of the judge: `sp'` is the ideal store after the step, `op` decides who joins / leaves,
`composite` relaxes the two clauses that only make sense for a single request. -/
def Judge.check (j : Judge) (sp' : Spec) (op : Op) (composite : Bool) (o : Obs) : Judge × String :=
  let before := canonMap (j.spec.ents.map (fun p => (p.1, p.2.val)))
  let want := canonMap (sp'.ents.map (fun p => (p.1, p.2.val)))
  let got := canonMap o.data
  let listeners' := match op with
    | .addListener l => if l ∈ j.listeners then j.listeners else l :: j.listeners
    | .removeListener l => j.listeners.filter (· ≠ l)
    | _ => j.listeners
  -- a remove takes the listener out before anything could be sent; a join registers it first
  let view' : List (Lid × Replica) := listeners'.map (fun l =>
    let base := match op with
      | .addListener l' => if l' = l then [] else j.viewOf l
      | _ => j.viewOf l
    (l, applyMsgs base (msgsFor l o.msgs)))
  let j' : Judge := { spec := sp', listeners := listeners', view := view' }
  -- 1. TTLs honoured / latest request governs: the store is what the statement says
  let vData : Option String :=
    if got = want then none else
      match firstSome (fun p : Key × Val => if kvGet got p.1 = none then some p.1 else none) want with
      | some k => some ("violated:value-lost:" ++ k)
      | none =>
        match firstSome (fun p : Key × Val => if kvGet want p.1 = none then some p.1 else none) got with
        | some k => some ("violated:value-not-gone:" ++ k)
        | none => some "violated:wrong-value"
  -- 2. nobody but registered listeners hears anything
  let allowed := if composite then j.listeners ++ listeners' else listeners'
  let vStranger : Option String :=
    firstSome (fun p : Lid × Msg => if p.1 ∈ allowed then none else some s!"violated:notified-unregistered:L{p.1}") o.msgs
  -- 3. a request that leaves the data as it is sends nothing (joining may send the snapshot)
  let vSilent : Option String :=
    match op with
    | .addListener _ => none
    | _ => if !composite ∧ want = before ∧ !o.msgs.isEmpty then some "violated:unchanged-but-notified" else none
  -- 4. every registered listener's replica reproduces the store it belongs to
  let vReplica : Option String :=
    firstSome (fun p : Lid × Replica => if canonMap p.2 = got then none else some s!"violated:replica-diverged:L{p.1}") view'
  match vData, vStranger, vSilent, vReplica with
  | some v, _, _, _ => (j', v)
  | _, some v, _, _ => (j', v)
  | _, _, some v, _ => (j', v)
  | _, _, _, some v => (j', v)
  | _, _, _, _ => (j', "ok")

def Judge.observe (j : Judge) (op : Op) (o : Obs) : Judge × String :=
  if !op.quiescent then (j, "na") else j.check (j.spec.step op) op false o

def Judge.observeLate (j : Judge) (k : Key) (v : Val) (ttl : Int) (a : Op) (o : Obs) : Judge × String :=
  if !a.quiescent then (j, "na") else j.check (j.spec.late k v ttl a) a true o

end SigModel.Transient
