/-
Spec for C01, written from the property statement:

  "A connection is given a session (a hello reply carrying a session id) only if it
   presented credentials that verify: protocol 1.0 params accepted by the configured
   Nextcloud backend named in the request, a protocol 2.0 token signed with an
   RSA/ECDSA/Ed25519 key published by that configured backend and currently
   time-valid, an internal-client token equal to HMAC-SHA256(shared secret, random)
   with random of at least 32 bytes, or the resume id of a live session of this
   server.  Until then every other request is answered with an error and changes
   nothing on the server.  A backend URL that is not configured is always refused."

`ValidCreds` is that four-way disjunction; the constants are the statement's own
(`Lemmas/Auth.lean` proves the code's generated constants agree).  The judge
evaluates it — and the two other clauses — on what the *implementation* answered.
-/
import SigModel.Model.Auth

namespace SigModel.Auth
open SigModel.Proto (hasPrefix)

/-! ### the statement's constants -/

/-- "RSA/ECDSA/Ed25519": the public-key JWS algorithms of those three families. -/
def stmtAlgs : List String := ["RS256", "RS384", "RS512", "ES256", "ES384", "ES512", "EdDSA"]
/-- "random of at least 32 bytes" -/
def stmtMinRandom : Nat := 32
/-- "currently time-valid": clock skew tolerated between backend and server — one minute (ns). -/
def stmtLeeway : Int := 60000000000

/-! ### "the configured backend named in the request" -/

/-- `b` is an entry of the configuration and the request URL `u` lies under it:
same host (a standard port may be omitted), scheme https — or http if the backend
itself is http —, and the backend's URL, closed by a "/" if written without one, is a
prefix of the request URL closed likewise: `/foo/x` lies under `/foo`, the sibling path
`/foobar` does not (host-only backends cover the whole host); or every host is allowed
(`allowall`). -/
def Names (cfg : Cfg) (u : Url) (b : Backend) : Prop :=
  u.ok = true ∧
  ((∃ entries, (u.norm.1, entries) ∈ cfg.hosts ∧ b ∈ entries ∧ isUrlAllowed b u.scheme = true ∧
      (b.url = "" ∨ hasPrefix (withSlash b.url) (withSlash u.norm.2) = true))
   ∨ cfg.allowAll = some b)

/-- "a backend URL that is configured" -/
def Configured (cfg : Cfg) (u : Url) : Prop := ∃ b, Names cfg u b

/-- The web server that answered for the URL is the backend's own (`"*"`: host-only
backends — whoever serves the allowed host is the backend). -/
def srvOk (b : Backend) (srv : String) : Bool := b.owner = "*" || b.owner = srv

/-! ### the four kinds of credentials -/

/-- iat present and not in the future, exp present and not in the past, nbf (if any) reached —
each up to the tolerated skew. -/
def TimeValid (now : Int) (t : Tok) : Prop :=
  (∃ i, t.iat = some i ∧ i ≤ now + stmtLeeway) ∧
  (∃ e, t.exp = some e ∧ now ≤ e + stmtLeeway) ∧
  (∀ n, t.nbf = some n → n ≤ now + stmtLeeway)

/-- protocol 1.0: params accepted by the configured backend named in the request -/
def ValidV1 (cfg : Cfg) (m : Hello) (bid : String) : Prop :=
  ∃ b, Names cfg m.url b ∧ b.id = bid ∧ srvOk b m.url.srv = true ∧ ∃ user, m.v1ans = .auth user

/-- protocol 2.0: token signed with an RSA/ECDSA/Ed25519 key published by that configured
backend, currently time-valid -/
def ValidV2 (cfg : Cfg) (env : Env) (now : Int) (m : Hello) (bid : String) : Prop :=
  ∃ b, Names cfg m.url b ∧ b.id = bid ∧ srvOk b m.url.srv = true ∧
    (∃ a, m.tok.alg = some a ∧ a ∈ stmtAlgs) ∧
    (∃ t, env.tenant m.url.srv = some t ∧ t.key.isSome = true) ∧
    m.tok.verifies m.url.srv = true ∧
    TimeValid now m.tok

/-- internal client: token = HMAC-SHA256(shared secret, random), |random| ≥ 32 bytes
(a shared secret must exist), for a configured backend -/
def ValidInternal (cfg : Cfg) (m : Hello) (bid : String) : Prop :=
  cfg.secretSet = true ∧ m.tokenOk = true ∧ stmtMinRandom ≤ m.rnd.utf8ByteSize ∧
    ∃ b, Names cfg m.burl b ∧ b.id = bid

/-- resume id of a live session of this server (`live`: sid and backend of the sessions in the table) -/
def ValidResume (live : List (Nat × String)) (m : Hello) (sid : Nat) (bid : String) : Prop :=
  m.resume.exact = some sid ∧ (sid, bid) ∈ live

/-- the hello presents client credentials (client type `client`, the default, or `federation`) -/
def clientish (m : Hello) : Prop := m.authType = "" ∨ m.authType = "client" ∨ m.authType = "federation"

/-- The statement's disjunction, for a hello answered with session `sid` of backend `bid`;
each alternative applies to the kind of credentials the message presents. -/
def ValidCreds (cfg : Cfg) (env : Env) (now : Int) (live : List (Nat × String)) (m : Hello)
    (sid : Nat) (bid : String) : Prop :=
  (m.resume.present = false ∧ clientish m ∧ m.version = "1.0" ∧ ValidV1 cfg m bid) ∨
  (m.resume.present = false ∧ clientish m ∧ m.version = "2.0" ∧ ValidV2 cfg env now m bid) ∨
  (m.resume.present = false ∧ m.authType = "internal" ∧ ValidInternal cfg m bid) ∨
  (m.resume.present = true ∧ ValidResume live m sid bid)

def Hub.live (h : Hub) : List (Nat × String) := h.sessions.map (fun s => (s.sid, s.backend))

/-! ### executable versions (used by the judge; `Lemmas/Auth.lean` proves them equivalent) -/

def allBackends (cfg : Cfg) : List Backend :=
  (cfg.hosts.flatMap (·.2)) ++ cfg.allowAll.toList

def namesB (cfg : Cfg) (u : Url) (b : Backend) : Bool :=
  u.ok &&
  ((cfg.hosts.any (fun he => he.1 = u.norm.1 && he.2.contains b && isUrlAllowed b u.scheme &&
      (b.url = "" || hasPrefix (withSlash b.url) (withSlash u.norm.2))))
   || cfg.allowAll = some b)

def timeValidB (now : Int) (t : Tok) : Bool :=
  (match t.iat with | some i => decide (i ≤ now + stmtLeeway) | none => false) &&
  (match t.exp with | some e => decide (now ≤ e + stmtLeeway) | none => false) &&
  (match t.nbf with | some n => decide (n ≤ now + stmtLeeway) | none => true)

def validV1B (cfg : Cfg) (m : Hello) (bid : String) : Bool :=
  (allBackends cfg).any (fun b => namesB cfg m.url b && b.id = bid && srvOk b m.url.srv) &&
  (match m.v1ans with | .auth _ => true | _ => false)

def validV2B (cfg : Cfg) (env : Env) (now : Int) (m : Hello) (bid : String) : Bool :=
  (allBackends cfg).any (fun b => namesB cfg m.url b && b.id = bid && srvOk b m.url.srv) &&
  (match m.tok.alg with | some a => stmtAlgs.contains a | none => false) &&
  (match env.tenant m.url.srv with | some t => t.key.isSome | none => false) &&
  m.tok.verifies m.url.srv && timeValidB now m.tok

def validInternalB (cfg : Cfg) (m : Hello) (bid : String) : Bool :=
  cfg.secretSet && m.tokenOk && decide (stmtMinRandom ≤ m.rnd.utf8ByteSize) &&
  (allBackends cfg).any (fun b => namesB cfg m.burl b && b.id = bid)

def validResumeB (live : List (Nat × String)) (m : Hello) (sid : Nat) (bid : String) : Bool :=
  m.resume.exact = some sid && live.contains (sid, bid)

def clientishB (m : Hello) : Bool := m.authType = "" || m.authType = "client" || m.authType = "federation"

def validCredsB (cfg : Cfg) (env : Env) (now : Int) (live : List (Nat × String)) (m : Hello)
    (sid : Nat) (bid : String) : Bool :=
  (!m.resume.present && clientishB m && m.version = "1.0" && validV1B cfg m bid) ||
  (!m.resume.present && clientishB m && m.version = "2.0" && validV2B cfg env now m bid) ||
  (!m.resume.present && m.authType = "internal" && validInternalB cfg m bid) ||
  (m.resume.present && validResumeB live m sid bid)

/-! ### Judge: the statement evaluated on the implementation's observed behaviour -/

/-- What the harness observed after an op: the reply to the requester and the
session table (`sid, backend, kind, user, attached connection`). -/
structure Obs where
  reply : Reply
  sessions : List Sess
  /-- `Hub.clients` at rest: (connection, session, the entry's session is not the live session of that id) -/
  clients : List (Nat × Nat × Bool) := []

structure Judge where
  /-- session table observed after the previous op -/
  sessions : List Sess := []

def Judge.live (j : Judge) : List (Nat × String) := j.sessions.map (fun s => (s.sid, s.backend))

/-- why a hello that got a session has no valid credentials (for the report) -/
def whyInvalid (cfg : Cfg) (m : Hello) : String :=
  let u := if effType m = SigModel.Generated.Auth.HelloClientTypeInternal then m.burl else m.url
  if m.resume.present then "resume-id-of-no-live-session"
  else if !(allBackends cfg).any (fun b => namesB cfg u b) then "backend-url-not-configured"
  else if !(allBackends cfg).any (fun b => namesB cfg u b && srvOk b u.srv) then "accepted-by-a-server-that-is-not-the-named-backend"
  else "credentials-do-not-verify"

/-- A connection the hub keeps for a session that is not in its session table (or is another object than
the one in the table): whoever got it there holds a session that is not live. -/
def Obs.dangling (o : Obs) : Bool :=
  o.clients.any (fun k => k.2.2 || !o.sessions.any (fun s => s.sid = k.2.1))

def Judge.observe1 (cfg : Cfg) (env : Env) (now : Int) (j : Judge) (op : Op) (o : Obs) : Judge × String :=
  let unchanged := decide (o.sessions = j.sessions)
  let authed (c : Nat) := j.sessions.any (fun s => s.conn = some c)
  match op with
  | .hello c m =>
    match o.reply with
    | .hello sid bid _ _ =>
      if authed c then (j', "violated:hello-answered-on-authenticated-connection")
      else if !validCredsB cfg env now j.live m sid bid then
        (j', "violated:session-without-valid-credentials:" ++ whyInvalid cfg m)
      else if !o.sessions.any (fun s => s.sid = sid ∧ s.conn = some c) then
        -- nothing else runs during this op: the session the reply names is live and has this connection
        (j', "violated:hello-reply-without-a-live-session")
      else (j', "ok")
    | .closed => (j', "na")
    | _ =>
      -- refused (or ignored): no session may have appeared
      if unchanged then (j', "ok") else (j', "violated:refused-hello-changed-session-table")
  | .msg c _ _ =>
    if !op.isOther then (j', "na")
    else if authed c then (j', "na")
    else
      match o.reply with
      | .closed => (j', "na")
      | .error _ => if unchanged then (j', "ok") else (j', "violated:request-before-hello-changed-session-table")
      | _ => (j', "violated:request-before-hello-not-answered-with-error")
  | .bye c =>
    if authed c then (j', "na")
    else
      match o.reply with
      | .closed => (j', "na")
      | .error _ => if unchanged then (j', "ok") else (j', "violated:request-before-hello-changed-session-table")
      | _ => (j', "violated:request-before-hello-not-answered-with-error")
  | _ => (j', "na")
where j' : Judge := { sessions := o.sessions }

/-- the verdict of `observe1`, and for every op: no connection is kept for a session that is not live -/
def Judge.observe (cfg : Cfg) (env : Env) (now : Int) (j : Judge) (op : Op) (o : Obs) : Judge × String :=
  let r := j.observe1 cfg env now op o
  if (r.2 == "ok" || r.2 == "na") && o.dangling then (r.1, "violated:connection-kept-for-a-session-that-is-not-live")
  else r

/-- A hello with the resume id of live session `sid` on connection `c` while that session ends
(`bye` of its connection, expiry, kick), judged at rest: whichever came first, the tables are those of
"the session has ended" — a connection still kept for it was attached to a session that was no longer
live, and if it was told `hello sid` it holds a session for a resume id of no live session. -/
def Judge.observeRace (j : Judge) (sid : Nat) (gotHello : Bool) (o : Obs) (resumedOn : Option Nat := none) :
    Judge × String :=
  let j' : Judge := { sessions := o.sessions }
  if o.dangling then
    if gotHello then (j', "violated:session-without-valid-credentials:resume-id-of-a-session-that-has-ended")
    else (j', "violated:connection-kept-for-a-session-that-is-not-live")
  -- the end was a `bye` on the session's old connection and the resume came first: the take-over closes that
  -- connection, and a bye that was still in flight on it is lost with it — the session lives on, attached to
  -- the resuming connection (which was told so)
  else if gotHello && resumedOn.isSome && o.sessions.any (fun s => s.sid = sid && s.conn == resumedOn) then (j', "ok")
  else if o.sessions.any (fun s => s.sid = sid) then (j', "violated:ended-session-still-in-the-table")
  else if gotHello then
    -- attached while the session was live (it was: the previous observation has it), ended afterwards
    if j.sessions.any (fun s => s.sid = sid) then (j', "ok") else (j', "violated:session-without-valid-credentials:resume-id-of-no-live-session")
  else (j', "ok")

end SigModel.Auth
