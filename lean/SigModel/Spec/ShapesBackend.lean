/-
Spec for C11, written from the property statement:

  "Any correctly signed POST to the room API, whatever JSON it contains (unknown type, missing or
   null sub-object, wrong-typed members, huge lists), gets an HTTP reply with a 2xx or 4xx status
   and leaves the server running and responsive.  A malformed request causes no event to be sent
   to clients."

`malformed` is the statement's notion, with the statement's own list of request types (the room
API documentation) — not the code's validation table.  The judge evaluates the statement on what
the harness observed of the real server.
-/
import SigModel.Model.ShapesBackend

namespace SigModel.ShapesBackend

/-- The request types of the room API. -/
def documentedTypes : List String :=
  ["invite", "disinvite", "update", "delete", "incall", "participants", "message", "switchto", "dialout"]

/-- The sub-object that carries the payload of a request type is present. -/
def Request.payloadPresent (r : Request) : Bool :=
  if r.type = "invite" then r.invite.isSome
  else if r.type = "disinvite" then r.disinvite.isSome
  else if r.type = "update" then r.update.isSome
  else if r.type = "delete" then r.delete.isSome
  else if r.type = "incall" then r.inCall.isSome
  else if r.type = "participants" then r.participants.isSome
  else if r.type = "message" then r.message.isSome
  else if r.type = "switchto" then r.switchTo.isSome
  else if r.type = "dialout" then r.dialout.isSome
  else false

/-- Malformed: not decodable (syntax error, wrong-typed member), over-long, a type the API does not
have, the type's sub-object missing or null, or a `sessions` member of a switchto request that is
neither a list of strings nor an object. -/
def malformed : Body → Bool
  | .tooLarge => true
  | .undecodable => true
  | .ok r =>
    !documentedTypes.contains r.type || !r.payloadPresent ||
    (r.type = "switchto" && match r.switchTo with
      | some s => !s.sessions.decodable
      | none => true)

def okStatus (c : Nat) : Bool := (200 ≤ c && c < 300) || (400 ≤ c && c < 500)

/-- The statement's demand on one reply. -/
def Http.acceptable : Http → Bool
  | .status c => okStatus c
  | .noReply => false

/-- A 5xx that is the dial-out client's doing, not the request's: a well-formed dial-out request
relayed to an internal client that then fails to start the call (502) or stays silent (504). -/
def gatewayExcused (w : World) (b : Body) (c : Nat) : Bool :=
  match b with
  | .ok r => r.type = "dialout" && !malformed b && !w.dialout.cooperative && (c = 502 || c = 504)
  | _ => false

/-! ### Judge: the statement on an observed step -/

structure Observed where
  status : Option Nat        -- none: transport error, no HTTP reply
  live : Bool                -- the follow-up probes were answered and had their effect
  liveWhy : String := ""     -- what the harness reported when not (`dead:<probe>`, `hung@<where>`)
  events : List String       -- events received by any client
  digest : String            -- server-side room state after the step
  deriving Repr

structure Judge where
  lastDigest : String := ""

def Judge.observe (j : Judge) (w : World) (b : Body) (o : Observed) : Judge × String :=
  let j' : Judge := { lastDigest := o.digest }
  let v :=
    match o.status with
    | none => "violated:no-http-reply"
    | some c =>
      if !o.live then s!"violated:unresponsive-after-request({o.liveWhy})"
      else if !okStatus c then
        if gatewayExcused w b c then "na" else s!"violated:status-{c}"
      else if malformed b && !o.events.isEmpty then "violated:malformed-request-caused-event"
      else if malformed b && o.digest != j.lastDigest then "violated:malformed-request-changed-state"
      else "ok"
  (j', v)

end SigModel.ShapesBackend
