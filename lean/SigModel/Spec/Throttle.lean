/-
Spec for C17, written from the property statement, not from the code.

The spec remembers *every* failure ever recorded for a key/action (nothing is
ever pruned) and decides by counting:
  * refused  ⇔ at least `maxBruteforceAttempts` (10) recorded failures lie within
               `maxBruteforceDurationThreshold` (30 min) of now;
  * a failed, non-refused attempt is recorded and delayed by
    `getDelay (number of recorded failures within maxBruteforceAge (12 h))`;
  * refused and successful attempts record nothing.
-/
import SigModel.Model.Throttle

namespace SigModel.Throttle
open SigModel.Generated.Throttle

/-- The numbers of the property statement (ns).  Deliberately *not* the generated
constants: `Lemmas/Throttle.lean` proves that the code's constants equal these,
and the judge evaluates the statement — not the code's idea of it — on the
implementation's trace. -/
def stmtAttempts : Nat := 10
def stmtWindow : Nat := 1800000000000        -- thirty minutes
def stmtAge : Nat := 43200000000000          -- twelve hours
def stmtMaxDelay : Nat := 25000000000        -- 25 seconds

abbrev Hist := Key → Action → List Int

def Hist.empty : Hist := fun _ _ => []

def Hist.set (h : Hist) (k : Key) (a : Action) (es : List Int) : Hist :=
  fun k' a' => if k' = k ∧ a' = a then es else h k' a'

def inWindow (now : Int) (t : Int) : Bool := decide (now - t ≤ (stmtWindow : Int))
def inAge (now : Int) (t : Int) : Bool := decide (now - t ≤ (stmtAge : Int))

def windowCount (now : Int) (F : List Int) : Nat := (F.filter (inWindow now)).length
def ageCount (now : Int) (F : List Int) : Nat := (F.filter (inAge now)).length

def specRefused (now : Int) (F : List Int) : Bool := decide (stmtAttempts ≤ windowCount now F)

/-- Outcome of one whole attempt according to the spec, from the failure history alone. -/
def specAttempt (now : Int) (F : List Int) (failed : Bool) : List Int × Out :=
  if specRefused now F then (F, .refused)
  else if failed then (F ++ [now], .delayed (getDelay (ageCount now F)))
  else (F, .passed)

/-- `n` failures at once (all let through at `now`, before any was recorded), seen at rest at
`now + dt`: the statement counts every one of them — the history has `n` more records, a further attempt
is refused iff ten records lie within thirty minutes, and the i-th delay (ascending) is the delay for `i`
more failures than before.  Nothing happens if the address was already blocked at `now`. -/
def specPar (now : Int) (F : List Int) (n dt : Nat) : List Int × Out :=
  let p := if specRefused now F then 0 else n
  let F' := F ++ List.replicate p now
  (F', .rest p (ageCount (now + dt) F') (specRefused (now + dt) F')
          ((List.range p).map fun i => getDelay (ageCount now F + i)))

def specStep (h : Hist) : Op → Hist × Out
  | .attempt now addr a failed =>
    let k := throttleKey addr
    let (F, o) := specAttempt now (h k a) failed
    (h.set k a F, o)
  | .cleanup _ => (h, .none)
  -- the two-phase ops are outside the sequential spec (see Props/C17: concurrency)
  | .checkOnly _ _ _ => (h, .none)
  | .throttleOnly _ _ _ => (h, .none)
  | .par now addr a n dt =>
    let k := throttleKey addr
    let (F, o) := specPar now (h k a) n dt
    (h.set k a F, o)

def specRun (h : Hist) : List Op → Hist × List Out
  | [] => (h, [])
  | op :: ops =>
    let (h1, o) := specStep h op
    let (h2, os) := specRun h1 ops
    (h2, o :: os)

/-- Int stamp carried by an op. -/
def Op.time : Op → Int
  | .attempt now _ _ _ => now
  | .cleanup now => now
  | .checkOnly now _ _ => now
  | .throttleOnly now _ _ => now
  | .par now _ _ _ _ => now

/-- Time at which the op is over (`par` is observed `dt` later than it starts). -/
def Op.endTime : Op → Int
  | .par now _ _ _ dt => now + dt
  | op => op.time

theorem Op.time_le_endTime (op : Op) : op.time ≤ op.endTime := by
  cases op <;> simp [Op.time, Op.endTime] <;> omega

/-- Ops the sequential reading of the statement applies to.  `par` is one of them because its outcome
does not depend on the interleaving (`C17_concurrent_failures_all_recorded`). -/
def Op.atomic : Op → Bool
  | .attempt .. => true
  | .cleanup .. => true
  | .par .. => true
  | _ => false

/-- A history with a monotone clock starting at `t0`, made of whole attempts and cleanups. -/
def Monotone (t0 : Int) : List Op → Prop
  | [] => True
  | op :: ops => t0 ≤ op.time ∧ op.atomic = true ∧ Monotone op.endTime ops

instance decMonotone : (t0 : Int) → (ops : List Op) → Decidable (Monotone t0 ops)
  | _, [] => isTrue trivial
  | t0, op :: ops =>
    have := decMonotone op.endTime ops
    inferInstanceAs (Decidable (t0 ≤ op.time ∧ op.atomic = true ∧ Monotone op.endTime ops))

end SigModel.Throttle

namespace SigModel.Throttle

/-! ### Judge: the statement of C17 evaluated on an observed trace

Independent of the code's constants.  Applicable while the trace consists of
whole attempts and cleanups under a monotone clock (the sequential reading of
the property); otherwise the verdict is `na`. -/

structure Judge where
  hist : Hist := Hist.empty
  last : Option Int := none
  sequential : Bool := true
  delays : List (Nat × Nat) := []       -- (failures within 12 h, delay) seen so far

def Judge.observe (j : Judge) (op : Op) (implOut : Out) : Judge × String :=
  let mono := match j.last with
    | some l => decide (l ≤ op.time)
    | none => true
  let seq := j.sequential && mono && op.atomic
  let j := { j with last := some op.endTime, sequential := seq }
  if !seq then (j, "na") else
  match op with
  | .attempt now addr a failed =>
    let k := throttleKey addr
    let F := j.hist k a
    let refused := specRefused now F
    let cnt := ageCount now F
    if refused then
      (j, if implOut = .refused then "ok" else "violated:not-refused-with-10-failures-in-30min")
    else
      let j' := if failed then { j with hist := j.hist.set k a (F ++ [now]) } else j
      match implOut with
      | .refused => (j', "violated:refused-with-fewer-than-10-failures-in-30min")
      | .passed => (j', if failed then "violated:failure-not-delayed" else "ok")
      | .none => (j', "violated:no-outcome")
      | .rest .. => (j', "violated:no-outcome")
      | .delayed d =>
        if !failed then (j', "violated:success-delayed") else
        if d > stmtMaxDelay then (j', "violated:delay-exceeds-25s") else
        let bad := j'.delays.any fun (c', d') => (c' ≤ cnt && d' > d) || (cnt ≤ c' && d > d')
        ({ j' with delays := (cnt, d) :: j'.delays },
          if bad then "violated:delay-decreases-with-more-failures" else "ok")
  | .par now addr a n dt =>
    let k := throttleKey addr
    let F := j.hist k a
    let cnt := ageCount now F
    let now2 := now + dt
    match implOut with
    | .rest p recs blk ds =>
      let want := if specRefused now F then 0 else n
      let F' := F ++ List.replicate want now
      let j' := { j with hist := j.hist.set k a F' }
      if p < want then (j', "violated:refused-with-fewer-than-10-failures-in-30min") else
      if p > want then (j', "violated:not-refused-with-10-failures-in-30min") else
      if recs < ageCount now2 F' then (j', "violated:fewer-records-than-failures") else
      if recs > ageCount now2 F' then (j', "violated:more-records-than-failures") else
      if specRefused now2 F' && !blk then (j', "violated:not-refused-with-10-failures-in-30min") else
      if !specRefused now2 F' && blk then (j', "violated:refused-with-fewer-than-10-failures-in-30min") else
      if ds.length ≠ p then (j', "violated:failure-not-delayed") else
      if ds.any (· > stmtMaxDelay) then (j', "violated:delay-exceeds-25s") else
      -- with checks made later (`dt > 0`) running alongside, records may expire between two of the
      -- failures: the delays are then only bounded, not paired with counts
      if dt ≠ 0 then (j', "ok") else
      -- the i-th smallest delay belongs to the failure that found `cnt + i` earlier ones
      let pairs := (List.range p).zip ds |>.map fun (i, d) => (cnt + i, d)
      let all := pairs ++ j'.delays
      let bad := pairs.any fun (c, d) => all.any fun (c', d') => (c' ≤ c && d' > d) || (c ≤ c' && d > d')
      ({ j' with delays := all },
        if bad then "violated:delay-decreases-with-more-failures" else "ok")
    | _ => (j, "violated:no-outcome")
  | _ => (j, "ok")

end SigModel.Throttle
