/-
Spec for C10, written from the property statement:

  "Whatever bytes a websocket client sends, before or after hello, the server
   process keeps running, the sender gets either a well-formed reply or error or
   is ignored, and other sessions keep working and see nothing they would not
   otherwise see.  Messages that fail validation have no effect on server state."

`addressed` says which kinds of messages a frame may cause at the bystander
(another session, in a room of its own): only what the *content* of a valid
message of an established session addresses to it.  It does not look at the
model's handlers.  `judge` evaluates the statement on what the harness observed
on the real server.
-/
import SigModel.Model.ShapesClient

namespace SigModel.ShapesClient

/-- A frame within the size limit that is not a well-formed, valid message. -/
def Frame.invalid (F : Facts) (f : Frame) : Bool :=
  f.binary ||
  match f.dec with
  | .err => true
  | .ok m => decide (checkValid F m ≠ .ok)

def Frame.oversize (F : Facts) (f : Frame) : Bool := decide (f.size > F.maxMessageSize)

def roomEvents : List String := ["event.room.join", "event.room.leave", "event.participants.update"]

def internalEvents : List String :=
  ["event.room.join", "event.room.leave", "event.participants.update", "event.participants.flags", "dialout", "transient.set"]

/-- Does the recipient of a `message`/`control` name the bystander (its session,
its user, or the room the sender shares with it)? -/
def namesBystander (s : Sess) (rc : Recipient) : Bool :=
  (rc.rtype = "session" && rc.sid = .by) || (rc.rtype = "user" && rc.uid = .by) ||
  ((rc.rtype = "room" || rc.rtype = "call") && s.room = .by)

def internalNamesBystanderRoom (st : St) (s : Sess) (i : Internal) : Bool :=
  (match i.add with | some a => decide (a.c.room = .by) | none => false) ||
  (match i.upd with | some u => decide (u.c.room = .by) | none => false) ||
  (match i.rem with | some c => decide (c.room = .by) || st.world.virt.any (fun v => v.1 = c.sid ∧ v.2 = .by) | none => false) ||
  (match i.dialout with | some d => decide (d.room = .by) | none => false) ||
  (i.incall.isSome && s.room = .by)

/-- Kinds of messages the content of a valid message of session `s` addresses to the bystander. -/
def addrSession (st : St) (s : Sess) (m : ClientMessage) : List String :=
  if m.mtype = "message" then
    match m.message with
    | some mm => if namesBystander s mm.recipient then ["message"] else []
    | none => []
  else if m.mtype = "control" then
    match m.control with
    | some mm => if namesBystander s mm.recipient then ["control"] else []
    | none => []
  else if m.mtype = "room" then
    match m.room with
    -- a room session id sent along names whoever holds it: that session is
    -- disconnected, which its room sees
    | some r => if s.room = .by || r.roomId = .by || !r.sidEmpty then roomEvents else []
    | none => []
  else if m.mtype = "bye" then
    (if s.room = .by || st.world.virt.any (fun v => v.2 = .by) then roomEvents else [])
  else if m.mtype = "transient" then
    (if s.room = .by then ["transient.set", "transient.remove"] else [])
  else if m.mtype = "internal" then
    match m.internal with
    | some i => if s.internal && internalNamesBystanderRoom st s i then internalEvents else []
    | none => []
  else []

/-- Kinds of messages the statement lets this frame cause at the bystander:
nothing for frames over the limit, undecodable or invalid messages and
connections without session; for a valid message of an established session
what its content addresses. -/
def addressed (F : Facts) (st : St) (f : Frame) : List String :=
  if f.oversize F || f.invalid F then [] else
  match st.conn, f.dec with
  | .session s, .ok m => addrSession st s m
  | _, _ => []

/-! ### Judge -/

/-- What the harness saw for one frame. -/
structure Seen where
  s : List String
  b : List String
  st : String
  http : Option String

def isErrorKind (k : String) : Bool := "error:".toList.isPrefixOf k.toList

def wellFormedKind (k : String) : Bool :=
  !("malformed".toList.isPrefixOf k.toList) && !("unknown:".toList.isPrefixOf k.toList)

def judge (F : Facts) (st : St) (f : Frame) (o : Seen) : String :=
  if (o.s ++ o.b).contains "timeout" then "violated:no-answer-within-5s"
  else if !(o.s ++ o.b).all wellFormedKind then "violated:reply-not-well-formed"
  else if o.b.contains "dead" || o.b.contains "closed" then "violated:bystander-disconnected"
  else if o.http = some "-1" then "violated:backend-request-aborted"
  else if f.oversize F then "ok"
  else if f.invalid F then
    if !o.s.any isErrorKind then "violated:invalid-message-not-answered-with-error"
    else if o.st ≠ "same" then "violated:invalid-message-changed-server-state"
    else if !o.b.isEmpty then "violated:invalid-message-reached-bystander"
    else "ok"
  else
    match o.b.find? (fun k => !(addressed F st f).contains k) with
    | some k => "violated:bystander-got-unaddressed:" ++ k
    | none => "ok"

end SigModel.ShapesClient
