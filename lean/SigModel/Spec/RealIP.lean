/-
Spec for C16, written from the property statement, not from the code.

  "The client address the server uses … is the socket peer unless that peer is a
   configured trusted proxy; only then is it taken from X-Real-IP or the right-most
   untrusted hop of X-Forwarded-For.  Consequently a client that connects directly
   can never change its apparent address, and the stats, metrics and serverinfo
   endpoints answer only to addresses on the allow-list."

Membership of an address in a CIDR list is stated the way a network engineer
reads `a.b.c.d/n`: same address family (an IPv4 address written as `::ffff:a.b.c.d`
is that IPv4 address) and the first `n` bits agree — on bits, not with Go's
byte-and-mask loop.  `Lemmas/RealIP.lean` proves that the two agree for every
well-formed network.
-/
import SigModel.Model.RealIP

namespace SigModel.RealIP

/-! ### CIDR membership on bits -/

def bits8 (b : Nat) : List Bool :=
  [b.testBit 7, b.testBit 6, b.testBit 5, b.testBit 4, b.testBit 3, b.testBit 2, b.testBit 1, b.testBit 0]

def bitsOf : List Nat → List Bool
  | [] => []
  | b :: bs => bits8 b ++ bitsOf bs

/-- An IPv4 address in IPv4-in-IPv6 form is that IPv4 address. -/
def unmap (ip : List Nat) : List Nat :=
  if ip.length = 16 ∧ ip.take 12 = [0, 0, 0, 0, 0, 0, 0, 0, 0, 0, 255, 255] then ip.drop 12 else ip

/-- Number of leading one bits. -/
def leadingOnes : List Bool → Nat
  | true :: bs => leadingOnes bs + 1
  | _ => 0

/-- The prefix length of a network whose mask is written for the 128-bit form of an IPv4
network counts from bit 96. -/
def specMask (n : Cidr) : List Nat :=
  if n.mask.length = 16 ∧ (unmap n.ip).length = 4 then n.mask.drop 12 else n.mask

def specContains (n : Cidr) (ip : List Nat) : Bool :=
  let a := unmap ip
  let nn := unmap n.ip
  let m := specMask n
  let p := leadingOnes (bitsOf m)
  (a.length == 4 || a.length == 16) && a.length == nn.length && m.length == nn.length &&
    (bitsOf a).take p == (bitsOf nn).take p

def specAllowed (l : List Cidr) (ip : List Nat) : Bool := l.any (fun n => specContains n ip)

/-- A mask byte with `j ≤ 8` leading one bits. -/
def partialByte (j : Nat) : Nat := 256 - 2 ^ (8 - j)

/-- `net.CIDRMask(ones, 8*len)`: `ones` one bits, then zeros. -/
def cidrMask : Nat → Nat → List Nat
  | _, 0 => []
  | p, l + 1 => if 8 ≤ p then 255 :: cidrMask (p - 8) l else partialByte p :: cidrMask 0 l

/-- A mask as `net.CIDRMask` builds it. -/
def canonicalMask (m : List Nat) : Bool := m == cidrMask (leadingOnes (bitsOf m)) m.length

def bytesOk (l : List Nat) : Bool := l.all (· < 256)

/-- A network as `net.ParseCIDR` builds it. -/
def Cidr.wf (n : Cidr) : Bool :=
  bytesOk n.ip && bytesOk n.mask && canonicalMask n.mask &&
    (n.ip.length == 4 || n.ip.length == 16) && (n.mask.length == 4 || n.mask.length == 16)

/-! ### the client address -/

/-- The statement, for any notion `isTrusted` of "this address is a configured trusted proxy". -/
def specRealIP (isTrusted : List Nat → Bool) (r : Req) : Tok :=
  -- the socket peer unless that peer is a configured trusted proxy
  if !(r.peer.valid && isTrusted r.peer.bytes) then r.peer
  else
    -- X-Real-IP (the first such header) if it is an address
    match r.xreal.head? with
    | some t => if t.valid then t else fwd
    | none => fwd
where
  fwd : Tok :=
    -- the right-most hop that is an address and not a trusted proxy
    match r.hops.reverse.find? (fun h => h.valid && !isTrusted h.bytes) with
    | some h => h
    | none =>
      -- every hop is a trusted proxy: the left-most one (the client sits in a trusted subnet)
      match r.hops.find? (fun h => h.valid) with
      | some h => h
      | none => r.peer

/-- "answer only to addresses on the allow-list" -/
def specAnswer (isTrusted isAllowed : List Nat → Bool) (r : Req) : Bool :=
  let t := specRealIP isTrusted r
  t.valid && isAllowed t.bytes

/-- The endpoints the statement names. -/
def stmtGated : Server → List String
  | .main => ["/api/v1/stats", "/api/v1/serverinfo", "/metrics"]
  | .proxy => ["/stats", "/metrics"]

/-- Tokens as `net.ParseIP` produces them: the empty string is not an address. -/
def Tok.wf (t : Tok) : Bool := !t.valid || t.text != ""

def Req.wf (r : Req) : Bool := r.peer.wf && r.xreal.all Tok.wf && r.hops.all Tok.wf

/-- Parsed addresses as `net.ParseIP` returns them: 16 (or 4) bytes. -/
def Tok.ipwf (t : Tok) : Bool :=
  match t.ip with
  | some b => bytesOk b && (b.length == 4 || b.length == 16)
  | none => true

def Req.ipwf (r : Req) : Bool := r.peer.ipwf && r.xreal.all Tok.ipwf && r.hops.all Tok.ipwf

/-! ### what the operator configured

"a configured trusted proxy", "addresses on the allow-list": an entry written without a prefix length is
that one address and nothing else (`2001:db8::1` is not `2001:db8::/32`, `10.0.0.1` is not an IPv6 network,
`::ffff:10.0.0.1` is the IPv4 host `10.0.0.1`); an entry `a/n` is the network whose first `n` bits are those
of `a`.  Written on the entries of the configured text, not on what the code made of them. -/

/-- One address and nothing else, in either spelling of an IPv4 address. -/
def specHostMatches (h ip : List Nat) : Bool :=
  let a := unmap ip
  (a.length == 4 || a.length == 16) && a == unmap h

def specEntryMatches : Entry → List Nat → Bool
  | .host h, ip => specHostMatches h ip
  | .net c, ip => specContains c ip
  | _, _ => false

def specListed (es : List Entry) (ip : List Nat) : Bool := es.any (fun e => specEntryMatches e ip)

/-- Entries as the standard-library parsers deliver them. -/
def Entry.wf : Entry → Bool
  | .host h => bytesOk h && (h.length == 4 || h.length == 16)
  | .net c => c.wf
  | _ => true

def Entry.isBad : Entry → Bool
  | .bad => true
  | _ => false

def Entry.isSkip : Entry → Bool
  | .skip => true
  | _ => false

/-- The defaults of the statement's world: with nothing configured the private networks
(loopback, 10/8, 172.16/12, 192.168/16) are trusted and 127.0.0.1 may read the statistics. -/
def stmtDefaultTrusted : List Entry :=
  [.net ⟨[127, 0, 0, 0], [255, 0, 0, 0]⟩, .net ⟨[10, 0, 0, 0], [255, 0, 0, 0]⟩,
   .net ⟨[172, 16, 0, 0], [255, 240, 0, 0]⟩, .net ⟨[192, 168, 0, 0], [255, 255, 0, 0]⟩]

def stmtDefaultAllow : List Entry := [.host [127, 0, 0, 1]]

/-- The configured list as the operator wrote it: nothing written = the default. -/
def stmtList (es dflt : List Entry) : List Entry :=
  let l := es.filter (fun e => !e.isSkip)
  if l.isEmpty then dflt else l

/-! ### Judge: the statement evaluated on what the implementation did

The configuration is what the operator *wrote* (the tokenised entries of the `new` / `reload` line, read as
above) — not what the implementation reports to have made of it: a server that turns the single address
`2001:db8::1` into a network trusts peers nobody configured, and the requests of such a peer are judged
against the written list.  A list with an unreadable entry is refused as a whole: at start no server comes
up (the harness goes on with one that has nothing configured, which is also what it runs a request on
when a case has no `new` line), on reload the previous list stays. -/

structure Judge where
  trusted : List Entry := stmtDefaultTrusted
  allow : List Entry := stmtDefaultAllow

def Judge.fresh (t a : List Entry) : Judge :=
  if t.any Entry.isBad || a.any Entry.isBad then {}
  else { trusted := stmtList t stmtDefaultTrusted, allow := stmtList a stmtDefaultAllow }

def Judge.reload (j : Judge) (t a : List Entry) : Judge :=
  { trusted := if t.any Entry.isBad then j.trusted else stmtList t stmtDefaultTrusted
    allow := if a.any Entry.isBad then j.allow else stmtList a stmtDefaultAllow }

def Judge.ip (j : Judge) (nilTrusted : Bool) (r : Req) (implText : String) : String :=
  let isT : List Nat → Bool := if nilTrusted then fun _ => false else specListed j.trusted
  let want := specRealIP isT r
  if implText = want.text then "ok"
  else if !(r.peer.valid && isT r.peer.bytes) then "violated:headers-change-address-of-untrusted-peer"
  else "violated:wrong-client-address-behind-trusted-proxy"

def Judge.get (j : Judge) (gated : Bool) (r : Req) (status : Nat) : String :=
  if !gated then "na" else
  let want := specAnswer (specListed j.trusted) (specListed j.allow) r
  let answered := decide (200 ≤ status ∧ status < 300)
  if answered = want then "ok"
  else if answered then "violated:gated-endpoint-answers-address-not-on-allow-list"
  else "violated:gated-endpoint-refuses-allowed-address"

end SigModel.RealIP
