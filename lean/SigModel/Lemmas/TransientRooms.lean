/-
Lemmas for the room level of C14 (`Model/TransientRooms.lean`): the listener set of
every room object's store is the member set of that room object, and every member's
replica is that store's data — preserved by every operation of the world.
-/
import SigModel.Lemmas.Transient
import SigModel.Spec.TransientRooms

namespace SigModel.Transient

/-! ### a store only talks to its listeners -/

/-- every message of `out` is addressed to a listener of `st` -/
def OutTo (st : State) (out : Out) : Prop := ∀ p ∈ out, p.1 ∈ st.listeners

theorem OutTo_nil (st : State) : OutTo st [] := by intro p hp; cases hp

theorem OutTo_notify (st : State) (m : Msg) : OutTo st (notify st m) := by
  intro p hp
  simp only [notify, List.mem_map] at hp
  obtain ⟨l, hl, rfl⟩ := hp
  exact hl

theorem OutTo_append {st : State} {a b : Out} (ha : OutTo st a) (hb : OutTo st b) : OutTo st (a ++ b) := by
  intro p hp
  rcases List.mem_append.mp hp with h | h
  · exact ha p h
  · exact hb p h

theorem OutTo_congr {st st' : State} {o : Out} (h : OutTo st o) (hl : st'.listeners = st.listeners) :
    OutTo st' o := by
  intro p hp; rw [hl]; exact h p hp

theorem OutTo_remove (st : State) (k : Key) : OutTo st (remove st k).out := by
  unfold remove
  split
  · exact OutTo_nil st
  · exact OutTo_notify st _

theorem OutTo_compareAndRemove (st : State) (k : Key) (old : Option Val) :
    OutTo st (compareAndRemove st k old).out := by
  unfold compareAndRemove
  split
  · exact OutTo_nil st
  · split
    · exact OutTo_notify st _
    · exact OutTo_nil st

theorem OutTo_setTTL (c : Cfg) (st : State) (k : Key) (v : Option Val) (ttl : Int) :
    OutTo st (setTTL c st k v ttl).out := by
  unfold setTTL
  split
  · exact OutTo_remove st k
  · simp only
    split
    · exact OutTo_nil st
    · exact OutTo_notify st _

theorem OutTo_runCb (c : Cfg) (st : State) (id : Nat) : OutTo st (runCb c st id).out := by
  unfold runCb
  split
  · exact OutTo_nil st
  · simp only
    split
    · exact OutTo_nil st
    · exact OutTo_compareAndRemove _ _ _

theorem OutTo_runCbs (c : Cfg) (ids : List Nat) (st : State) : OutTo st (runCbs c st ids).2 := by
  induction ids generalizing st with
  | nil => exact OutTo_nil st
  | cons id ids ih =>
    simp only [runCbs]
    exact OutTo_append (OutTo_runCb c st id) (OutTo_congr (ih _) (Delta_runCb c st id).1.symm)

theorem OutTo_advance (c : Cfg) (st : State) (dt : Nat) : OutTo st (advance c st dt).2 := by
  simp only [advance]
  have h1 := Delta_runCbs c st (pendingIds st)
  refine OutTo_append (OutTo_runCbs c _ st) ?_
  exact OutTo_congr (OutTo_runCbs c _ _) (by simpa [fire] using h1.1.symm)

theorem msgsFor_eq_nil_of_not_mem {st : State} {out : Out} (h : OutTo st out) {s : Lid}
    (hs : s ∉ st.listeners) : msgsFor s out = [] := by
  simp only [msgsFor, List.map_eq_nil_iff, List.filter_eq_nil_iff]
  intro p hp hps
  have : p.1 = s := by simpa using hps
  exact hs (this ▸ h p hp)

/-! ### the invariant of the world -/

structure Inv (w : World) : Prop where
  /-- the listener set of a room object's store is its member set -/
  lm : ∀ o ∈ w.objs, ∀ l, l ∈ o.td.listeners ↔ l ∈ o.members
  /-- a room object the hub has forgotten has no members (hence no listeners) -/
  dead : ∀ o ∈ w.objs, o.live = false → o.members = []
  /-- a member's room pointer is that object -/
  mem_room : ∀ o ∈ w.objs, ∀ l ∈ o.members, w.roomOf l = some o.oid
  /-- a session's room pointer leads to an object that lists it -/
  room_mem : ∀ s i, w.roomOf s = some i → ∃ o ∈ w.objs, o.oid = i ∧ s ∈ o.members
  uniq : w.objs.Pairwise (fun a b => a.oid ≠ b.oid)
  fresh : ∀ o ∈ w.objs, o.oid < w.nextOid

/-- every member's replica is the data of its room object -/
def WConv (w : World) (view : Lid → Replica) : Prop :=
  ∀ o ∈ w.objs, ∀ s ∈ o.members, view s = o.td.data

theorem Inv_init : Inv World.init where
  lm := by intro o ho; cases ho
  dead := by intro o ho; cases ho
  mem_room := by intro o ho; cases ho
  room_mem := by intro s i h; cases h
  uniq := List.Pairwise.nil
  fresh := by intro o ho; cases ho

theorem eq_of_oid_of_pairwise (l : List RoomObj) (h : l.Pairwise (fun a b => a.oid ≠ b.oid))
    {a b : RoomObj} (ha : a ∈ l) (hb : b ∈ l) (hab : a.oid = b.oid) : a = b := by
  induction l with
  | nil => cases ha
  | cons x xs ih =>
    rw [List.pairwise_cons] at h
    rcases List.mem_cons.mp ha with ha1 | ha1 <;> rcases List.mem_cons.mp hb with hb1 | hb1
    · rw [ha1, hb1]
    · exact absurd (ha1 ▸ hab) (h.1 b hb1)
    · exact absurd (hb1 ▸ hab.symm) (h.1 a ha1)
    · exact ih h.2 ha1 hb1

theorem Inv.eq_of_oid {w : World} (h : Inv w) {a b : RoomObj} (ha : a ∈ w.objs) (hb : b ∈ w.objs)
    (hab : a.oid = b.oid) : a = b := by
  exact eq_of_oid_of_pairwise w.objs h.uniq ha hb hab

/-- a session is a member of at most one room object -/
theorem Inv.member_unique {w : World} (h : Inv w) {a b : RoomObj} (ha : a ∈ w.objs) (hb : b ∈ w.objs)
    {s : Lid} (hsa : s ∈ a.members) (hsb : s ∈ b.members) : a = b := by
  have h1 := h.mem_room a ha s hsa
  have h2 := h.mem_room b hb s hsb
  rw [h1] at h2
  exact h.eq_of_oid ha hb (Option.some.inj h2)

/-! ### messages of one object among the world's -/

theorem msgsFor_flatMap_nil (s : Lid) (l : List RoomObj) (G : RoomObj → Out)
    (h : ∀ o ∈ l, msgsFor s (G o) = []) : msgsFor s (l.flatMap G) = [] := by
  induction l with
  | nil => rfl
  | cons x xs ih =>
    rw [List.flatMap_cons, msgsFor_append, h x (List.mem_cons_self ..),
      ih (fun o ho => h o (List.mem_cons_of_mem _ ho))]
    rfl

theorem msgsFor_flatMap_unique (s : Lid) (l : List RoomObj) (G : RoomObj → Out) (o : RoomObj)
    (ho : o ∈ l) (hpw : l.Pairwise (fun a b => a.oid ≠ b.oid))
    (hothers : ∀ o' ∈ l, o'.oid ≠ o.oid → msgsFor s (G o') = []) :
    msgsFor s (l.flatMap G) = msgsFor s (G o) := by
  induction l with
  | nil => cases ho
  | cons x xs ih =>
    rw [List.flatMap_cons, msgsFor_append]
    rw [List.pairwise_cons] at hpw
    rcases List.mem_cons.mp ho with hx | hx
    · subst hx
      rw [msgsFor_flatMap_nil s xs G (fun o' ho' =>
        hothers o' (List.mem_cons_of_mem _ ho') (fun h => hpw.1 o' ho' h.symm))]
      simp
    · have hne : x.oid ≠ o.oid := hpw.1 o hx
      rw [hothers x (List.mem_cons_self ..) hne,
        ih hx hpw.2 (fun o' ho' => hothers o' (List.mem_cons_of_mem _ ho'))]
      rfl

/-! ### primitive steps -/

theorem mem_stepObj {w : World} {i : Nat} {f : RoomObj → RoomObj × Out} {o' : RoomObj} :
    o' ∈ (w.stepObj i f).1.objs ↔ ∃ o ∈ w.objs, o' = if o.oid = i then (f o).1 else o := by
  simp only [World.stepObj, List.mem_map]
  constructor
  · rintro ⟨o, ho, rfl⟩; exact ⟨o, ho, rfl⟩
  · rintro ⟨o, ho, rfl⟩; exact ⟨o, ho, rfl⟩

theorem stepObj_uniq {w : World} (i : Nat) (f : RoomObj → RoomObj × Out)
    (hf : ∀ o, (f o).1.oid = o.oid) (h : w.objs.Pairwise (fun a b => a.oid ≠ b.oid)) :
    (w.stepObj i f).1.objs.Pairwise (fun a b => a.oid ≠ b.oid) := by
  simp only [World.stepObj]
  refine List.Pairwise.map _ (fun a b hab => ?_) h
  have ha : (if a.oid = i then (f a).1 else a).oid = a.oid := by split <;> simp [hf]
  have hb : (if b.oid = i then (f b).1 else b).oid = b.oid := by split <;> simp [hf]
  rw [ha, hb]; exact hab

/-! #### `Room.RemoveSession` -/

theorem removeSession_oid (e : Emb) (o : RoomObj) (s : Lid) : (removeSession e o s).oid = o.oid := by
  unfold removeSession; split
  · simp only; split <;> rfl
  · rfl

theorem removeSession_data (e : Emb) (o : RoomObj) (s : Lid) :
    (removeSession e o s).td.data = o.td.data := by
  unfold removeSession unregIf removeListener
  split
  · simp only; split <;> (simp only; split <;> rfl)
  · simp only; split <;> rfl

theorem removeSession_members (e : Emb) (o : RoomObj) (s : Lid) :
    (removeSession e o s).members = o.members.filter (· ≠ s) := by
  unfold removeSession
  split
  · simp only
    split
    · next h => simp only [h]
    · rfl
  · next h =>
    simp only
    symm
    rw [List.filter_eq_self]
    intro a ha
    simp only [ne_eq, decide_not, Bool.not_eq_eq_eq_not, Bool.not_true, decide_eq_false_iff_not]
    intro hEq; exact h (hEq ▸ ha)

theorem mem_unregIf (b : Bool) (td : State) (s l : Lid) (hs : b = false → s ∉ td.listeners) :
    l ∈ (unregIf b td s).listeners ↔ l ∈ td.listeners ∧ l ≠ s := by
  unfold unregIf
  cases b with
  | true => simp [removeListener, List.mem_filter]
  | false =>
    simp only [Bool.false_eq_true, ite_false]
    constructor
    · intro h; exact ⟨h, fun he => hs rfl (he ▸ h)⟩
    · intro h; exact h.1

theorem removeSession_listeners (e : Emb) (o : RoomObj) (s : Lid)
    (hlm : ∀ l, l ∈ o.td.listeners ↔ l ∈ o.members)
    (h1 : e.leaveOthersUnreg = true) (h2 : e.leaveLastUnreg = true) (l : Lid) :
    l ∈ (removeSession e o s).td.listeners ↔ l ∈ o.td.listeners ∧ l ≠ s := by
  unfold removeSession
  split
  · simp only
    split
    · exact mem_unregIf _ _ _ _ (by intro h; rw [h2] at h; cases h)
    · exact mem_unregIf _ _ _ _ (by intro h; rw [h1] at h; cases h)
  · next hs =>
    exact mem_unregIf _ _ _ _ (fun _ hl => hs ((hlm s).mp hl))

theorem removeSession_dead (e : Emb) (o : RoomObj) (s : Lid) (hd : o.live = false → o.members = []) :
    (removeSession e o s).live = false → (removeSession e o s).members = [] := by
  unfold removeSession
  split
  · simp only
    split
    · intro _; rfl
    · next hs _ =>
      intro hl
      have := hd hl
      rw [this] at hs; cases hs
  · exact hd

/-- The flags under which leaving keeps `listeners = members`. -/
structure Emb.LeaveOk (e : Emb) : Prop where
  others : e.leaveOthersUnreg = true
  last : e.leaveLastUnreg = true

theorem Inv_leaveRoom {e : Emb} (he : e.LeaveOk) {w : World} (h : Inv w) (s : Lid) :
    Inv (leaveRoom e w s) ∧ (leaveRoom e w s).roomOf s = none ∧
    (∀ o ∈ (leaveRoom e w s).objs, s ∉ o.members) ∧ (leaveRoom e w s).nextOid = w.nextOid ∧
    (leaveRoom e w s).closed = w.closed := by
  unfold leaveRoom
  cases hr : w.roomOf s with
  | none =>
    refine ⟨h, hr, fun o ho hs => ?_, rfl, rfl⟩
    have := h.mem_room o ho s hs
    rw [hr] at this; cases this
  | some i =>
    simp only
    have key : ∀ o' ∈ ((w.stepObj i (fun o => (removeSession e o s, []))).1.setRoom s none).objs,
        ∃ o ∈ w.objs, o'.oid = o.oid ∧ o'.td.data = o.td.data ∧
          (∀ l, l ∈ o'.members ↔ l ∈ o.members ∧ l ≠ s) ∧
          (∀ l, l ∈ o'.td.listeners ↔ l ∈ o.td.listeners ∧ l ≠ s) ∧
          (o'.live = false → o'.members = []) := by
      intro o' ho'
      obtain ⟨o, ho, rfl⟩ := mem_stepObj.mp ho'
      refine ⟨o, ho, ?_⟩
      by_cases hi : o.oid = i
      · rw [if_pos hi]
        refine ⟨removeSession_oid e o s, removeSession_data e o s, fun l => ?_,
          removeSession_listeners e o s (h.lm o ho) he.others he.last,
          removeSession_dead e o s (h.dead o ho)⟩
        rw [removeSession_members]; simp [List.mem_filter]
      · rw [if_neg hi]
        have hs : s ∉ o.members := by
          intro hs
          have := h.mem_room o ho s hs
          rw [hr] at this
          exact hi (Option.some.inj this).symm
        refine ⟨rfl, rfl, fun l => ⟨fun hl => ⟨hl, fun he => hs (he ▸ hl)⟩, fun hl => hl.1⟩,
          fun l => ⟨fun hl => ⟨hl, fun he => hs ((h.lm o ho s).mp (he ▸ hl))⟩, fun hl => hl.1⟩, h.dead o ho⟩
    refine ⟨⟨?_, ?_, ?_, ?_, ?_, ?_⟩, ?_, ?_, rfl, rfl⟩
    · intro o' ho' l
      obtain ⟨o, ho, _, _, hm, hl, _⟩ := key o' ho'
      rw [hm, hl, h.lm o ho]
    · intro o' ho'
      obtain ⟨o, ho, _, _, _, _, hd⟩ := key o' ho'
      exact hd
    · intro o' ho' l hl
      obtain ⟨o, ho, hoid, _, hm, _, _⟩ := key o' ho'
      have := (hm l).mp hl
      simp only [World.setRoom, this.2, ite_false]
      rw [hoid]
      exact h.mem_room o ho l this.1
    · intro s' j hj
      simp only [World.setRoom] at hj
      by_cases hs' : s' = s
      · simp [hs'] at hj
      · simp only [hs', ite_false] at hj
        obtain ⟨o, ho, hoid, hmem⟩ := h.room_mem s' j hj
        refine ⟨if o.oid = i then (removeSession e o s) else o, mem_stepObj.mpr ⟨o, ho, rfl⟩, ?_, ?_⟩
        · split
          · rw [removeSession_oid]; exact hoid
          · exact hoid
        · split
          · rw [removeSession_members]; simp [List.mem_filter, hmem, hs']
          · exact hmem
    · exact stepObj_uniq i _ (fun o => removeSession_oid e o s) h.uniq
    · intro o' ho'
      obtain ⟨o, ho, hoid, _⟩ := key o' ho'
      rw [hoid]; exact h.fresh o ho
    · simp [World.setRoom]
    · intro o' ho' hs
      obtain ⟨o, _, _, _, hm, _, _⟩ := key o' ho'
      exact ((hm s).mp hs).2 rfl

theorem WConv_leaveRoom (e : Emb) {w : World} {view : Lid → Replica}
    (hc : WConv w view) (s : Lid) : WConv (leaveRoom e w s) view := by
  unfold leaveRoom
  cases hr : w.roomOf s with
  | none => exact hc
  | some i =>
    intro o' ho' s' hs'
    obtain ⟨o, ho, rfl⟩ := mem_stepObj.mp ho'
    by_cases hi : o.oid = i
    · simp only [hi, ite_true] at hs' ⊢
      rw [removeSession_data]
      rw [removeSession_members] at hs'
      exact hc o ho s' (List.mem_filter.mp hs').1
    · simp only [hi, ite_false] at hs' ⊢
      exact hc o ho s' hs'

theorem Inv.of_eq {w w' : World} (h : Inv w) (ho : w'.objs = w.objs) (hr : w'.roomOf = w.roomOf)
    (hn : w'.nextOid = w.nextOid) : Inv w' where
  lm := by rw [ho]; exact h.lm
  dead := by rw [ho]; exact h.dead
  mem_room := by rw [ho, hr]; exact h.mem_room
  room_mem := by rw [ho, hr]; exact h.room_mem
  uniq := by rw [ho]; exact h.uniq
  fresh := by rw [ho, hn]; exact h.fresh

/-- what a member hears of the messages of all stores is what its own store sends -/
theorem msgs_of_member {w : World} (h : Inv w) (G : RoomObj → Out)
    (hG : ∀ x ∈ w.objs, OutTo x.td (G x)) {o : RoomObj} (ho : o ∈ w.objs) {s : Lid} (hs : s ∈ o.members) :
    msgsFor s (w.objs.flatMap G) = msgsFor s (G o) := by
  refine msgsFor_flatMap_unique s w.objs G o ho h.uniq (fun x hx hne => ?_)
  refine msgsFor_eq_nil_of_not_mem (hG x hx) (fun hl => ?_)
  have := h.member_unique hx ho ((h.lm x hx s).mp hl) hs
  exact hne (this ▸ rfl)

/-! #### a store operation on one room object -/

/-- store operations that leave the listener set alone and tell every listener what changed -/
structure DataOp (c : Cfg) (op : Op) : Prop where
  delta : ∀ st, Delta st (stepC c st op).out (stepC c st op).st
  outTo : ∀ st, OutTo st (stepC c st op).out

theorem DataOp_set (c : Cfg) (k : Key) (v : Option Val) (ttl : Int) : DataOp c (.set k v ttl) :=
  ⟨fun st => Delta_setTTL c st k v ttl, fun st => OutTo_setTTL c st k v ttl⟩

theorem DataOp_remove (c : Cfg) (k : Key) : DataOp c (.remove k) :=
  ⟨fun st => Delta_remove st k, fun st => OutTo_remove st k⟩

theorem Inv_storeOp {c : Cfg} {op : Op} (hop : DataOp c op) {w : World} (h : Inv w) (i : Nat) :
    Inv (w.storeOp c i op).1 := by
  have key : ∀ o' ∈ (w.storeOp c i op).1.objs, ∃ o ∈ w.objs, o'.oid = o.oid ∧ o'.members = o.members ∧
      o'.live = o.live ∧ o'.td.listeners = o.td.listeners := by
    intro o' ho'
    obtain ⟨o, ho, rfl⟩ := mem_stepObj.mp ho'
    refine ⟨o, ho, ?_⟩
    by_cases hi : o.oid = i
    · rw [if_pos hi]; exact ⟨rfl, rfl, rfl, (hop.delta o.td).1⟩
    · rw [if_neg hi]; exact ⟨rfl, rfl, rfl, rfl⟩
  refine ⟨?_, ?_, ?_, ?_, ?_, ?_⟩
  · intro o' ho' l
    obtain ⟨o, ho, _, hm, _, hl⟩ := key o' ho'
    rw [hm, hl]; exact h.lm o ho l
  · intro o' ho' hd
    obtain ⟨o, ho, _, hm, hlive, _⟩ := key o' ho'
    rw [hm]; exact h.dead o ho (hlive ▸ hd)
  · intro o' ho' l hl
    obtain ⟨o, ho, hoid, hm, _, _⟩ := key o' ho'
    rw [hoid]; exact h.mem_room o ho l (hm ▸ hl)
  · intro s j hj
    obtain ⟨o, ho, hoid, hmem⟩ := h.room_mem s j hj
    refine ⟨_, mem_stepObj.mpr ⟨o, ho, rfl⟩, ?_, ?_⟩
    · split <;> exact hoid
    · split <;> exact hmem
  · exact stepObj_uniq i _ (fun o => rfl) h.uniq
  · intro o' ho'
    obtain ⟨o, ho, hoid, _⟩ := key o' ho'
    rw [hoid]; exact h.fresh o ho

theorem WConv_storeOp {c : Cfg} {op : Op} (hop : DataOp c op) {w : World} (h : Inv w)
    {view : Lid → Replica} (hc : WConv w view) (i : Nat) :
    WConv (w.storeOp c i op).1 (fun s => applyMsgs (view s) (msgsFor s (w.storeOp c i op).2)) := by
  intro o' ho' s hs
  obtain ⟨o, ho, rfl⟩ := mem_stepObj.mp ho'
  have hmem : s ∈ o.members := by
    by_cases hi : o.oid = i
    · rw [if_pos hi] at hs; exact hs
    · rw [if_neg hi] at hs; exact hs
  have hmsgs := msgs_of_member h (fun x => if x.oid = i then (stepC c x.td op).out else [])
    (fun x _ => by split; exact hop.outTo x.td; exact OutTo_nil _) ho hmem
  simp only [World.storeOp, World.stepObj] at hmsgs ⊢
  rw [hmsgs, hc o ho s hmem]
  by_cases hi : o.oid = i
  · simp only [hi, ite_true]
    exact (hop.delta o.td).2 s ((h.lm o ho s).mpr hmem)
  · simp [hi, applyMsgs]

/-! #### time passes for every store -/

theorem Inv_advanceAll (c : Cfg) {w : World} (h : Inv w) (dt : Nat) : Inv (advanceAll c w dt).w := by
  have key : ∀ o' ∈ (advanceAll c w dt).w.objs, ∃ o ∈ w.objs, o'.oid = o.oid ∧ o'.members = o.members ∧
      o'.live = o.live ∧ o'.td.listeners = o.td.listeners := by
    intro o' ho'
    simp only [advanceAll, List.mem_map] at ho'
    obtain ⟨o, ho, rfl⟩ := ho'
    exact ⟨o, ho, rfl, rfl, rfl, (Delta_advance c o.td dt).1⟩
  refine ⟨?_, ?_, ?_, ?_, ?_, ?_⟩
  · intro o' ho' l
    obtain ⟨o, ho, _, hm, _, hl⟩ := key o' ho'
    rw [hm, hl]; exact h.lm o ho l
  · intro o' ho' hd
    obtain ⟨o, ho, _, hm, hlive, _⟩ := key o' ho'
    rw [hm]; exact h.dead o ho (hlive ▸ hd)
  · intro o' ho' l hl
    obtain ⟨o, ho, hoid, hm, _, _⟩ := key o' ho'
    rw [hoid]; exact h.mem_room o ho l (hm ▸ hl)
  · intro s j hj
    obtain ⟨o, ho, hoid, hmem⟩ := h.room_mem s j hj
    exact ⟨_, List.mem_map.mpr ⟨o, ho, rfl⟩, hoid, hmem⟩
  · simp only [advanceAll]
    exact List.Pairwise.map _ (fun a b hab => hab) h.uniq
  · intro o' ho'
    obtain ⟨o, ho, hoid, _⟩ := key o' ho'
    rw [hoid]; exact h.fresh o ho

theorem WConv_advanceAll (c : Cfg) {w : World} (h : Inv w) {view : Lid → Replica} (hc : WConv w view)
    (dt : Nat) :
    WConv (advanceAll c w dt).w (fun s => applyMsgs (view s) (msgsFor s (advanceAll c w dt).out)) := by
  intro o' ho' s hs
  simp only [advanceAll, List.mem_map] at ho'
  obtain ⟨o, ho, rfl⟩ := ho'
  have hmsgs := msgs_of_member h (fun x => (advance c x.td dt).2) (fun x _ => OutTo_advance c x.td dt) ho hs
  simp only [advanceAll]
  rw [hmsgs, hc o ho s hs]
  exact (Delta_advance c o.td dt).2 s ((h.lm o ho s).mpr hs)

theorem applyMsgs_msgsFor_append (r : Replica) (s : Lid) (a b : Out) :
    applyMsgs (applyMsgs r (msgsFor s a)) (msgsFor s b) = applyMsgs r (msgsFor s (a ++ b)) := by
  rw [msgsFor_append, applyMsgs_append]

theorem Good_advanceSliced (c : Cfg) (ds : List Nat) {w : World} (h : Inv w) {view : Lid → Replica}
    (hc : WConv w view) :
    Inv (advanceSliced c w ds).w ∧
    WConv (advanceSliced c w ds).w (fun s => applyMsgs (view s) (msgsFor s (advanceSliced c w ds).out)) := by
  induction ds generalizing w view with
  | nil => exact ⟨h, by simpa [advanceSliced, applyMsgs] using hc⟩
  | cons d ds ih =>
    obtain ⟨h2, hc2⟩ := ih (Inv_advanceAll c h d) (WConv_advanceAll c h hc d)
    refine ⟨h2, ?_⟩
    simp only [advanceSliced]
    have : (fun s => applyMsgs (view s) (msgsFor s ((advanceAll c w d).out ++
        (advanceSliced c (advanceAll c w d).w ds).out))) =
        fun s => applyMsgs (applyMsgs (view s) (msgsFor s (advanceAll c w d).out))
          (msgsFor s (advanceSliced c (advanceAll c w d).w ds).out) := by
      funext s; rw [applyMsgs_msgsFor_append]
    rw [this]; exact hc2

/-! #### the backend deletes a room -/

theorem liveRoom_mem {w : World} {rid : Nat} {o : RoomObj} (h : w.liveRoom rid = some o) :
    o ∈ w.objs ∧ o.live = true ∧ o.rid = rid := by
  unfold World.liveRoom at h
  have h1 := List.mem_of_find?_eq_some h
  have h2 := List.find?_some h
  simp only [Bool.and_eq_true, beq_iff_eq] at h2
  exact ⟨h1, h2.1, h2.2⟩

theorem mem_unregAll (ms : List Lid) (td : State) (l : Lid) :
    l ∈ (unregAll td ms).listeners ↔ l ∈ td.listeners ∧ l ∉ ms := by
  induction ms generalizing td with
  | nil => simp [unregAll]
  | cons m ms ih =>
    have : unregAll td (m :: ms) = unregAll (removeListener td m).st ms := rfl
    rw [this, ih]
    simp only [removeListener, List.mem_filter, List.mem_cons, not_or, ne_eq, decide_not,
      Bool.not_eq_eq_eq_not, Bool.not_true, decide_eq_false_iff_not]
    constructor
    · rintro ⟨⟨h1, h2⟩, h3⟩; exact ⟨h1, h2, h3⟩
    · rintro ⟨h1, h2, h3⟩; exact ⟨⟨h1, h2⟩, h3⟩

theorem Inv_deleteRoom {e : Emb} (he : (e.closeUnreg || e.absentUnreg) = true) {w : World} (h : Inv w)
    (rid : Nat) : Inv (deleteRoom e w rid).w := by
  unfold deleteRoom
  cases hl : w.liveRoom rid with
  | none => exact h
  | some o =>
    obtain ⟨ho, _, _⟩ := liveRoom_mem hl
    simp only
    refine ⟨?_, ?_, ?_, ?_, ?_, ?_⟩
    · intro x' hx' l
      obtain ⟨x, hx, rfl⟩ := mem_stepObj.mp hx'
      by_cases hi : x.oid = o.oid
      · rw [if_pos hi]
        simp only [closeRoom, he, ite_true, mem_unregAll, List.not_mem_nil, iff_false, not_and]
        exact fun hl hn => hn ((h.lm x hx l).mp hl)
      · rw [if_neg hi]; exact h.lm x hx l
    · intro x' hx' hd
      obtain ⟨x, hx, rfl⟩ := mem_stepObj.mp hx'
      by_cases hi : x.oid = o.oid
      · rw [if_pos hi]; rfl
      · rw [if_neg hi] at hd ⊢; exact h.dead x hx hd
    · intro x' hx' l hlm
      obtain ⟨x, hx, rfl⟩ := mem_stepObj.mp hx'
      by_cases hi : x.oid = o.oid
      · rw [if_pos hi] at hlm; cases hlm
      · rw [if_neg hi] at hlm ⊢
        have hlo : l ∉ o.members := fun hlo => hi (congrArg RoomObj.oid (h.member_unique hx ho hlm hlo))
        simp only [hlo, ite_false]
        exact h.mem_room x hx l hlm
    · intro s j hj
      simp only at hj
      by_cases hso : s ∈ o.members
      · simp [hso] at hj
      · simp only [hso, ite_false] at hj
        obtain ⟨x, hx, hoid, hmem⟩ := h.room_mem s j hj
        have hi : x.oid ≠ o.oid := fun hi => hso ((h.eq_of_oid hx ho hi) ▸ hmem)
        exact ⟨_, mem_stepObj.mpr ⟨x, hx, rfl⟩, by rw [if_neg hi]; exact hoid, by rw [if_neg hi]; exact hmem⟩
    · exact stepObj_uniq _ _ (fun x => rfl) h.uniq
    · intro x' hx'
      obtain ⟨x, hx, rfl⟩ := mem_stepObj.mp hx'
      have : (if x.oid = o.oid then (closeRoom e x, ([] : Out)).1 else x).oid = x.oid := by split <;> rfl
      rw [this]; exact h.fresh x hx

theorem WConv_deleteRoom (e : Emb) {w : World} {view : Lid → Replica} (hc : WConv w view) (rid : Nat) :
    WConv (deleteRoom e w rid).w view := by
  unfold deleteRoom
  cases hl : w.liveRoom rid with
  | none => exact hc
  | some o =>
    intro x' hx' s hs
    obtain ⟨x, hx, rfl⟩ := mem_stepObj.mp hx'
    by_cases hi : x.oid = o.oid
    · rw [if_pos hi] at hs; cases hs
    · rw [if_neg hi] at hs ⊢; exact hc x hx s hs

theorem deleteRoom_out (e : Emb) (w : World) (rid : Nat) : (deleteRoom e w rid).out = [] := by
  unfold deleteRoom; split <;> rfl

/-! #### joining a room -/

theorem ensureRoom_spec {w : World} (h : Inv w) (rid : Nat) :
    Inv (ensureRoom w rid).1 ∧
    (∃ o ∈ (ensureRoom w rid).1.objs, o.oid = (ensureRoom w rid).2 ∧ o.live = true) ∧
    (ensureRoom w rid).1.roomOf = w.roomOf ∧
    (∀ o ∈ (ensureRoom w rid).1.objs, o ∈ w.objs ∨ o.members = []) := by
  unfold ensureRoom
  cases hl : w.liveRoom rid with
  | some o =>
    obtain ⟨ho, hlive, _⟩ := liveRoom_mem hl
    exact ⟨h, ⟨o, ho, rfl, hlive⟩, rfl, fun o ho => Or.inl ho⟩
  | none =>
    simp only
    refine ⟨⟨?_, ?_, ?_, ?_, ?_, ?_⟩, ⟨_, List.mem_append_right _ (List.mem_singleton.mpr rfl), by simp, by simp⟩,
      by first | rfl | trivial, ?_⟩
    · intro o ho l
      rcases List.mem_append.mp ho with ho | ho
      · exact h.lm o ho l
      · rw [List.mem_singleton.mp ho]; simp [init]
    · intro o ho hd
      rcases List.mem_append.mp ho with ho | ho
      · exact h.dead o ho hd
      · rw [List.mem_singleton.mp ho]
    · intro o ho l hlm
      rcases List.mem_append.mp ho with ho | ho
      · exact h.mem_room o ho l hlm
      · rw [List.mem_singleton.mp ho] at hlm; cases hlm
    · intro s j hj
      obtain ⟨o, ho, hoid, hmem⟩ := h.room_mem s j hj
      exact ⟨o, List.mem_append_left _ ho, hoid, hmem⟩
    · rw [List.pairwise_append]
      refine ⟨h.uniq, List.pairwise_singleton _ _, fun a ha b hb => ?_⟩
      rw [List.mem_singleton.mp hb]
      exact Nat.ne_of_lt (h.fresh a ha)
    · intro o ho
      rcases List.mem_append.mp ho with ho | ho
      · exact Nat.lt_succ_of_lt (h.fresh o ho)
      · rw [List.mem_singleton.mp ho]; exact Nat.lt_succ_self _
    · intro o ho
      rcases List.mem_append.mp ho with ho | ho
      · exact Or.inl ho
      · rw [List.mem_singleton.mp ho]; exact Or.inr rfl

theorem mem_addListener (c : Cfg) (st : State) (s l : Lid) :
    l ∈ (addListener c st s).st.listeners ↔ l = s ∨ l ∈ st.listeners := by
  simp only [addListener]
  by_cases hs : s ∈ st.listeners
  · simp only [hs, ite_true]
    exact ⟨Or.inr, fun h => h.elim (fun he => he ▸ hs) id⟩
  · simp [hs]

theorem addSession_spec (c : Cfg) (e : Emb) (he : e.joinRegisters = true) (o : RoomObj) (s : Lid) :
    (addSession c e o s).1.oid = o.oid ∧ (addSession c e o s).1.live = o.live ∧
    (addSession c e o s).1.members = s :: o.members ∧
    (addSession c e o s).1.td = (addListener c o.td s).st ∧
    (addSession c e o s).2 = (addListener c o.td s).out := by
  simp [addSession, he]

theorem addListener_data (c : Cfg) (st : State) (s : Lid) : (addListener c st s).st.data = st.data := rfl

/-- what `AddListener` sends goes to the new listener only -/
theorem addListener_out_only (c : Cfg) (st : State) (s : Lid) : ∀ p ∈ (addListener c st s).out, p.1 = s := by
  intro p hp
  simp only [addListener] at hp
  split at hp
  · cases hp
  · rw [List.mem_singleton.mp hp]

theorem msgsFor_eq_nil_of_only {out : Out} {s0 s : Lid} (h : ∀ p ∈ out, p.1 = s0) (hs : s ≠ s0) :
    msgsFor s out = [] := by
  simp only [msgsFor, List.map_eq_nil_iff, List.filter_eq_nil_iff]
  intro p hp hps
  have : p.1 = s := by simpa using hps
  exact hs (this ▸ h p hp)

theorem Inv_enterRoom {c : Cfg} {e : Emb} (he : e.joinRegisters = true) {w : World} (h : Inv w)
    {s : Lid} {oid : Nat} (hobj : ∃ o ∈ w.objs, o.oid = oid ∧ o.live = true)
    (hfree : ∀ o ∈ w.objs, s ∉ o.members) : Inv (enterRoom c e w s oid).1 := by
  obtain ⟨o2, ho2, hoid2, hlive2⟩ := hobj
  unfold enterRoom
  have hobjs : (w.setRoom s (some oid)).objs = w.objs := rfl
  refine ⟨?_, ?_, ?_, ?_, ?_, ?_⟩
  · intro x' hx' l
    obtain ⟨x, hx, rfl⟩ := mem_stepObj.mp hx'
    rw [hobjs] at hx
    by_cases hi : x.oid = oid
    · rw [if_pos hi]
      obtain ⟨_, _, hm, htd, _⟩ := addSession_spec c e he x s
      rw [hm, htd, mem_addListener, h.lm x hx l, List.mem_cons]
    · rw [if_neg hi]; exact h.lm x hx l
  · intro x' hx' hd
    obtain ⟨x, hx, rfl⟩ := mem_stepObj.mp hx'
    rw [hobjs] at hx
    by_cases hi : x.oid = oid
    · rw [if_pos hi] at hd
      rw [(addSession_spec c e he x s).2.1] at hd
      have : x = o2 := h.eq_of_oid hx ho2 (hi.trans hoid2.symm)
      rw [this, hlive2] at hd; cases hd
    · rw [if_neg hi] at hd ⊢; exact h.dead x hx hd
  · intro x' hx' l hlm
    obtain ⟨x, hx, rfl⟩ := mem_stepObj.mp hx'
    rw [hobjs] at hx
    by_cases hi : x.oid = oid
    · rw [if_pos hi] at hlm ⊢
      obtain ⟨hoid, _, hm, _, _⟩ := addSession_spec c e he x s
      rw [hm] at hlm
      rw [hoid]
      rcases List.mem_cons.mp hlm with hl | hl
      · simp [World.stepObj, World.setRoom, hl, hi]
      · have hne : l ≠ s := fun heq => hfree x hx (heq ▸ hl)
        simp only [World.stepObj, World.setRoom, hne, ite_false]
        exact h.mem_room x hx l hl
    · rw [if_neg hi] at hlm ⊢
      have hne : l ≠ s := fun heq => hfree x hx (heq ▸ hlm)
      simp only [World.stepObj, World.setRoom, hne, ite_false]
      exact h.mem_room x hx l hlm
  · intro s' j hj
    simp only [World.stepObj, World.setRoom] at hj
    by_cases hs' : s' = s
    · simp only [hs', ite_true, Option.some.injEq] at hj
      refine ⟨_, mem_stepObj.mpr ⟨o2, ho2, rfl⟩, ?_, ?_⟩
      · rw [if_pos hoid2, (addSession_spec c e he o2 s).1, hoid2, hj]
      · rw [if_pos hoid2, (addSession_spec c e he o2 s).2.2.1, hs']; exact List.mem_cons_self ..
    · simp only [hs', ite_false] at hj
      obtain ⟨x, hx, hoid, hmem⟩ := h.room_mem s' j hj
      refine ⟨_, mem_stepObj.mpr ⟨x, hx, rfl⟩, ?_, ?_⟩
      · split
        · rw [(addSession_spec c e he x s).1]; exact hoid
        · exact hoid
      · split
        · rw [(addSession_spec c e he x s).2.2.1]; exact List.mem_cons_of_mem _ hmem
        · exact hmem
  · exact stepObj_uniq oid _ (fun x => (addSession_spec c e he x s).1) h.uniq
  · intro x' hx'
    obtain ⟨x, hx, rfl⟩ := mem_stepObj.mp hx'
    have : (if x.oid = oid then (addSession c e x s).1 else x).oid = x.oid := by
      split
      · exact (addSession_spec c e he x s).1
      · rfl
    rw [this]; exact h.fresh x hx

theorem WConv_enterRoom {c : Cfg} {e : Emb} (he : e.joinRegisters = true) {w : World} (h : Inv w)
    {view : Lid → Replica} (hc : WConv w view) {s : Lid} {oid : Nat}
    (hfree : ∀ o ∈ w.objs, s ∉ o.members) :
    WConv (enterRoom c e w s oid).1
      (fun s' => applyMsgs (if s' = s then [] else view s') (msgsFor s' (enterRoom c e w s oid).2)) := by
  intro x' hx' s' hs'
  unfold enterRoom at hx' ⊢
  obtain ⟨x, hx, rfl⟩ := mem_stepObj.mp hx'
  have hx : x ∈ w.objs := hx
  -- what the world sends is what the entered object's store sends
  have hout : ∀ p ∈ ((w.setRoom s (some oid)).stepObj oid (fun o => addSession c e o s)).2, p.1 = s := by
    intro p hp
    simp only [World.stepObj, World.setRoom, List.mem_flatMap] at hp
    obtain ⟨y, _, hy⟩ := hp
    split at hy
    · rw [(addSession_spec c e he y s).2.2.2.2] at hy
      exact addListener_out_only c y.td s p hy
    · cases hy
  by_cases hs : s' = s
  · subst hs
    -- the one who joined: only the entered object lists it
    by_cases hi : x.oid = oid
    · simp only [hi, ite_true]
      obtain ⟨_, _, _, htd, hso⟩ := addSession_spec c e he x s'
      rw [htd, addListener_data]
      have hmsgs : msgsFor s' ((w.setRoom s' (some oid)).stepObj oid (fun o => addSession c e o s')).2 =
          msgsFor s' (addListener c x.td s').out := by
        have := msgsFor_flatMap_unique s' w.objs
          (fun y => if y.oid = oid then (addSession c e y s').2 else []) x hx h.uniq
          (fun y _ hne => by rw [if_neg (fun hy => hne (hy.trans hi.symm))]; rfl)
        simp only [hi, ite_true, hso] at this
        exact this
      rw [hmsgs]
      have hconv : Conv x.td view := fun l hl => hc x hx l ((h.lm x hx l).mp hl)
      have := Conv_step c x.td view (.addListener s') hconv s'
        ((mem_addListener c x.td s' s').mpr (Or.inl rfl))
      simpa [viewStep, stepC, addListener_data] using this
    · rw [if_neg hi] at hs'
      exact absurd hs' (hfree x hx)
  · simp only [hs, ite_false]
    rw [msgsFor_eq_nil_of_only hout hs]
    have hmem : s' ∈ x.members := by
      by_cases hi : x.oid = oid
      · rw [if_pos hi, (addSession_spec c e he x s).2.2.1] at hs'
        rcases List.mem_cons.mp hs' with h1 | h1
        · exact absurd h1 hs
        · exact h1
      · rw [if_neg hi] at hs'; exact hs'
    have hdata : (if x.oid = oid then (addSession c e x s).1 else x).td.data = x.td.data := by
      split
      · rw [(addSession_spec c e he x s).2.2.2.1]; rfl
      · rfl
    rw [hdata]
    simpa [applyMsgs] using hc x hx s' hmem

/-! ### every operation of the world -/

/-- What a session knows after a step: joining a room starts from nothing. -/
def viewStepW (view : Lid → Replica) (op : ROp) (r : WRes) : Lid → Replica :=
  fun s =>
    let base := match op with
      | .join s' _ => if s' = s ∧ r.oc = "ok" then [] else view s
      | _ => view s
    applyMsgs base (msgsFor s r.out)

/-- the source registers on join and unregisters on every way of leaving -/
structure Emb.Ok (e : Emb) : Prop where
  join : e.joinRegisters = true
  others : e.leaveOthersUnreg = true
  last : e.leaveLastUnreg = true

def ROp.isDel : ROp → Bool
  | .del _ => true
  | _ => false

theorem applyMsgs_nil (r : Replica) : applyMsgs r [] = r := rfl

theorem Good_step (c : Cfg) {e : Emb} (he : e.Ok) {w : World} {view : Lid → Replica}
    (h : Inv w) (hc : WConv w view) (op : ROp)
    (hdel : op.isDel = false ∨ (e.closeUnreg || e.absentUnreg) = true) :
    Inv (stepW c e w op).w ∧ WConv (stepW c e w op).w (viewStepW view op (stepW c e w op)) := by
  have hlv : e.LeaveOk := ⟨he.others, he.last⟩
  -- a step without output and without a change of any store's data or membership
  have quiet : ∀ (r : WRes), Inv r.w → WConv r.w view → r.out = [] → (∀ s rid, op ≠ .join s rid) →
      Inv r.w ∧ WConv r.w (viewStepW view op r) := by
    intro r hi hw ho hj
    refine ⟨hi, ?_⟩
    have : viewStepW view op r = view := by
      funext s
      cases op <;> first | (exact absurd rfl (hj _ _)) | (simp [viewStepW, ho, applyMsgs])
    rw [this]; exact hw
  cases op with
  | join s rid =>
    simp only [stepW, join]
    by_cases hcl : s ∈ w.closed
    · simp only [hcl, ite_true]
      refine ⟨h, ?_⟩
      have : viewStepW view (.join s rid) { w := w, oc := "closed" } = view := by
        funext s'; simp [viewStepW, applyMsgs]
      rw [this]; exact hc
    · simp only [hcl, ite_false]
      by_cases hal : alreadyIn w s rid = true
      · simp only [hal, ite_true]
        refine ⟨h, ?_⟩
        have : viewStepW view (.join s rid) { w := w, oc := "already" } = view := by
          funext s'; simp [viewStepW, applyMsgs]
        rw [this]; exact hc
      · simp only [hal, Bool.false_eq_true, ite_false]
        obtain ⟨h1, _, hfree1, _, _⟩ := Inv_leaveRoom hlv h s
        have hc1 := WConv_leaveRoom e hc s
        obtain ⟨h2, hobj2, _, hsub2⟩ := ensureRoom_spec h1 rid
        have hfree2 : ∀ o ∈ (ensureRoom (leaveRoom e w s) rid).1.objs, s ∉ o.members := by
          intro o ho
          rcases hsub2 o ho with h' | h'
          · exact hfree1 o h'
          · rw [h']; exact List.not_mem_nil
        have hc2 : WConv (ensureRoom (leaveRoom e w s) rid).1 view := by
          intro o ho s' hs'
          rcases hsub2 o ho with h' | h'
          · exact hc1 o h' s' hs'
          · rw [h'] at hs'; cases hs'
        refine ⟨Inv_enterRoom he.join h2 hobj2 hfree2, ?_⟩
        have := WConv_enterRoom (c := c) he.join h2 hc2 (oid := (ensureRoom (leaveRoom e w s) rid).2) hfree2
        have hv : viewStepW view (.join s rid)
            { w := (enterRoom c e (ensureRoom (leaveRoom e w s) rid).1 s (ensureRoom (leaveRoom e w s) rid).2).1,
              out := (enterRoom c e (ensureRoom (leaveRoom e w s) rid).1 s (ensureRoom (leaveRoom e w s) rid).2).2 } =
            fun s' => applyMsgs (if s' = s then [] else view s')
              (msgsFor s' (enterRoom c e (ensureRoom (leaveRoom e w s) rid).1 s
                (ensureRoom (leaveRoom e w s) rid).2).2) := by
          funext s'
          simp only [viewStepW]
          by_cases hs : s = s'
          · subst hs; simp
          · have hs2 : ¬ s' = s := fun h => hs h.symm
            simp [hs, hs2]
        rw [hv]; exact this
  | leave s =>
    simp only [stepW, leave]
    split
    · exact quiet _ h hc rfl (by intro _ _ h; cases h)
    · split
      · exact quiet _ h hc rfl (by intro _ _ h; cases h)
      · exact quiet _ (Inv_leaveRoom hlv h s).1 (WConv_leaveRoom e hc s) rfl (by intro _ _ h; cases h)
  | close s =>
    simp only [stepW, closeSession]
    split
    · exact quiet _ h hc rfl (by intro _ _ h; cases h)
    · exact quiet _ ((Inv_leaveRoom hlv h s).1.of_eq rfl rfl rfl) (WConv_leaveRoom e hc s) rfl
        (by intro _ _ h; cases h)
  | set s k v ttl =>
    simp only [stepW, clientOp]
    split
    · exact quiet _ h hc rfl (by intro _ _ h; cases h)
    · split
      · exact quiet _ h hc rfl (by intro _ _ h; cases h)
      · next i _ =>
        exact ⟨Inv_storeOp (DataOp_set c k v ttl) h i, WConv_storeOp (DataOp_set c k v ttl) h hc i⟩
  | rm s k =>
    simp only [stepW, clientOp]
    split
    · exact quiet _ h hc rfl (by intro _ _ h; cases h)
    · split
      · exact quiet _ h hc rfl (by intro _ _ h; cases h)
      · next i _ =>
        exact ⟨Inv_storeOp (DataOp_remove c k) h i, WConv_storeOp (DataOp_remove c k) h hc i⟩
  | bset rid k v ttl =>
    simp only [stepW, backendOp]
    split
    · exact quiet _ h hc rfl (by intro _ _ h; cases h)
    · next o _ =>
      exact ⟨Inv_storeOp (DataOp_set c k (some v) ttl) h o.oid, WConv_storeOp (DataOp_set c k (some v) ttl) h hc o.oid⟩
  | brm rid k =>
    simp only [stepW, backendOp]
    split
    · exact quiet _ h hc rfl (by intro _ _ h; cases h)
    · next o _ =>
      exact ⟨Inv_storeOp (DataOp_remove c k) h o.oid, WConv_storeOp (DataOp_remove c k) h hc o.oid⟩
  | del rid =>
    have hd : (e.closeUnreg || e.absentUnreg) = true := by
      rcases hdel with h' | h'
      · cases h'
      · exact h'
    exact quiet _ (Inv_deleteRoom hd h rid) (WConv_deleteRoom e hc rid) (deleteRoom_out e w rid)
      (by intro _ _ h; cases h)
  | adv dt => exact Good_advanceSliced c _ h hc
  | get => exact quiet _ h hc rfl (by intro _ _ h; cases h)

/-! ### every room object's store is a run of store operations from `init` -/

theorem runC_append (c : Cfg) (st : State) (a b : List Op) : runC c st (a ++ b) = runC c (runC c st a) b := by
  induction a generalizing st with
  | nil => rfl
  | cons op a ih => simp only [List.cons_append, runC]; exact ih _

/-- `td'` is `td` after some more API calls / quiescent passages of time -/
def Ext (c : Cfg) (td td' : State) : Prop := ∃ more, td' = runC c td more ∧ ∀ op ∈ more, op.quiescent = true

theorem Ext.refl (c : Cfg) (td : State) : Ext c td td := ⟨[], rfl, by intro op h; cases h⟩

theorem Ext.one (c : Cfg) (td : State) (op : Op) (hq : op.quiescent = true) : Ext c td (stepC c td op).st :=
  ⟨[op], rfl, by intro o h; rw [List.mem_singleton.mp h]; exact hq⟩

theorem Ext.trans {c : Cfg} {a b d : State} (h1 : Ext c a b) (h2 : Ext c b d) : Ext c a d := by
  obtain ⟨m1, e1, q1⟩ := h1
  obtain ⟨m2, e2, q2⟩ := h2
  refine ⟨m1 ++ m2, by rw [runC_append, ← e1, e2], fun op h => ?_⟩
  rcases List.mem_append.mp h with h | h
  · exact q1 op h
  · exact q2 op h

theorem Ext_unregIf (c : Cfg) (b : Bool) (td : State) (s : Lid) : Ext c td (unregIf b td s) := by
  unfold unregIf; split
  · exact Ext.one c td (.removeListener s) rfl
  · exact Ext.refl c td

theorem Ext_unregAll (c : Cfg) (ms : List Lid) (td : State) : Ext c td (unregAll td ms) := by
  induction ms generalizing td with
  | nil => exact Ext.refl c td
  | cons m ms ih => exact (Ext.one c td (.removeListener m) rfl).trans (ih _)

theorem Ext_removeSession (c : Cfg) (e : Emb) (o : RoomObj) (s : Lid) : Ext c o.td (removeSession e o s).td := by
  unfold removeSession
  split
  · simp only; split <;> exact Ext_unregIf c _ _ _
  · exact Ext_unregIf c _ _ _

theorem Ext_addSession (c : Cfg) (e : Emb) (o : RoomObj) (s : Lid) : Ext c o.td (addSession c e o s).1.td := by
  unfold addSession
  split
  · exact Ext.one c o.td (.addListener s) rfl
  · exact Ext.refl c o.td

theorem Ext_closeRoom (c : Cfg) (e : Emb) (o : RoomObj) : Ext c o.td (closeRoom e o).td := by
  unfold closeRoom
  simp only
  split
  · exact Ext_unregAll c _ _
  · exact Ext.refl c _

/-- every store of the world is a run from `init` -/
def Hist (c : Cfg) (w : World) : Prop := ∀ o ∈ w.objs, Ext c init o.td

theorem Hist_stepObj {c : Cfg} {w : World} (h : Hist c w) (i : Nat) (f : RoomObj → RoomObj × Out)
    (hf : ∀ o, Ext c o.td (f o).1.td) : Hist c (w.stepObj i f).1 := by
  intro o' ho'
  obtain ⟨o, ho, rfl⟩ := mem_stepObj.mp ho'
  split
  · exact (h o ho).trans (hf o)
  · exact h o ho

theorem Hist_leaveRoom {c : Cfg} (e : Emb) {w : World} (h : Hist c w) (s : Lid) : Hist c (leaveRoom e w s) := by
  unfold leaveRoom
  split
  · exact h
  · exact Hist_stepObj h _ _ (fun o => Ext_removeSession c e o s)

theorem Hist_step (c : Cfg) (e : Emb) {w : World} (h : Hist c w) (op : ROp) : Hist c (stepW c e w op).w := by
  have hstore : ∀ (i : Nat) (sop : Op), sop.quiescent = true → Hist c (w.storeOp c i sop).1 :=
    fun i sop hq => Hist_stepObj h i _ (fun o => Ext.one c o.td sop hq)
  cases op with
  | join s rid =>
    simp only [stepW, join]
    split
    · exact h
    · split
      · exact h
      · have h1 := Hist_leaveRoom (c := c) e h s
        have h2 : Hist c (ensureRoom (leaveRoom e w s) rid).1 := by
          unfold ensureRoom
          split
          · exact h1
          · intro o ho
            rcases List.mem_append.mp ho with ho | ho
            · exact h1 o ho
            · rw [List.mem_singleton.mp ho]; exact Ext.refl c init
        exact Hist_stepObj (w := (ensureRoom (leaveRoom e w s) rid).1.setRoom s _) h2 _ _
          (fun o => Ext_addSession c e o s)
  | leave s =>
    simp only [stepW, leave]
    split
    · exact h
    · split
      · exact h
      · exact Hist_leaveRoom e h s
  | close s =>
    simp only [stepW, closeSession]
    split
    · exact h
    · exact Hist_leaveRoom e h s
  | set s k v ttl =>
    simp only [stepW, clientOp]
    split
    · exact h
    · split
      · exact h
      · exact hstore _ _ rfl
  | rm s k =>
    simp only [stepW, clientOp]
    split
    · exact h
    · split
      · exact h
      · exact hstore _ _ rfl
  | bset rid k v ttl =>
    simp only [stepW, backendOp]
    split
    · exact h
    · exact hstore _ _ rfl
  | brm rid k =>
    simp only [stepW, backendOp]
    split
    · exact h
    · exact hstore _ _ rfl
  | del rid =>
    simp only [stepW, deleteRoom]
    split
    · exact h
    · exact Hist_stepObj h _ _ (fun o => Ext_closeRoom c e o)
  | adv dt =>
    have hall : ∀ (w : World) (d : Nat), Hist c w → Hist c (advanceAll c w d).w := by
      intro w d hw o' ho'
      simp only [advanceAll, List.mem_map] at ho'
      obtain ⟨o, ho, rfl⟩ := ho'
      exact (hw o ho).trans (Ext.one c o.td (.advance d) rfl)
    have hsl : ∀ (ds : List Nat) (w : World), Hist c w → Hist c (advanceSliced c w ds).w := by
      intro ds
      induction ds with
      | nil => intro w hw; exact hw
      | cons d ds ih => intro w hw; exact ih _ (hall w d hw)
    exact hsl _ w h
  | get => exact h

/-! ### runs -/

/-- The run of the world together with what every session knows. -/
def runWV (c : Cfg) (e : Emb) : World → (Lid → Replica) → List ROp → World × (Lid → Replica)
  | w, view, [] => (w, view)
  | w, view, op :: ops =>
    let r := stepW c e w op
    runWV c e r.w (viewStepW view op r) ops

theorem runWV_fst (c : Cfg) (e : Emb) (ops : List ROp) (w : World) (view : Lid → Replica) :
    (runWV c e w view ops).1 = runW c e w ops := by
  induction ops generalizing w view with
  | nil => rfl
  | cons op ops ih => simp only [runWV, runW]; exact ih _ _

theorem Good_run (c : Cfg) {e : Emb} (he : e.Ok) (ops : List ROp)
    (hdel : (∀ op ∈ ops, op.isDel = false) ∨ (e.closeUnreg || e.absentUnreg) = true)
    {w : World} {view : Lid → Replica} (h : Inv w) (hc : WConv w view) :
    Inv (runWV c e w view ops).1 ∧ WConv (runWV c e w view ops).1 (runWV c e w view ops).2 := by
  induction ops generalizing w view with
  | nil => exact ⟨h, hc⟩
  | cons op ops ih =>
    have hd1 : op.isDel = false ∨ (e.closeUnreg || e.absentUnreg) = true :=
      hdel.elim (fun h' => Or.inl (h' op (List.mem_cons_self ..))) Or.inr
    have hd2 : (∀ op ∈ ops, op.isDel = false) ∨ (e.closeUnreg || e.absentUnreg) = true :=
      hdel.elim (fun h' => Or.inl (fun o ho => h' o (List.mem_cons_of_mem _ ho))) Or.inr
    obtain ⟨h1, hc1⟩ := Good_step c he h hc op hd1
    exact ih hd2 h1 hc1

theorem Hist_run (c : Cfg) (e : Emb) (ops : List ROp) {w : World} (h : Hist c w) : Hist c (runW c e w ops) := by
  induction ops generalizing w with
  | nil => exact h
  | cons op ops ih => exact ih (Hist_step c e h op)

theorem WConv_init (view : Lid → Replica) : WConv World.init view := by intro o ho; cases ho

theorem Hist_init (c : Cfg) : Hist c World.init := by intro o ho; cases ho

end SigModel.Transient
