/-
Lemmas for C09, second part: whatever way a session stops being in the call, in
its room or alive through a harness op, its media objects are released
(`releaseMcuObjects`: the generation moves, the maps are handed to closing
goroutines) within the same op.

`core x` is the part of a session the statement is about; every action changes
the core of at most one session, and by a function of that core alone.  `Good` is
the statement for one session between two states; it is reflexive and transitive,
holds for every *block* of an op (`opBlocks`) from any state, hence for the op.
-/
import SigModel.Lemmas.Mcu

namespace SigModel.Mcu

/-- Room, in-call flag, closed flag, generation and the two `Close()` counters of a session. -/
structure Core where
  room : Option Nat
  inCall : Bool
  closed : Bool
  epoch : Nat
  needLeave : Nat
  needRelease : Nat
  deriving DecidableEq, Repr

def core (x : Sess) : Core :=
  { room := x.room, inCall := x.inCall, closed := x.closed, epoch := x.epoch, needLeave := x.needLeave,
    needRelease := x.needRelease }

/-- What an action does to the core of the session it is about. -/
def coreStep (c : Core) : Action → Core
  | .join _ r => { c with room := some r, inCall := false }
  | .inCallSet _ b => { c with inCall := b }
  | .leaveCall _ => match c.room with
    | none => c
    | some _ => { c with epoch := c.epoch + 1 }
  | .leaveRoom _ => match c.room with
    | none => c
    | some _ => { c with room := none, inCall := false, epoch := c.epoch + 1 }
  | .closeCancel _ => { c with closed := true, needLeave := c.needLeave + 1 }
  | .closeLeave _ =>
    if c.needLeave = 0 then c
    else match c.room with
      | none => { c with needLeave := c.needLeave - 1, needRelease := c.needRelease + 1 }
      | some _ => { c with room := none, inCall := false, epoch := c.epoch + 1, needLeave := c.needLeave - 1,
                           needRelease := c.needRelease + 1 }
  | .closeRelease _ =>
    if c.needRelease = 0 then c else { c with epoch := c.epoch + 1, needRelease := c.needRelease - 1 }
  | _ => c

/-- The session whose core an action may change. -/
def subject : Action → Option Nat
  | .join s _ => some s
  | .inCallSet s _ => some s
  | .leaveCall s => some s
  | .leaveRoom s => some s
  | .closeCancel s => some s
  | .closeLeave s => some s
  | .closeRelease s => some s
  | _ => none

theorem core_upd_ne (st : State) (i j : Nat) (f : Sess → Sess) (h : j ≠ i) :
    core ((st.upd i f).sess j) = core (st.sess j) := by rw [upd_sess_ne _ _ _ _ h]

theorem core_release_same (st : State) (i : Nat) :
    core ((release st i).sess i) = { core (st.sess i) with epoch := (st.sess i).epoch + 1 } := by
  rw [release_sess_same]; rfl

theorem core_release_ne (st : State) (i j : Nat) (h : j ≠ i) :
    core ((release st i).sess j) = core (st.sess j) := by rw [release_sess_ne _ _ _ h]

theorem core_leaveRoomStep_same (st : State) (s : Nat) :
    core ((leaveRoomStep st s).sess s) = coreStep (core (st.sess s)) (.leaveRoom s) := by
  unfold leaveRoomStep
  cases h : (st.sess s).room with
  | none => simp [coreStep, core, h]
  | some r =>
    simp only []
    rw [core_release_same, upd_sess_same]
    simp [coreStep, core, h]

theorem core_leaveRoomStep_ne (st : State) (s j : Nat) (h : j ≠ s) :
    core ((leaveRoomStep st s).sess j) = core (st.sess j) := by
  unfold leaveRoomStep
  split
  · rfl
  · rw [core_release_ne _ _ _ h, core_upd_ne _ _ _ _ h]

theorem core_dropEntry (st : State) (i : Nat) (kd : Kind) (k : Nat) (j : Nat) :
    core ((dropEntry st i kd k).sess j) = core (st.sess j) := by
  by_cases h : j = i
  · subst h; rw [dropEntry_sess_same]; rfl
  · rw [dropEntry_sess_ne _ _ _ _ _ h]

theorem core_sweepBody (cfg : Cfg) (st : State) (s j : Nat) :
    core ((sweepBody cfg st s).sess j) = core (st.sess j) := by
  unfold sweepBody
  simp only []
  have h1 : ∀ (o : Option Nat), core ((match o with
      | some k => dropEntry st s (.pub .video) k
      | none => st).sess j) = core (st.sess j) := by
    intro o; cases o with
    | none => rfl
    | some k => exact core_dropEntry st s _ k j
  split
  · exact h1 _
  · split
    · exact h1 _
    · split
      · rw [core_dropEntry]; exact h1 _
      · exact h1 _

/-- An action about another session (or about no session's core) leaves the core alone. -/
theorem core_step_other (cfg : Cfg) (st : State) (a : Action) (s : Nat) (h : subject a ≠ some s) :
    core ((step cfg st a).sess s) = core (st.sess s) := by
  have hupd : ∀ (x : Nat) (f : Sess → Sess), x ≠ s → core ((st.upd x f).sess s) = core (st.sess s) :=
    fun x f hx => core_upd_ne st x s f (fun e => hx e.symm)
  have hupd' : ∀ (st : State) (x : Nat) (f : Sess → Sess), (∀ y, core (f y) = core y) →
      core ((st.upd x f).sess s) = core (st.sess s) := by
    intro st x f hf
    by_cases hx : s = x
    · subst hx; rw [upd_sess_same]; exact hf _
    · exact core_upd_ne st x s f hx
  cases a with
  | join x r => simp only [step]; exact hupd x _ (fun e => h (by simp [subject, e]))
  | inCallSet x b => simp only [step]; exact hupd x _ (fun e => h (by simp [subject, e]))
  | leaveCall x =>
    have hx : s ≠ x := fun e => h (by simp [subject, e])
    simp only [step]; split
    · rfl
    · exact core_release_ne st x s hx
  | leaveRoom x =>
    have hx : s ≠ x := fun e => h (by simp [subject, e])
    exact core_leaveRoomStep_ne st x s hx
  | closeCancel x => simp only [step]; exact hupd x _ (fun e => h (by simp [subject, e]))
  | closeLeave x =>
    have hx : s ≠ x := fun e => h (by simp [subject, e])
    simp only [step]; split
    · rfl
    · rw [core_upd_ne _ _ _ _ hx]; exact core_leaveRoomStep_ne st x s hx
  | closeRelease x =>
    have hx : s ≠ x := fun e => h (by simp [subject, e])
    simp only [step]; split
    · rfl
    · rw [core_upd_ne _ _ _ _ hx]; exact core_release_ne st x s hx
  | setPerms x p => simp only [step]; exact hupd' st x _ (fun _ => rfl)
  | sweep x =>
    simp only [step]; split
    · rfl
    · rw [core_sweepBody]; exact hupd' st x _ (fun _ => rfl)
  | offerBegin x t m =>
    simp only [step]; split
    · rfl
    · split <;> rfl
  | subBegin x p t => simp only [step]; split <;> rfl
  | createEnd k o =>
    simp only [step]; split
    · rfl
    · rename_i p _
      cases o with
      | ok =>
        simp only [createEndOk]
        split
        · exact hupd' _ p.owner _ (fun _ => rfl)
        · rfl
      | fail => rfl
      | timeout => rfl
  | doClose k => rfl
  | setMeta x m => simp only [step]; exact hupd' st x _ (fun _ => rfl)

/-- An action about session `s` changes its core by `coreStep`. -/
theorem core_step_same (cfg : Cfg) (st : State) (a : Action) (s : Nat) (h : subject a = some s) :
    core ((step cfg st a).sess s) = coreStep (core (st.sess s)) a := by
  cases a with
  | join x r => simp [subject] at h; subst h; simp [step, coreStep, core]
  | inCallSet x b => simp [subject] at h; subst h; simp [step, coreStep, core]
  | leaveCall x =>
    simp [subject] at h; subst h
    simp only [step]
    cases hr : (st.sess x).room with
    | none => simp [coreStep, core, hr]
    | some r => simp only []; rw [core_release_same]; simp [coreStep, core, hr]
  | leaveRoom x => simp [subject] at h; subst h; exact core_leaveRoomStep_same st x
  | closeCancel x => simp [subject] at h; subst h; simp [step, coreStep, core]
  | closeLeave x =>
    simp [subject] at h; subst h
    simp only [step]
    by_cases hn : (st.sess x).needLeave = 0
    · simp [hn, coreStep, core]
    · simp only [hn, if_false, upd_sess_same]
      have := core_leaveRoomStep_same st x
      cases hr : (st.sess x).room with
      | none =>
        simp only [leaveRoomStep, hr]
        simp [coreStep, core, hr, hn]
      | some r =>
        have e : (leaveRoomStep st x).sess x =
            { (st.sess x) with room := none, inCall := false, objs := fun _ => none, epoch := (st.sess x).epoch + 1 } := by
          simp only [leaveRoomStep, hr]
          rw [release_sess_same, upd_sess_same]
        rw [e]
        simp [coreStep, core, hr, hn]
  | closeRelease x =>
    simp [subject] at h; subst h
    simp only [step]
    by_cases hn : (st.sess x).needRelease = 0
    · simp [hn, coreStep, core]
    · simp only [hn, if_false, upd_sess_same]
      rw [release_sess_same]
      simp [coreStep, core, hn]
  | setPerms x p => simp [subject] at h
  | sweep x => simp [subject] at h
  | offerBegin x t m => simp [subject] at h
  | subBegin x p t => simp [subject] at h
  | createEnd k o => simp [subject] at h
  | doClose k => simp [subject] at h
  | setMeta x m => simp [subject] at h

/-- The core of session `s` after a list of actions: only the actions about `s` count. -/
def coreRun (s : Nat) (c : Core) : List Action → Core
  | [] => c
  | a :: as => coreRun s (if subject a = some s then coreStep c a else c) as

theorem core_run (cfg : Cfg) (acts : List Action) (st : State) (s : Nat) :
    core ((run cfg st acts).sess s) = coreRun s (core (st.sess s)) acts := by
  induction acts generalizing st with
  | nil => rfl
  | cons a as ih =>
    show core ((run cfg (step cfg st a) as).sess s) = _
    rw [ih]
    simp only [coreRun]
    by_cases h : subject a = some s
    · rw [if_pos h, core_step_same cfg st a s h]
    · rw [if_neg h, core_step_other cfg st a s h]

theorem coreRun_append (s : Nat) (c : Core) (a b : List Action) :
    coreRun s c (a ++ b) = coreRun s (coreRun s c a) b := by
  induction a generalizing c with
  | nil => rfl
  | cons x xs ih => simp only [List.cons_append, coreRun]; exact ih _

/-! ### the statement for one session between two states -/

/-- Between `c` and `c'` the generation did not go back, and if the session stopped
being in the call of its room, changed or left its room, or was closed, the
generation moved (a release happened). -/
structure Good (c c' : Core) : Prop where
  mono : c.epoch ≤ c'.epoch
  call : c.room.isSome → c.inCall = true → c'.inCall = false → c.epoch < c'.epoch
  room : c.room.isSome → c'.room ≠ c.room → c.epoch < c'.epoch
  close : c.closed = false → c'.closed = true → c.epoch < c'.epoch

theorem Good.refl (c : Core) : Good c c :=
  ⟨Nat.le_refl _, fun _ h1 h2 => (by rw [h1] at h2; cases h2), fun _ h => absurd rfl h,
   fun h1 h2 => (by rw [h1] at h2; cases h2)⟩

theorem Good.trans {a b c : Core} (h1 : Good a b) (h2 : Good b c) : Good a c := by
  refine ⟨Nat.le_trans h1.mono h2.mono, ?_, ?_, ?_⟩
  · intro hr hi hc
    by_cases hb : b.inCall = false
    · exact Nat.lt_of_lt_of_le (h1.call hr hi hb) h2.mono
    · have hb' : b.inCall = true := by cases h : b.inCall <;> simp_all
      by_cases hbr : b.room = a.room
      · exact Nat.lt_of_le_of_lt h1.mono (h2.call (hbr ▸ hr) hb' hc)
      · exact Nat.lt_of_lt_of_le (h1.room hr hbr) h2.mono
  · intro hr hne
    by_cases hbr : b.room = a.room
    · exact Nat.lt_of_le_of_lt h1.mono (h2.room (hbr ▸ hr) (hbr ▸ hne))
    · exact Nat.lt_of_lt_of_le (h1.room hr hbr) h2.mono
  · intro ha hc
    by_cases hb : b.closed = true
    · exact Nat.lt_of_lt_of_le (h1.close ha hb) h2.mono
    · have hb' : b.closed = false := by cases h : b.closed <;> simp_all
      exact Nat.lt_of_le_of_lt h1.mono (h2.close hb' hc)

/-- A block is *good* if it is good for every session from every core. -/
def GoodBlock (b : List Action) : Prop := ∀ (s : Nat) (c : Core), Good c (coreRun s c b)

theorem goodBlock_nil : GoodBlock [] := fun _ c => Good.refl c

/-- Actions that are about no session's core. -/
theorem coreRun_neutral (s : Nat) (b : List Action) (h : ∀ a ∈ b, subject a = none) (c : Core) :
    coreRun s c b = c := by
  induction b generalizing c with
  | nil => rfl
  | cons a as ih =>
    simp only [coreRun]
    have ha := h a (List.mem_cons_self ..)
    rw [if_neg (by rw [ha]; simp)]
    exact ih (fun a' ha' => h a' (List.mem_cons_of_mem _ ha')) c

theorem goodBlock_neutral (b : List Action) (h : ∀ a ∈ b, subject a = none) : GoodBlock b := by
  intro s c
  rw [coreRun_neutral s b h c]; exact Good.refl c

theorem goodBlocks_flatten (bs : List (List Action)) (h : ∀ b ∈ bs, GoodBlock b) : GoodBlock bs.flatten := by
  induction bs with
  | nil => exact goodBlock_nil
  | cons b rest ih =>
    intro s c
    rw [List.flatten_cons, coreRun_append]
    exact Good.trans (h b (List.mem_cons_self ..) s c)
      (ih (fun b' hb' => h b' (List.mem_cons_of_mem _ hb')) s _)

/-- A `setMeta` in front changes nothing. -/
theorem goodBlock_setMeta_cons (x : Nat) (m : Meta) (b : List Action) (h : GoodBlock b) :
    GoodBlock (.setMeta x m :: b) := by
  intro s c
  simp only [coreRun, subject]
  simpa using h s c

/-- The blocks of one session: decided on the finitely many shapes of a core that matter. -/
theorem good_of_cases (s : Nat) (b : List Action) (c : Core)
    (h : ∀ c : Core, c.epoch ≤ (coreRun s c b).epoch ∧
      (c.room.isSome → c.inCall = true → (coreRun s c b).inCall = false → c.epoch < (coreRun s c b).epoch) ∧
      (c.room.isSome → (coreRun s c b).room ≠ c.room → c.epoch < (coreRun s c b).epoch) ∧
      (c.closed = false → (coreRun s c b).closed = true → c.epoch < (coreRun s c b).epoch)) :
    Good c (coreRun s c b) :=
  ⟨(h c).1, (h c).2.1, (h c).2.2.1, (h c).2.2.2⟩

theorem goodBlock_join (x r : Nat) : GoodBlock [.leaveRoom x, .join x r] := by
  intro s c
  apply good_of_cases
  intro c
  by_cases hx : x = s
  · subst hx
    rcases c with ⟨room, ic, cl, ep, nl, nr⟩
    cases room <;> simp [coreRun, subject, coreStep]
  · simp [coreRun, subject, hx]

theorem goodBlock_leave (x : Nat) : GoodBlock [.leaveRoom x] := by
  intro s c
  apply good_of_cases
  intro c
  by_cases hx : x = s
  · subst hx
    rcases c with ⟨room, ic, cl, ep, nl, nr⟩
    cases room <;> simp [coreRun, subject, coreStep]
  · simp [coreRun, subject, hx]

theorem goodBlock_inCallTrue (x : Nat) : GoodBlock [.inCallSet x true] := by
  intro s c
  apply good_of_cases
  intro c
  by_cases hx : x = s
  · subst hx; simp [coreRun, subject, coreStep]
  · simp [coreRun, subject, hx]

/-- Leaving the call releases — as long as `LeaveCall()` follows the removal from the set. -/
theorem goodBlock_leaveCall (cfg : Cfg) (hc : cfg.inCallExits = true) (x : Nat) : GoodBlock (leaveCallActs cfg x) := by
  intro s c
  apply good_of_cases
  intro c
  simp only [leaveCallActs, hc, if_true]
  by_cases hx : x = s
  · subst hx
    rcases c with ⟨room, ic, cl, ep, nl, nr⟩
    cases room <;> simp [coreRun, subject, coreStep]
  · simp [coreRun, subject, hx]

theorem goodBlock_close (st : State) (x : Nat) : GoodBlock (closeActs st x) := by
  intro s c
  apply good_of_cases
  intro c
  by_cases hx : x = s
  · subst hx
    rcases c with ⟨room, ic, cl, ep, nl, nr⟩
    cases room <;> simp [closeActs, coreRun, subject, coreStep] <;> omega
  · simp [closeActs, coreRun, subject, hx]

theorem goodBlock_leaveClose (st : State) (x : Nat) : GoodBlock (.leaveRoom x :: closeActs st x) := by
  intro s c
  apply good_of_cases
  intro c
  by_cases hx : x = s
  · subst hx
    rcases c with ⟨room, ic, cl, ep, nl, nr⟩
    cases room <;> simp [closeActs, coreRun, subject, coreStep] <;> omega
  · simp [closeActs, coreRun, subject, hx]

theorem goodBlocks_setMetas (ms : List Meta) (i : Nat) : ∀ b ∈ setMetas ms i, GoodBlock b := by
  induction ms generalizing i with
  | nil => intro b hb; simp [setMetas] at hb
  | cons m rest ih =>
    intro b hb
    simp only [setMetas, List.mem_cons] at hb
    rcases hb with rfl | hb
    · exact goodBlock_neutral _ (by intro a ha; simp at ha; subst ha; rfl)
    · exact ih (i + 1) b hb

/-- Every block of every harness op is good. -/
theorem goodBlocks_op (cfg : Cfg) (hc : cfg.inCallExits = true) (st : State) (op : Op) :
    ∀ b ∈ opBlocks cfg st op, GoodBlock b := by
  have neutral1 : ∀ a : Action, subject a = none → ∀ b ∈ [[a]], GoodBlock b := by
    intro a ha b hb
    simp at hb; subst hb
    exact goodBlock_neutral _ (by intro a' ha'; simp at ha'; subst ha'; exact ha)
  cases op with
  | join s r => intro b hb; simp [opBlocks] at hb; subst hb; exact goodBlock_join s r
  | leave s => intro b hb; simp [opBlocks] at hb; subst hb; exact goodBlock_leave s
  | incall s bb =>
    intro b hb
    simp only [opBlocks] at hb
    split at hb
    · simp at hb
    · split at hb
      · simp at hb
      · split at hb
        · simp at hb; subst hb; exact goodBlock_inCallTrue s
        · simp at hb; subst hb; exact goodBlock_leaveCall cfg hc s
  | perms s p =>
    intro b hb; simp [opBlocks] at hb; subst hb
    exact goodBlock_neutral _ (by intro a ha; simp at ha; rcases ha with rfl | rfl <;> rfl)
  | offer s t m =>
    cases t with
    | none => intro b hb; simp [opBlocks] at hb
    | some t => exact neutral1 _ rfl
  | request s p t =>
    cases t with
    | none => intro b hb; simp [opBlocks] at hb
    | some t =>
      intro b hb
      simp only [opBlocks] at hb
      split at hb
      · exact neutral1 _ rfl b hb
      · simp at hb
  | sendoffer p s t =>
    cases t with
    | none => intro b hb; simp [opBlocks] at hb
    | some t =>
      intro b hb
      simp only [opBlocks] at hb
      split at hb
      · exact neutral1 _ rfl b hb
      · simp at hb
  | finish k o => exact neutral1 _ rfl
  | close s => intro b hb; simp [opBlocks] at hb; subst hb; exact goodBlock_close st s
  | state => intro b hb; simp [opBlocks] at hb
  | world ms => exact goodBlocks_setMetas ms 0
  | incallAll r bb all =>
    cases bb with
    | true =>
      intro b hb
      simp only [opBlocks, List.mem_map] at hb
      obtain ⟨x, _, rfl⟩ := hb
      exact goodBlock_inCallTrue x
    | false =>
      intro b hb
      simp only [opBlocks, List.mem_map] at hb
      obtain ⟨x, _, rfl⟩ := hb
      exact goodBlock_leaveCall cfg hc x
  | intIncall s f =>
    intro b hb
    simp only [opBlocks] at hb
    split at hb
    · simp at hb
    · simp at hb; subst hb
      apply goodBlock_setMeta_cons
      split
      · exact goodBlock_nil
      · split
        · exact goodBlock_inCallTrue s
        · exact goodBlock_leaveCall cfg hc s
  | delRoom r all =>
    intro b hb
    simp only [opBlocks] at hb
    split at hb
    · simp only [List.mem_map] at hb
      obtain ⟨x, _, rfl⟩ := hb
      exact goodBlock_leave x
    · simp at hb
  | disinvite s r =>
    intro b hb
    simp only [opBlocks] at hb
    split at hb
    · simp at hb; subst hb; exact goodBlock_close st s
    · simp at hb
  | kick s =>
    intro b hb
    simp only [opBlocks] at hb
    split at hb
    · simp at hb; subst hb; exact goodBlock_leaveClose st s
    · simp at hb
  | asyncBye s =>
    intro b hb
    simp only [opBlocks] at hb
    split at hb
    · simp at hb; subst hb; exact goodBlock_leaveClose st s
    · simp at hb
  | bye s =>
    intro b hb
    simp only [opBlocks] at hb
    split at hb
    · simp at hb; subst hb; exact goodBlock_close st s
    · simp at hb
  | drop s =>
    intro b hb
    simp only [opBlocks] at hb
    split at hb
    · exact neutral1 _ rfl b hb
    · simp at hb
  | expire all =>
    intro b hb
    simp only [opBlocks] at hb
    split at hb
    · simp only [List.mem_map] at hb
      obtain ⟨x, _, rfl⟩ := hb
      exact goodBlock_close st x
    · simp at hb
  | virtual s r => intro b hb; simp [opBlocks] at hb

/-! ### what an op that ends a session / a room stay achieves -/

theorem coreStep_closed (c : Core) (a : Action) (h : c.closed = true) : (coreStep c a).closed = true := by
  cases a <;> simp only [coreStep] <;> (try exact h) <;> (repeat' split) <;> first | exact h | rfl

theorem coreRun_closed_mono (s : Nat) (acts : List Action) (c : Core) (h : c.closed = true) :
    (coreRun s c acts).closed = true := by
  induction acts generalizing c with
  | nil => exact h
  | cons a as ih =>
    simp only [coreRun]
    split
    · exact ih _ (coreStep_closed c a h)
    · exact ih _ h

/-- A list of actions that contains `closeCancel s` leaves `s` closed. -/
theorem coreRun_closed (s : Nat) (acts : List Action) (c : Core) (h : Action.closeCancel s ∈ acts) :
    (coreRun s c acts).closed = true := by
  induction acts generalizing c with
  | nil => cases h
  | cons a as ih =>
    simp only [coreRun]
    rcases List.mem_cons.mp h with rfl | h'
    · simp only [subject, if_true]
      exact coreRun_closed_mono s as _ rfl
    · exact ih _ h'

def isJoin : Action → Bool
  | .join _ _ => true
  | _ => false

theorem coreStep_room_none (c : Core) (a : Action) (hj : isJoin a = false) (h : c.room = none) :
    (coreStep c a).room = none := by
  cases a <;> simp only [coreStep] <;> (try exact h) <;> (try (simp [isJoin] at hj)) <;>
    (repeat' split) <;> first | exact h | rfl

theorem coreRun_room_none (s : Nat) (acts : List Action) (c : Core) (hj : ∀ a ∈ acts, isJoin a = false)
    (h : c.room = none) : (coreRun s c acts).room = none := by
  induction acts generalizing c with
  | nil => exact h
  | cons a as ih =>
    simp only [coreRun]
    have hj' := fun a' ha' => hj a' (List.mem_cons_of_mem _ ha')
    split
    · exact ih _ hj' (coreStep_room_none c a (hj a (List.mem_cons_self ..)) h)
    · exact ih _ hj' h

/-- A list of actions without `join` that contains `leaveRoom s` leaves `s` without room. -/
theorem coreRun_left (s : Nat) (acts : List Action) (c : Core) (hj : ∀ a ∈ acts, isJoin a = false)
    (h : Action.leaveRoom s ∈ acts) : (coreRun s c acts).room = none := by
  induction acts generalizing c with
  | nil => cases h
  | cons a as ih =>
    simp only [coreRun]
    have hj' := fun a' ha' => hj a' (List.mem_cons_of_mem _ ha')
    rcases List.mem_cons.mp h with rfl | h'
    · simp only [subject, if_true]
      apply coreRun_room_none s as _ hj'
      simp only [coreStep]; split <;> simp_all
    · exact ih _ hj' h'

theorem closeActs_noJoin (st : State) (x : Nat) : ∀ a ∈ closeActs st x, isJoin a = false := by
  intro a ha; simp [closeActs] at ha; rcases ha with rfl | rfl | rfl | rfl <;> rfl

theorem closeCancel_mem_closeActs (st : State) (x : Nat) : Action.closeCancel x ∈ closeActs st x := by
  simp [closeActs]

end SigModel.Mcu
