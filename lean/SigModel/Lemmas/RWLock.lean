/-
Lemmas about the RWMutex transition system (`Model/RWLock.lean`): the invariant that ties the
mutex state to what the threads hold, its preservation, progress for flat lock programs,
a decreasing measure, mutual exclusion.
-/
import SigModel.Model.RWLock

namespace SigModel.RWLock

/-! ### shapes of flat programs -/

theorem flatFrom_none_cases {p : List LockOp} (h : flatFrom .none p = true) :
    p = [] ∨ (∃ rest, p = .rlock :: rest ∧ flatFrom .read rest = true)
      ∨ (∃ rest, p = .lock :: rest ∧ flatFrom .write rest = true) := by
  cases p with
  | nil => exact Or.inl rfl
  | cons o rest =>
    cases o <;> simp [flatFrom] at h
    · exact Or.inr (Or.inl ⟨rest, rfl, h⟩)
    · exact Or.inr (Or.inr ⟨rest, rfl, h⟩)

theorem flatFrom_read_cases {p : List LockOp} (h : flatFrom .read p = true) :
    ∃ rest, p = .runlock :: rest ∧ flatFrom .none rest = true := by
  cases p with
  | nil => simp [flatFrom] at h
  | cons o rest =>
    cases o <;> simp [flatFrom] at h
    exact ⟨rest, rfl, h⟩

theorem flatFrom_write_cases {p : List LockOp} (h : flatFrom .write p = true) :
    ∃ rest, p = .unlock :: rest ∧ flatFrom .none rest = true := by
  cases p with
  | nil => simp [flatFrom] at h
  | cons o rest =>
    cases o <;> simp [flatFrom] at h
    exact ⟨rest, rfl, h⟩

theorem flatFrom_append (h : Held) (p q : List LockOp) (hp : flatFrom h p = true) (hq : Flat q = true) :
    flatFrom h (p ++ q) = true := by
  induction p generalizing h with
  | nil => cases h <;> simp [flatFrom] at hp; simpa [Flat] using hq
  | cons o rest ih =>
    cases h <;> cases o <;> simp [flatFrom] at hp ⊢ <;> exact ih _ hp

/-- Flat programs are closed under sequencing (a thread performing several calls in a row). -/
theorem flat_append (p q : List LockOp) (hp : Flat p = true) (hq : Flat q = true) : Flat (p ++ q) = true :=
  flatFrom_append .none p q hp hq

theorem flat_flatten (ps : List (List LockOp)) (h : ∀ p ∈ ps, Flat p = true) : Flat ps.flatten = true := by
  induction ps with
  | nil => rfl
  | cons p ps ih =>
    rw [List.flatten_cons]
    exact flat_append p _ (h p (by simp)) (ih (fun q hq => h q (by simp [hq])))

/-! ### the invariant -/

/-- What a thread holds is consistent with where it is in a flat program. -/
def ThreadOk (t : Thread) : Prop :=
  (t.r = 0 ∧ t.w = false ∧ t.ann = false ∧ flatFrom .none t.todo = true) ∨
  (t.r = 1 ∧ t.w = false ∧ t.ann = false ∧ flatFrom .read t.todo = true) ∨
  (t.r = 0 ∧ t.w = true ∧ t.ann = false ∧ flatFrom .write t.todo = true) ∨
  (t.r = 0 ∧ t.w = false ∧ t.ann = true ∧ ∃ rest, t.todo = .lock :: rest ∧ flatFrom .write rest = true)

def heldR (ts : List Thread) : Nat := (ts.map (·.r)).sum
def cntW (ts : List Thread) : Nat := ts.countP (fun t => t.ann || t.w)
def cntA (ts : List Thread) : Nat := ts.countP (fun t => t.w)

structure Inv (c : Cfg) : Prop where
  readers : c.mu.readers = heldR c.threads
  wl : cntW c.threads = if c.mu.wlocked then 1 else 0
  act : cntA c.threads = if c.mu.active then 1 else 0
  excl : c.mu.active = true → c.mu.wlocked = true ∧ c.mu.readers = 0
  ok : ∀ t ∈ c.threads, ThreadOk t

theorem heldR_split (pre post : List Thread) (t : Thread) :
    heldR (pre ++ t :: post) = heldR pre + t.r + heldR post := by
  simp [heldR, List.sum_append, Nat.add_assoc]

theorem cntW_split (pre post : List Thread) (t : Thread) :
    cntW (pre ++ t :: post) = cntW pre + (if (t.ann || t.w) then 1 else 0) + cntW post := by
  simp [cntW, List.countP_append, List.countP_cons]; omega

theorem cntA_split (pre post : List Thread) (t : Thread) :
    cntA (pre ++ t :: post) = cntA pre + (if t.w then 1 else 0) + cntA post := by
  simp [cntA, List.countP_append, List.countP_cons]; omega

theorem inv_init (progs : List (List LockOp)) (h : ∀ p ∈ progs, Flat p = true) : Inv (Cfg.init progs) := by
  refine ⟨?_, ?_, ?_, ?_, ?_⟩
  · simp only [Cfg.init, heldR, List.map_map]
    induction progs with
    | nil => rfl
    | cons p ps ih => simp [List.sum_cons]; simpa using ih (fun q hq => h q (by simp [hq]))
  · simp only [Cfg.init, cntW]
    rw [List.countP_eq_zero.mpr]; · rfl
    intro t ht; simp at ht; obtain ⟨p, _, rfl⟩ := ht; simp
  · simp only [Cfg.init, cntA]
    rw [List.countP_eq_zero.mpr]; · rfl
    intro t ht; simp at ht; obtain ⟨p, _, rfl⟩ := ht; simp
  · intro h; simp [Cfg.init] at h
  · intro t ht
    simp [Cfg.init] at ht
    obtain ⟨p, hp, rfl⟩ := ht
    exact Or.inl ⟨rfl, rfl, rfl, h p hp⟩

/-- The five kinds of step a well-formed thread can take. -/
theorem step_cases {mu mu' : Mutex} {t t' : Thread} (hok : ThreadOk t) (hs : stepThread mu t = some (mu', t')) :
    (∃ rest, t.todo = .rlock :: rest ∧ t.r = 0 ∧ t.w = false ∧ t.ann = false ∧ mu.wlocked = false ∧
        flatFrom .read rest = true ∧
        mu' = { mu with readers := mu.readers + 1 } ∧ t' = { todo := rest, r := 1, w := false, ann := false }) ∨
    (∃ rest, t.todo = .runlock :: rest ∧ t.r = 1 ∧ t.w = false ∧ t.ann = false ∧ flatFrom .none rest = true ∧
        mu' = { mu with readers := mu.readers - 1 } ∧ t' = { todo := rest, r := 0, w := false, ann := false }) ∨
    (∃ rest, t.todo = .lock :: rest ∧ t.r = 0 ∧ t.w = false ∧ t.ann = false ∧ mu.wlocked = false ∧
        flatFrom .write rest = true ∧
        mu' = { mu with wlocked := true } ∧ t' = { todo := .lock :: rest, r := 0, w := false, ann := true }) ∨
    (∃ rest, t.todo = .lock :: rest ∧ t.r = 0 ∧ t.w = false ∧ t.ann = true ∧ mu.readers = 0 ∧
        flatFrom .write rest = true ∧
        mu' = { mu with active := true } ∧ t' = { todo := rest, r := 0, w := true, ann := false }) ∨
    (∃ rest, t.todo = .unlock :: rest ∧ t.r = 0 ∧ t.w = true ∧ t.ann = false ∧ flatFrom .none rest = true ∧
        mu' = { mu with wlocked := false, active := false } ∧ t' = { todo := rest, r := 0, w := false, ann := false }) := by
  obtain ⟨todo, r, w, ann⟩ := t
  rcases hok with ⟨hr, hw, ha, hf⟩ | ⟨hr, hw, ha, hf⟩ | ⟨hr, hw, ha, hf⟩ | ⟨hr, hw, ha, rest, htodo, hf⟩
  · simp only at hr hw ha hf; subst hr hw ha
    rcases flatFrom_none_cases hf with rfl | ⟨rest, rfl, hrest⟩ | ⟨rest, rfl, hrest⟩
    · simp [stepThread] at hs
    · left
      by_cases hwl : mu.wlocked = true
      · simp [stepThread, hwl] at hs
      · simp only [Bool.not_eq_true] at hwl
        simp [stepThread, hwl] at hs
        exact ⟨rest, rfl, rfl, rfl, rfl, hwl, hrest, by rw [← hs.1]; simp [hwl], hs.2.symm⟩
    · right; right; left
      by_cases hwl : mu.wlocked = true
      · simp [stepThread, hwl] at hs
      · simp only [Bool.not_eq_true] at hwl
        simp [stepThread, hwl] at hs
        exact ⟨rest, rfl, rfl, rfl, rfl, hwl, hrest, hs.1.symm, hs.2.symm⟩
  · simp only at hr hw ha hf; subst hr hw ha
    obtain ⟨rest, rfl, hrest⟩ := flatFrom_read_cases hf
    right; left
    simp [stepThread] at hs
    exact ⟨rest, rfl, rfl, rfl, rfl, hrest, hs.1.symm, hs.2.symm⟩
  · simp only at hr hw ha hf; subst hr hw ha
    obtain ⟨rest, rfl, hrest⟩ := flatFrom_write_cases hf
    right; right; right; right
    simp [stepThread] at hs
    exact ⟨rest, rfl, rfl, rfl, rfl, hrest, hs.1.symm, hs.2.symm⟩
  · simp only at hr hw ha htodo; subst hr hw ha htodo
    right; right; right; left
    by_cases hrd : mu.readers = 0
    · simp [stepThread, hrd] at hs
      exact ⟨rest, rfl, rfl, rfl, rfl, hrd, hf, by rw [← hs.1]; simp [hrd], hs.2.symm⟩
    · simp [stepThread, hrd] at hs

theorem inv_step {c c' : Cfg} (hi : Inv c) (hs : Step c c') : Inv c' := by
  cases hs with
  | mk mu mu' pre post t t' hst =>
    obtain ⟨hrd, hwl, hact, hexcl, hok⟩ := hi
    have hokt : ThreadOk t := hok t (by simp)
    have hokrest : ∀ x ∈ pre ++ t' :: post, x ≠ t' → ThreadOk x := by
      intro x hx hne
      simp only [List.mem_append, List.mem_cons] at hx
      rcases hx with hx | hx | hx
      · exact hok x (by simp [hx])
      · exact absurd hx hne
      · exact hok x (by simp [hx])
    have hok' : ThreadOk t' → ∀ x ∈ pre ++ t' :: post, ThreadOk x := by
      intro h x hx
      by_cases hxe : x = t'
      · subst hxe; exact h
      · exact hokrest x hx hxe
    simp only at hrd hwl hact hexcl
    rw [heldR_split] at hrd
    rw [cntW_split] at hwl
    rw [cntA_split] at hact
    rcases step_cases hokt hst with
      ⟨rest, htodo, hr, hw, ha, hmwl, hf, rfl, rfl⟩ | ⟨rest, htodo, hr, hw, ha, hf, rfl, rfl⟩ |
      ⟨rest, htodo, hr, hw, ha, hmwl, hf, rfl, rfl⟩ | ⟨rest, htodo, hr, hw, ha, hmrd, hf, rfl, rfl⟩ |
      ⟨rest, htodo, hr, hw, ha, hf, rfl, rfl⟩
    · -- rlock
      refine ⟨?_, ?_, ?_, ?_, hok' (Or.inr (Or.inl ⟨rfl, rfl, rfl, hf⟩))⟩
      · simp only [heldR_split]; omega
      · simp only [cntW_split]; simp [hw, ha] at hwl ⊢ <;> omega
      · simp only [cntA_split]; simp [hw] at hact ⊢ <;> omega
      · intro hactive
        have := hexcl hactive
        simp [hmwl] at this
    · -- runlock
      refine ⟨?_, ?_, ?_, ?_, hok' (Or.inl ⟨rfl, rfl, rfl, hf⟩)⟩
      · simp only [heldR_split]; omega
      · simp only [cntW_split]; simp [hw, ha] at hwl ⊢ <;> omega
      · simp only [cntA_split]; simp [hw] at hact ⊢ <;> omega
      · intro hactive
        have := hexcl hactive
        simp only at hactive
        omega
    · -- announce
      refine ⟨?_, ?_, ?_, ?_, hok' (Or.inr (Or.inr (Or.inr ⟨rfl, rfl, rfl, rest, rfl, hf⟩)))⟩
      · simp only [heldR_split]; omega
      · simp only [cntW_split]; simp [hw, ha, hmwl] at hwl ⊢ <;> omega
      · simp only [cntA_split]; simp [hw] at hact ⊢ <;> omega
      · intro hactive
        have := hexcl hactive
        simp [hmwl] at this
    · -- acquire
      have hwlocked : mu.wlocked = true := by
        cases hm : mu.wlocked with
        | true => rfl
        | false => simp [hm, ha] at hwl <;> omega
      have hnotactive : mu.active = false := by
        cases hm : mu.active with
        | false => rfl
        | true =>
          simp [hm, hw] at hact
          simp [hwlocked, ha] at hwl
          -- the announced thread is the only one counted in cntW, so nobody holds the lock
          have h1 : cntA pre ≤ cntW pre := by
            unfold cntA cntW; apply List.countP_mono_left; intro x _ hx; simp [hx]
          have h2 : cntA post ≤ cntW post := by
            unfold cntA cntW; apply List.countP_mono_left; intro x _ hx; simp [hx]
          omega
      refine ⟨?_, ?_, ?_, ?_, hok' (Or.inr (Or.inr (Or.inl ⟨rfl, rfl, rfl, hf⟩)))⟩
      · simp only [heldR_split]; omega
      · simp only [cntW_split]; simp [hw, ha, hwlocked] at hwl ⊢ <;> omega
      · simp only [cntA_split]; simp [hw, hnotactive] at hact ⊢ <;> omega
      · intro _; exact ⟨hwlocked, hmrd⟩
    · -- unlock
      have hwlocked : mu.wlocked = true := by
        cases hm : mu.wlocked with
        | true => rfl
        | false => simp [hm, hw] at hwl <;> omega
      have hactive : mu.active = true := by
        cases hm : mu.active with
        | true => rfl
        | false => simp [hm, hw] at hact <;> omega
      refine ⟨?_, ?_, ?_, ?_, hok' (Or.inl ⟨rfl, rfl, rfl, hf⟩)⟩
      · simp only [heldR_split]; omega
      · simp only [cntW_split]; simp [hw, ha, hwlocked] at hwl ⊢ <;> omega
      · simp only [cntA_split]; simp [hw, hactive] at hact ⊢ <;> omega
      · intro h; simp at h

theorem inv_reach {progs : List (List LockOp)} (h : ∀ p ∈ progs, Flat p = true) {c : Cfg}
    (hr : Reach (Cfg.init progs) c) : Inv c := by
  induction hr with
  | refl => exact inv_init progs h
  | step _ hs ih => exact inv_step ih hs

/-! ### enabledness and steps -/

theorem step_of_enabled {c : Cfg} (h : c.enabled = true) : ∃ c', Step c c' := by
  obtain ⟨mu, threads⟩ := c
  simp only [Cfg.enabled, List.any_eq_true] at h
  obtain ⟨t, ht, hs⟩ := h
  obtain ⟨pre, post, rfl⟩ := List.append_of_mem ht
  cases hst : stepThread mu t with
  | none => simp [hst] at hs
  | some r => exact ⟨⟨r.1, pre ++ r.2 :: post⟩, Step.mk mu r.1 pre post t r.2 hst⟩

theorem enabled_of_step {c c' : Cfg} (h : Step c c') : c.enabled = true := by
  cases h with
  | mk mu mu' pre post t t' hst =>
    simp only [Cfg.enabled, List.any_eq_true]
    exact ⟨t, by simp, by simp [hst]⟩

theorem heldR_zero {ts : List Thread} (h : ∀ t ∈ ts, t.r = 0) : heldR ts = 0 := by
  induction ts with
  | nil => rfl
  | cons t ts ih =>
    simp only [heldR, List.map_cons, List.sum_cons]
    have := ih (fun x hx => h x (by simp [hx]))
    simp only [heldR] at this
    rw [this, h t (by simp)]

/-- Progress: in a state satisfying the invariant that is not final, some thread can move. -/
theorem progress {c : Cfg} (hi : Inv c) (hnf : c.final = false) : c.enabled = true := by
  obtain ⟨mu, threads⟩ := c
  obtain ⟨hrd, hwl, _, _, hok⟩ := hi
  simp only at hrd hwl hok
  simp only [Cfg.enabled, List.any_eq_true]
  by_cases h1 : ∃ t ∈ threads, t.r ≠ 0
  · -- a reader holds: its next call is RUnlock, which never blocks
    obtain ⟨t, ht, hr⟩ := h1
    refine ⟨t, ht, ?_⟩
    rcases hok t ht with ⟨h0, _⟩ | ⟨_, _, _, hf⟩ | ⟨h0, _⟩ | ⟨h0, _⟩
    · exact absurd h0 hr
    · obtain ⟨rest, htodo, _⟩ := flatFrom_read_cases hf
      simp [stepThread, htodo]
    · exact absurd h0 hr
    · exact absurd h0 hr
  · have hr0 : ∀ t ∈ threads, t.r = 0 := by
      intro t ht
      by_cases h : t.r = 0
      · exact h
      · exact absurd ⟨t, ht, h⟩ h1
    by_cases h2 : ∃ t ∈ threads, t.w = true
    · -- the writer holds: its next call is Unlock
      obtain ⟨t, ht, hw⟩ := h2
      refine ⟨t, ht, ?_⟩
      rcases hok t ht with ⟨_, h0, _⟩ | ⟨_, h0, _⟩ | ⟨_, _, _, hf⟩ | ⟨_, h0, _⟩
      · simp [hw] at h0
      · simp [hw] at h0
      · obtain ⟨rest, htodo, _⟩ := flatFrom_write_cases hf
        simp [stepThread, htodo]
      · simp [hw] at h0
    · by_cases h3 : ∃ t ∈ threads, t.ann = true
      · -- an announced writer and no reader left: it acquires
        obtain ⟨t, ht, ha⟩ := h3
        refine ⟨t, ht, ?_⟩
        have hreaders : mu.readers = 0 := by rw [hrd]; exact heldR_zero hr0
        rcases hok t ht with ⟨_, _, h0, _⟩ | ⟨_, _, h0, _⟩ | ⟨_, _, h0, _⟩ | ⟨_, _, _, rest, htodo, _⟩
        · simp [ha] at h0
        · simp [ha] at h0
        · simp [ha] at h0
        · simp [stepThread, htodo, ha, hreaders]
      · -- nobody holds or waits: the writer mutex is free, any remaining call goes through
        have hnone : ∀ t ∈ threads, (t.ann || t.w) = false := by
          intro t ht
          have ha : t.ann = false := by
            cases h : t.ann with
            | false => rfl
            | true => exact absurd ⟨t, ht, h⟩ h3
          have hw : t.w = false := by
            cases h : t.w with
            | false => rfl
            | true => exact absurd ⟨t, ht, h⟩ h2
          simp [ha, hw]
        have hcnt : cntW threads = 0 := by
          unfold cntW
          rw [List.countP_eq_zero]
          intro t ht; simp [hnone t ht]
        have hfree : mu.wlocked = false := by
          cases h : mu.wlocked with
          | false => rfl
          | true => rw [hcnt, h] at hwl; simp at hwl
        have : ∃ t ∈ threads, t.todo ≠ [] := by
          simp only [Cfg.final] at hnf
          obtain ⟨t, ht, hne⟩ := List.all_eq_false.mp hnf
          exact ⟨t, ht, by intro h; simp [h] at hne⟩
        obtain ⟨t, ht, hne⟩ := this
        refine ⟨t, ht, ?_⟩
        have hta : t.ann = false := by have := hnone t ht; simp at this; exact this.1
        rcases hok t ht with ⟨_, _, _, hf⟩ | ⟨h0, _⟩ | ⟨_, h0, _⟩ | ⟨_, _, h0, _⟩
        · rcases flatFrom_none_cases hf with h | ⟨rest, htodo, _⟩ | ⟨rest, htodo, _⟩
          · exact absurd h hne
          · simp [stepThread, htodo, hfree]
          · simp [stepThread, htodo, hfree, hta]
        · have := hr0 t ht; omega
        · have := hnone t ht; simp [h0] at this
        · have := hnone t ht; simp [h0] at this

/-! ### a measure that every step decreases -/

def weight (t : Thread) : Nat := 2 * t.todo.length + (if t.ann then 0 else 1)

def measure (c : Cfg) : Nat := (c.threads.map weight).sum

theorem weight_step {mu mu' : Mutex} {t t' : Thread} (hs : stepThread mu t = some (mu', t')) :
    weight t' < weight t := by
  obtain ⟨todo, r, w, ann⟩ := t
  cases todo with
  | nil => simp [stepThread] at hs
  | cons o rest =>
    cases o
    · by_cases h : mu.wlocked = true
      · simp [stepThread, h] at hs
      · simp [stepThread, h] at hs; obtain ⟨_, rfl⟩ := hs; simp [weight] <;> omega
    · simp [stepThread] at hs; obtain ⟨_, rfl⟩ := hs; simp [weight] <;> omega
    · cases ann with
      | true =>
        by_cases h : mu.readers = 0
        · simp [stepThread, h] at hs; obtain ⟨_, rfl⟩ := hs; simp [weight] <;> omega
        · simp [stepThread, h] at hs
      | false =>
        by_cases h : mu.wlocked = true
        · simp [stepThread, h] at hs
        · simp [stepThread, h] at hs; obtain ⟨_, rfl⟩ := hs; simp [weight] <;> omega
    · simp [stepThread] at hs; obtain ⟨_, rfl⟩ := hs; simp [weight] <;> omega

theorem measure_step {c c' : Cfg} (hs : Step c c') : measure c' < measure c := by
  cases hs with
  | mk mu mu' pre post t t' hst =>
    have := weight_step hst
    simp only [measure, List.map_append, List.map_cons, List.sum_append, List.sum_cons]
    omega

end SigModel.RWLock

namespace SigModel.RWLock

theorem heldR_eq_zero_mem {ts : List Thread} (h : heldR ts = 0) : ∀ t ∈ ts, t.r = 0 := by
  induction ts with
  | nil => intro t ht; cases ht
  | cons x xs ih =>
    simp only [heldR, List.map_cons, List.sum_cons] at h
    intro t ht
    simp only [List.mem_cons] at ht
    rcases ht with rfl | ht
    · omega
    · exact ih (by simp only [heldR]; omega) t ht

theorem cntA_eq_zero_mem {ts : List Thread} (h : cntA ts = 0) : ∀ t ∈ ts, t.w = false := by
  intro t ht
  have := (List.countP_eq_zero.mp h) t ht
  simpa using this

/-- While a thread holds the write lock nobody else holds anything. -/
theorem exclusive_of_inv {c : Cfg} (hi : Inv c) (pre post : List Thread) (t : Thread)
    (hc : c.threads = pre ++ t :: post) (hw : t.w = true) :
    t.r = 0 ∧ ∀ x ∈ pre ++ post, x.r = 0 ∧ x.w = false := by
  obtain ⟨hrd, _, hact, hexcl, _⟩ := hi
  rw [hc, cntA_split] at hact
  rw [hc, heldR_split] at hrd
  have hactive : c.mu.active = true := by
    cases hm : c.mu.active with
    | true => rfl
    | false => simp [hm, hw] at hact <;> omega
  obtain ⟨_, hr0⟩ := hexcl hactive
  simp [hactive, hw] at hact
  have h1 : heldR pre = 0 := by omega
  have h2 : heldR post = 0 := by omega
  have h3 : cntA pre = 0 := by omega
  have h4 : cntA post = 0 := by omega
  refine ⟨by omega, ?_⟩
  intro x hx
  simp only [List.mem_append] at hx
  rcases hx with hx | hx
  · exact ⟨heldR_eq_zero_mem h1 x hx, cntA_eq_zero_mem h3 x hx⟩
  · exact ⟨heldR_eq_zero_mem h2 x hx, cntA_eq_zero_mem h4 x hx⟩

theorem reach_trans {a b c : Cfg} (h1 : Reach a b) (h2 : Reach b c) : Reach a c := by
  induction h2 with
  | refl => exact h1
  | step _ hs ih => exact Reach.step ih hs

end SigModel.RWLock
