/-
Helper lemmas for C18 (`Model/Proxy.lean`): the token decision, and the
inductive invariant relating the proxy's global client table, the per-session
ownership tables and the media server's open objects.
-/
import SigModel.Spec.Proxy

namespace SigModel.Proxy
open SigModel.Generated.Proxy

/-! ## Token decision -/

theorem leeway_eq : leeway = 60000000000 := by decide
theorem maxAgeWindow_eq : maxAgeWindow = 360000000000 := by decide

theorem parseToken_none_iff (cfg : Cfg) (now : Int) (t : Tok) :
    parseToken cfg now t = none ↔ ∀ p ∈ checks cfg now t, p.1 = true := by
  unfold parseToken
  simp [List.find?_eq_none]

theorem parseToken_ok_valid (cfg : Cfg) (now : Int) (t : Tok)
    (h : parseToken cfg now t = none) : ValidToken cfg now t := by
  rw [parseToken_none_iff] at h
  simp only [checks, List.mem_cons, List.not_mem_nil, or_false, forall_eq_or_imp, forall_eq] at h
  obtain ⟨_, hvm, _, hkey, hnv, _, hrec⟩ := h
  have hwi : withIssuedAt = true := by decide
  have hnr : iatNilRejected = true := by decide
  have hki : keyByIssuer = true := by decide
  refine ⟨?_, ?_, ?_⟩
  · have : validMethods = stmtAlgs := by decide
    rw [this] at hvm
    simpa using hvm
  · unfold keyOK at hkey
    cases hk : lookupKey cfg t.issuer with
    | none => simp [hk] at hkey
    | some k => exact ⟨k, rfl, by simpa [hk, hki] using hkey⟩
  · unfold iatRecent at hrec
    unfold iatNotFuture at hnv
    cases hi : t.iat with
    | none => simp [hi, hnr] at hrec
    | some i =>
      refine ⟨i, rfl, ?_⟩
      have hcmp : ∀ a b, iatTooOld a b = decide (a < b) := by
        intro a b; simp [iatTooOld, iatTooOldCmp]
      simp [hi, hwi, hcmp, leeway_eq, maxAgeWindow_eq] at hrec hnv
      simp [stmtMaxAge, stmtLeeway]
      omega

/-! invariant -/

structure Inv (st : State) : Prop where
  sidsNodup : (st.sessions.map (·.sid)).Nodup
  sidsLt : ∀ s ∈ st.sessions, s.sid < st.nextSid
  idsNodup : (st.clients.map (·.id)).Nodup
  idsLt : ∀ o ∈ st.clients, o.id < st.nextObj
  owned : ∀ o ∈ st.clients, ∃ s ∈ st.sessions, s.sid = o.owner ∧ listed s o.isPub o.id = true
  listedIn : ∀ s ∈ st.sessions, ∀ b id, listed s b id = true →
    ∃ o ∈ st.clients, o.id = id ∧ o.isPub = b ∧ o.owner = s.sid
  openRes : ∀ o ∈ st.mcuOpen, o ∈ st.clients

theorem Inv_init : Inv {} := by
  constructor <;> simp

/-- Two sessions of the table with the same sid are the same. -/
theorem sess_unique {ss : List Sess} (h : (ss.map (·.sid)).Nodup) {a b : Sess}
    (ha : a ∈ ss) (hb : b ∈ ss) (hab : a.sid = b.sid) : a = b := by
  induction ss with
  | nil => cases ha
  | cons x xs ih =>
    simp only [List.map_cons, List.nodup_cons, List.mem_map, not_exists, not_and] at h
    rcases List.mem_cons.mp ha with rfl | ha' <;> rcases List.mem_cons.mp hb with rfl | hb'
    · rfl
    · exact absurd hab.symm (h.1 b hb')
    · exact absurd hab (h.1 a ha')
    · exact ih h.2 ha' hb'

theorem obj_unique {os : List Obj} (h : (os.map (·.id)).Nodup) {a b : Obj}
    (ha : a ∈ os) (hb : b ∈ os) (hab : a.id = b.id) : a = b := by
  induction os with
  | nil => cases ha
  | cons x xs ih =>
    simp only [List.map_cons, List.nodup_cons, List.mem_map, not_exists, not_and] at h
    rcases List.mem_cons.mp ha with rfl | ha' <;> rcases List.mem_cons.mp hb with rfl | hb'
    · rfl
    · exact absurd hab.symm (h.1 b hb')
    · exact absurd hab (h.1 a ha')
    · exact ih h.2 ha' hb'

theorem findSess_mem {st : State} {sid : Nat} {s : Sess} (h : findSess st sid = some s) :
    s ∈ st.sessions ∧ s.sid = sid := by
  unfold findSess at h
  exact ⟨List.mem_of_find?_eq_some h, by simpa using List.find?_some h⟩

theorem findObj_mem {os : List Obj} {id : Nat} {o : Obj} (h : findObj os id = some o) :
    o ∈ os ∧ o.id = id := by
  unfold findObj at h
  exact ⟨List.mem_of_find?_eq_some h, by simpa using List.find?_some h⟩

theorem findSess_of_mem {st : State} (hn : (st.sessions.map (·.sid)).Nodup) {s : Sess} (h : s ∈ st.sessions) :
    findSess st s.sid = some s := by
  unfold findSess
  cases hf : st.sessions.find? (·.sid == s.sid) with
  | none =>
    have := List.find?_eq_none.mp hf s h
    simp at this
  | some s' =>
    have h1 := List.mem_of_find?_eq_some hf
    have h2 : s'.sid = s.sid := by simpa using List.find?_some hf
    rw [sess_unique hn h1 h h2]

/-- Session-table update that keeps sid and ownership lists: invariant unaffected. -/
theorem Inv_congr {st st' : State} (f : Sess → Sess)
    (hf : ∀ s, (f s).sid = s.sid ∧ (f s).pubs = s.pubs ∧ (f s).subs = s.subs)
    (hs : st'.sessions = st.sessions.map f) (hc : st'.clients = st.clients) (hm : st'.mcuOpen = st.mcuOpen)
    (hn : st'.nextSid = st.nextSid) (ho : st'.nextObj = st.nextObj) (h : Inv st) : Inv st' := by
  have hl : ∀ s b id, listed (f s) b id = listed s b id := by
    intro s b id; simp [listed, (hf s).2.1, (hf s).2.2]
  constructor
  · rw [hs, List.map_map]
    have : ((fun x : Sess => x.sid) ∘ f) = (fun x => x.sid) := by funext s; simp [(hf s).1]
    rw [this]; exact h.sidsNodup
  · intro s hs'; rw [hs] at hs'; obtain ⟨s0, h0, rfl⟩ := List.mem_map.mp hs'
    rw [hn, (hf s0).1]; exact h.sidsLt s0 h0
  · rw [hc]; exact h.idsNodup
  · rw [hc, ho]; exact h.idsLt
  · intro o ho'; rw [hc] at ho'
    obtain ⟨s, hs0, h1, h2⟩ := h.owned o ho'
    exact ⟨f s, by rw [hs]; exact List.mem_map.mpr ⟨s, hs0, rfl⟩, by rw [(hf s).1]; exact h1, by rw [hl]; exact h2⟩
  · intro s hs' b id hli; rw [hs] at hs'; obtain ⟨s0, h0, rfl⟩ := List.mem_map.mp hs'
    rw [hl] at hli
    obtain ⟨o, ho1, ho2⟩ := h.listedIn s0 h0 b id hli
    exact ⟨o, by rw [hc]; exact ho1, by rw [(hf s0).1]; exact ho2⟩
  · rw [hm, hc]; exact h.openRes

theorem Inv_pending {st : State} (ps : List Pend) (h : Inv st) : Inv { st with pending := ps } :=
  ⟨h.sidsNodup, h.sidsLt, h.idsNodup, h.idsLt, h.owned, h.listedIn, h.openRes⟩

theorem updSess_eq_map (sid : Nat) (f : Sess → Sess) (ss : List Sess) :
    updSess sid f ss = ss.map (fun s => if s.sid == sid then f s else s) := rfl

theorem Inv_markUsed {st : State} (sid : Nat) (t : Int) (h : Inv st) : Inv (markUsed sid t st) := by
  refine Inv_congr (st := st) (st' := markUsed sid t st) (fun s => if s.sid == sid then { s with lastUsed := t } else s) ?_ rfl rfl rfl rfl rfl h
  intro s; split <;> simp

theorem Inv_conns {st : State} (cs : List Conn) (h : Inv st) : Inv { st with conns := cs } := by
  refine Inv_congr (st := st) (st' := { st with conns := cs }) id ?_ (by simp) rfl rfl rfl rfl h
  intro s; simp

end SigModel.Proxy

namespace SigModel.Proxy
open SigModel.Generated.Proxy

theorem mem_updSess {sid : Nat} {f : Sess → Sess} {ss : List Sess} {s' : Sess} :
    s' ∈ updSess sid f ss ↔ ∃ s ∈ ss, (if s.sid == sid then f s else s) = s' := by
  unfold updSess; exact List.mem_map

theorem updSess_map_sid {sid : Nat} {f : Sess → Sess} (hf : ∀ s, (f s).sid = s.sid) (ss : List Sess) :
    (updSess sid f ss).map (·.sid) = ss.map (·.sid) := by
  unfold updSess
  rw [List.map_map]
  congr 1
  funext s
  simp only [Function.comp]
  split <;> simp [hf]

theorem mem_dropIds {ids : List Nat} {os : List Obj} {o : Obj} :
    o ∈ dropIds ids os ↔ o ∈ os ∧ o.id ∉ ids := by simp [dropIds]

theorem mem_dropId {id : Nat} {os : List Obj} {o : Obj} :
    o ∈ dropId id os ↔ o ∈ os ∧ o.id ≠ id := by simp [dropId]

theorem nodup_ids_filter {os : List Obj} (p : Obj → Bool) (h : (os.map (·.id)).Nodup) :
    ((os.filter p).map (·.id)).Nodup :=
  List.Nodup.sublist ((List.filter_sublist (l := os) (p := p)).map _) h

theorem listed_iff (s : Sess) (b : Bool) (id : Nat) :
    listed s b id = true ↔ (if b then id ∈ s.pubs else id ∈ s.subs) := by
  cases b <;> simp [listed]

@[simp] theorem addOwned_sid (b : Bool) (id : Nat) (s : Sess) : (addOwned b id s).sid = s.sid := by
  unfold addOwned; split <;> rfl

@[simp] theorem removeOwned_sid (b : Bool) (id : Nat) (s : Sess) : (removeOwned b id s).sid = s.sid := by
  unfold removeOwned; split <;> rfl

theorem listed_addOwned (b : Bool) (id : Nat) (s : Sess) (b' : Bool) (id' : Nat) :
    listed (addOwned b id s) b' id' = (listed s b' id' || (b == b' && id' == id)) := by
  cases b <;> cases b' <;> by_cases h : id' = id <;> simp [listed, addOwned, h]

theorem listed_removeOwned (b : Bool) (id : Nat) (s : Sess) (b' : Bool) (id' : Nat) :
    listed (removeOwned b id s) b' id' = (listed s b' id' && !(b == b' && id' == id)) := by
  cases b <;> cases b' <;> by_cases h : id' = id <;> simp [listed, removeOwned, List.contains_eq_mem, List.mem_filter, h]

theorem Inv_addSession {st : State} (c : Option Nat) (t : Int) (cs : List Conn) (h : Inv st) :
    Inv { st with nextSid := st.nextSid + 1
                  sessions := st.sessions ++ [{ sid := st.nextSid, client := c, lastUsed := t }]
                  conns := cs } := by
  constructor
  · simp only [List.map_append, List.map_cons, List.map_nil]
    rw [List.nodup_append]
    refine ⟨h.sidsNodup, by simp, ?_⟩
    intro a ha b hb
    simp only [List.mem_singleton] at hb
    obtain ⟨s, hs, rfl⟩ := List.mem_map.mp ha
    have := h.sidsLt s hs
    omega
  · intro s hs
    simp only [List.mem_append, List.mem_singleton] at hs
    rcases hs with hs | rfl
    · have := h.sidsLt s hs; simp only; omega
    · simp
  · exact h.idsNodup
  · exact h.idsLt
  · intro o ho
    obtain ⟨s, hs, h1, h2⟩ := h.owned o ho
    exact ⟨s, by simp [hs], h1, h2⟩
  · intro s hs b id hl
    simp only [List.mem_append, List.mem_singleton] at hs
    rcases hs with hs | rfl
    · exact h.listedIn s hs b id hl
    · cases b <;> simp [listed] at hl
  · exact h.openRes

/-- `create-publisher` / `create-subscriber` succeeded for live session `sid`. -/
theorem Inv_createObj {st : State} (sid : Nat) (isPub : Bool) (hs : ∃ s ∈ st.sessions, s.sid = sid) (h : Inv st) :
    Inv (storeObj st sid isPub) := by
  unfold storeObj
  simp only
  constructor
  · simp only [updSess_map_sid (addOwned_sid isPub st.nextObj)]; exact h.sidsNodup
  · intro s' hs'
    obtain ⟨s, hs0, rfl⟩ := mem_updSess.mp hs'
    have := h.sidsLt s hs0
    split <;> simpa using this
  · simp only [List.map_append, List.map_cons, List.map_nil]
    rw [List.nodup_append]
    refine ⟨h.idsNodup, by simp, ?_⟩
    intro a ha b hb
    simp only [List.mem_singleton] at hb
    obtain ⟨o, ho, rfl⟩ := List.mem_map.mp ha
    have := h.idsLt o ho
    omega
  · intro o ho
    simp only [List.mem_append, List.mem_singleton] at ho
    rcases ho with ho | rfl
    · have := h.idsLt o ho; simp only; omega
    · simp
  · intro o ho
    simp only [List.mem_append, List.mem_singleton] at ho
    rcases ho with ho | rfl
    · obtain ⟨s, hs0, h1, h2⟩ := h.owned o ho
      refine ⟨_, mem_updSess.mpr ⟨s, hs0, rfl⟩, ?_, ?_⟩
      · split <;> simpa using h1
      · split
        · rw [listed_addOwned, h2]; rfl
        · exact h2
    · obtain ⟨s, hs0, rfl⟩ := hs
      refine ⟨_, mem_updSess.mpr ⟨s, hs0, rfl⟩, ?_, ?_⟩
      · simp
      · simp [listed_addOwned]
  · intro s' hs' b id hl
    obtain ⟨s, hs0, rfl⟩ := mem_updSess.mp hs'
    by_cases heq : s.sid = sid
    · simp only [heq, beq_self_eq_true, if_true, addOwned_sid] at hl ⊢
      rw [listed_addOwned] at hl
      simp only [Bool.or_eq_true, Bool.and_eq_true, beq_iff_eq] at hl
      rcases hl with hl | ⟨hb, hid⟩
      · obtain ⟨o, ho, h1⟩ := h.listedIn s hs0 b id hl
        exact ⟨o, by simp [ho], by rw [← heq]; exact h1⟩
      · exact ⟨{ id := st.nextObj, isPub := isPub, owner := sid }, by simp, hid.symm, hb, rfl⟩
    · have hne : (s.sid == sid) = false := by simpa using heq
      simp only [hne] at hl ⊢
      obtain ⟨o, ho, h1⟩ := h.listedIn s hs0 b id hl
      exact ⟨o, by simp [ho], h1⟩
  · intro o ho
    simp only [List.mem_append, List.mem_singleton] at ho ⊢
    rcases ho with ho | rfl
    · exact Or.inl (h.openRes o ho)
    · exact Or.inr rfl

/-- A delete (`delete-publisher`, `delete-subscriber`, or the media server closing an
object that its owner still lists). -/
theorem Inv_deleteObj {st : State} {o : Obj} {s : Sess} (ho : o ∈ st.clients) (hs : s ∈ st.sessions)
    (hl : listed s o.isPub o.id = true) (h : Inv st) :
    Inv { st with clients := dropId o.id st.clients
                  mcuOpen := dropId o.id st.mcuOpen
                  sessions := updSess s.sid (removeOwned o.isPub o.id) st.sessions } := by
  have hown : o.owner = s.sid := by
    obtain ⟨o', ho', h1, _, h3⟩ := h.listedIn s hs _ _ hl
    rw [obj_unique h.idsNodup ho' ho h1] at h3; exact h3
  constructor
  · simp only [updSess_map_sid (removeOwned_sid o.isPub o.id)]; exact h.sidsNodup
  · intro s' hs'
    obtain ⟨s2, hs2, rfl⟩ := mem_updSess.mp hs'
    have := h.sidsLt s2 hs2
    split <;> simpa using this
  · exact nodup_ids_filter _ h.idsNodup
  · intro o2 ho2; exact h.idsLt o2 (mem_dropId.mp ho2).1
  · intro o2 ho2
    obtain ⟨ho2, hne⟩ := mem_dropId.mp ho2
    obtain ⟨s2, hs2, h1, h2⟩ := h.owned o2 ho2
    refine ⟨_, mem_updSess.mpr ⟨s2, hs2, rfl⟩, ?_, ?_⟩
    · split <;> simpa using h1
    · split
      · rw [listed_removeOwned, h2]
        have : (o2.id == o.id) = false := by simpa using hne
        simp [this]
      · exact h2
  · intro s' hs' b id2 hl2
    obtain ⟨s2, hs2, rfl⟩ := mem_updSess.mp hs'
    have key : listed s2 b id2 = true ∧ ¬ (id2 = o.id) := by
      by_cases heq : s2.sid = s.sid
      · simp only [heq, beq_self_eq_true, if_true] at hl2
        rw [listed_removeOwned] at hl2
        simp only [Bool.and_eq_true, Bool.not_eq_true', Bool.and_eq_false_iff, beq_eq_false_iff_ne, ne_eq] at hl2
        refine ⟨hl2.1, ?_⟩
        intro hid
        obtain ⟨o2, ho2, h1, h2, _⟩ := h.listedIn s2 hs2 b id2 hl2.1
        have := obj_unique h.idsNodup ho2 ho (h1.trans hid)
        subst this
        rcases hl2.2 with hb | hb
        · exact hb h2
        · exact hb hid
      · have hne : (s2.sid == s.sid) = false := by simpa using heq
        simp only [hne] at hl2
        refine ⟨hl2, ?_⟩
        intro hid
        obtain ⟨o2, ho2, h1, _, h3⟩ := h.listedIn s2 hs2 b id2 hl2
        have := obj_unique h.idsNodup ho2 ho (h1.trans hid)
        subst this
        exact heq (h3.symm.trans hown)
    obtain ⟨o2, ho2, h1, h2, h3⟩ := h.listedIn s2 hs2 b id2 key.1
    refine ⟨o2, mem_dropId.mpr ⟨ho2, by rw [h1]; exact key.2⟩, h1, h2, ?_⟩
    split <;> simpa using h3
  · intro o2 ho2
    obtain ⟨ho2, hne⟩ := mem_dropId.mp ho2
    exact mem_dropId.mpr ⟨h.openRes o2 ho2, hne⟩

theorem Inv_mcuOpen_sub {st : State} (m : List Obj) (hsub : ∀ o ∈ m, o ∈ st.mcuOpen) (h : Inv st) :
    Inv { st with mcuOpen := m } :=
  ⟨h.sidsNodup, h.sidsLt, h.idsNodup, h.idsLt, h.owned, h.listedIn, fun o ho => h.openRes o (hsub o ho)⟩

theorem findSess_none {st : State} {sid : Nat} (h : findSess st sid = none) :
    ∀ s ∈ st.sessions, s.sid ≠ sid := by
  intro s hs
  have := List.find?_eq_none.mp h s hs
  simpa using this

/-- `clearPublishers` + `clearSubscribers` of one session. -/
theorem Inv_clearSess {st : State} (sid : Nat) (h : Inv st) : Inv (clearSess sid true true st) := by
  unfold clearSess
  cases hf : findSess st sid with
  | none => exact h
  | some s =>
    obtain ⟨hs, rfl⟩ := findSess_mem hf
    simp only [if_true]
    have hsid : ∀ x : Sess, ({ x with pubs := [], subs := [] } : Sess).sid = x.sid := fun _ => rfl
    have hids : ∀ id, id ∈ s.pubs ++ s.subs → ∃ o ∈ st.clients, o.id = id ∧ o.owner = s.sid := by
      intro id hid
      rcases List.mem_append.mp hid with hp | hp
      · obtain ⟨o, ho, h1, _, h3⟩ := h.listedIn s hs true id (by simpa [listed] using hp)
        exact ⟨o, ho, h1, h3⟩
      · obtain ⟨o, ho, h1, _, h3⟩ := h.listedIn s hs false id (by simpa [listed] using hp)
        exact ⟨o, ho, h1, h3⟩
    constructor
    · simp only [updSess_map_sid hsid]; exact h.sidsNodup
    · intro s' hs'
      obtain ⟨s2, hs2, rfl⟩ := mem_updSess.mp hs'
      have := h.sidsLt s2 hs2
      split <;> simpa using this
    · exact nodup_ids_filter _ h.idsNodup
    · intro o ho; exact h.idsLt o (mem_dropIds.mp ho).1
    · intro o ho
      obtain ⟨ho, hni⟩ := mem_dropIds.mp ho
      obtain ⟨s2, hs2, h1, h2⟩ := h.owned o ho
      have hne : s2.sid ≠ s.sid := by
        intro heq
        have := sess_unique h.sidsNodup hs2 hs heq
        subst this
        apply hni
        rw [listed_iff] at h2
        cases hb : o.isPub <;> simp [hb] at h2 <;> simp [h2]
      refine ⟨_, mem_updSess.mpr ⟨s2, hs2, rfl⟩, ?_, ?_⟩
      · split <;> simpa using h1
      · have : (s2.sid == s.sid) = false := by simpa using hne
        simp only [this]; exact h2
    · intro s' hs' b id hl
      obtain ⟨s2, hs2, rfl⟩ := mem_updSess.mp hs'
      by_cases heq : s2.sid = s.sid
      · simp only [heq, beq_self_eq_true, if_true] at hl
        cases b <;> simp [listed] at hl
      · have hne : (s2.sid == s.sid) = false := by simpa using heq
        simp only [hne] at hl ⊢
        obtain ⟨o, ho, h1, h2, h3⟩ := h.listedIn s2 hs2 b id hl
        refine ⟨o, mem_dropIds.mpr ⟨ho, ?_⟩, h1, h2, h3⟩
        intro hin
        obtain ⟨o', ho', h1', h3'⟩ := hids o.id hin
        have := obj_unique h.idsNodup ho' ho h1'
        subst this
        exact heq (h3.symm.trans h3')
    · intro o ho
      obtain ⟨ho, hni⟩ := mem_dropIds.mp ho
      exact mem_dropIds.mpr ⟨h.openRes o ho, hni⟩

theorem clearSess_empties {st : State} (sid : Nat) :
    ∀ s ∈ (clearSess sid true true st).sessions, s.sid = sid → s.pubs = [] ∧ s.subs = [] := by
  unfold clearSess
  cases hf : findSess st sid with
  | none => intro s hs heq; exact absurd heq (findSess_none hf s hs)
  | some s0 =>
    intro s hs heq
    obtain ⟨s2, _, rfl⟩ := mem_updSess.mp hs
    by_cases h2 : s2.sid = sid
    · simp [h2]
    · have hne : (s2.sid == sid) = false := by simpa using h2
      simp only [hne] at heq
      exact absurd heq h2

/-- Removing a session whose ownership tables are empty. -/
theorem Inv_removeSession {st : State} (sid : Nat)
    (hempty : ∀ s ∈ st.sessions, s.sid = sid → s.pubs = [] ∧ s.subs = []) (h : Inv st) :
    Inv { st with sessions := st.sessions.filter (fun x => !(x.sid == sid)) } := by
  constructor
  · exact List.Nodup.sublist ((List.filter_sublist (l := st.sessions)).map _) h.sidsNodup
  · intro s hs; exact h.sidsLt s (List.mem_filter.mp hs).1
  · exact h.idsNodup
  · exact h.idsLt
  · intro o ho
    obtain ⟨s, hs, h1, h2⟩ := h.owned o ho
    refine ⟨s, List.mem_filter.mpr ⟨hs, ?_⟩, h1, h2⟩
    simp only [Bool.not_eq_true', beq_eq_false_iff_ne, ne_eq]
    intro heq
    obtain ⟨hp, hq⟩ := hempty s hs heq
    cases hb : o.isPub <;> simp [listed, hb, hp, hq] at h2
  · intro s hs b id hl
    exact h.listedIn s (List.mem_filter.mp hs).1 b id hl
  · exact h.openRes

/-! ## The composite transitions keep the invariant -/

theorem deleteSessionCloses_eq : deleteSessionCloses = true := by decide
theorem closeClearsPubs_eq : closeClearsPubs = true := by decide
theorem closeClearsSubs_eq : closeClearsSubs = true := by decide
theorem downClearsPubs_eq : downClearsPubs = true := by decide
theorem downClearsSubs_eq : downClearsSubs = true := by decide
theorem ownerCheck_eq (b : Bool) : ownerCheck b = true := by cases b <;> decide

theorem Inv_byeTo {st : State} (c : Option Nat) (r : String) (h : Inv st) : Inv (byeTo st c r).1 := by
  unfold byeTo
  cases c with
  | none => exact h
  | some c =>
    simp only
    split
    · exact Inv_conns _ h
    · exact h

theorem Inv_detach {st : State} (c : Option Nat) (h : Inv st) : Inv (detach c st) := by
  unfold detach
  cases c with
  | none => exact h
  | some c => exact Inv_conns _ h

theorem Inv_closeSession {st : State} (sid : Nat) (h : Inv st) : Inv (closeSession sid st).1 := by
  unfold closeSession
  cases hf : findSess st sid with
  | none => exact h
  | some s =>
    simp only [closeClearsPubs_eq, closeClearsSubs_eq]
    exact Inv_removeSession _ (clearSess_empties sid) (Inv_clearSess _ (Inv_byeTo _ _ (Inv_detach _ h)))

theorem Inv_closeAll {st : State} (l : List Nat) (h : Inv st) : Inv (closeAll l st).1 := by
  induction l generalizing st with
  | nil => exact h
  | cons sid rest ih =>
    simp only [closeAll]
    exact ih (Inv_closeSession sid h)

theorem Inv_mcuDownAll {st : State} (l : List Nat) (h : Inv st) : Inv (mcuDownAll l st).1 := by
  induction l generalizing st with
  | nil => exact h
  | cons sid rest ih =>
    simp only [mcuDownAll, downClearsPubs_eq, downClearsSubs_eq]
    exact ih (Inv_clearSess sid h)

theorem Inv_doMcuClose {st : State} (id : Nat) (h : Inv st) : Inv (doMcuClose id st).1 := by
  unfold doMcuClose
  cases hf : findObj st.mcuOpen id with
  | none => exact h
  | some o =>
    obtain ⟨ho, rfl⟩ := findObj_mem hf
    have h1 : Inv { st with mcuOpen := dropId o.id st.mcuOpen } :=
      Inv_mcuOpen_sub _ (fun x hx => (mem_dropId.mp hx).1) h
    simp only
    cases hs : findSess { st with mcuOpen := dropId o.id st.mcuOpen } o.owner with
    | none => exact h1
    | some s =>
      simp only
      obtain ⟨hsm, _⟩ := findSess_mem hs
      cases hl : listed s o.isPub o.id with
      | false => simpa using h1
      | true =>
        simp only [Bool.not_true, Bool.false_eq_true, if_false]
        have h2 := Inv_deleteObj (st := st) (h.openRes o ho) hsm hl h
        refine ⟨h2.sidsNodup, h2.sidsLt, h2.idsNodup, h2.idsLt, h2.owned, h2.listedIn, ?_⟩
        intro x hx
        exact h2.openRes x hx

theorem Inv_pingConn {st : State} (t : Int) (x : Conn) (h : Inv st) : Inv (pingConn t st x) := by
  unfold pingConn
  cases x.sess with
  | none => exact h
  | some sid =>
    simp only
    split
    · exact h
    · split
      · exact Inv_markUsed _ _ h
      · exact h

theorem Inv_foldl_ping {st : State} (t : Int) (cs : List Conn) (h : Inv st) :
    Inv (cs.foldl (pingConn t) st) := by
  induction cs generalizing st with
  | nil => exact h
  | cons x xs ih => exact ih (Inv_pingConn t x h)

theorem Inv_now {st : State} (t : Int) (h : Inv st) : Inv { st with now := t } :=
  ⟨h.sidsNodup, h.sidsLt, h.idsNodup, h.idsLt, h.owned, h.listedIn, h.openRes⟩

theorem Inv_doSleep {st : State} (d : Nat) (h : Inv st) : Inv (doSleep d st) := by
  unfold doSleep
  exact Inv_now _ (Inv_foldl_ping _ _ h)

theorem Inv_sessClient {st : State} (sid : Nat) (c : Option Nat) (h : Inv st) :
    Inv { st with sessions := updSess sid (fun x => { x with client := c }) st.sessions } := by
  refine Inv_congr (st := st) (st' := { st with sessions := updSess sid (fun x => { x with client := c }) st.sessions })
    (fun s => if s.sid == sid then { s with client := c } else s) ?_ rfl rfl rfl rfl rfl h
  intro s; split <;> simp

theorem Inv_doHello {cfg : Cfg} {st : State} (c : Nat) (hl : Hello) (h : Inv st) :
    Inv (doHello cfg st c hl).1 := by
  cases hl with
  | token t =>
    simp only [doHello]
    split
    · exact h
    · exact Inv_addSession _ _ _ h
  | resume target =>
    simp only [doHello]
    split
    · exact h
    · rename_i s _
      apply Inv_byeTo
      apply Inv_conns
      have h1 := Inv_sessClient s.sid (some c) (Inv_markUsed s.sid st.now h)
      cases s.client with
      | none => exact h1
      | some p => exact Inv_conns _ h1

theorem Inv_createObjStep {st : State} (c sid : Nat) (isPub : Bool) (o : Outcome)
    (hs : ∃ s ∈ st.sessions, s.sid = sid) (h : Inv st) : Inv (createObj st c sid isPub o).1 := by
  cases o with
  | ok => exact Inv_createObj sid isPub hs h
  | fail => exact h
  | timeout => exact h
  | late => exact Inv_pending _ h

theorem lateStoreGuard_eq (b : Bool) : lateStoreGuard b = true := by cases b <;> decide

theorem Inv_nextObj {st : State} (h : Inv st) : Inv { st with nextObj := st.nextObj + 1 } :=
  ⟨h.sidsNodup, h.sidsLt, h.idsNodup, fun o ho => Nat.lt_succ_of_lt (h.idsLt o ho), h.owned, h.listedIn, h.openRes⟩

theorem Inv_finishLate {st : State} (p : Pend) (o : Outcome) (h : Inv st) : Inv (finishLate st p o).1 := by
  unfold finishLate
  rw [lateStoreGuard_eq]
  cases o with
  | ok =>
    simp only [finishLateWith]
    cases hf : findSess st p.sid with
    | none => exact Inv_nextObj h
    | some s => exact Inv_createObj p.sid p.isPub ⟨s, (findSess_mem hf).1, (findSess_mem hf).2⟩ h
  | fail => exact h
  | timeout => exact h
  | late => exact Inv_pending _ h

theorem Inv_doRelease {st : State} (c : Nat) (o : Outcome) (h : Inv st) : Inv (doRelease st c o).1 := by
  unfold doRelease
  split
  · exact h
  · exact Inv_finishLate _ _ (Inv_pending _ h)

theorem Inv_deleteObjStep {st : State} (c : Nat) (s : Sess) (isPub : Bool) (id : Nat)
    (hs : ∃ s0 ∈ st.sessions, s0.sid = s.sid ∧ s0.pubs = s.pubs ∧ s0.subs = s.subs) (h : Inv st) :
    Inv (deleteObj st c s isPub id).1 := by
  unfold deleteObj
  cases hf : findObj st.clients id with
  | none => exact h
  | some o =>
    obtain ⟨ho, rfl⟩ := findObj_mem hf
    simp only [ownerCheck_eq, Bool.true_and]
    split
    · exact h
    · rename_i hk
      have hk' : o.isPub = isPub := by simpa using hk
      subst hk'
      split
      · exact h
      · rename_i hl
        obtain ⟨s0, hs0, h1, h2, h3⟩ := hs
        have hl0 : listed s0 o.isPub o.id = true := by
          have : listed s o.isPub o.id = true := by simpa using hl
          simpa [listed, h2, h3] using this
        rw [← h1]
        exact Inv_deleteObj ho hs0 hl0 h

theorem Inv_doSessionMsg {st : State} (c : Nat) (s : Sess) (m : Msg)
    (hs : ∃ s0 ∈ st.sessions, s0.sid = s.sid ∧ s0.pubs = s.pubs ∧ s0.subs = s.subs) (h : Inv st) :
    Inv (doSessionMsg st c s m).1 := by
  have hs' : ∃ s0 ∈ st.sessions, s0.sid = s.sid := by
    obtain ⟨s0, h0, h1, _⟩ := hs; exact ⟨s0, h0, h1⟩
  cases m with
  | invalid => exact h
  | hello _ => exact h
  | other => exact h
  | unknownCmd => exact h
  | createPub o => exact Inv_createObjStep c s.sid true o hs' h
  | createSub o => exact Inv_createObjStep c s.sid false o hs' h
  | deletePub id => exact Inv_deleteObjStep c s true id hs h
  | deleteSub id => exact Inv_deleteObjStep c s false id hs h
  | pubCmd id o =>
    simp only [doSessionMsg]
    split
    · exact h
    · split
      · exact h
      · cases o <;> exact h
  | payload id k o =>
    simp only [doSessionMsg]
    split
    · exact h
    · cases k
      · cases o <;> exact h
      · exact h
      · exact h
  | bye => exact Inv_closeSession s.sid h

theorem markUsed_sess {st : State} {sid : Nat} {t : Int} {s : Sess} (hs : s ∈ st.sessions) :
    ∃ s0 ∈ (markUsed sid t st).sessions, s0.sid = s.sid ∧ s0.pubs = s.pubs ∧ s0.subs = s.subs := by
  refine ⟨_, mem_updSess.mpr ⟨s, hs, rfl⟩, ?_⟩
  split <;> simp

theorem Inv_doMsg {cfg : Cfg} {st : State} (c : Nat) (m : Msg) (h : Inv st) : Inv (doMsg cfg st c m).1 := by
  unfold doMsg
  split
  · exact h
  · split
    · exact h
    · split
      · exact h
      · split
        · split
          · split
            · exact Inv_doHello _ _ h
            · exact h
          · exact h
        · rename_i x _ _ _ _ s hs
          have hmem : s ∈ st.sessions := by
            cases hx : x.sess with
            | none => simp [hx] at hs
            | some sid => simp [hx] at hs; exact (findSess_mem hs).1
          apply Inv_doSessionMsg _ _ _ _ (Inv_markUsed _ _ h)
          obtain ⟨s0, h0, h1⟩ := markUsed_sess (sid := s.sid) (t := st.now) hmem
          exact ⟨s0, h0, h1⟩

theorem Inv_step {cfg : Cfg} {st : State} (op : Op) (h : Inv st) : Inv (step cfg st op).1 := by
  cases op with
  | connect c =>
    simp only [step]
    split
    · exact h
    · exact Inv_conns _ h
  | msg c m =>
    simp only [step]
    split
    · exact h
    · exact Inv_doMsg c m h
  | close c =>
    simp only [step]
    split
    · exact h
    · split
      · exact h
      · split
        · exact h
        · split
          · exact Inv_markUsed _ _ (Inv_conns _ h)
          · exact Inv_conns _ h
  | sleep d => exact Inv_doSleep d h
  | expire => exact Inv_closeAll _ h
  | mcuDown => exact Inv_mcuDownAll _ h
  | mcuClose id => exact Inv_doMcuClose id h
  | release c o => exact Inv_doRelease c o h

theorem Inv_run {cfg : Cfg} {st : State} (ops : List Op) (h : Inv st) : Inv (run cfg st ops) := by
  induction ops generalizing st with
  | nil => exact h
  | cons op ops ih => exact ih (Inv_step op h)

/-! ## Which session ids exist -/

/-- No new session ids, same counter. -/
def SidsSub (st st' : State) : Prop := (∀ x ∈ sids st', x ∈ sids st) ∧ st'.nextSid = st.nextSid

theorem SidsSub.refl (st : State) : SidsSub st st := ⟨fun _ h => h, rfl⟩

theorem SidsSub.trans {a b c : State} (h1 : SidsSub a b) (h2 : SidsSub b c) : SidsSub a c :=
  ⟨fun x hx => h1.1 x (h2.1 x hx), h2.2.trans h1.2⟩

theorem SidsSub_of_eq {st st' : State} (hs : sids st' = sids st) (hn : st'.nextSid = st.nextSid) : SidsSub st st' :=
  ⟨fun x hx => hs ▸ hx, hn⟩

theorem sids_updSess {st : State} {sid : Nat} {f : Sess → Sess} (hf : ∀ s, (f s).sid = s.sid) :
    (updSess sid f st.sessions).map (·.sid) = sids st := updSess_map_sid hf _

theorem SidsSub_markUsed (st : State) (sid : Nat) (t : Int) : SidsSub st (markUsed sid t st) :=
  SidsSub_of_eq (sids_updSess (fun _ => rfl)) rfl

theorem byeTo_fields (st : State) (c : Option Nat) (r : String) :
    (byeTo st c r).1.sessions = st.sessions ∧ (byeTo st c r).1.clients = st.clients ∧
    (byeTo st c r).1.mcuOpen = st.mcuOpen ∧ (byeTo st c r).1.nextSid = st.nextSid ∧
    (byeTo st c r).1.nextObj = st.nextObj ∧ (byeTo st c r).1.now = st.now := by
  unfold byeTo
  cases c with
  | none => simp
  | some c => simp only; split <;> simp

theorem SidsSub_byeTo (st : State) (c : Option Nat) (r : String) : SidsSub st (byeTo st c r).1 := by
  have := byeTo_fields st c r
  exact SidsSub_of_eq (by unfold sids; rw [this.1]) this.2.2.2.1

theorem SidsSub_detach (st : State) (c : Option Nat) : SidsSub st (detach c st) := by
  unfold detach; cases c <;> exact SidsSub.refl _

theorem SidsSub_clearSess (st : State) (sid : Nat) (a b : Bool) : SidsSub st (clearSess sid a b st) := by
  unfold clearSess
  cases findSess st sid with
  | none => exact SidsSub.refl _
  | some s => exact SidsSub_of_eq (sids_updSess (fun _ => rfl)) rfl

theorem sids_dropSession (st : State) (sid : Nat) : sids (dropSession sid st) = (sids st).filter (fun x => !(x == sid)) := by
  simp [sids, dropSession, List.filter_map, Function.comp_def]

theorem SidsSub_dropSession (st : State) (sid : Nat) : SidsSub st (dropSession sid st) :=
  ⟨fun x hx => by rw [sids_dropSession] at hx; exact (List.mem_filter.mp hx).1, rfl⟩

theorem SidsSub_closeSession (st : State) (sid : Nat) : SidsSub st (closeSession sid st).1 := by
  unfold closeSession
  cases findSess st sid with
  | none => exact SidsSub.refl _
  | some s =>
    exact ((SidsSub_detach st _).trans (SidsSub_byeTo _ _ _)).trans
      ((SidsSub_clearSess _ _ _ _).trans (SidsSub_dropSession _ _))

theorem closeSession_not_mem (st : State) (sid : Nat) : sid ∉ sids (closeSession sid st).1 := by
  unfold closeSession
  cases hf : findSess st sid with
  | none =>
    intro hx
    obtain ⟨s, hs, h1⟩ := List.mem_map.mp hx
    exact findSess_none hf s hs h1
  | some s =>
    simp only [sids_dropSession]
    intro hx
    have := (List.mem_filter.mp hx).2
    simp at this

theorem SidsSub_closeAll (st : State) (l : List Nat) : SidsSub st (closeAll l st).1 := by
  induction l generalizing st with
  | nil => exact SidsSub.refl _
  | cons sid rest ih => exact (SidsSub_closeSession st sid).trans (ih _)

theorem closeAll_not_mem (st : State) (l : List Nat) : ∀ sid ∈ l, sid ∉ sids (closeAll l st).1 := by
  induction l generalizing st with
  | nil => intro sid h; cases h
  | cons a rest ih =>
    intro sid hs
    simp only [closeAll]
    rcases List.mem_cons.mp hs with rfl | hr
    · intro hx
      exact closeSession_not_mem st sid ((SidsSub_closeAll _ rest).1 _ hx)
    · exact ih _ sid hr

theorem SidsSub_mcuDownAll (st : State) (l : List Nat) : SidsSub st (mcuDownAll l st).1 := by
  induction l generalizing st with
  | nil => exact SidsSub.refl _
  | cons sid rest ih => exact (SidsSub_clearSess st sid _ _).trans (ih _)

theorem SidsSub_storeObj (st : State) (sid : Nat) (b : Bool) : SidsSub st (storeObj st sid b) :=
  SidsSub_of_eq (sids_updSess (addOwned_sid _ _)) rfl

theorem SidsSub_createObj (st : State) (c sid : Nat) (b : Bool) (o : Outcome) : SidsSub st (createObj st c sid b o).1 := by
  cases o with
  | ok => exact SidsSub_storeObj _ _ _
  | fail => exact SidsSub.refl _
  | timeout => exact SidsSub.refl _
  | late => exact SidsSub.refl _

theorem SidsSub_finishLate (st : State) (p : Pend) (o : Outcome) : SidsSub st (finishLate st p o).1 := by
  unfold finishLate
  cases o with
  | ok =>
    simp only [finishLateWith]
    split
    · exact SidsSub_storeObj _ _ _
    · split <;> exact SidsSub.refl _
  | fail => exact SidsSub.refl _
  | timeout => exact SidsSub.refl _
  | late => exact SidsSub.refl _

theorem SidsSub_doRelease (st : State) (c : Nat) (o : Outcome) : SidsSub st (doRelease st c o).1 := by
  unfold doRelease
  split
  · exact SidsSub.refl _
  · exact SidsSub.trans (SidsSub.refl _ : SidsSub st { st with pending := _ }) (SidsSub_finishLate _ _ _)

theorem SidsSub_deleteObj (st : State) (c : Nat) (s : Sess) (b : Bool) (id : Nat) :
    SidsSub st (deleteObj st c s b id).1 := by
  unfold deleteObj
  split
  · exact SidsSub.refl _
  · split
    · exact SidsSub.refl _
    · split
      · exact SidsSub.refl _
      · exact SidsSub_of_eq (sids_updSess (removeOwned_sid _ _)) rfl

theorem SidsSub_doSessionMsg (st : State) (c : Nat) (s : Sess) (m : Msg) : SidsSub st (doSessionMsg st c s m).1 := by
  cases m with
  | invalid => exact SidsSub.refl _
  | hello _ => exact SidsSub.refl _
  | other => exact SidsSub.refl _
  | unknownCmd => exact SidsSub.refl _
  | createPub o => exact SidsSub_createObj _ _ _ _ _
  | createSub o => exact SidsSub_createObj _ _ _ _ _
  | deletePub id => exact SidsSub_deleteObj _ _ _ _ _
  | deleteSub id => exact SidsSub_deleteObj _ _ _ _ _
  | pubCmd id o =>
    simp only [doSessionMsg]
    split
    · exact SidsSub.refl _
    · split
      · exact SidsSub.refl _
      · cases o <;> exact SidsSub.refl _
  | payload id k o =>
    simp only [doSessionMsg]
    split
    · exact SidsSub.refl _
    · cases k
      · cases o <;> exact SidsSub.refl _
      · exact SidsSub.refl _
      · exact SidsSub.refl _
  | bye => exact SidsSub_closeSession _ _

theorem SidsSub_pingConn (st : State) (t : Int) (x : Conn) : SidsSub st (pingConn t st x) := by
  unfold pingConn
  cases x.sess with
  | none => exact SidsSub.refl _
  | some sid =>
    simp only
    split
    · exact SidsSub.refl _
    · split
      · exact SidsSub_markUsed _ _ _
      · exact SidsSub.refl _

theorem SidsSub_foldl_ping (st : State) (t : Int) (cs : List Conn) : SidsSub st (cs.foldl (pingConn t) st) := by
  induction cs generalizing st with
  | nil => exact SidsSub.refl _
  | cons x xs ih => exact (SidsSub_pingConn st t x).trans (ih _)

theorem SidsSub_doMcuClose (st : State) (id : Nat) : SidsSub st (doMcuClose id st).1 := by
  unfold doMcuClose
  split
  · exact SidsSub.refl _
  · simp only
    split
    · exact SidsSub.refl _
    · split
      · exact SidsSub.refl _
      · exact SidsSub_of_eq (sids_updSess (removeOwned_sid _ _)) rfl

theorem newSessionNeedsToken_eq : newSessionNeedsToken = true := by decide
theorem preHelloOnlyType_eq : (preHelloOnlyType == "hello") = true := by decide
theorem checkValidBeforeDispatch_eq : checkValidBeforeDispatch = true := by decide

/-- A hello either leaves the session ids alone or adds exactly `nextSid`, and the
latter only for a token that `parseToken` accepts. -/
theorem doHello_sids (cfg : Cfg) (st : State) (c : Nat) (hl : Hello) :
    SidsSub st (doHello cfg st c hl).1 ∨
    (∃ t, hl = .token t ∧ parseToken cfg st.now t = none ∧
      sids (doHello cfg st c hl).1 = sids st ++ [st.nextSid] ∧ (doHello cfg st c hl).1.nextSid = st.nextSid + 1) := by
  cases hl with
  | token t =>
    simp only [doHello, newSessionNeedsToken_eq, if_true]
    cases hp : parseToken cfg st.now t with
    | some e => exact Or.inl (SidsSub.refl _)
    | none => exact Or.inr ⟨t, rfl, hp, by simp [sids], rfl⟩
  | resume target =>
    left
    simp only [doHello]
    split
    · exact SidsSub.refl _
    · rename_i s _
      refine SidsSub.trans ?_ (SidsSub_byeTo _ _ _)
      refine SidsSub.trans (SidsSub_markUsed st s.sid st.now) ?_
      refine SidsSub_of_eq ?_ ?_
      · cases s.client <;> exact sids_updSess (fun _ => rfl)
      · cases s.client <;> rfl

theorem step_sids (cfg : Cfg) (st : State) (op : Op) :
    SidsSub st (step cfg st op).1 ∨
    (∃ c t, op = .msg c (.hello (.token t)) ∧ parseToken cfg st.now t = none ∧
      sids (step cfg st op).1 = sids st ++ [st.nextSid] ∧ (step cfg st op).1.nextSid = st.nextSid + 1) := by
  cases op with
  | connect c =>
    simp only [step]
    split <;> exact Or.inl (SidsSub.refl _)
  | release c o => exact Or.inl (SidsSub_doRelease _ _ _)
  | close c =>
    left
    simp only [step]
    split
    · exact SidsSub.refl _
    · split
      · exact SidsSub.refl _
      · split
        · exact SidsSub.refl _
        · split
          · exact SidsSub_of_eq (sids_updSess (fun _ => rfl)) rfl
          · exact SidsSub.refl _
  | sleep d => exact Or.inl (SidsSub_foldl_ping st _ _ |> fun h => ⟨h.1, h.2⟩)
  | expire => exact Or.inl (SidsSub_closeAll _ _)
  | mcuDown => exact Or.inl (SidsSub_mcuDownAll _ _)
  | mcuClose id => exact Or.inl (SidsSub_doMcuClose _ _)
  | msg c m =>
    simp only [step]
    split
    · exact Or.inl (SidsSub.refl _)
    unfold doMsg
    split
    · exact Or.inl (SidsSub.refl _)
    · split
      · exact Or.inl (SidsSub.refl _)
      · split
        · exact Or.inl (SidsSub.refl _)
        · split
          · cases m with
            | hello hl =>
              simp only [preHelloOnlyType_eq, if_true]
              rcases doHello_sids cfg st c hl with h | ⟨t, rfl, h2, h3, h4⟩
              · exact Or.inl h
              · exact Or.inr ⟨c, t, rfl, h2, h3, h4⟩
            | _ => exact Or.inl (SidsSub.refl _)
          · exact Or.inl ((SidsSub_markUsed _ _ _).trans (SidsSub_doSessionMsg _ _ _ _))

/-! ## `created` replies -/

def NoCreated (o : Outs) : Prop := ∀ p ∈ o, ∀ id, p.2 ≠ .created id

theorem NoCreated_nil : NoCreated [] := by intro p h; cases h
theorem NoCreated_append {a b : Outs} (ha : NoCreated a) (hb : NoCreated b) : NoCreated (a ++ b) := by
  intro p hp; rcases List.mem_append.mp hp with h | h
  · exact ha p h
  · exact hb p h
theorem NoCreated_errOut (c : Nat) (code : String) : NoCreated (errOut c code) := by
  intro p hp id; simp [errOut] at hp; subst hp; simp
theorem NoCreated_sendTo (st : State) (c : Option Nat) (m : SMsg) (hm : ∀ id, m ≠ .created id) :
    NoCreated (sendTo st c m) := by
  unfold sendTo
  cases c with
  | none => exact NoCreated_nil
  | some c =>
    simp only; split
    · intro p hp id; simp at hp; subst hp; exact hm id
    · exact NoCreated_nil
theorem NoCreated_byeTo (st : State) (c : Option Nat) (r : String) : NoCreated (byeTo st c r).2 := by
  unfold byeTo
  cases c with
  | none => exact NoCreated_nil
  | some c =>
    simp only; split
    · intro p hp id; simp at hp; subst hp; simp
    · exact NoCreated_nil
theorem NoCreated_closeSession (sid : Nat) (st : State) : NoCreated (closeSession sid st).2 := by
  unfold closeSession
  cases findSess st sid with
  | none => exact NoCreated_nil
  | some s => exact NoCreated_byeTo _ _ _
theorem NoCreated_doHello (cfg : Cfg) (st : State) (c : Nat) (hl : Hello) : NoCreated (doHello cfg st c hl).2 := by
  cases hl with
  | token t =>
    simp only [doHello]
    split
    · exact NoCreated_errOut _ _
    · intro p hp id; simp at hp; rcases hp with rfl | rfl <;> simp
  | resume target =>
    simp only [doHello]
    split
    · exact NoCreated_errOut _ _
    · refine NoCreated_append (NoCreated_append (NoCreated_append ?_ ?_) ?_) ?_
      · exact NoCreated_sendTo _ _ _ (by simp)
      · exact NoCreated_byeTo _ _ _
      · exact NoCreated_sendTo _ _ _ (by simp)
      · exact NoCreated_sendTo _ _ _ (by simp)
theorem NoCreated_deleteObj (st : State) (c : Nat) (s : Sess) (b : Bool) (id : Nat) :
    NoCreated (deleteObj st c s b id).2 := by
  unfold deleteObj
  split
  · exact NoCreated_errOut _ _
  · split
    · exact NoCreated_errOut _ _
    · split
      · exact NoCreated_errOut _ _
      · intro p hp id; simp at hp; subst hp; simp

/-- A `created` reply goes to the connection that asked, that connection has a
session, and the new object — resolvable and open — has that session as owner. -/
theorem created_owned (cfg : Cfg) (st : State) (c : Nat) (m : Msg) (c' id : Nat)
    (h : (c', SMsg.created id) ∈ (step cfg st (.msg c m)).2) :
    c' = c ∧ ∃ x sid b, findConn st c = some x ∧ x.sess = some sid ∧
      (⟨id, b, sid⟩ : Obj) ∈ (step cfg st (.msg c m)).1.clients ∧
      (⟨id, b, sid⟩ : Obj) ∈ (step cfg st (.msg c m)).1.mcuOpen := by
  have no : ∀ {o : Outs}, NoCreated o → (c', SMsg.created id) ∈ o → False :=
    fun hn hm => hn _ hm id rfl
  simp only [step] at h ⊢
  by_cases hb : isBusy st c = true
  · simp [hb] at h
  have hb' : isBusy st c = false := by simpa using hb
  simp only [hb', Bool.false_eq_true, if_false] at h ⊢
  unfold doMsg at h ⊢
  cases hf : findConn st c with
  | none => simp [hf] at h
  | some x =>
    simp only [hf] at h ⊢
    split at h
    · simp at h
    · rename_i hopen
      simp only [hopen]
      split at h
      · exact (no (NoCreated_errOut _ _) h).elim
      · rename_i hval
        simp only [hval]
        cases hs : x.sess.bind (findSess st) with
        | none =>
          simp only [hs] at h
          cases m with
          | hello hl =>
            simp only at h
            split at h
            · exact (no (NoCreated_doHello _ _ _ _) h).elim
            · exact (no (NoCreated_errOut _ _) h).elim
          | _ => exact (no (NoCreated_errOut _ _) h).elim
        | some s =>
          simp only [hs] at h ⊢
          have hxs : x.sess = some s.sid := by
            cases hx : x.sess with
            | none => simp [hx] at hs
            | some sid => simp [hx] at hs; rw [(findSess_mem hs).2]
          have crt : ∀ (b : Bool) (o : Outcome),
              (c', SMsg.created id) ∈ (createObj (markUsed s.sid st.now st) c s.sid b o).2 →
              c' = c ∧ ∃ x' sid b', some x = some x' ∧ x'.sess = some sid ∧
                (⟨id, b', sid⟩ : Obj) ∈ (createObj (markUsed s.sid st.now st) c s.sid b o).1.clients ∧
                (⟨id, b', sid⟩ : Obj) ∈ (createObj (markUsed s.sid st.now st) c s.sid b o).1.mcuOpen := by
            intro b o ho
            cases o with
            | ok =>
              simp [createObj] at ho
              obtain ⟨rfl, rfl⟩ := ho
              exact ⟨rfl, x, s.sid, b, rfl, hxs, by simp [createObj, storeObj, markUsed], by simp [createObj, storeObj, markUsed]⟩
            | fail => exact (no (NoCreated_errOut _ _) ho).elim
            | timeout => exact (no (NoCreated_errOut _ _) ho).elim
            | late => simp [createObj] at ho
          cases m with
          | createPub o => exact crt true o h
          | createSub o => exact crt false o h
          | invalid => exact (no (NoCreated_errOut _ _) h).elim
          | hello _ => exact (no (NoCreated_errOut _ _) h).elim
          | other => exact (no (NoCreated_errOut _ _) h).elim
          | unknownCmd => exact (no (NoCreated_errOut _ _) h).elim
          | deletePub i => exact (no (NoCreated_deleteObj _ _ _ _ _) h).elim
          | deleteSub i => exact (no (NoCreated_deleteObj _ _ _ _ _) h).elim
          | bye => exact (no (NoCreated_closeSession _ _) h).elim
          | pubCmd i o =>
            simp only [doSessionMsg] at h
            split at h
            · exact (no (NoCreated_errOut _ _) h).elim
            · split at h
              · exact (no (NoCreated_errOut _ _) h).elim
              · cases o <;> simp [errOut] at h
          | payload i k o =>
            simp only [doSessionMsg] at h
            split at h
            · exact (no (NoCreated_errOut _ _) h).elim
            · cases k <;> cases o <;> simp [errOut] at h

end SigModel.Proxy
