/-
Hub lemmas, part 3: leaving a room preserves the invariant.
-/
import SigModel.Lemmas.HubInv

namespace SigModel.Hub

/-! ### leaving a room -/

/-- The structural effect of `leaveRoom` on session `s` in room `r` (deliveries aside). -/
def leaveStruct (h : Hub) (s : Nat) (x : Sess) (r : String) (rm : Room) : Hub :=
  let h1 : Hub := if x.kind = .virtual then h else setRoomL h x.backend r (removeL (h.roomL x.backend r) s)
  let h3 := setSess (rsDelete h1 s) s (some { x with room := none, roomSess := "", seenJoin := [] })
  let rm1 : Room := { rm with
    members := removeL rm.members s
    inCall := removeL rm.inCall s
    sessUser := rm.sessUser.filter (fun p => p.1 ≠ s)
    users := if x.kind = .virtual then rm.users.filter (fun u => u.sid ≠ s) else rm.users }
  if removeL rm.members s = [] then setRoom h3 x.backend r none else setRoom h3 x.backend r (some rm1)

set_option maxHeartbeats 4000000 in
theorem leaveStruct_inv {orph : List Nat} {h : Hub} (hi : InvX orph h) {s : Nat} {x : Sess} {r : String} {rm : Room}
    (hx : h.sess s = some x) (hr : x.room = some r) (hrm : h.rooms x.backend r = some rm) :
    InvX orph (leaveStruct h s x r rm) := by
  have hmem : s ∈ rm.members := by
    obtain ⟨rm', h1, h2⟩ := hi.room_mem' s x r hx hr
    rw [hrm] at h1; cases h1; exact h2
  unfold leaveStruct
  obtain ⟨f1, f2, f3, f4, f5, f6, f7, f8, f9, f10, f11, f12, f13, f14, f15, f16, f17, f18, f19, f20, f21, f22, f23, f24, f25⟩ := hi
  have hall : removeL rm.members s = [] → ∀ t, t ∈ rm.members → t = s := by
    intro he t ht
    apply Decidable.byContradiction
    intro hne
    have : t ∈ removeL rm.members s := mem_removeL.mpr ⟨ht, hne⟩
    rw [he] at this; cases this
  by_cases hk : x.kind = .virtual <;> by_cases he : removeL rm.members s = [] <;>
    simp only [hk, he, if_true, if_false] <;> constructor
  all_goals (intros; simp only [hubf] at *; grind [mem_removeL, nodup_removeL, length_removeL_le])


theorem leaveRoom_core (a : Acc) (s : Nat) {x : Sess} {r : String} {rm : Room}
    (hx : a.h.sess s = some x) (hr : x.room = some r) (hrm : a.h.rooms x.backend r = some rm)
    (hmem : s ∈ rm.members) : CoreEq (leaveStruct a.h s x r rm) (leaveRoom a s).1.h := by
  unfold leaveRoom leaveStruct roomRemoveSession
  simp only [hx, hr]
  have hrooms : (setSess (rsDelete (if x.kind = .virtual then a.h else
      setRoomL a.h x.backend r (removeL (a.h.roomL x.backend r) s)) s) s
      (some { x with room := none, roomSess := "", seenJoin := [] })).rooms x.backend r = some rm := by
    simp only [hubf]; split <;> simp [hrm, hubf]
  simp only [hrooms]
  have hc : rm.members.contains s = true := by simpa using hmem
  simp only [hc, Bool.not_true, Bool.false_eq_true, if_false]
  by_cases he : removeL rm.members s = [] <;> cases hkind : x.kind <;>
    simp only [he, reduceCtorEq, if_true, if_false]
  all_goals first
    | exact coreOf ((pubRoom_core _ _ _ _).trans (publishUsersChangedWithInternal_core _ _ _)) rfl
    | exact coreOf (pubRoom_core _ _ _ _) rfl

theorem leaveRoom_inv {orph : List Nat} (a : Acc) (s : Nat) (hi : InvX orph a.h) :
    InvX orph (leaveRoom a s).1.h := by
  cases hx : a.h.sess s with
  | none => unfold leaveRoom; simp only [hx]; exact hi
  | some x =>
    cases hr : x.room with
    | none => unfold leaveRoom; simp only [hx, hr]; exact hi
    | some r =>
      obtain ⟨rm, hrm, hmem⟩ := hi.room_mem' s x r hx hr
      exact (leaveStruct_inv hi hx hr hrm).congr (leaveRoom_core a s hx hr hrm hmem)

end SigModel.Hub
