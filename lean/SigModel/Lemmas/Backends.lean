/-
Helper lemmas for C13 (static storage part): association-list table, `mergeHost`, `reload`.
-/
import SigModel.Model.Backends

namespace SigModel.Backends

/-! ### table operations -/

theorem tget_tset_same (t : Table) (h : String) (v : List Backend) : tget (tset t h v) h = some v := by
  induction t with
  | nil => simp [tset, tget]
  | cons e t ih =>
    obtain ⟨k, w⟩ := e
    by_cases hk : k = h <;> simp [tset, tget, hk, ih]

theorem tget_tset_other (t : Table) (h h' : String) (v : List Backend) (hne : h' ≠ h) :
    tget (tset t h v) h' = tget t h' := by
  induction t with
  | nil => simp [tset, tget]; intro hh; exact absurd hh.symm hne
  | cons e t ih =>
    obtain ⟨k, w⟩ := e
    by_cases hk : k = h
    · subst hk
      have : ¬ k = h' := fun hh => hne hh.symm
      simp [tset, tget, this]
    · by_cases hk' : k = h'
      · subst hk'; simp [tset, tget, hk]
      · simp [tset, tget, hk, hk', ih]

theorem tget_tset (t : Table) (h h' : String) (v : List Backend) :
    tget (tset t h v) h' = if h' = h then some v else tget t h' := by
  by_cases hh : h' = h
  · subst hh; simp [tget_tset_same]
  · simp [hh, tget_tset_other t h h' v hh]

theorem tget_tdel (t : Table) (h h' : String) :
    tget (tdel t h) h' = if h' = h then none else tget t h' := by
  induction t with
  | nil => simp [tdel, tget]
  | cons e t ih =>
    obtain ⟨k, w⟩ := e
    by_cases hk : k = h
    · subst hk
      by_cases hk' : h' = k
      · subst hk'; simp [tdel, ih]
      · have : ¬ k = h' := fun hh => hk' hh.symm
        simp [tdel, tget, ih, hk', this]
    · by_cases hk' : k = h'
      · subst hk'; simp [tdel, tget, hk]
      · simp [tdel, tget, hk, hk', ih]

theorem tget_filter_keys (t : Table) (p : String → Bool) (h : String) :
    tget (t.filter (fun e => p e.1)) h = if p h then tget t h else none := by
  induction t with
  | nil => simp [tget]
  | cons e t ih =>
    obtain ⟨k, w⟩ := e
    by_cases hp : p k
    · by_cases hk : k = h
      · subst hk; simp [List.filter, hp, tget]
      · simp [List.filter, hp, tget, hk, ih]
    · by_cases hk : k = h
      · subst hk; simp [List.filter, hp, ih]
      · simp [List.filter, hp, tget, hk, ih]

/-! ### `dedupe` -/

theorem mem_dedupe (xs : List String) (x : String) : x ∈ dedupe xs ↔ x ∈ xs := by
  induction xs with
  | nil => simp [dedupe]
  | cons y ys ih =>
    simp only [dedupe, List.mem_cons, List.mem_filter, ih]
    by_cases hxy : x = y <;> simp [hxy]

theorem nodup_dedupe (xs : List String) : (dedupe xs).Nodup := by
  induction xs with
  | nil => simp [dedupe]
  | cons y ys ih =>
    simp only [dedupe, List.nodup_cons, List.mem_filter]
    refine ⟨by simp, ?_⟩
    exact List.Pairwise.filter _ ih

/-! ### `UpsertHost` as it is now -/

theorem mergeHost_eq (existing new : List Backend) : mergeHost existing new = new := by
  unfold mergeHost
  induction new with
  | nil => rfl
  | cons nb rest ih =>
    simp only [List.map_cons, ih]
    congr 1
    cases hfind : existing.find? (fun x => decide (x.id = nb.id)) with
    | none => rfl
    | some old =>
      by_cases ho : old = nb <;> simp [ho]

/-- `reload?` (with explicit failure) never fails and is `reload`. -/
theorem reload?_eq (t : Table) (bs : List Backend) : reload? t bs = some (reload t bs) := by
  unfold reload? reloadWith reload upsertNow
  generalize removeUnconfigured t (hostsOf bs) = t0
  induction hostsOf bs generalizing t0 with
  | nil => rfl
  | cons h hs ih => simp only [List.foldl_cons]; exact ih _

theorem tget_foldl_tset (bs : List Backend) (hs : List String) (t : Table) (h : String) :
    tget (hs.foldl (fun t h => tset t h (forHost bs h)) t) h
      = if h ∈ hs then some (forHost bs h) else tget t h := by
  induction hs generalizing t with
  | nil => simp
  | cons x xs ih =>
    rw [List.foldl_cons, ih]
    by_cases hx : h ∈ xs
    · simp [hx]
    · by_cases hhx : h = x
      · subst hhx; simp [hx, tget_tset_same]
      · simp [hx, hhx, tget_tset_other _ _ _ _ hhx]

theorem tget_foldl_upsert (bs : List Backend) (hs : List String) (t : Table) (h : String) :
    tget (hs.foldl (fun t h => tset t h (mergeHost ((tget t h).getD []) (forHost bs h))) t) h
      = if h ∈ hs then some (forHost bs h) else tget t h := by
  have : (fun (t : Table) h => tset t h (mergeHost ((tget t h).getD []) (forHost bs h)))
      = (fun t h => tset t h (forHost bs h)) := by
    funext t h; rw [mergeHost_eq]
  rw [this]; exact tget_foldl_tset bs hs t h

theorem tget_fresh (bs : List Backend) (h : String) :
    tget (fresh bs) h = if h ∈ hostsOf bs then some (forHost bs h) else none := by
  unfold fresh
  induction hostsOf bs with
  | nil => simp [tget]
  | cons x xs ih =>
    simp only [List.map_cons, tget, List.mem_cons]
    by_cases hx : x = h
    · subst hx; simp
    · have : ¬ h = x := fun hh => hx hh.symm
      simp [hx, this, ih]

/-- One reload: whatever the table was, every host now maps to what a fresh start gives it. -/
theorem tget_reload (t : Table) (bs : List Backend) (h : String) :
    tget (reload t bs) h = tget (fresh bs) h := by
  unfold reload
  rw [tget_foldl_upsert, tget_fresh]
  by_cases hh : h ∈ hostsOf bs
  · simp [hh]
  · simp only [hh, if_false]
    unfold removeUnconfigured
    rw [tget_filter_keys t (fun k => (hostsOf bs).contains k) h]
    simp [hh]

theorem getBackend_congr (t₁ t₂ : Table) (h : ∀ host, tget t₁ host = tget t₂ host)
    (scheme host url : String) : getBackend t₁ scheme host url = getBackend t₂ scheme host url := by
  unfold getBackend; rw [h host]

end SigModel.Backends
