/-
Hub lemmas, part 6: every operation preserves the invariant.
-/
import SigModel.Lemmas.HubJoin

namespace SigModel.Hub

theorem Inv.init : Inv ({} : Hub) := by
  constructor <;> intros <;> simp_all

theorem connect_inv (a : Acc) (c : Nat) (hi : Inv a.h) : Inv (connect a c).h := by
  unfold connect
  by_cases hc : a.h.connOpen c = true
  · simp only [hc, if_true]; exact hi
  · simp only [hc]
    obtain ⟨f1, f2, f3, f4, f5, f6, f7, f8, f9, f10, f11, f12, f13, f14, f15, f16, f17, f18, f19, f20, f21, f22, f23⟩ := hi
    constructor
    all_goals first | assumption | skip
    · intro c' s hs; have := f17 c' s hs; by_cases e : c' = c <;> simp [e, this]
    · intro c' hc'
      simp at hc'
      rcases hc' with h1 | rfl
      · exact f18 c' h1
      · show a.h.connSess c' = none
        cases hcs : a.h.connSess c' with
        | none => rfl
        | some s => exact absurd (f17 c' s hcs) hc

set_option maxHeartbeats 4000000 in
theorem helloTables_inv {h : Hub} (hi : Inv h) (c b : Nat) (kind : Kind) (user : String) (d i : Bool)
    (hk : kind ≠ .virtual) (hopen : h.connOpen c = true) (hfree : h.connSess c = none) :
    Inv (helloTables h c b kind user d i) := by
  have hnew : h.sess h.nextSid = none := hi.fresh _ (Nat.le_refl _)
  unfold helloTables
  -- the new record, as an opaque term with known projections
  have p1 : (helloSess c b kind user d i).conn = some c := rfl
  have p2 : (helloSess c b kind user d i).backend = b := rfl
  have p3 : (helloSess c b kind user d i).kind = kind := rfl
  have p4 : (helloSess c b kind user d i).user = user := rfl
  have p5 : (helloSess c b kind user d i).room = none := rfl
  have p6 : (helloSess c b kind user d i).children = [] := rfl
  generalize helloSess c b kind user d i = X at *
  have hkc : kind ≠ .internal → kind = .client := by cases kind <;> simp_all
  constructor
  case fresh =>
    by_cases hu : user = "" <;> simp only [hu, ne_eq, not_true_eq_false, not_false_eq_true, if_true, if_false]
    all_goals first
      | (have f_fresh := hi.fresh; clear hi; (intros; (try simp only [hubf] at *); grind [mem_removeL, nodup_removeL, removeL_nil]))
      | (have f_fresh := hi.fresh; have f_mem_room := hi.mem_room; have f_room_mem := hi.room_mem; have f_nonempty := hi.nonempty; have f_nodup := hi.nodup; have f_roomL_iff := hi.roomL_iff; have f_roomL_nodup := hi.roomL_nodup; have f_userL_iff := hi.userL_iff; have f_userL_nodup := hi.userL_nodup; have f_sessL_iff := hi.sessL_iff; have f_rs_fwd := hi.rs_fwd; have f_rs_room := hi.rs_room; have f_virt := hi.virt; have f_children := hi.children; have f_vtable := hi.vtable; have f_conn_iff := hi.conn_iff; have f_conn_open := hi.conn_open; have f_eh := hi.eh; have f_expired := hi.expired; have f_anon := hi.anon; have f_dialout := hi.dialout; have f_count := hi.count; have f_orph_virt := hi.orph_virt; clear hi; (intros; (try simp only [hubf] at *); grind [mem_removeL, nodup_removeL, removeL_nil]))
  case mem_room =>
    by_cases hu : user = "" <;> simp only [hu, ne_eq, not_true_eq_false, not_false_eq_true, if_true, if_false]
    all_goals first
      | (have f_mem_room := hi.mem_room; have f_fresh := hi.fresh; clear hi; (intros; (try simp only [hubf] at *); grind [mem_removeL, nodup_removeL, removeL_nil]))
      | (have f_fresh := hi.fresh; have f_mem_room := hi.mem_room; have f_room_mem := hi.room_mem; have f_nonempty := hi.nonempty; have f_nodup := hi.nodup; have f_roomL_iff := hi.roomL_iff; have f_roomL_nodup := hi.roomL_nodup; have f_userL_iff := hi.userL_iff; have f_userL_nodup := hi.userL_nodup; have f_sessL_iff := hi.sessL_iff; have f_rs_fwd := hi.rs_fwd; have f_rs_room := hi.rs_room; have f_virt := hi.virt; have f_children := hi.children; have f_vtable := hi.vtable; have f_conn_iff := hi.conn_iff; have f_conn_open := hi.conn_open; have f_eh := hi.eh; have f_expired := hi.expired; have f_anon := hi.anon; have f_dialout := hi.dialout; have f_count := hi.count; have f_orph_virt := hi.orph_virt; clear hi; (intros; (try simp only [hubf] at *); grind [mem_removeL, nodup_removeL, removeL_nil]))
  case room_mem =>
    by_cases hu : user = "" <;> simp only [hu, ne_eq, not_true_eq_false, not_false_eq_true, if_true, if_false]
    all_goals first
      | (have f_room_mem := hi.room_mem; have f_mem_room := hi.mem_room; have f_fresh := hi.fresh; clear hi; (intros; (try simp only [hubf] at *); grind [mem_removeL, nodup_removeL, removeL_nil]))
      | (have f_fresh := hi.fresh; have f_mem_room := hi.mem_room; have f_room_mem := hi.room_mem; have f_nonempty := hi.nonempty; have f_nodup := hi.nodup; have f_roomL_iff := hi.roomL_iff; have f_roomL_nodup := hi.roomL_nodup; have f_userL_iff := hi.userL_iff; have f_userL_nodup := hi.userL_nodup; have f_sessL_iff := hi.sessL_iff; have f_rs_fwd := hi.rs_fwd; have f_rs_room := hi.rs_room; have f_virt := hi.virt; have f_children := hi.children; have f_vtable := hi.vtable; have f_conn_iff := hi.conn_iff; have f_conn_open := hi.conn_open; have f_eh := hi.eh; have f_expired := hi.expired; have f_anon := hi.anon; have f_dialout := hi.dialout; have f_count := hi.count; have f_orph_virt := hi.orph_virt; clear hi; (intros; (try simp only [hubf] at *); grind [mem_removeL, nodup_removeL, removeL_nil]))
  case nonempty =>
    by_cases hu : user = "" <;> simp only [hu, ne_eq, not_true_eq_false, not_false_eq_true, if_true, if_false]
    all_goals first
      | (have f_nonempty := hi.nonempty; have f_mem_room := hi.mem_room; clear hi; (intros; (try simp only [hubf] at *); grind [mem_removeL, nodup_removeL, removeL_nil]))
      | (have f_fresh := hi.fresh; have f_mem_room := hi.mem_room; have f_room_mem := hi.room_mem; have f_nonempty := hi.nonempty; have f_nodup := hi.nodup; have f_roomL_iff := hi.roomL_iff; have f_roomL_nodup := hi.roomL_nodup; have f_userL_iff := hi.userL_iff; have f_userL_nodup := hi.userL_nodup; have f_sessL_iff := hi.sessL_iff; have f_rs_fwd := hi.rs_fwd; have f_rs_room := hi.rs_room; have f_virt := hi.virt; have f_children := hi.children; have f_vtable := hi.vtable; have f_conn_iff := hi.conn_iff; have f_conn_open := hi.conn_open; have f_eh := hi.eh; have f_expired := hi.expired; have f_anon := hi.anon; have f_dialout := hi.dialout; have f_count := hi.count; have f_orph_virt := hi.orph_virt; clear hi; (intros; (try simp only [hubf] at *); grind [mem_removeL, nodup_removeL, removeL_nil]))
  case nodup =>
    by_cases hu : user = "" <;> simp only [hu, ne_eq, not_true_eq_false, not_false_eq_true, if_true, if_false]
    all_goals first
      | (have f_nodup := hi.nodup; clear hi; (intros; (try simp only [hubf] at *); grind [mem_removeL, nodup_removeL, removeL_nil]))
      | (have f_fresh := hi.fresh; have f_mem_room := hi.mem_room; have f_room_mem := hi.room_mem; have f_nonempty := hi.nonempty; have f_nodup := hi.nodup; have f_roomL_iff := hi.roomL_iff; have f_roomL_nodup := hi.roomL_nodup; have f_userL_iff := hi.userL_iff; have f_userL_nodup := hi.userL_nodup; have f_sessL_iff := hi.sessL_iff; have f_rs_fwd := hi.rs_fwd; have f_rs_room := hi.rs_room; have f_virt := hi.virt; have f_children := hi.children; have f_vtable := hi.vtable; have f_conn_iff := hi.conn_iff; have f_conn_open := hi.conn_open; have f_eh := hi.eh; have f_expired := hi.expired; have f_anon := hi.anon; have f_dialout := hi.dialout; have f_count := hi.count; have f_orph_virt := hi.orph_virt; clear hi; (intros; (try simp only [hubf] at *); grind [mem_removeL, nodup_removeL, removeL_nil]))
  case roomL_iff =>
    by_cases hu : user = "" <;> simp only [hu, ne_eq, not_true_eq_false, not_false_eq_true, if_true, if_false]
    all_goals first
      | (have f_roomL_iff := hi.roomL_iff; have f_fresh := hi.fresh; have f_room_mem := hi.room_mem; have f_mem_room := hi.mem_room; clear hi; (intros; (try simp only [hubf] at *); grind [mem_removeL, nodup_removeL, removeL_nil]))
      | (have f_fresh := hi.fresh; have f_mem_room := hi.mem_room; have f_room_mem := hi.room_mem; have f_nonempty := hi.nonempty; have f_nodup := hi.nodup; have f_roomL_iff := hi.roomL_iff; have f_roomL_nodup := hi.roomL_nodup; have f_userL_iff := hi.userL_iff; have f_userL_nodup := hi.userL_nodup; have f_sessL_iff := hi.sessL_iff; have f_rs_fwd := hi.rs_fwd; have f_rs_room := hi.rs_room; have f_virt := hi.virt; have f_children := hi.children; have f_vtable := hi.vtable; have f_conn_iff := hi.conn_iff; have f_conn_open := hi.conn_open; have f_eh := hi.eh; have f_expired := hi.expired; have f_anon := hi.anon; have f_dialout := hi.dialout; have f_count := hi.count; have f_orph_virt := hi.orph_virt; clear hi; (intros; (try simp only [hubf] at *); grind [mem_removeL, nodup_removeL, removeL_nil]))
  case roomL_nodup =>
    by_cases hu : user = "" <;> simp only [hu, ne_eq, not_true_eq_false, not_false_eq_true, if_true, if_false]
    all_goals first
      | (have f_roomL_nodup := hi.roomL_nodup; have f_roomL_iff := hi.roomL_iff; clear hi; (intros; (try simp only [hubf] at *); grind [mem_removeL, nodup_removeL, removeL_nil]))
      | (have f_fresh := hi.fresh; have f_mem_room := hi.mem_room; have f_room_mem := hi.room_mem; have f_nonempty := hi.nonempty; have f_nodup := hi.nodup; have f_roomL_iff := hi.roomL_iff; have f_roomL_nodup := hi.roomL_nodup; have f_userL_iff := hi.userL_iff; have f_userL_nodup := hi.userL_nodup; have f_sessL_iff := hi.sessL_iff; have f_rs_fwd := hi.rs_fwd; have f_rs_room := hi.rs_room; have f_virt := hi.virt; have f_children := hi.children; have f_vtable := hi.vtable; have f_conn_iff := hi.conn_iff; have f_conn_open := hi.conn_open; have f_eh := hi.eh; have f_expired := hi.expired; have f_anon := hi.anon; have f_dialout := hi.dialout; have f_count := hi.count; have f_orph_virt := hi.orph_virt; clear hi; (intros; (try simp only [hubf] at *); grind [mem_removeL, nodup_removeL, removeL_nil]))
  case userL_iff =>
    by_cases hu : user = "" <;> simp only [hu, ne_eq, not_true_eq_false, not_false_eq_true, if_true, if_false]
    all_goals first
      | (have f_userL_iff := hi.userL_iff; have f_fresh := hi.fresh; clear hi; (intros; (try simp only [hubf] at *); grind [mem_removeL, nodup_removeL, removeL_nil]))
      | (have f_fresh := hi.fresh; have f_mem_room := hi.mem_room; have f_room_mem := hi.room_mem; have f_nonempty := hi.nonempty; have f_nodup := hi.nodup; have f_roomL_iff := hi.roomL_iff; have f_roomL_nodup := hi.roomL_nodup; have f_userL_iff := hi.userL_iff; have f_userL_nodup := hi.userL_nodup; have f_sessL_iff := hi.sessL_iff; have f_rs_fwd := hi.rs_fwd; have f_rs_room := hi.rs_room; have f_virt := hi.virt; have f_children := hi.children; have f_vtable := hi.vtable; have f_conn_iff := hi.conn_iff; have f_conn_open := hi.conn_open; have f_eh := hi.eh; have f_expired := hi.expired; have f_anon := hi.anon; have f_dialout := hi.dialout; have f_count := hi.count; have f_orph_virt := hi.orph_virt; clear hi; (intros; (try simp only [hubf] at *); grind [mem_removeL, nodup_removeL, removeL_nil]))
  case userL_nodup =>
    by_cases hu : user = "" <;> simp only [hu, ne_eq, not_true_eq_false, not_false_eq_true, if_true, if_false]
    all_goals first
      | (have f_userL_nodup := hi.userL_nodup; have f_userL_iff := hi.userL_iff; clear hi; (intros; (try simp only [hubf] at *); grind [mem_removeL, nodup_removeL, removeL_nil]))
      | (have f_fresh := hi.fresh; have f_mem_room := hi.mem_room; have f_room_mem := hi.room_mem; have f_nonempty := hi.nonempty; have f_nodup := hi.nodup; have f_roomL_iff := hi.roomL_iff; have f_roomL_nodup := hi.roomL_nodup; have f_userL_iff := hi.userL_iff; have f_userL_nodup := hi.userL_nodup; have f_sessL_iff := hi.sessL_iff; have f_rs_fwd := hi.rs_fwd; have f_rs_room := hi.rs_room; have f_virt := hi.virt; have f_children := hi.children; have f_vtable := hi.vtable; have f_conn_iff := hi.conn_iff; have f_conn_open := hi.conn_open; have f_eh := hi.eh; have f_expired := hi.expired; have f_anon := hi.anon; have f_dialout := hi.dialout; have f_count := hi.count; have f_orph_virt := hi.orph_virt; clear hi; (intros; (try simp only [hubf] at *); grind [mem_removeL, nodup_removeL, removeL_nil]))
  case sessL_iff =>
    by_cases hu : user = "" <;> simp only [hu, ne_eq, not_true_eq_false, not_false_eq_true, if_true, if_false]
    all_goals first
      | (have f_sessL_iff := hi.sessL_iff; have f_fresh := hi.fresh; clear hi; (intros; (try simp only [hubf] at *); grind [mem_removeL, nodup_removeL, removeL_nil]))
      | (have f_fresh := hi.fresh; have f_mem_room := hi.mem_room; have f_room_mem := hi.room_mem; have f_nonempty := hi.nonempty; have f_nodup := hi.nodup; have f_roomL_iff := hi.roomL_iff; have f_roomL_nodup := hi.roomL_nodup; have f_userL_iff := hi.userL_iff; have f_userL_nodup := hi.userL_nodup; have f_sessL_iff := hi.sessL_iff; have f_rs_fwd := hi.rs_fwd; have f_rs_room := hi.rs_room; have f_virt := hi.virt; have f_children := hi.children; have f_vtable := hi.vtable; have f_conn_iff := hi.conn_iff; have f_conn_open := hi.conn_open; have f_eh := hi.eh; have f_expired := hi.expired; have f_anon := hi.anon; have f_dialout := hi.dialout; have f_count := hi.count; have f_orph_virt := hi.orph_virt; clear hi; (intros; (try simp only [hubf] at *); grind [mem_removeL, nodup_removeL, removeL_nil]))
  case rs_fwd =>
    by_cases hu : user = "" <;> simp only [hu, ne_eq, not_true_eq_false, not_false_eq_true, if_true, if_false]
    all_goals first
      | (have f_rs_fwd := hi.rs_fwd; have f_rs_room := hi.rs_room; have f_fresh := hi.fresh; clear hi; (intros; (try simp only [hubf] at *); grind [mem_removeL, nodup_removeL, removeL_nil]))
      | (have f_fresh := hi.fresh; have f_mem_room := hi.mem_room; have f_room_mem := hi.room_mem; have f_nonempty := hi.nonempty; have f_nodup := hi.nodup; have f_roomL_iff := hi.roomL_iff; have f_roomL_nodup := hi.roomL_nodup; have f_userL_iff := hi.userL_iff; have f_userL_nodup := hi.userL_nodup; have f_sessL_iff := hi.sessL_iff; have f_rs_fwd := hi.rs_fwd; have f_rs_room := hi.rs_room; have f_virt := hi.virt; have f_children := hi.children; have f_vtable := hi.vtable; have f_conn_iff := hi.conn_iff; have f_conn_open := hi.conn_open; have f_eh := hi.eh; have f_expired := hi.expired; have f_anon := hi.anon; have f_dialout := hi.dialout; have f_count := hi.count; have f_orph_virt := hi.orph_virt; clear hi; (intros; (try simp only [hubf] at *); grind [mem_removeL, nodup_removeL, removeL_nil]))
  case rs_room =>
    by_cases hu : user = "" <;> simp only [hu, ne_eq, not_true_eq_false, not_false_eq_true, if_true, if_false]
    all_goals first
      | (have f_rs_room := hi.rs_room; have f_rs_fwd := hi.rs_fwd; have f_fresh := hi.fresh; have f_room_mem := hi.room_mem; clear hi; (intros; (try simp only [hubf] at *); grind [mem_removeL, nodup_removeL, removeL_nil]))
      | (have f_fresh := hi.fresh; have f_mem_room := hi.mem_room; have f_room_mem := hi.room_mem; have f_nonempty := hi.nonempty; have f_nodup := hi.nodup; have f_roomL_iff := hi.roomL_iff; have f_roomL_nodup := hi.roomL_nodup; have f_userL_iff := hi.userL_iff; have f_userL_nodup := hi.userL_nodup; have f_sessL_iff := hi.sessL_iff; have f_rs_fwd := hi.rs_fwd; have f_rs_room := hi.rs_room; have f_virt := hi.virt; have f_children := hi.children; have f_vtable := hi.vtable; have f_conn_iff := hi.conn_iff; have f_conn_open := hi.conn_open; have f_eh := hi.eh; have f_expired := hi.expired; have f_anon := hi.anon; have f_dialout := hi.dialout; have f_count := hi.count; have f_orph_virt := hi.orph_virt; clear hi; (intros; (try simp only [hubf] at *); grind [mem_removeL, nodup_removeL, removeL_nil]))
  case virt =>
    by_cases hu : user = "" <;> simp only [hu, ne_eq, not_true_eq_false, not_false_eq_true, if_true, if_false]
    all_goals first
      | (have f_virt := hi.virt; have f_children := hi.children; have f_fresh := hi.fresh; clear hi; (intros; (try simp only [hubf] at *); grind [mem_removeL, nodup_removeL, removeL_nil]))
      | (have f_fresh := hi.fresh; have f_mem_room := hi.mem_room; have f_room_mem := hi.room_mem; have f_nonempty := hi.nonempty; have f_nodup := hi.nodup; have f_roomL_iff := hi.roomL_iff; have f_roomL_nodup := hi.roomL_nodup; have f_userL_iff := hi.userL_iff; have f_userL_nodup := hi.userL_nodup; have f_sessL_iff := hi.sessL_iff; have f_rs_fwd := hi.rs_fwd; have f_rs_room := hi.rs_room; have f_virt := hi.virt; have f_children := hi.children; have f_vtable := hi.vtable; have f_conn_iff := hi.conn_iff; have f_conn_open := hi.conn_open; have f_eh := hi.eh; have f_expired := hi.expired; have f_anon := hi.anon; have f_dialout := hi.dialout; have f_count := hi.count; have f_orph_virt := hi.orph_virt; clear hi; (intros; (try simp only [hubf] at *); grind [mem_removeL, nodup_removeL, removeL_nil]))
  case children =>
    by_cases hu : user = "" <;> simp only [hu, ne_eq, not_true_eq_false, not_false_eq_true, if_true, if_false]
    all_goals first
      | (have f_children := hi.children; have f_virt := hi.virt; have f_fresh := hi.fresh; clear hi; (intros; (try simp only [hubf] at *); grind [mem_removeL, nodup_removeL, removeL_nil]))
      | (have f_fresh := hi.fresh; have f_mem_room := hi.mem_room; have f_room_mem := hi.room_mem; have f_nonempty := hi.nonempty; have f_nodup := hi.nodup; have f_roomL_iff := hi.roomL_iff; have f_roomL_nodup := hi.roomL_nodup; have f_userL_iff := hi.userL_iff; have f_userL_nodup := hi.userL_nodup; have f_sessL_iff := hi.sessL_iff; have f_rs_fwd := hi.rs_fwd; have f_rs_room := hi.rs_room; have f_virt := hi.virt; have f_children := hi.children; have f_vtable := hi.vtable; have f_conn_iff := hi.conn_iff; have f_conn_open := hi.conn_open; have f_eh := hi.eh; have f_expired := hi.expired; have f_anon := hi.anon; have f_dialout := hi.dialout; have f_count := hi.count; have f_orph_virt := hi.orph_virt; clear hi; (intros; (try simp only [hubf] at *); grind [mem_removeL, nodup_removeL, removeL_nil]))
  case vtable =>
    by_cases hu : user = "" <;> simp only [hu, ne_eq, not_true_eq_false, not_false_eq_true, if_true, if_false]
    all_goals first
      | (have f_vtable := hi.vtable; have f_virt := hi.virt; have f_fresh := hi.fresh; clear hi; (intros; (try simp only [hubf] at *); grind [mem_removeL, nodup_removeL, removeL_nil]))
      | (have f_fresh := hi.fresh; have f_mem_room := hi.mem_room; have f_room_mem := hi.room_mem; have f_nonempty := hi.nonempty; have f_nodup := hi.nodup; have f_roomL_iff := hi.roomL_iff; have f_roomL_nodup := hi.roomL_nodup; have f_userL_iff := hi.userL_iff; have f_userL_nodup := hi.userL_nodup; have f_sessL_iff := hi.sessL_iff; have f_rs_fwd := hi.rs_fwd; have f_rs_room := hi.rs_room; have f_virt := hi.virt; have f_children := hi.children; have f_vtable := hi.vtable; have f_conn_iff := hi.conn_iff; have f_conn_open := hi.conn_open; have f_eh := hi.eh; have f_expired := hi.expired; have f_anon := hi.anon; have f_dialout := hi.dialout; have f_count := hi.count; have f_orph_virt := hi.orph_virt; clear hi; (intros; (try simp only [hubf] at *); grind [mem_removeL, nodup_removeL, removeL_nil]))
  case conn_iff =>
    by_cases hu : user = "" <;> simp only [hu, ne_eq, not_true_eq_false, not_false_eq_true, if_true, if_false]
    all_goals first
      | (have f_conn_iff := hi.conn_iff; have f_fresh := hi.fresh; have f_virt := hi.virt; clear hi; (intros; (try simp only [hubf] at *); grind [mem_removeL, nodup_removeL, removeL_nil]))
      | (have f_fresh := hi.fresh; have f_mem_room := hi.mem_room; have f_room_mem := hi.room_mem; have f_nonempty := hi.nonempty; have f_nodup := hi.nodup; have f_roomL_iff := hi.roomL_iff; have f_roomL_nodup := hi.roomL_nodup; have f_userL_iff := hi.userL_iff; have f_userL_nodup := hi.userL_nodup; have f_sessL_iff := hi.sessL_iff; have f_rs_fwd := hi.rs_fwd; have f_rs_room := hi.rs_room; have f_virt := hi.virt; have f_children := hi.children; have f_vtable := hi.vtable; have f_conn_iff := hi.conn_iff; have f_conn_open := hi.conn_open; have f_eh := hi.eh; have f_expired := hi.expired; have f_anon := hi.anon; have f_dialout := hi.dialout; have f_count := hi.count; have f_orph_virt := hi.orph_virt; clear hi; (intros; (try simp only [hubf] at *); grind [mem_removeL, nodup_removeL, removeL_nil]))
  case conn_open =>
    by_cases hu : user = "" <;> simp only [hu, ne_eq, not_true_eq_false, not_false_eq_true, if_true, if_false]
    all_goals first
      | (have f_conn_open := hi.conn_open; have f_conn_iff := hi.conn_iff; clear hi; (intros; (try simp only [hubf] at *); grind [mem_removeL, nodup_removeL, removeL_nil]))
      | (have f_fresh := hi.fresh; have f_mem_room := hi.mem_room; have f_room_mem := hi.room_mem; have f_nonempty := hi.nonempty; have f_nodup := hi.nodup; have f_roomL_iff := hi.roomL_iff; have f_roomL_nodup := hi.roomL_nodup; have f_userL_iff := hi.userL_iff; have f_userL_nodup := hi.userL_nodup; have f_sessL_iff := hi.sessL_iff; have f_rs_fwd := hi.rs_fwd; have f_rs_room := hi.rs_room; have f_virt := hi.virt; have f_children := hi.children; have f_vtable := hi.vtable; have f_conn_iff := hi.conn_iff; have f_conn_open := hi.conn_open; have f_eh := hi.eh; have f_expired := hi.expired; have f_anon := hi.anon; have f_dialout := hi.dialout; have f_count := hi.count; have f_orph_virt := hi.orph_virt; clear hi; (intros; (try simp only [hubf] at *); grind [mem_removeL, nodup_removeL, removeL_nil]))
  case eh =>
    by_cases hu : user = "" <;> simp only [hu, ne_eq, not_true_eq_false, not_false_eq_true, if_true, if_false]
    all_goals first
      | (have f_eh := hi.eh; have f_conn_iff := hi.conn_iff; have f_conn_open := hi.conn_open; clear hi; (intros; (try simp only [hubf] at *); grind [mem_removeL, nodup_removeL, removeL_nil]))
      | (have f_fresh := hi.fresh; have f_mem_room := hi.mem_room; have f_room_mem := hi.room_mem; have f_nonempty := hi.nonempty; have f_nodup := hi.nodup; have f_roomL_iff := hi.roomL_iff; have f_roomL_nodup := hi.roomL_nodup; have f_userL_iff := hi.userL_iff; have f_userL_nodup := hi.userL_nodup; have f_sessL_iff := hi.sessL_iff; have f_rs_fwd := hi.rs_fwd; have f_rs_room := hi.rs_room; have f_virt := hi.virt; have f_children := hi.children; have f_vtable := hi.vtable; have f_conn_iff := hi.conn_iff; have f_conn_open := hi.conn_open; have f_eh := hi.eh; have f_expired := hi.expired; have f_anon := hi.anon; have f_dialout := hi.dialout; have f_count := hi.count; have f_orph_virt := hi.orph_virt; clear hi; (intros; (try simp only [hubf] at *); grind [mem_removeL, nodup_removeL, removeL_nil]))
  case expired =>
    by_cases hu : user = "" <;> simp only [hu, ne_eq, not_true_eq_false, not_false_eq_true, if_true, if_false]
    all_goals first
      | (have f_expired := hi.expired; have f_fresh := hi.fresh; clear hi; (intros; (try simp only [hubf] at *); grind [mem_removeL, nodup_removeL, removeL_nil]))
      | (have f_fresh := hi.fresh; have f_mem_room := hi.mem_room; have f_room_mem := hi.room_mem; have f_nonempty := hi.nonempty; have f_nodup := hi.nodup; have f_roomL_iff := hi.roomL_iff; have f_roomL_nodup := hi.roomL_nodup; have f_userL_iff := hi.userL_iff; have f_userL_nodup := hi.userL_nodup; have f_sessL_iff := hi.sessL_iff; have f_rs_fwd := hi.rs_fwd; have f_rs_room := hi.rs_room; have f_virt := hi.virt; have f_children := hi.children; have f_vtable := hi.vtable; have f_conn_iff := hi.conn_iff; have f_conn_open := hi.conn_open; have f_eh := hi.eh; have f_expired := hi.expired; have f_anon := hi.anon; have f_dialout := hi.dialout; have f_count := hi.count; have f_orph_virt := hi.orph_virt; clear hi; (intros; (try simp only [hubf] at *); grind [mem_removeL, nodup_removeL, removeL_nil]))
  case anon =>
    by_cases hu : user = "" <;> simp only [hu, ne_eq, not_true_eq_false, not_false_eq_true, if_true, if_false]
    all_goals first
      | (have f_anon := hi.anon; have f_fresh := hi.fresh; clear hi; (intros; (try simp only [hubf] at *); grind [mem_removeL, nodup_removeL, removeL_nil]))
      | (have f_fresh := hi.fresh; have f_mem_room := hi.mem_room; have f_room_mem := hi.room_mem; have f_nonempty := hi.nonempty; have f_nodup := hi.nodup; have f_roomL_iff := hi.roomL_iff; have f_roomL_nodup := hi.roomL_nodup; have f_userL_iff := hi.userL_iff; have f_userL_nodup := hi.userL_nodup; have f_sessL_iff := hi.sessL_iff; have f_rs_fwd := hi.rs_fwd; have f_rs_room := hi.rs_room; have f_virt := hi.virt; have f_children := hi.children; have f_vtable := hi.vtable; have f_conn_iff := hi.conn_iff; have f_conn_open := hi.conn_open; have f_eh := hi.eh; have f_expired := hi.expired; have f_anon := hi.anon; have f_dialout := hi.dialout; have f_count := hi.count; have f_orph_virt := hi.orph_virt; clear hi; (intros; (try simp only [hubf] at *); grind [mem_removeL, nodup_removeL, removeL_nil]))
  case dialout =>
    by_cases hu : user = "" <;> simp only [hu, ne_eq, not_true_eq_false, not_false_eq_true, if_true, if_false]
    all_goals first
      | (have f_dialout := hi.dialout; have f_fresh := hi.fresh; clear hi; (intros; (try simp only [hubf] at *); grind [mem_removeL, nodup_removeL, removeL_nil]))
      | (have f_fresh := hi.fresh; have f_mem_room := hi.mem_room; have f_room_mem := hi.room_mem; have f_nonempty := hi.nonempty; have f_nodup := hi.nodup; have f_roomL_iff := hi.roomL_iff; have f_roomL_nodup := hi.roomL_nodup; have f_userL_iff := hi.userL_iff; have f_userL_nodup := hi.userL_nodup; have f_sessL_iff := hi.sessL_iff; have f_rs_fwd := hi.rs_fwd; have f_rs_room := hi.rs_room; have f_virt := hi.virt; have f_children := hi.children; have f_vtable := hi.vtable; have f_conn_iff := hi.conn_iff; have f_conn_open := hi.conn_open; have f_eh := hi.eh; have f_expired := hi.expired; have f_anon := hi.anon; have f_dialout := hi.dialout; have f_count := hi.count; have f_orph_virt := hi.orph_virt; clear hi; (intros; (try simp only [hubf] at *); grind [mem_removeL, nodup_removeL, removeL_nil]))
  case count =>
    by_cases hu : user = "" <;> simp only [hu, ne_eq, not_true_eq_false, not_false_eq_true, if_true, if_false]
    all_goals first
      | (have f_count := hi.count; have f_fresh := hi.fresh; clear hi; (intros; (try simp only [hubf] at *); grind [mem_removeL, nodup_removeL, removeL_nil]))
      | (have f_fresh := hi.fresh; have f_mem_room := hi.mem_room; have f_room_mem := hi.room_mem; have f_nonempty := hi.nonempty; have f_nodup := hi.nodup; have f_roomL_iff := hi.roomL_iff; have f_roomL_nodup := hi.roomL_nodup; have f_userL_iff := hi.userL_iff; have f_userL_nodup := hi.userL_nodup; have f_sessL_iff := hi.sessL_iff; have f_rs_fwd := hi.rs_fwd; have f_rs_room := hi.rs_room; have f_virt := hi.virt; have f_children := hi.children; have f_vtable := hi.vtable; have f_conn_iff := hi.conn_iff; have f_conn_open := hi.conn_open; have f_eh := hi.eh; have f_expired := hi.expired; have f_anon := hi.anon; have f_dialout := hi.dialout; have f_count := hi.count; have f_orph_virt := hi.orph_virt; clear hi; (intros; (try simp only [hubf] at *); grind [mem_removeL, nodup_removeL, removeL_nil]))
  case orph_virt =>
    by_cases hu : user = "" <;> simp only [hu, ne_eq, not_true_eq_false, not_false_eq_true, if_true, if_false]
    all_goals first
      | (have f_orph_virt := hi.orph_virt; have f_fresh := hi.fresh; have f_children := hi.children; have f_virt := hi.virt; clear hi; (intros; (try simp only [hubf] at *); grind [mem_removeL, nodup_removeL, removeL_nil]))
      | (have f_fresh := hi.fresh; have f_mem_room := hi.mem_room; have f_room_mem := hi.room_mem; have f_nonempty := hi.nonempty; have f_nodup := hi.nodup; have f_roomL_iff := hi.roomL_iff; have f_roomL_nodup := hi.roomL_nodup; have f_userL_iff := hi.userL_iff; have f_userL_nodup := hi.userL_nodup; have f_sessL_iff := hi.sessL_iff; have f_rs_fwd := hi.rs_fwd; have f_rs_room := hi.rs_room; have f_virt := hi.virt; have f_children := hi.children; have f_vtable := hi.vtable; have f_conn_iff := hi.conn_iff; have f_conn_open := hi.conn_open; have f_eh := hi.eh; have f_expired := hi.expired; have f_anon := hi.anon; have f_dialout := hi.dialout; have f_count := hi.count; have f_orph_virt := hi.orph_virt; clear hi; (intros; (try simp only [hubf] at *); grind [mem_removeL, nodup_removeL, removeL_nil]))

theorem processHello_inv (a : Acc) (c b : Nat) (kind : Kind) (user : String) (d i : Bool)
    (hk : kind ≠ .virtual) (hi : Inv a.h) : Inv (processHello a c b kind user d i).h := by
  unfold processHello
  by_cases hg : (!a.h.connOpen c || (a.h.connSess c).isSome) = true
  · simp only [hg, if_true]; exact hi
  · simp only [hg]
    have hopen : a.h.connOpen c = true := by
      cases h : a.h.connOpen c <;> simp_all
    have hfree : a.h.connSess c = none := by
      cases h : a.h.connSess c <;> simp_all
    by_cases hl : limitReached a.h b kind = true
    · -- refused: only the waiting list changes
      simp only [hl, if_true]
      have f17 := hi.conn_open; have f18 := hi.eh
      obtain ⟨f1, f2, f3, f4, f5, f6, f7, f8, f9, f10, f11, f12, f13, f14, f15, f16, _, _, f19, f20, f21, f22, f23⟩ := hi
      constructor
      all_goals first | assumption | skip
      · intro c' hc'; simp at hc'; rcases hc' with h1 | rfl
        · exact f18 c' (mem_removeL.mp h1).1
        · exact hfree
    · simp only [hl]; exact helloTables_inv hi c b kind user d i hk hopen hfree

set_option maxHeartbeats 4000000 in
theorem resumeTables_inv {h : Hub} (hi : Inv h) {c s : Nat} {x : Sess} (hx : h.sess s = some x)
    (hk : x.kind ≠ .virtual) (hopen : h.connOpen c = true) (hfree : h.connSess c = none) :
    Inv (resumeTables h c s x) := by
  have hcu : ∀ c' s1 s2 x1 x2, h.sess s1 = some x1 → x1.conn = some c' → h.sess s2 = some x2 → x2.conn = some c' → s1 = s2 :=
    fun c' s1 s2 x1 x2 h1 h2 h3 h4 => conn_unique hi h1 h2 h3 h4
  unfold resumeTables
  constructor
  case fresh =>
    cases hc : x.conn <;> simp only []
    all_goals first
      | (have f_fresh := hi.fresh; clear hi; (intros; (try simp only [hubf] at *); grind [mem_removeL, nodup_removeL, removeL_nil]))
      | (have f_fresh := hi.fresh; have f_mem_room := hi.mem_room; have f_room_mem := hi.room_mem; have f_nonempty := hi.nonempty; have f_nodup := hi.nodup; have f_roomL_iff := hi.roomL_iff; have f_roomL_nodup := hi.roomL_nodup; have f_userL_iff := hi.userL_iff; have f_userL_nodup := hi.userL_nodup; have f_sessL_iff := hi.sessL_iff; have f_rs_fwd := hi.rs_fwd; have f_rs_room := hi.rs_room; have f_virt := hi.virt; have f_children := hi.children; have f_vtable := hi.vtable; have f_conn_iff := hi.conn_iff; have f_conn_open := hi.conn_open; have f_eh := hi.eh; have f_expired := hi.expired; have f_anon := hi.anon; have f_dialout := hi.dialout; have f_count := hi.count; have f_orph_virt := hi.orph_virt; clear hi; (intros; (try simp only [hubf] at *); grind [mem_removeL, nodup_removeL, removeL_nil]))
  case mem_room =>
    cases hc : x.conn <;> simp only []
    all_goals first
      | (have f_mem_room := hi.mem_room; have f_fresh := hi.fresh; clear hi; (intros; (try simp only [hubf] at *); grind [mem_removeL, nodup_removeL, removeL_nil]))
      | (have f_fresh := hi.fresh; have f_mem_room := hi.mem_room; have f_room_mem := hi.room_mem; have f_nonempty := hi.nonempty; have f_nodup := hi.nodup; have f_roomL_iff := hi.roomL_iff; have f_roomL_nodup := hi.roomL_nodup; have f_userL_iff := hi.userL_iff; have f_userL_nodup := hi.userL_nodup; have f_sessL_iff := hi.sessL_iff; have f_rs_fwd := hi.rs_fwd; have f_rs_room := hi.rs_room; have f_virt := hi.virt; have f_children := hi.children; have f_vtable := hi.vtable; have f_conn_iff := hi.conn_iff; have f_conn_open := hi.conn_open; have f_eh := hi.eh; have f_expired := hi.expired; have f_anon := hi.anon; have f_dialout := hi.dialout; have f_count := hi.count; have f_orph_virt := hi.orph_virt; clear hi; (intros; (try simp only [hubf] at *); grind [mem_removeL, nodup_removeL, removeL_nil]))
  case room_mem =>
    cases hc : x.conn <;> simp only []
    all_goals first
      | (have f_room_mem := hi.room_mem; have f_mem_room := hi.mem_room; have f_fresh := hi.fresh; clear hi; (intros; (try simp only [hubf] at *); grind [mem_removeL, nodup_removeL, removeL_nil]))
      | (have f_fresh := hi.fresh; have f_mem_room := hi.mem_room; have f_room_mem := hi.room_mem; have f_nonempty := hi.nonempty; have f_nodup := hi.nodup; have f_roomL_iff := hi.roomL_iff; have f_roomL_nodup := hi.roomL_nodup; have f_userL_iff := hi.userL_iff; have f_userL_nodup := hi.userL_nodup; have f_sessL_iff := hi.sessL_iff; have f_rs_fwd := hi.rs_fwd; have f_rs_room := hi.rs_room; have f_virt := hi.virt; have f_children := hi.children; have f_vtable := hi.vtable; have f_conn_iff := hi.conn_iff; have f_conn_open := hi.conn_open; have f_eh := hi.eh; have f_expired := hi.expired; have f_anon := hi.anon; have f_dialout := hi.dialout; have f_count := hi.count; have f_orph_virt := hi.orph_virt; clear hi; (intros; (try simp only [hubf] at *); grind [mem_removeL, nodup_removeL, removeL_nil]))
  case nonempty =>
    cases hc : x.conn <;> simp only []
    all_goals first
      | (have f_nonempty := hi.nonempty; have f_mem_room := hi.mem_room; clear hi; (intros; (try simp only [hubf] at *); grind [mem_removeL, nodup_removeL, removeL_nil]))
      | (have f_fresh := hi.fresh; have f_mem_room := hi.mem_room; have f_room_mem := hi.room_mem; have f_nonempty := hi.nonempty; have f_nodup := hi.nodup; have f_roomL_iff := hi.roomL_iff; have f_roomL_nodup := hi.roomL_nodup; have f_userL_iff := hi.userL_iff; have f_userL_nodup := hi.userL_nodup; have f_sessL_iff := hi.sessL_iff; have f_rs_fwd := hi.rs_fwd; have f_rs_room := hi.rs_room; have f_virt := hi.virt; have f_children := hi.children; have f_vtable := hi.vtable; have f_conn_iff := hi.conn_iff; have f_conn_open := hi.conn_open; have f_eh := hi.eh; have f_expired := hi.expired; have f_anon := hi.anon; have f_dialout := hi.dialout; have f_count := hi.count; have f_orph_virt := hi.orph_virt; clear hi; (intros; (try simp only [hubf] at *); grind [mem_removeL, nodup_removeL, removeL_nil]))
  case nodup =>
    cases hc : x.conn <;> simp only []
    all_goals first
      | (have f_nodup := hi.nodup; clear hi; (intros; (try simp only [hubf] at *); grind [mem_removeL, nodup_removeL, removeL_nil]))
      | (have f_fresh := hi.fresh; have f_mem_room := hi.mem_room; have f_room_mem := hi.room_mem; have f_nonempty := hi.nonempty; have f_nodup := hi.nodup; have f_roomL_iff := hi.roomL_iff; have f_roomL_nodup := hi.roomL_nodup; have f_userL_iff := hi.userL_iff; have f_userL_nodup := hi.userL_nodup; have f_sessL_iff := hi.sessL_iff; have f_rs_fwd := hi.rs_fwd; have f_rs_room := hi.rs_room; have f_virt := hi.virt; have f_children := hi.children; have f_vtable := hi.vtable; have f_conn_iff := hi.conn_iff; have f_conn_open := hi.conn_open; have f_eh := hi.eh; have f_expired := hi.expired; have f_anon := hi.anon; have f_dialout := hi.dialout; have f_count := hi.count; have f_orph_virt := hi.orph_virt; clear hi; (intros; (try simp only [hubf] at *); grind [mem_removeL, nodup_removeL, removeL_nil]))
  case roomL_iff =>
    cases hc : x.conn <;> simp only []
    all_goals first
      | (have f_roomL_iff := hi.roomL_iff; have f_fresh := hi.fresh; have f_room_mem := hi.room_mem; have f_mem_room := hi.mem_room; clear hi; (intros; (try simp only [hubf] at *); grind [mem_removeL, nodup_removeL, removeL_nil]))
      | (have f_fresh := hi.fresh; have f_mem_room := hi.mem_room; have f_room_mem := hi.room_mem; have f_nonempty := hi.nonempty; have f_nodup := hi.nodup; have f_roomL_iff := hi.roomL_iff; have f_roomL_nodup := hi.roomL_nodup; have f_userL_iff := hi.userL_iff; have f_userL_nodup := hi.userL_nodup; have f_sessL_iff := hi.sessL_iff; have f_rs_fwd := hi.rs_fwd; have f_rs_room := hi.rs_room; have f_virt := hi.virt; have f_children := hi.children; have f_vtable := hi.vtable; have f_conn_iff := hi.conn_iff; have f_conn_open := hi.conn_open; have f_eh := hi.eh; have f_expired := hi.expired; have f_anon := hi.anon; have f_dialout := hi.dialout; have f_count := hi.count; have f_orph_virt := hi.orph_virt; clear hi; (intros; (try simp only [hubf] at *); grind [mem_removeL, nodup_removeL, removeL_nil]))
  case roomL_nodup =>
    cases hc : x.conn <;> simp only []
    all_goals first
      | (have f_roomL_nodup := hi.roomL_nodup; have f_roomL_iff := hi.roomL_iff; clear hi; (intros; (try simp only [hubf] at *); grind [mem_removeL, nodup_removeL, removeL_nil]))
      | (have f_fresh := hi.fresh; have f_mem_room := hi.mem_room; have f_room_mem := hi.room_mem; have f_nonempty := hi.nonempty; have f_nodup := hi.nodup; have f_roomL_iff := hi.roomL_iff; have f_roomL_nodup := hi.roomL_nodup; have f_userL_iff := hi.userL_iff; have f_userL_nodup := hi.userL_nodup; have f_sessL_iff := hi.sessL_iff; have f_rs_fwd := hi.rs_fwd; have f_rs_room := hi.rs_room; have f_virt := hi.virt; have f_children := hi.children; have f_vtable := hi.vtable; have f_conn_iff := hi.conn_iff; have f_conn_open := hi.conn_open; have f_eh := hi.eh; have f_expired := hi.expired; have f_anon := hi.anon; have f_dialout := hi.dialout; have f_count := hi.count; have f_orph_virt := hi.orph_virt; clear hi; (intros; (try simp only [hubf] at *); grind [mem_removeL, nodup_removeL, removeL_nil]))
  case userL_iff =>
    cases hc : x.conn <;> simp only []
    all_goals first
      | (have f_userL_iff := hi.userL_iff; have f_fresh := hi.fresh; clear hi; (intros; (try simp only [hubf] at *); grind [mem_removeL, nodup_removeL, removeL_nil]))
      | (have f_fresh := hi.fresh; have f_mem_room := hi.mem_room; have f_room_mem := hi.room_mem; have f_nonempty := hi.nonempty; have f_nodup := hi.nodup; have f_roomL_iff := hi.roomL_iff; have f_roomL_nodup := hi.roomL_nodup; have f_userL_iff := hi.userL_iff; have f_userL_nodup := hi.userL_nodup; have f_sessL_iff := hi.sessL_iff; have f_rs_fwd := hi.rs_fwd; have f_rs_room := hi.rs_room; have f_virt := hi.virt; have f_children := hi.children; have f_vtable := hi.vtable; have f_conn_iff := hi.conn_iff; have f_conn_open := hi.conn_open; have f_eh := hi.eh; have f_expired := hi.expired; have f_anon := hi.anon; have f_dialout := hi.dialout; have f_count := hi.count; have f_orph_virt := hi.orph_virt; clear hi; (intros; (try simp only [hubf] at *); grind [mem_removeL, nodup_removeL, removeL_nil]))
  case userL_nodup =>
    cases hc : x.conn <;> simp only []
    all_goals first
      | (have f_userL_nodup := hi.userL_nodup; have f_userL_iff := hi.userL_iff; clear hi; (intros; (try simp only [hubf] at *); grind [mem_removeL, nodup_removeL, removeL_nil]))
      | (have f_fresh := hi.fresh; have f_mem_room := hi.mem_room; have f_room_mem := hi.room_mem; have f_nonempty := hi.nonempty; have f_nodup := hi.nodup; have f_roomL_iff := hi.roomL_iff; have f_roomL_nodup := hi.roomL_nodup; have f_userL_iff := hi.userL_iff; have f_userL_nodup := hi.userL_nodup; have f_sessL_iff := hi.sessL_iff; have f_rs_fwd := hi.rs_fwd; have f_rs_room := hi.rs_room; have f_virt := hi.virt; have f_children := hi.children; have f_vtable := hi.vtable; have f_conn_iff := hi.conn_iff; have f_conn_open := hi.conn_open; have f_eh := hi.eh; have f_expired := hi.expired; have f_anon := hi.anon; have f_dialout := hi.dialout; have f_count := hi.count; have f_orph_virt := hi.orph_virt; clear hi; (intros; (try simp only [hubf] at *); grind [mem_removeL, nodup_removeL, removeL_nil]))
  case sessL_iff =>
    cases hc : x.conn <;> simp only []
    all_goals first
      | (have f_sessL_iff := hi.sessL_iff; have f_fresh := hi.fresh; clear hi; (intros; (try simp only [hubf] at *); grind [mem_removeL, nodup_removeL, removeL_nil]))
      | (have f_fresh := hi.fresh; have f_mem_room := hi.mem_room; have f_room_mem := hi.room_mem; have f_nonempty := hi.nonempty; have f_nodup := hi.nodup; have f_roomL_iff := hi.roomL_iff; have f_roomL_nodup := hi.roomL_nodup; have f_userL_iff := hi.userL_iff; have f_userL_nodup := hi.userL_nodup; have f_sessL_iff := hi.sessL_iff; have f_rs_fwd := hi.rs_fwd; have f_rs_room := hi.rs_room; have f_virt := hi.virt; have f_children := hi.children; have f_vtable := hi.vtable; have f_conn_iff := hi.conn_iff; have f_conn_open := hi.conn_open; have f_eh := hi.eh; have f_expired := hi.expired; have f_anon := hi.anon; have f_dialout := hi.dialout; have f_count := hi.count; have f_orph_virt := hi.orph_virt; clear hi; (intros; (try simp only [hubf] at *); grind [mem_removeL, nodup_removeL, removeL_nil]))
  case rs_fwd =>
    cases hc : x.conn <;> simp only []
    all_goals first
      | (have f_rs_fwd := hi.rs_fwd; have f_rs_room := hi.rs_room; have f_fresh := hi.fresh; clear hi; (intros; (try simp only [hubf] at *); grind [mem_removeL, nodup_removeL, removeL_nil]))
      | (have f_fresh := hi.fresh; have f_mem_room := hi.mem_room; have f_room_mem := hi.room_mem; have f_nonempty := hi.nonempty; have f_nodup := hi.nodup; have f_roomL_iff := hi.roomL_iff; have f_roomL_nodup := hi.roomL_nodup; have f_userL_iff := hi.userL_iff; have f_userL_nodup := hi.userL_nodup; have f_sessL_iff := hi.sessL_iff; have f_rs_fwd := hi.rs_fwd; have f_rs_room := hi.rs_room; have f_virt := hi.virt; have f_children := hi.children; have f_vtable := hi.vtable; have f_conn_iff := hi.conn_iff; have f_conn_open := hi.conn_open; have f_eh := hi.eh; have f_expired := hi.expired; have f_anon := hi.anon; have f_dialout := hi.dialout; have f_count := hi.count; have f_orph_virt := hi.orph_virt; clear hi; (intros; (try simp only [hubf] at *); grind [mem_removeL, nodup_removeL, removeL_nil]))
  case rs_room =>
    cases hc : x.conn <;> simp only []
    all_goals first
      | (have f_rs_room := hi.rs_room; have f_rs_fwd := hi.rs_fwd; have f_fresh := hi.fresh; have f_room_mem := hi.room_mem; clear hi; (intros; (try simp only [hubf] at *); grind [mem_removeL, nodup_removeL, removeL_nil]))
      | (have f_fresh := hi.fresh; have f_mem_room := hi.mem_room; have f_room_mem := hi.room_mem; have f_nonempty := hi.nonempty; have f_nodup := hi.nodup; have f_roomL_iff := hi.roomL_iff; have f_roomL_nodup := hi.roomL_nodup; have f_userL_iff := hi.userL_iff; have f_userL_nodup := hi.userL_nodup; have f_sessL_iff := hi.sessL_iff; have f_rs_fwd := hi.rs_fwd; have f_rs_room := hi.rs_room; have f_virt := hi.virt; have f_children := hi.children; have f_vtable := hi.vtable; have f_conn_iff := hi.conn_iff; have f_conn_open := hi.conn_open; have f_eh := hi.eh; have f_expired := hi.expired; have f_anon := hi.anon; have f_dialout := hi.dialout; have f_count := hi.count; have f_orph_virt := hi.orph_virt; clear hi; (intros; (try simp only [hubf] at *); grind [mem_removeL, nodup_removeL, removeL_nil]))
  case virt =>
    cases hc : x.conn <;> simp only []
    all_goals first
      | (have f_virt := hi.virt; have f_children := hi.children; have f_fresh := hi.fresh; clear hi; (intros; (try simp only [hubf] at *); grind [mem_removeL, nodup_removeL, removeL_nil]))
      | (have f_fresh := hi.fresh; have f_mem_room := hi.mem_room; have f_room_mem := hi.room_mem; have f_nonempty := hi.nonempty; have f_nodup := hi.nodup; have f_roomL_iff := hi.roomL_iff; have f_roomL_nodup := hi.roomL_nodup; have f_userL_iff := hi.userL_iff; have f_userL_nodup := hi.userL_nodup; have f_sessL_iff := hi.sessL_iff; have f_rs_fwd := hi.rs_fwd; have f_rs_room := hi.rs_room; have f_virt := hi.virt; have f_children := hi.children; have f_vtable := hi.vtable; have f_conn_iff := hi.conn_iff; have f_conn_open := hi.conn_open; have f_eh := hi.eh; have f_expired := hi.expired; have f_anon := hi.anon; have f_dialout := hi.dialout; have f_count := hi.count; have f_orph_virt := hi.orph_virt; clear hi; (intros; (try simp only [hubf] at *); grind [mem_removeL, nodup_removeL, removeL_nil]))
  case children =>
    cases hc : x.conn <;> simp only []
    all_goals first
      | (have f_children := hi.children; have f_virt := hi.virt; have f_fresh := hi.fresh; clear hi; (intros; (try simp only [hubf] at *); grind [mem_removeL, nodup_removeL, removeL_nil]))
      | (have f_fresh := hi.fresh; have f_mem_room := hi.mem_room; have f_room_mem := hi.room_mem; have f_nonempty := hi.nonempty; have f_nodup := hi.nodup; have f_roomL_iff := hi.roomL_iff; have f_roomL_nodup := hi.roomL_nodup; have f_userL_iff := hi.userL_iff; have f_userL_nodup := hi.userL_nodup; have f_sessL_iff := hi.sessL_iff; have f_rs_fwd := hi.rs_fwd; have f_rs_room := hi.rs_room; have f_virt := hi.virt; have f_children := hi.children; have f_vtable := hi.vtable; have f_conn_iff := hi.conn_iff; have f_conn_open := hi.conn_open; have f_eh := hi.eh; have f_expired := hi.expired; have f_anon := hi.anon; have f_dialout := hi.dialout; have f_count := hi.count; have f_orph_virt := hi.orph_virt; clear hi; (intros; (try simp only [hubf] at *); grind [mem_removeL, nodup_removeL, removeL_nil]))
  case vtable =>
    cases hc : x.conn <;> simp only []
    all_goals first
      | (have f_vtable := hi.vtable; have f_virt := hi.virt; have f_fresh := hi.fresh; clear hi; (intros; (try simp only [hubf] at *); grind [mem_removeL, nodup_removeL, removeL_nil]))
      | (have f_fresh := hi.fresh; have f_mem_room := hi.mem_room; have f_room_mem := hi.room_mem; have f_nonempty := hi.nonempty; have f_nodup := hi.nodup; have f_roomL_iff := hi.roomL_iff; have f_roomL_nodup := hi.roomL_nodup; have f_userL_iff := hi.userL_iff; have f_userL_nodup := hi.userL_nodup; have f_sessL_iff := hi.sessL_iff; have f_rs_fwd := hi.rs_fwd; have f_rs_room := hi.rs_room; have f_virt := hi.virt; have f_children := hi.children; have f_vtable := hi.vtable; have f_conn_iff := hi.conn_iff; have f_conn_open := hi.conn_open; have f_eh := hi.eh; have f_expired := hi.expired; have f_anon := hi.anon; have f_dialout := hi.dialout; have f_count := hi.count; have f_orph_virt := hi.orph_virt; clear hi; (intros; (try simp only [hubf] at *); grind [mem_removeL, nodup_removeL, removeL_nil]))
  case conn_iff =>
    cases hc : x.conn <;> simp only []
    all_goals first
      | (have f_conn_iff := hi.conn_iff; have f_fresh := hi.fresh; have f_virt := hi.virt; clear hi; (intros; (try simp only [hubf] at *); grind [mem_removeL, nodup_removeL, removeL_nil]))
      | (have f_fresh := hi.fresh; have f_mem_room := hi.mem_room; have f_room_mem := hi.room_mem; have f_nonempty := hi.nonempty; have f_nodup := hi.nodup; have f_roomL_iff := hi.roomL_iff; have f_roomL_nodup := hi.roomL_nodup; have f_userL_iff := hi.userL_iff; have f_userL_nodup := hi.userL_nodup; have f_sessL_iff := hi.sessL_iff; have f_rs_fwd := hi.rs_fwd; have f_rs_room := hi.rs_room; have f_virt := hi.virt; have f_children := hi.children; have f_vtable := hi.vtable; have f_conn_iff := hi.conn_iff; have f_conn_open := hi.conn_open; have f_eh := hi.eh; have f_expired := hi.expired; have f_anon := hi.anon; have f_dialout := hi.dialout; have f_count := hi.count; have f_orph_virt := hi.orph_virt; clear hi; (intros; (try simp only [hubf] at *); grind [mem_removeL, nodup_removeL, removeL_nil]))
  case conn_open =>
    cases hc : x.conn <;> simp only []
    all_goals first
      | (have f_conn_open := hi.conn_open; have f_conn_iff := hi.conn_iff; clear hi; (intros; (try simp only [hubf] at *); grind [mem_removeL, nodup_removeL, removeL_nil]))
      | (have f_fresh := hi.fresh; have f_mem_room := hi.mem_room; have f_room_mem := hi.room_mem; have f_nonempty := hi.nonempty; have f_nodup := hi.nodup; have f_roomL_iff := hi.roomL_iff; have f_roomL_nodup := hi.roomL_nodup; have f_userL_iff := hi.userL_iff; have f_userL_nodup := hi.userL_nodup; have f_sessL_iff := hi.sessL_iff; have f_rs_fwd := hi.rs_fwd; have f_rs_room := hi.rs_room; have f_virt := hi.virt; have f_children := hi.children; have f_vtable := hi.vtable; have f_conn_iff := hi.conn_iff; have f_conn_open := hi.conn_open; have f_eh := hi.eh; have f_expired := hi.expired; have f_anon := hi.anon; have f_dialout := hi.dialout; have f_count := hi.count; have f_orph_virt := hi.orph_virt; clear hi; (intros; (try simp only [hubf] at *); grind [mem_removeL, nodup_removeL, removeL_nil]))
  case eh =>
    cases hc : x.conn <;> simp only []
    all_goals first
      | (have f_eh := hi.eh; have f_conn_iff := hi.conn_iff; have f_conn_open := hi.conn_open; clear hi; (intros; (try simp only [hubf] at *); grind [mem_removeL, nodup_removeL, removeL_nil]))
      | (have f_fresh := hi.fresh; have f_mem_room := hi.mem_room; have f_room_mem := hi.room_mem; have f_nonempty := hi.nonempty; have f_nodup := hi.nodup; have f_roomL_iff := hi.roomL_iff; have f_roomL_nodup := hi.roomL_nodup; have f_userL_iff := hi.userL_iff; have f_userL_nodup := hi.userL_nodup; have f_sessL_iff := hi.sessL_iff; have f_rs_fwd := hi.rs_fwd; have f_rs_room := hi.rs_room; have f_virt := hi.virt; have f_children := hi.children; have f_vtable := hi.vtable; have f_conn_iff := hi.conn_iff; have f_conn_open := hi.conn_open; have f_eh := hi.eh; have f_expired := hi.expired; have f_anon := hi.anon; have f_dialout := hi.dialout; have f_count := hi.count; have f_orph_virt := hi.orph_virt; clear hi; (intros; (try simp only [hubf] at *); grind [mem_removeL, nodup_removeL, removeL_nil]))
  case expired =>
    cases hc : x.conn <;> simp only []
    all_goals first
      | (have f_expired := hi.expired; have f_fresh := hi.fresh; clear hi; (intros; (try simp only [hubf] at *); grind [mem_removeL, nodup_removeL, removeL_nil]))
      | (have f_fresh := hi.fresh; have f_mem_room := hi.mem_room; have f_room_mem := hi.room_mem; have f_nonempty := hi.nonempty; have f_nodup := hi.nodup; have f_roomL_iff := hi.roomL_iff; have f_roomL_nodup := hi.roomL_nodup; have f_userL_iff := hi.userL_iff; have f_userL_nodup := hi.userL_nodup; have f_sessL_iff := hi.sessL_iff; have f_rs_fwd := hi.rs_fwd; have f_rs_room := hi.rs_room; have f_virt := hi.virt; have f_children := hi.children; have f_vtable := hi.vtable; have f_conn_iff := hi.conn_iff; have f_conn_open := hi.conn_open; have f_eh := hi.eh; have f_expired := hi.expired; have f_anon := hi.anon; have f_dialout := hi.dialout; have f_count := hi.count; have f_orph_virt := hi.orph_virt; clear hi; (intros; (try simp only [hubf] at *); grind [mem_removeL, nodup_removeL, removeL_nil]))
  case anon =>
    cases hc : x.conn <;> simp only []
    all_goals first
      | (have f_anon := hi.anon; have f_fresh := hi.fresh; clear hi; (intros; (try simp only [hubf] at *); grind [mem_removeL, nodup_removeL, removeL_nil]))
      | (have f_fresh := hi.fresh; have f_mem_room := hi.mem_room; have f_room_mem := hi.room_mem; have f_nonempty := hi.nonempty; have f_nodup := hi.nodup; have f_roomL_iff := hi.roomL_iff; have f_roomL_nodup := hi.roomL_nodup; have f_userL_iff := hi.userL_iff; have f_userL_nodup := hi.userL_nodup; have f_sessL_iff := hi.sessL_iff; have f_rs_fwd := hi.rs_fwd; have f_rs_room := hi.rs_room; have f_virt := hi.virt; have f_children := hi.children; have f_vtable := hi.vtable; have f_conn_iff := hi.conn_iff; have f_conn_open := hi.conn_open; have f_eh := hi.eh; have f_expired := hi.expired; have f_anon := hi.anon; have f_dialout := hi.dialout; have f_count := hi.count; have f_orph_virt := hi.orph_virt; clear hi; (intros; (try simp only [hubf] at *); grind [mem_removeL, nodup_removeL, removeL_nil]))
  case dialout =>
    cases hc : x.conn <;> simp only []
    all_goals first
      | (have f_dialout := hi.dialout; have f_fresh := hi.fresh; clear hi; (intros; (try simp only [hubf] at *); grind [mem_removeL, nodup_removeL, removeL_nil]))
      | (have f_fresh := hi.fresh; have f_mem_room := hi.mem_room; have f_room_mem := hi.room_mem; have f_nonempty := hi.nonempty; have f_nodup := hi.nodup; have f_roomL_iff := hi.roomL_iff; have f_roomL_nodup := hi.roomL_nodup; have f_userL_iff := hi.userL_iff; have f_userL_nodup := hi.userL_nodup; have f_sessL_iff := hi.sessL_iff; have f_rs_fwd := hi.rs_fwd; have f_rs_room := hi.rs_room; have f_virt := hi.virt; have f_children := hi.children; have f_vtable := hi.vtable; have f_conn_iff := hi.conn_iff; have f_conn_open := hi.conn_open; have f_eh := hi.eh; have f_expired := hi.expired; have f_anon := hi.anon; have f_dialout := hi.dialout; have f_count := hi.count; have f_orph_virt := hi.orph_virt; clear hi; (intros; (try simp only [hubf] at *); grind [mem_removeL, nodup_removeL, removeL_nil]))
  case count =>
    cases hc : x.conn <;> simp only []
    all_goals first
      | (have f_count := hi.count; have f_fresh := hi.fresh; clear hi; (intros; (try simp only [hubf] at *); grind [mem_removeL, nodup_removeL, removeL_nil]))
      | (have f_fresh := hi.fresh; have f_mem_room := hi.mem_room; have f_room_mem := hi.room_mem; have f_nonempty := hi.nonempty; have f_nodup := hi.nodup; have f_roomL_iff := hi.roomL_iff; have f_roomL_nodup := hi.roomL_nodup; have f_userL_iff := hi.userL_iff; have f_userL_nodup := hi.userL_nodup; have f_sessL_iff := hi.sessL_iff; have f_rs_fwd := hi.rs_fwd; have f_rs_room := hi.rs_room; have f_virt := hi.virt; have f_children := hi.children; have f_vtable := hi.vtable; have f_conn_iff := hi.conn_iff; have f_conn_open := hi.conn_open; have f_eh := hi.eh; have f_expired := hi.expired; have f_anon := hi.anon; have f_dialout := hi.dialout; have f_count := hi.count; have f_orph_virt := hi.orph_virt; clear hi; (intros; (try simp only [hubf] at *); grind [mem_removeL, nodup_removeL, removeL_nil]))
  case orph_virt =>
    cases hc : x.conn <;> simp only []
    all_goals first
      | (have f_orph_virt := hi.orph_virt; have f_fresh := hi.fresh; have f_children := hi.children; have f_virt := hi.virt; clear hi; (intros; (try simp only [hubf] at *); grind [mem_removeL, nodup_removeL, removeL_nil]))
      | (have f_fresh := hi.fresh; have f_mem_room := hi.mem_room; have f_room_mem := hi.room_mem; have f_nonempty := hi.nonempty; have f_nodup := hi.nodup; have f_roomL_iff := hi.roomL_iff; have f_roomL_nodup := hi.roomL_nodup; have f_userL_iff := hi.userL_iff; have f_userL_nodup := hi.userL_nodup; have f_sessL_iff := hi.sessL_iff; have f_rs_fwd := hi.rs_fwd; have f_rs_room := hi.rs_room; have f_virt := hi.virt; have f_children := hi.children; have f_vtable := hi.vtable; have f_conn_iff := hi.conn_iff; have f_conn_open := hi.conn_open; have f_eh := hi.eh; have f_expired := hi.expired; have f_anon := hi.anon; have f_dialout := hi.dialout; have f_count := hi.count; have f_orph_virt := hi.orph_virt; clear hi; (intros; (try simp only [hubf] at *); grind [mem_removeL, nodup_removeL, removeL_nil]))

theorem flushPending_h (s : Nat) : ∀ (l : List Msg) (a : Acc), (flushPending a s l).h = a.h := by
  intro l
  induction l with
  | nil => intro a; rfl
  | cons m l ih =>
    intro a
    unfold flushPending at *
    simp only [List.foldl_cons]
    rw [ih]
    split
    · split <;> rfl
    · rfl

theorem processResume_inv (a : Acc) (c : Nat) (os : Option Nat) (hi : Inv a.h) : Inv (processResume a c os).h := by
  unfold processResume
  by_cases hg : (!a.h.connOpen c || (a.h.connSess c).isSome) = true
  · simp only [hg, if_true]; exact hi
  · simp only [hg]
    have hopen : a.h.connOpen c = true := by
      cases h : a.h.connOpen c <;> simp_all
    have hfree : a.h.connSess c = none := by
      cases h : a.h.connSess c <;> simp_all
    cases os with
    | none => exact hi
    | some s =>
      simp only []
      cases hx : a.h.sess s with
      | none => exact hi
      | some x =>
        simp only []
        by_cases hk : x.kind = .virtual
        · simp only [hk, if_true]; exact hi
        · simp only [hk, if_false]
          have hr := resumeTables_inv hi hx hk hopen hfree
          by_cases hn : needsParticipants x.pending = true
          · simp only [hn, if_true]
            refine hr.congr ?_
            have := notifyResumed_core (flushPending { a with h := resumeTables a.h c s x, outs := (a.outs ++
                match x.conn with
                | some p => [⟨p, Msg.bye "session_resumed", some x.backend⟩]
                | none => []) ++ [⟨c, .hello s (userOf (resumeTables a.h c s x) s { x with conn := some c, pending := [] }), some x.backend⟩] } s x.pending) s
            rw [flushPending_h] at this
            exact this
          · simp only [hn, Bool.false_eq_true, if_false]; rw [flushPending_h]; exact hr

set_option maxHeartbeats 4000000 in
theorem disconnectTables_inv {h : Hub} (hi : Inv h) {c s : Nat} (hcs : h.connSess c = some s) :
    Inv (disconnectTables h c s) := by
  obtain ⟨x, hx, hxc⟩ := (hi.conn_iff c s).mp hcs
  have hcu : ∀ c' s1 s2 x1 x2, h.sess s1 = some x1 → x1.conn = some c' → h.sess s2 = some x2 → x2.conn = some c' → s1 = s2 :=
    fun c' s1 s2 x1 x2 h1 h2 h3 h4 => conn_unique hi h1 h2 h3 h4
  have hm : modSess (closeConn h c) s (fun x => if x.conn = some c then { x with conn := none } else x)
      = setSess (closeConn h c) s (some { x with conn := none }) := by
    unfold modSess; simp only [hubf, hx, hxc, if_true]
  unfold disconnectTables
  simp only [hm]
  constructor
  case fresh =>
    first
      | (have f_fresh := hi.fresh; clear hi; (intros; (try simp only [hubf] at *); grind [mem_removeL, nodup_removeL, removeL_nil]))
      | (have f_fresh := hi.fresh; have f_mem_room := hi.mem_room; have f_room_mem := hi.room_mem; have f_nonempty := hi.nonempty; have f_nodup := hi.nodup; have f_roomL_iff := hi.roomL_iff; have f_roomL_nodup := hi.roomL_nodup; have f_userL_iff := hi.userL_iff; have f_userL_nodup := hi.userL_nodup; have f_sessL_iff := hi.sessL_iff; have f_rs_fwd := hi.rs_fwd; have f_rs_room := hi.rs_room; have f_virt := hi.virt; have f_children := hi.children; have f_vtable := hi.vtable; have f_conn_iff := hi.conn_iff; have f_conn_open := hi.conn_open; have f_eh := hi.eh; have f_expired := hi.expired; have f_anon := hi.anon; have f_dialout := hi.dialout; have f_count := hi.count; have f_orph_virt := hi.orph_virt; clear hi; (intros; (try simp only [hubf] at *); grind [mem_removeL, nodup_removeL, removeL_nil]))
  case mem_room =>
    first
      | (have f_mem_room := hi.mem_room; have f_fresh := hi.fresh; clear hi; (intros; (try simp only [hubf] at *); grind [mem_removeL, nodup_removeL, removeL_nil]))
      | (have f_fresh := hi.fresh; have f_mem_room := hi.mem_room; have f_room_mem := hi.room_mem; have f_nonempty := hi.nonempty; have f_nodup := hi.nodup; have f_roomL_iff := hi.roomL_iff; have f_roomL_nodup := hi.roomL_nodup; have f_userL_iff := hi.userL_iff; have f_userL_nodup := hi.userL_nodup; have f_sessL_iff := hi.sessL_iff; have f_rs_fwd := hi.rs_fwd; have f_rs_room := hi.rs_room; have f_virt := hi.virt; have f_children := hi.children; have f_vtable := hi.vtable; have f_conn_iff := hi.conn_iff; have f_conn_open := hi.conn_open; have f_eh := hi.eh; have f_expired := hi.expired; have f_anon := hi.anon; have f_dialout := hi.dialout; have f_count := hi.count; have f_orph_virt := hi.orph_virt; clear hi; (intros; (try simp only [hubf] at *); grind [mem_removeL, nodup_removeL, removeL_nil]))
  case room_mem =>
    first
      | (have f_room_mem := hi.room_mem; have f_mem_room := hi.mem_room; have f_fresh := hi.fresh; clear hi; (intros; (try simp only [hubf] at *); grind [mem_removeL, nodup_removeL, removeL_nil]))
      | (have f_fresh := hi.fresh; have f_mem_room := hi.mem_room; have f_room_mem := hi.room_mem; have f_nonempty := hi.nonempty; have f_nodup := hi.nodup; have f_roomL_iff := hi.roomL_iff; have f_roomL_nodup := hi.roomL_nodup; have f_userL_iff := hi.userL_iff; have f_userL_nodup := hi.userL_nodup; have f_sessL_iff := hi.sessL_iff; have f_rs_fwd := hi.rs_fwd; have f_rs_room := hi.rs_room; have f_virt := hi.virt; have f_children := hi.children; have f_vtable := hi.vtable; have f_conn_iff := hi.conn_iff; have f_conn_open := hi.conn_open; have f_eh := hi.eh; have f_expired := hi.expired; have f_anon := hi.anon; have f_dialout := hi.dialout; have f_count := hi.count; have f_orph_virt := hi.orph_virt; clear hi; (intros; (try simp only [hubf] at *); grind [mem_removeL, nodup_removeL, removeL_nil]))
  case nonempty =>
    first
      | (have f_nonempty := hi.nonempty; have f_mem_room := hi.mem_room; clear hi; (intros; (try simp only [hubf] at *); grind [mem_removeL, nodup_removeL, removeL_nil]))
      | (have f_fresh := hi.fresh; have f_mem_room := hi.mem_room; have f_room_mem := hi.room_mem; have f_nonempty := hi.nonempty; have f_nodup := hi.nodup; have f_roomL_iff := hi.roomL_iff; have f_roomL_nodup := hi.roomL_nodup; have f_userL_iff := hi.userL_iff; have f_userL_nodup := hi.userL_nodup; have f_sessL_iff := hi.sessL_iff; have f_rs_fwd := hi.rs_fwd; have f_rs_room := hi.rs_room; have f_virt := hi.virt; have f_children := hi.children; have f_vtable := hi.vtable; have f_conn_iff := hi.conn_iff; have f_conn_open := hi.conn_open; have f_eh := hi.eh; have f_expired := hi.expired; have f_anon := hi.anon; have f_dialout := hi.dialout; have f_count := hi.count; have f_orph_virt := hi.orph_virt; clear hi; (intros; (try simp only [hubf] at *); grind [mem_removeL, nodup_removeL, removeL_nil]))
  case nodup =>
    first
      | (have f_nodup := hi.nodup; clear hi; (intros; (try simp only [hubf] at *); grind [mem_removeL, nodup_removeL, removeL_nil]))
      | (have f_fresh := hi.fresh; have f_mem_room := hi.mem_room; have f_room_mem := hi.room_mem; have f_nonempty := hi.nonempty; have f_nodup := hi.nodup; have f_roomL_iff := hi.roomL_iff; have f_roomL_nodup := hi.roomL_nodup; have f_userL_iff := hi.userL_iff; have f_userL_nodup := hi.userL_nodup; have f_sessL_iff := hi.sessL_iff; have f_rs_fwd := hi.rs_fwd; have f_rs_room := hi.rs_room; have f_virt := hi.virt; have f_children := hi.children; have f_vtable := hi.vtable; have f_conn_iff := hi.conn_iff; have f_conn_open := hi.conn_open; have f_eh := hi.eh; have f_expired := hi.expired; have f_anon := hi.anon; have f_dialout := hi.dialout; have f_count := hi.count; have f_orph_virt := hi.orph_virt; clear hi; (intros; (try simp only [hubf] at *); grind [mem_removeL, nodup_removeL, removeL_nil]))
  case roomL_iff =>
    first
      | (have f_roomL_iff := hi.roomL_iff; have f_fresh := hi.fresh; have f_room_mem := hi.room_mem; have f_mem_room := hi.mem_room; clear hi; (intros; (try simp only [hubf] at *); grind [mem_removeL, nodup_removeL, removeL_nil]))
      | (have f_fresh := hi.fresh; have f_mem_room := hi.mem_room; have f_room_mem := hi.room_mem; have f_nonempty := hi.nonempty; have f_nodup := hi.nodup; have f_roomL_iff := hi.roomL_iff; have f_roomL_nodup := hi.roomL_nodup; have f_userL_iff := hi.userL_iff; have f_userL_nodup := hi.userL_nodup; have f_sessL_iff := hi.sessL_iff; have f_rs_fwd := hi.rs_fwd; have f_rs_room := hi.rs_room; have f_virt := hi.virt; have f_children := hi.children; have f_vtable := hi.vtable; have f_conn_iff := hi.conn_iff; have f_conn_open := hi.conn_open; have f_eh := hi.eh; have f_expired := hi.expired; have f_anon := hi.anon; have f_dialout := hi.dialout; have f_count := hi.count; have f_orph_virt := hi.orph_virt; clear hi; (intros; (try simp only [hubf] at *); grind [mem_removeL, nodup_removeL, removeL_nil]))
  case roomL_nodup =>
    first
      | (have f_roomL_nodup := hi.roomL_nodup; have f_roomL_iff := hi.roomL_iff; clear hi; (intros; (try simp only [hubf] at *); grind [mem_removeL, nodup_removeL, removeL_nil]))
      | (have f_fresh := hi.fresh; have f_mem_room := hi.mem_room; have f_room_mem := hi.room_mem; have f_nonempty := hi.nonempty; have f_nodup := hi.nodup; have f_roomL_iff := hi.roomL_iff; have f_roomL_nodup := hi.roomL_nodup; have f_userL_iff := hi.userL_iff; have f_userL_nodup := hi.userL_nodup; have f_sessL_iff := hi.sessL_iff; have f_rs_fwd := hi.rs_fwd; have f_rs_room := hi.rs_room; have f_virt := hi.virt; have f_children := hi.children; have f_vtable := hi.vtable; have f_conn_iff := hi.conn_iff; have f_conn_open := hi.conn_open; have f_eh := hi.eh; have f_expired := hi.expired; have f_anon := hi.anon; have f_dialout := hi.dialout; have f_count := hi.count; have f_orph_virt := hi.orph_virt; clear hi; (intros; (try simp only [hubf] at *); grind [mem_removeL, nodup_removeL, removeL_nil]))
  case userL_iff =>
    first
      | (have f_userL_iff := hi.userL_iff; have f_fresh := hi.fresh; clear hi; (intros; (try simp only [hubf] at *); grind [mem_removeL, nodup_removeL, removeL_nil]))
      | (have f_fresh := hi.fresh; have f_mem_room := hi.mem_room; have f_room_mem := hi.room_mem; have f_nonempty := hi.nonempty; have f_nodup := hi.nodup; have f_roomL_iff := hi.roomL_iff; have f_roomL_nodup := hi.roomL_nodup; have f_userL_iff := hi.userL_iff; have f_userL_nodup := hi.userL_nodup; have f_sessL_iff := hi.sessL_iff; have f_rs_fwd := hi.rs_fwd; have f_rs_room := hi.rs_room; have f_virt := hi.virt; have f_children := hi.children; have f_vtable := hi.vtable; have f_conn_iff := hi.conn_iff; have f_conn_open := hi.conn_open; have f_eh := hi.eh; have f_expired := hi.expired; have f_anon := hi.anon; have f_dialout := hi.dialout; have f_count := hi.count; have f_orph_virt := hi.orph_virt; clear hi; (intros; (try simp only [hubf] at *); grind [mem_removeL, nodup_removeL, removeL_nil]))
  case userL_nodup =>
    first
      | (have f_userL_nodup := hi.userL_nodup; have f_userL_iff := hi.userL_iff; clear hi; (intros; (try simp only [hubf] at *); grind [mem_removeL, nodup_removeL, removeL_nil]))
      | (have f_fresh := hi.fresh; have f_mem_room := hi.mem_room; have f_room_mem := hi.room_mem; have f_nonempty := hi.nonempty; have f_nodup := hi.nodup; have f_roomL_iff := hi.roomL_iff; have f_roomL_nodup := hi.roomL_nodup; have f_userL_iff := hi.userL_iff; have f_userL_nodup := hi.userL_nodup; have f_sessL_iff := hi.sessL_iff; have f_rs_fwd := hi.rs_fwd; have f_rs_room := hi.rs_room; have f_virt := hi.virt; have f_children := hi.children; have f_vtable := hi.vtable; have f_conn_iff := hi.conn_iff; have f_conn_open := hi.conn_open; have f_eh := hi.eh; have f_expired := hi.expired; have f_anon := hi.anon; have f_dialout := hi.dialout; have f_count := hi.count; have f_orph_virt := hi.orph_virt; clear hi; (intros; (try simp only [hubf] at *); grind [mem_removeL, nodup_removeL, removeL_nil]))
  case sessL_iff =>
    first
      | (have f_sessL_iff := hi.sessL_iff; have f_fresh := hi.fresh; clear hi; (intros; (try simp only [hubf] at *); grind [mem_removeL, nodup_removeL, removeL_nil]))
      | (have f_fresh := hi.fresh; have f_mem_room := hi.mem_room; have f_room_mem := hi.room_mem; have f_nonempty := hi.nonempty; have f_nodup := hi.nodup; have f_roomL_iff := hi.roomL_iff; have f_roomL_nodup := hi.roomL_nodup; have f_userL_iff := hi.userL_iff; have f_userL_nodup := hi.userL_nodup; have f_sessL_iff := hi.sessL_iff; have f_rs_fwd := hi.rs_fwd; have f_rs_room := hi.rs_room; have f_virt := hi.virt; have f_children := hi.children; have f_vtable := hi.vtable; have f_conn_iff := hi.conn_iff; have f_conn_open := hi.conn_open; have f_eh := hi.eh; have f_expired := hi.expired; have f_anon := hi.anon; have f_dialout := hi.dialout; have f_count := hi.count; have f_orph_virt := hi.orph_virt; clear hi; (intros; (try simp only [hubf] at *); grind [mem_removeL, nodup_removeL, removeL_nil]))
  case rs_fwd =>
    first
      | (have f_rs_fwd := hi.rs_fwd; have f_rs_room := hi.rs_room; have f_fresh := hi.fresh; clear hi; (intros; (try simp only [hubf] at *); grind [mem_removeL, nodup_removeL, removeL_nil]))
      | (have f_fresh := hi.fresh; have f_mem_room := hi.mem_room; have f_room_mem := hi.room_mem; have f_nonempty := hi.nonempty; have f_nodup := hi.nodup; have f_roomL_iff := hi.roomL_iff; have f_roomL_nodup := hi.roomL_nodup; have f_userL_iff := hi.userL_iff; have f_userL_nodup := hi.userL_nodup; have f_sessL_iff := hi.sessL_iff; have f_rs_fwd := hi.rs_fwd; have f_rs_room := hi.rs_room; have f_virt := hi.virt; have f_children := hi.children; have f_vtable := hi.vtable; have f_conn_iff := hi.conn_iff; have f_conn_open := hi.conn_open; have f_eh := hi.eh; have f_expired := hi.expired; have f_anon := hi.anon; have f_dialout := hi.dialout; have f_count := hi.count; have f_orph_virt := hi.orph_virt; clear hi; (intros; (try simp only [hubf] at *); grind [mem_removeL, nodup_removeL, removeL_nil]))
  case rs_room =>
    first
      | (have f_rs_room := hi.rs_room; have f_rs_fwd := hi.rs_fwd; have f_fresh := hi.fresh; have f_room_mem := hi.room_mem; clear hi; (intros; (try simp only [hubf] at *); grind [mem_removeL, nodup_removeL, removeL_nil]))
      | (have f_fresh := hi.fresh; have f_mem_room := hi.mem_room; have f_room_mem := hi.room_mem; have f_nonempty := hi.nonempty; have f_nodup := hi.nodup; have f_roomL_iff := hi.roomL_iff; have f_roomL_nodup := hi.roomL_nodup; have f_userL_iff := hi.userL_iff; have f_userL_nodup := hi.userL_nodup; have f_sessL_iff := hi.sessL_iff; have f_rs_fwd := hi.rs_fwd; have f_rs_room := hi.rs_room; have f_virt := hi.virt; have f_children := hi.children; have f_vtable := hi.vtable; have f_conn_iff := hi.conn_iff; have f_conn_open := hi.conn_open; have f_eh := hi.eh; have f_expired := hi.expired; have f_anon := hi.anon; have f_dialout := hi.dialout; have f_count := hi.count; have f_orph_virt := hi.orph_virt; clear hi; (intros; (try simp only [hubf] at *); grind [mem_removeL, nodup_removeL, removeL_nil]))
  case virt =>
    first
      | (have f_virt := hi.virt; have f_children := hi.children; have f_fresh := hi.fresh; clear hi; (intros; (try simp only [hubf] at *); grind [mem_removeL, nodup_removeL, removeL_nil]))
      | (have f_fresh := hi.fresh; have f_mem_room := hi.mem_room; have f_room_mem := hi.room_mem; have f_nonempty := hi.nonempty; have f_nodup := hi.nodup; have f_roomL_iff := hi.roomL_iff; have f_roomL_nodup := hi.roomL_nodup; have f_userL_iff := hi.userL_iff; have f_userL_nodup := hi.userL_nodup; have f_sessL_iff := hi.sessL_iff; have f_rs_fwd := hi.rs_fwd; have f_rs_room := hi.rs_room; have f_virt := hi.virt; have f_children := hi.children; have f_vtable := hi.vtable; have f_conn_iff := hi.conn_iff; have f_conn_open := hi.conn_open; have f_eh := hi.eh; have f_expired := hi.expired; have f_anon := hi.anon; have f_dialout := hi.dialout; have f_count := hi.count; have f_orph_virt := hi.orph_virt; clear hi; (intros; (try simp only [hubf] at *); grind [mem_removeL, nodup_removeL, removeL_nil]))
  case children =>
    first
      | (have f_children := hi.children; have f_virt := hi.virt; have f_fresh := hi.fresh; clear hi; (intros; (try simp only [hubf] at *); grind [mem_removeL, nodup_removeL, removeL_nil]))
      | (have f_fresh := hi.fresh; have f_mem_room := hi.mem_room; have f_room_mem := hi.room_mem; have f_nonempty := hi.nonempty; have f_nodup := hi.nodup; have f_roomL_iff := hi.roomL_iff; have f_roomL_nodup := hi.roomL_nodup; have f_userL_iff := hi.userL_iff; have f_userL_nodup := hi.userL_nodup; have f_sessL_iff := hi.sessL_iff; have f_rs_fwd := hi.rs_fwd; have f_rs_room := hi.rs_room; have f_virt := hi.virt; have f_children := hi.children; have f_vtable := hi.vtable; have f_conn_iff := hi.conn_iff; have f_conn_open := hi.conn_open; have f_eh := hi.eh; have f_expired := hi.expired; have f_anon := hi.anon; have f_dialout := hi.dialout; have f_count := hi.count; have f_orph_virt := hi.orph_virt; clear hi; (intros; (try simp only [hubf] at *); grind [mem_removeL, nodup_removeL, removeL_nil]))
  case vtable =>
    first
      | (have f_vtable := hi.vtable; have f_virt := hi.virt; have f_fresh := hi.fresh; clear hi; (intros; (try simp only [hubf] at *); grind [mem_removeL, nodup_removeL, removeL_nil]))
      | (have f_fresh := hi.fresh; have f_mem_room := hi.mem_room; have f_room_mem := hi.room_mem; have f_nonempty := hi.nonempty; have f_nodup := hi.nodup; have f_roomL_iff := hi.roomL_iff; have f_roomL_nodup := hi.roomL_nodup; have f_userL_iff := hi.userL_iff; have f_userL_nodup := hi.userL_nodup; have f_sessL_iff := hi.sessL_iff; have f_rs_fwd := hi.rs_fwd; have f_rs_room := hi.rs_room; have f_virt := hi.virt; have f_children := hi.children; have f_vtable := hi.vtable; have f_conn_iff := hi.conn_iff; have f_conn_open := hi.conn_open; have f_eh := hi.eh; have f_expired := hi.expired; have f_anon := hi.anon; have f_dialout := hi.dialout; have f_count := hi.count; have f_orph_virt := hi.orph_virt; clear hi; (intros; (try simp only [hubf] at *); grind [mem_removeL, nodup_removeL, removeL_nil]))
  case conn_iff =>
    first
      | (have f_conn_iff := hi.conn_iff; have f_fresh := hi.fresh; have f_virt := hi.virt; clear hi; (intros; (try simp only [hubf] at *); grind [mem_removeL, nodup_removeL, removeL_nil]))
      | (have f_fresh := hi.fresh; have f_mem_room := hi.mem_room; have f_room_mem := hi.room_mem; have f_nonempty := hi.nonempty; have f_nodup := hi.nodup; have f_roomL_iff := hi.roomL_iff; have f_roomL_nodup := hi.roomL_nodup; have f_userL_iff := hi.userL_iff; have f_userL_nodup := hi.userL_nodup; have f_sessL_iff := hi.sessL_iff; have f_rs_fwd := hi.rs_fwd; have f_rs_room := hi.rs_room; have f_virt := hi.virt; have f_children := hi.children; have f_vtable := hi.vtable; have f_conn_iff := hi.conn_iff; have f_conn_open := hi.conn_open; have f_eh := hi.eh; have f_expired := hi.expired; have f_anon := hi.anon; have f_dialout := hi.dialout; have f_count := hi.count; have f_orph_virt := hi.orph_virt; clear hi; (intros; (try simp only [hubf] at *); grind [mem_removeL, nodup_removeL, removeL_nil]))
  case conn_open =>
    first
      | (have f_conn_open := hi.conn_open; have f_conn_iff := hi.conn_iff; clear hi; (intros; (try simp only [hubf] at *); grind [mem_removeL, nodup_removeL, removeL_nil]))
      | (have f_fresh := hi.fresh; have f_mem_room := hi.mem_room; have f_room_mem := hi.room_mem; have f_nonempty := hi.nonempty; have f_nodup := hi.nodup; have f_roomL_iff := hi.roomL_iff; have f_roomL_nodup := hi.roomL_nodup; have f_userL_iff := hi.userL_iff; have f_userL_nodup := hi.userL_nodup; have f_sessL_iff := hi.sessL_iff; have f_rs_fwd := hi.rs_fwd; have f_rs_room := hi.rs_room; have f_virt := hi.virt; have f_children := hi.children; have f_vtable := hi.vtable; have f_conn_iff := hi.conn_iff; have f_conn_open := hi.conn_open; have f_eh := hi.eh; have f_expired := hi.expired; have f_anon := hi.anon; have f_dialout := hi.dialout; have f_count := hi.count; have f_orph_virt := hi.orph_virt; clear hi; (intros; (try simp only [hubf] at *); grind [mem_removeL, nodup_removeL, removeL_nil]))
  case eh =>
    first
      | (have f_eh := hi.eh; have f_conn_iff := hi.conn_iff; have f_conn_open := hi.conn_open; clear hi; (intros; (try simp only [hubf] at *); grind [mem_removeL, nodup_removeL, removeL_nil]))
      | (have f_fresh := hi.fresh; have f_mem_room := hi.mem_room; have f_room_mem := hi.room_mem; have f_nonempty := hi.nonempty; have f_nodup := hi.nodup; have f_roomL_iff := hi.roomL_iff; have f_roomL_nodup := hi.roomL_nodup; have f_userL_iff := hi.userL_iff; have f_userL_nodup := hi.userL_nodup; have f_sessL_iff := hi.sessL_iff; have f_rs_fwd := hi.rs_fwd; have f_rs_room := hi.rs_room; have f_virt := hi.virt; have f_children := hi.children; have f_vtable := hi.vtable; have f_conn_iff := hi.conn_iff; have f_conn_open := hi.conn_open; have f_eh := hi.eh; have f_expired := hi.expired; have f_anon := hi.anon; have f_dialout := hi.dialout; have f_count := hi.count; have f_orph_virt := hi.orph_virt; clear hi; (intros; (try simp only [hubf] at *); grind [mem_removeL, nodup_removeL, removeL_nil]))
  case expired =>
    first
      | (have f_expired := hi.expired; have f_fresh := hi.fresh; clear hi; (intros; (try simp only [hubf] at *); grind [mem_removeL, nodup_removeL, removeL_nil]))
      | (have f_fresh := hi.fresh; have f_mem_room := hi.mem_room; have f_room_mem := hi.room_mem; have f_nonempty := hi.nonempty; have f_nodup := hi.nodup; have f_roomL_iff := hi.roomL_iff; have f_roomL_nodup := hi.roomL_nodup; have f_userL_iff := hi.userL_iff; have f_userL_nodup := hi.userL_nodup; have f_sessL_iff := hi.sessL_iff; have f_rs_fwd := hi.rs_fwd; have f_rs_room := hi.rs_room; have f_virt := hi.virt; have f_children := hi.children; have f_vtable := hi.vtable; have f_conn_iff := hi.conn_iff; have f_conn_open := hi.conn_open; have f_eh := hi.eh; have f_expired := hi.expired; have f_anon := hi.anon; have f_dialout := hi.dialout; have f_count := hi.count; have f_orph_virt := hi.orph_virt; clear hi; (intros; (try simp only [hubf] at *); grind [mem_removeL, nodup_removeL, removeL_nil]))
  case anon =>
    first
      | (have f_anon := hi.anon; have f_fresh := hi.fresh; clear hi; (intros; (try simp only [hubf] at *); grind [mem_removeL, nodup_removeL, removeL_nil]))
      | (have f_fresh := hi.fresh; have f_mem_room := hi.mem_room; have f_room_mem := hi.room_mem; have f_nonempty := hi.nonempty; have f_nodup := hi.nodup; have f_roomL_iff := hi.roomL_iff; have f_roomL_nodup := hi.roomL_nodup; have f_userL_iff := hi.userL_iff; have f_userL_nodup := hi.userL_nodup; have f_sessL_iff := hi.sessL_iff; have f_rs_fwd := hi.rs_fwd; have f_rs_room := hi.rs_room; have f_virt := hi.virt; have f_children := hi.children; have f_vtable := hi.vtable; have f_conn_iff := hi.conn_iff; have f_conn_open := hi.conn_open; have f_eh := hi.eh; have f_expired := hi.expired; have f_anon := hi.anon; have f_dialout := hi.dialout; have f_count := hi.count; have f_orph_virt := hi.orph_virt; clear hi; (intros; (try simp only [hubf] at *); grind [mem_removeL, nodup_removeL, removeL_nil]))
  case dialout =>
    first
      | (have f_dialout := hi.dialout; have f_fresh := hi.fresh; clear hi; (intros; (try simp only [hubf] at *); grind [mem_removeL, nodup_removeL, removeL_nil]))
      | (have f_fresh := hi.fresh; have f_mem_room := hi.mem_room; have f_room_mem := hi.room_mem; have f_nonempty := hi.nonempty; have f_nodup := hi.nodup; have f_roomL_iff := hi.roomL_iff; have f_roomL_nodup := hi.roomL_nodup; have f_userL_iff := hi.userL_iff; have f_userL_nodup := hi.userL_nodup; have f_sessL_iff := hi.sessL_iff; have f_rs_fwd := hi.rs_fwd; have f_rs_room := hi.rs_room; have f_virt := hi.virt; have f_children := hi.children; have f_vtable := hi.vtable; have f_conn_iff := hi.conn_iff; have f_conn_open := hi.conn_open; have f_eh := hi.eh; have f_expired := hi.expired; have f_anon := hi.anon; have f_dialout := hi.dialout; have f_count := hi.count; have f_orph_virt := hi.orph_virt; clear hi; (intros; (try simp only [hubf] at *); grind [mem_removeL, nodup_removeL, removeL_nil]))
  case count =>
    first
      | (have f_count := hi.count; have f_fresh := hi.fresh; clear hi; (intros; (try simp only [hubf] at *); grind [mem_removeL, nodup_removeL, removeL_nil]))
      | (have f_fresh := hi.fresh; have f_mem_room := hi.mem_room; have f_room_mem := hi.room_mem; have f_nonempty := hi.nonempty; have f_nodup := hi.nodup; have f_roomL_iff := hi.roomL_iff; have f_roomL_nodup := hi.roomL_nodup; have f_userL_iff := hi.userL_iff; have f_userL_nodup := hi.userL_nodup; have f_sessL_iff := hi.sessL_iff; have f_rs_fwd := hi.rs_fwd; have f_rs_room := hi.rs_room; have f_virt := hi.virt; have f_children := hi.children; have f_vtable := hi.vtable; have f_conn_iff := hi.conn_iff; have f_conn_open := hi.conn_open; have f_eh := hi.eh; have f_expired := hi.expired; have f_anon := hi.anon; have f_dialout := hi.dialout; have f_count := hi.count; have f_orph_virt := hi.orph_virt; clear hi; (intros; (try simp only [hubf] at *); grind [mem_removeL, nodup_removeL, removeL_nil]))
  case orph_virt =>
    first
      | (have f_orph_virt := hi.orph_virt; have f_fresh := hi.fresh; have f_children := hi.children; have f_virt := hi.virt; clear hi; (intros; (try simp only [hubf] at *); grind [mem_removeL, nodup_removeL, removeL_nil]))
      | (have f_fresh := hi.fresh; have f_mem_room := hi.mem_room; have f_room_mem := hi.room_mem; have f_nonempty := hi.nonempty; have f_nodup := hi.nodup; have f_roomL_iff := hi.roomL_iff; have f_roomL_nodup := hi.roomL_nodup; have f_userL_iff := hi.userL_iff; have f_userL_nodup := hi.userL_nodup; have f_sessL_iff := hi.sessL_iff; have f_rs_fwd := hi.rs_fwd; have f_rs_room := hi.rs_room; have f_virt := hi.virt; have f_children := hi.children; have f_vtable := hi.vtable; have f_conn_iff := hi.conn_iff; have f_conn_open := hi.conn_open; have f_eh := hi.eh; have f_expired := hi.expired; have f_anon := hi.anon; have f_dialout := hi.dialout; have f_count := hi.count; have f_orph_virt := hi.orph_virt; clear hi; (intros; (try simp only [hubf] at *); grind [mem_removeL, nodup_removeL, removeL_nil]))

theorem processDisconnect_inv (a : Acc) (c : Nat) (hi : Inv a.h) : Inv (processDisconnect a c).h := by
  unfold processDisconnect
  by_cases hg : (!a.h.connOpen c) = true
  · simp only [hg, if_true]; exact hi
  · simp only [hg]
    cases hcs : a.h.connSess c with
    | none =>
      apply closeConn_inv hi
      intro s x hx hxc
      have := (hi.conn_iff c s).mpr ⟨x, hx, hxc⟩
      rw [hcs] at this; cases this
    | some s => exact disconnectTables_inv hi hcs

theorem processBye_inv (a : Acc) (c : Nat) (hi : Inv a.h) : Inv (processBye a c).h := by
  unfold processBye
  cases hcs : a.h.connSess c with
  | none => simp only []; split <;> exact hi
  | some s =>
    simp only []
    exact closeSession_inv _ s (processDisconnect_inv _ c hi)

/-! ### housekeeping -/

theorem foldl_inv {α : Type} (f : Acc → α → Acc) (hf : ∀ a x, Inv a.h → Inv (f a x).h) :
    ∀ (l : List α) (a : Acc), Inv a.h → Inv (l.foldl f a).h := by
  intro l
  induction l with
  | nil => intro a hi; exact hi
  | cons x l ih => intro a hi; exact ih _ (hf a x hi)

theorem timeoutAnon_inv (a : Acc) (s : Nat) (hi : Inv a.h) : Inv (timeoutAnon a s).h := by
  unfold timeoutAnon
  cases hx : a.h.sess s with
  | none => exact hi
  | some x =>
    simp only []
    cases hc : x.conn with
    | none => exact closeSession_inv a s hi
    | some c =>
      exact closeSessionConn_inv { a with outs := a.outs ++ [⟨c, Msg.bye "room_join_timeout", some x.backend⟩] } s hi hx hc

/-- Closing connections that have no session, one after the other. -/
theorem foldl_timeoutHello_inv : ∀ (l : List Nat) (a : Acc), Inv a.h → (∀ c, c ∈ l → a.h.connSess c = none) →
    Inv (l.foldl timeoutHello a).h := by
  intro l
  induction l with
  | nil => intro a hi _; exact hi
  | cons c l ih =>
    intro a hi hl
    simp only [List.foldl_cons]
    apply ih
    · unfold timeoutHello
      apply closeConn_inv hi
      intro s x hx hxc
      have := (hi.conn_iff c s).mpr ⟨x, hx, hxc⟩
      rw [hl c List.mem_cons_self] at this; cases this
    · intro c' hc'
      unfold timeoutHello
      simp only [hubf]
      split
      · rfl
      · exact hl c' (List.mem_cons_of_mem _ hc')

theorem housekeeping_inv (a : Acc) (level : Nat) (hi : Inv a.h) : Inv (housekeeping a level).h := by
  unfold housekeeping
  simp only []
  have h1 : Inv (if level ≥ 3 then a.h.expired.foldl closeSession a else a).h := by
    split
    · exact foldl_inv closeSession (fun a s hi => closeSession_inv a s hi) _ _ hi
    · exact hi
  generalize (if level ≥ 3 then a.h.expired.foldl closeSession a else a) = a1 at h1 ⊢
  have h2 : Inv (if level ≥ 2 then a1.h.anon.foldl timeoutAnon a1 else a1).h := by
    split
    · exact foldl_inv timeoutAnon (fun a s hi => timeoutAnon_inv a s hi) _ _ h1
    · exact h1
  generalize (if level ≥ 2 then a1.h.anon.foldl timeoutAnon a1 else a1) = a2 at h2 ⊢
  split
  · exact foldl_timeoutHello_inv _ _ h2 (fun c hc => h2.eh c hc)
  · exact h2

/-! ### messages: deliveries only -/

/-- Closes goals `CoreEq a.h (…).h` whose right-hand side is a case tree over deliveries. -/
macro "core_auto" : tactic =>
  `(tactic| ((repeat' split) <;> first
      | exact CoreEq.refl _
      | exact sendTo_core _ _ _
      | exact pubUser_core _ _ _ _
      | exact pubRoom_core _ _ _ _
      | exact procSession_core _ _ _
      | exact procClient_core _ _ _))

theorem processMessage_core (a : Acc) (s : Nat) (ctl : Bool) (rc : Rcpt) (data : String) :
    CoreEq a.h (processMessage a s ctl rc data).h := by
  unfold processMessage
  core_auto

/-! ### virtual sessions -/

set_option maxHeartbeats 4000000 in
theorem virtual_inv {h : Hub} (hi : Inv h) {s : Nat} {x : Sess} (hx : h.sess s = some x) (hk : x.kind = .internal)
    (r vkey user : String) (ic : Option Nat) :
    Inv (addMember (virtualTables h s x r vkey user ic) x.backend r h.nextSid "") := by
  have hnew : h.sess h.nextSid = none := hi.fresh _ (Nat.le_refl _)
  have hsne : s ≠ h.nextSid := by intro e; rw [e, hnew] at hx; cases hx
  have hrs := pub_ne_empty h.nextSid
  have nm := newRoom_members (virtualTables h s x r vkey user ic) x.backend r h.nextSid ""
  have nnd := newRoom_nodup (virtualTables h s x r vkey user ic) x.backend r h.nextSid ""
  generalize hnr : newRoom (virtualTables h s x r vkey user ic) x.backend r h.nextSid "" = nr at nm nnd
  have hvr : (virtualTables h s x r vkey user ic).rooms = h.rooms := by
    unfold virtualTables; simp only [hubf]
  rw [hvr] at nm nnd
  have nnd' := nnd (fun rm hrm => hi.nodup _ _ rm hrm)
  unfold addMember
  rw [hnr]
  clear hnr nnd
  unfold virtualTables
  simp only []
  have p1 : (virtSess s x r vkey user ic).conn = none := rfl
  have p2 : (virtSess s x r vkey user ic).backend = x.backend := rfl
  have p3 : (virtSess s x r vkey user ic).kind = .virtual := rfl
  have p4 : (virtSess s x r vkey user ic).room = some r := rfl
  have p5 : (virtSess s x r vkey user ic).children = [] := rfl
  have p6 : (virtSess s x r vkey user ic).parent = s := rfl
  have p7 : (virtSess s x r vkey user ic).vkey = vkey := rfl
  generalize virtSess s x r vkey user ic = V at *
  generalize pubRs h.nextSid = pub at *
  constructor
  case fresh =>
    first
      | (have f_fresh := hi.fresh; clear hi; (intros; (try simp only [hubf, rsSet_sid2rs _ _ _ hrs, rsSet_rs2sid _ _ _ hrs] at *); grind [mem_removeL, nodup_removeL, removeL_nil]))
      | (have f_fresh := hi.fresh; have f_mem_room := hi.mem_room; have f_room_mem := hi.room_mem; have f_nonempty := hi.nonempty; have f_nodup := hi.nodup; have f_roomL_iff := hi.roomL_iff; have f_roomL_nodup := hi.roomL_nodup; have f_userL_iff := hi.userL_iff; have f_userL_nodup := hi.userL_nodup; have f_sessL_iff := hi.sessL_iff; have f_rs_fwd := hi.rs_fwd; have f_rs_room := hi.rs_room; have f_virt := hi.virt; have f_children := hi.children; have f_vtable := hi.vtable; have f_conn_iff := hi.conn_iff; have f_conn_open := hi.conn_open; have f_eh := hi.eh; have f_expired := hi.expired; have f_anon := hi.anon; have f_dialout := hi.dialout; have f_count := hi.count; have f_orph_virt := hi.orph_virt; clear hi; (intros; (try simp only [hubf, rsSet_sid2rs _ _ _ hrs, rsSet_rs2sid _ _ _ hrs] at *); grind [mem_removeL, nodup_removeL, removeL_nil]))
  case mem_room =>
    first
      | (have f_mem_room := hi.mem_room; have f_fresh := hi.fresh; clear hi; (intros; (try simp only [hubf, rsSet_sid2rs _ _ _ hrs, rsSet_rs2sid _ _ _ hrs] at *); grind [mem_removeL, nodup_removeL, removeL_nil]))
      | (have f_fresh := hi.fresh; have f_mem_room := hi.mem_room; have f_room_mem := hi.room_mem; have f_nonempty := hi.nonempty; have f_nodup := hi.nodup; have f_roomL_iff := hi.roomL_iff; have f_roomL_nodup := hi.roomL_nodup; have f_userL_iff := hi.userL_iff; have f_userL_nodup := hi.userL_nodup; have f_sessL_iff := hi.sessL_iff; have f_rs_fwd := hi.rs_fwd; have f_rs_room := hi.rs_room; have f_virt := hi.virt; have f_children := hi.children; have f_vtable := hi.vtable; have f_conn_iff := hi.conn_iff; have f_conn_open := hi.conn_open; have f_eh := hi.eh; have f_expired := hi.expired; have f_anon := hi.anon; have f_dialout := hi.dialout; have f_count := hi.count; have f_orph_virt := hi.orph_virt; clear hi; (intros; (try simp only [hubf, rsSet_sid2rs _ _ _ hrs, rsSet_rs2sid _ _ _ hrs] at *); grind [mem_removeL, nodup_removeL, removeL_nil]))
  case room_mem =>
    first
      | (have f_room_mem := hi.room_mem; have f_mem_room := hi.mem_room; have f_fresh := hi.fresh; clear hi; (intros; (try simp only [hubf, rsSet_sid2rs _ _ _ hrs, rsSet_rs2sid _ _ _ hrs] at *); grind [mem_removeL, nodup_removeL, removeL_nil]))
      | (have f_fresh := hi.fresh; have f_mem_room := hi.mem_room; have f_room_mem := hi.room_mem; have f_nonempty := hi.nonempty; have f_nodup := hi.nodup; have f_roomL_iff := hi.roomL_iff; have f_roomL_nodup := hi.roomL_nodup; have f_userL_iff := hi.userL_iff; have f_userL_nodup := hi.userL_nodup; have f_sessL_iff := hi.sessL_iff; have f_rs_fwd := hi.rs_fwd; have f_rs_room := hi.rs_room; have f_virt := hi.virt; have f_children := hi.children; have f_vtable := hi.vtable; have f_conn_iff := hi.conn_iff; have f_conn_open := hi.conn_open; have f_eh := hi.eh; have f_expired := hi.expired; have f_anon := hi.anon; have f_dialout := hi.dialout; have f_count := hi.count; have f_orph_virt := hi.orph_virt; clear hi; (intros; (try simp only [hubf, rsSet_sid2rs _ _ _ hrs, rsSet_rs2sid _ _ _ hrs] at *); grind [mem_removeL, nodup_removeL, removeL_nil]))
  case nonempty =>
    first
      | (have f_nonempty := hi.nonempty; have f_mem_room := hi.mem_room; clear hi; (intros; (try simp only [hubf, rsSet_sid2rs _ _ _ hrs, rsSet_rs2sid _ _ _ hrs] at *); grind [mem_removeL, nodup_removeL, removeL_nil]))
      | (have f_fresh := hi.fresh; have f_mem_room := hi.mem_room; have f_room_mem := hi.room_mem; have f_nonempty := hi.nonempty; have f_nodup := hi.nodup; have f_roomL_iff := hi.roomL_iff; have f_roomL_nodup := hi.roomL_nodup; have f_userL_iff := hi.userL_iff; have f_userL_nodup := hi.userL_nodup; have f_sessL_iff := hi.sessL_iff; have f_rs_fwd := hi.rs_fwd; have f_rs_room := hi.rs_room; have f_virt := hi.virt; have f_children := hi.children; have f_vtable := hi.vtable; have f_conn_iff := hi.conn_iff; have f_conn_open := hi.conn_open; have f_eh := hi.eh; have f_expired := hi.expired; have f_anon := hi.anon; have f_dialout := hi.dialout; have f_count := hi.count; have f_orph_virt := hi.orph_virt; clear hi; (intros; (try simp only [hubf, rsSet_sid2rs _ _ _ hrs, rsSet_rs2sid _ _ _ hrs] at *); grind [mem_removeL, nodup_removeL, removeL_nil]))
  case nodup =>
    first
      | (have f_nodup := hi.nodup; clear hi; (intros; (try simp only [hubf, rsSet_sid2rs _ _ _ hrs, rsSet_rs2sid _ _ _ hrs] at *); grind [mem_removeL, nodup_removeL, removeL_nil]))
      | (have f_fresh := hi.fresh; have f_mem_room := hi.mem_room; have f_room_mem := hi.room_mem; have f_nonempty := hi.nonempty; have f_nodup := hi.nodup; have f_roomL_iff := hi.roomL_iff; have f_roomL_nodup := hi.roomL_nodup; have f_userL_iff := hi.userL_iff; have f_userL_nodup := hi.userL_nodup; have f_sessL_iff := hi.sessL_iff; have f_rs_fwd := hi.rs_fwd; have f_rs_room := hi.rs_room; have f_virt := hi.virt; have f_children := hi.children; have f_vtable := hi.vtable; have f_conn_iff := hi.conn_iff; have f_conn_open := hi.conn_open; have f_eh := hi.eh; have f_expired := hi.expired; have f_anon := hi.anon; have f_dialout := hi.dialout; have f_count := hi.count; have f_orph_virt := hi.orph_virt; clear hi; (intros; (try simp only [hubf, rsSet_sid2rs _ _ _ hrs, rsSet_rs2sid _ _ _ hrs] at *); grind [mem_removeL, nodup_removeL, removeL_nil]))
  case roomL_iff =>
    first
      | (have f_roomL_iff := hi.roomL_iff; have f_fresh := hi.fresh; have f_room_mem := hi.room_mem; have f_mem_room := hi.mem_room; clear hi; (intros; (try simp only [hubf, rsSet_sid2rs _ _ _ hrs, rsSet_rs2sid _ _ _ hrs] at *); grind [mem_removeL, nodup_removeL, removeL_nil]))
      | (have f_fresh := hi.fresh; have f_mem_room := hi.mem_room; have f_room_mem := hi.room_mem; have f_nonempty := hi.nonempty; have f_nodup := hi.nodup; have f_roomL_iff := hi.roomL_iff; have f_roomL_nodup := hi.roomL_nodup; have f_userL_iff := hi.userL_iff; have f_userL_nodup := hi.userL_nodup; have f_sessL_iff := hi.sessL_iff; have f_rs_fwd := hi.rs_fwd; have f_rs_room := hi.rs_room; have f_virt := hi.virt; have f_children := hi.children; have f_vtable := hi.vtable; have f_conn_iff := hi.conn_iff; have f_conn_open := hi.conn_open; have f_eh := hi.eh; have f_expired := hi.expired; have f_anon := hi.anon; have f_dialout := hi.dialout; have f_count := hi.count; have f_orph_virt := hi.orph_virt; clear hi; (intros; (try simp only [hubf, rsSet_sid2rs _ _ _ hrs, rsSet_rs2sid _ _ _ hrs] at *); grind [mem_removeL, nodup_removeL, removeL_nil]))
  case roomL_nodup =>
    first
      | (have f_roomL_nodup := hi.roomL_nodup; have f_roomL_iff := hi.roomL_iff; clear hi; (intros; (try simp only [hubf, rsSet_sid2rs _ _ _ hrs, rsSet_rs2sid _ _ _ hrs] at *); grind [mem_removeL, nodup_removeL, removeL_nil]))
      | (have f_fresh := hi.fresh; have f_mem_room := hi.mem_room; have f_room_mem := hi.room_mem; have f_nonempty := hi.nonempty; have f_nodup := hi.nodup; have f_roomL_iff := hi.roomL_iff; have f_roomL_nodup := hi.roomL_nodup; have f_userL_iff := hi.userL_iff; have f_userL_nodup := hi.userL_nodup; have f_sessL_iff := hi.sessL_iff; have f_rs_fwd := hi.rs_fwd; have f_rs_room := hi.rs_room; have f_virt := hi.virt; have f_children := hi.children; have f_vtable := hi.vtable; have f_conn_iff := hi.conn_iff; have f_conn_open := hi.conn_open; have f_eh := hi.eh; have f_expired := hi.expired; have f_anon := hi.anon; have f_dialout := hi.dialout; have f_count := hi.count; have f_orph_virt := hi.orph_virt; clear hi; (intros; (try simp only [hubf, rsSet_sid2rs _ _ _ hrs, rsSet_rs2sid _ _ _ hrs] at *); grind [mem_removeL, nodup_removeL, removeL_nil]))
  case userL_iff =>
    first
      | (have f_userL_iff := hi.userL_iff; have f_fresh := hi.fresh; clear hi; (intros; (try simp only [hubf, rsSet_sid2rs _ _ _ hrs, rsSet_rs2sid _ _ _ hrs] at *); grind [mem_removeL, nodup_removeL, removeL_nil]))
      | (have f_fresh := hi.fresh; have f_mem_room := hi.mem_room; have f_room_mem := hi.room_mem; have f_nonempty := hi.nonempty; have f_nodup := hi.nodup; have f_roomL_iff := hi.roomL_iff; have f_roomL_nodup := hi.roomL_nodup; have f_userL_iff := hi.userL_iff; have f_userL_nodup := hi.userL_nodup; have f_sessL_iff := hi.sessL_iff; have f_rs_fwd := hi.rs_fwd; have f_rs_room := hi.rs_room; have f_virt := hi.virt; have f_children := hi.children; have f_vtable := hi.vtable; have f_conn_iff := hi.conn_iff; have f_conn_open := hi.conn_open; have f_eh := hi.eh; have f_expired := hi.expired; have f_anon := hi.anon; have f_dialout := hi.dialout; have f_count := hi.count; have f_orph_virt := hi.orph_virt; clear hi; (intros; (try simp only [hubf, rsSet_sid2rs _ _ _ hrs, rsSet_rs2sid _ _ _ hrs] at *); grind [mem_removeL, nodup_removeL, removeL_nil]))
  case userL_nodup =>
    first
      | (have f_userL_nodup := hi.userL_nodup; have f_userL_iff := hi.userL_iff; clear hi; (intros; (try simp only [hubf, rsSet_sid2rs _ _ _ hrs, rsSet_rs2sid _ _ _ hrs] at *); grind [mem_removeL, nodup_removeL, removeL_nil]))
      | (have f_fresh := hi.fresh; have f_mem_room := hi.mem_room; have f_room_mem := hi.room_mem; have f_nonempty := hi.nonempty; have f_nodup := hi.nodup; have f_roomL_iff := hi.roomL_iff; have f_roomL_nodup := hi.roomL_nodup; have f_userL_iff := hi.userL_iff; have f_userL_nodup := hi.userL_nodup; have f_sessL_iff := hi.sessL_iff; have f_rs_fwd := hi.rs_fwd; have f_rs_room := hi.rs_room; have f_virt := hi.virt; have f_children := hi.children; have f_vtable := hi.vtable; have f_conn_iff := hi.conn_iff; have f_conn_open := hi.conn_open; have f_eh := hi.eh; have f_expired := hi.expired; have f_anon := hi.anon; have f_dialout := hi.dialout; have f_count := hi.count; have f_orph_virt := hi.orph_virt; clear hi; (intros; (try simp only [hubf, rsSet_sid2rs _ _ _ hrs, rsSet_rs2sid _ _ _ hrs] at *); grind [mem_removeL, nodup_removeL, removeL_nil]))
  case sessL_iff =>
    first
      | (have f_sessL_iff := hi.sessL_iff; have f_fresh := hi.fresh; clear hi; (intros; (try simp only [hubf, rsSet_sid2rs _ _ _ hrs, rsSet_rs2sid _ _ _ hrs] at *); grind [mem_removeL, nodup_removeL, removeL_nil]))
      | (have f_fresh := hi.fresh; have f_mem_room := hi.mem_room; have f_room_mem := hi.room_mem; have f_nonempty := hi.nonempty; have f_nodup := hi.nodup; have f_roomL_iff := hi.roomL_iff; have f_roomL_nodup := hi.roomL_nodup; have f_userL_iff := hi.userL_iff; have f_userL_nodup := hi.userL_nodup; have f_sessL_iff := hi.sessL_iff; have f_rs_fwd := hi.rs_fwd; have f_rs_room := hi.rs_room; have f_virt := hi.virt; have f_children := hi.children; have f_vtable := hi.vtable; have f_conn_iff := hi.conn_iff; have f_conn_open := hi.conn_open; have f_eh := hi.eh; have f_expired := hi.expired; have f_anon := hi.anon; have f_dialout := hi.dialout; have f_count := hi.count; have f_orph_virt := hi.orph_virt; clear hi; (intros; (try simp only [hubf, rsSet_sid2rs _ _ _ hrs, rsSet_rs2sid _ _ _ hrs] at *); grind [mem_removeL, nodup_removeL, removeL_nil]))
  case rs_fwd =>
    first
      | (have f_rs_fwd := hi.rs_fwd; have f_rs_room := hi.rs_room; have f_fresh := hi.fresh; clear hi; (intros; (try simp only [hubf, rsSet_sid2rs _ _ _ hrs, rsSet_rs2sid _ _ _ hrs] at *); grind [mem_removeL, nodup_removeL, removeL_nil]))
      | (have f_fresh := hi.fresh; have f_mem_room := hi.mem_room; have f_room_mem := hi.room_mem; have f_nonempty := hi.nonempty; have f_nodup := hi.nodup; have f_roomL_iff := hi.roomL_iff; have f_roomL_nodup := hi.roomL_nodup; have f_userL_iff := hi.userL_iff; have f_userL_nodup := hi.userL_nodup; have f_sessL_iff := hi.sessL_iff; have f_rs_fwd := hi.rs_fwd; have f_rs_room := hi.rs_room; have f_virt := hi.virt; have f_children := hi.children; have f_vtable := hi.vtable; have f_conn_iff := hi.conn_iff; have f_conn_open := hi.conn_open; have f_eh := hi.eh; have f_expired := hi.expired; have f_anon := hi.anon; have f_dialout := hi.dialout; have f_count := hi.count; have f_orph_virt := hi.orph_virt; clear hi; (intros; (try simp only [hubf, rsSet_sid2rs _ _ _ hrs, rsSet_rs2sid _ _ _ hrs] at *); grind [mem_removeL, nodup_removeL, removeL_nil]))
  case rs_room =>
    first
      | (have f_rs_room := hi.rs_room; have f_rs_fwd := hi.rs_fwd; have f_fresh := hi.fresh; have f_room_mem := hi.room_mem; clear hi; (intros; (try simp only [hubf, rsSet_sid2rs _ _ _ hrs, rsSet_rs2sid _ _ _ hrs] at *); grind [mem_removeL, nodup_removeL, removeL_nil]))
      | (have f_fresh := hi.fresh; have f_mem_room := hi.mem_room; have f_room_mem := hi.room_mem; have f_nonempty := hi.nonempty; have f_nodup := hi.nodup; have f_roomL_iff := hi.roomL_iff; have f_roomL_nodup := hi.roomL_nodup; have f_userL_iff := hi.userL_iff; have f_userL_nodup := hi.userL_nodup; have f_sessL_iff := hi.sessL_iff; have f_rs_fwd := hi.rs_fwd; have f_rs_room := hi.rs_room; have f_virt := hi.virt; have f_children := hi.children; have f_vtable := hi.vtable; have f_conn_iff := hi.conn_iff; have f_conn_open := hi.conn_open; have f_eh := hi.eh; have f_expired := hi.expired; have f_anon := hi.anon; have f_dialout := hi.dialout; have f_count := hi.count; have f_orph_virt := hi.orph_virt; clear hi; (intros; (try simp only [hubf, rsSet_sid2rs _ _ _ hrs, rsSet_rs2sid _ _ _ hrs] at *); grind [mem_removeL, nodup_removeL, removeL_nil]))
  case virt =>
    first
      | (have f_virt := hi.virt; have f_children := hi.children; have f_fresh := hi.fresh; clear hi; (intros; (try simp only [hubf, rsSet_sid2rs _ _ _ hrs, rsSet_rs2sid _ _ _ hrs] at *); grind [mem_removeL, nodup_removeL, removeL_nil]))
      | (have f_fresh := hi.fresh; have f_mem_room := hi.mem_room; have f_room_mem := hi.room_mem; have f_nonempty := hi.nonempty; have f_nodup := hi.nodup; have f_roomL_iff := hi.roomL_iff; have f_roomL_nodup := hi.roomL_nodup; have f_userL_iff := hi.userL_iff; have f_userL_nodup := hi.userL_nodup; have f_sessL_iff := hi.sessL_iff; have f_rs_fwd := hi.rs_fwd; have f_rs_room := hi.rs_room; have f_virt := hi.virt; have f_children := hi.children; have f_vtable := hi.vtable; have f_conn_iff := hi.conn_iff; have f_conn_open := hi.conn_open; have f_eh := hi.eh; have f_expired := hi.expired; have f_anon := hi.anon; have f_dialout := hi.dialout; have f_count := hi.count; have f_orph_virt := hi.orph_virt; clear hi; (intros; (try simp only [hubf, rsSet_sid2rs _ _ _ hrs, rsSet_rs2sid _ _ _ hrs] at *); grind [mem_removeL, nodup_removeL, removeL_nil]))
  case children =>
    first
      | (have f_children := hi.children; have f_virt := hi.virt; have f_fresh := hi.fresh; clear hi; (intros; (try simp only [hubf, rsSet_sid2rs _ _ _ hrs, rsSet_rs2sid _ _ _ hrs] at *); grind [mem_removeL, nodup_removeL, removeL_nil]))
      | (have f_fresh := hi.fresh; have f_mem_room := hi.mem_room; have f_room_mem := hi.room_mem; have f_nonempty := hi.nonempty; have f_nodup := hi.nodup; have f_roomL_iff := hi.roomL_iff; have f_roomL_nodup := hi.roomL_nodup; have f_userL_iff := hi.userL_iff; have f_userL_nodup := hi.userL_nodup; have f_sessL_iff := hi.sessL_iff; have f_rs_fwd := hi.rs_fwd; have f_rs_room := hi.rs_room; have f_virt := hi.virt; have f_children := hi.children; have f_vtable := hi.vtable; have f_conn_iff := hi.conn_iff; have f_conn_open := hi.conn_open; have f_eh := hi.eh; have f_expired := hi.expired; have f_anon := hi.anon; have f_dialout := hi.dialout; have f_count := hi.count; have f_orph_virt := hi.orph_virt; clear hi; (intros; (try simp only [hubf, rsSet_sid2rs _ _ _ hrs, rsSet_rs2sid _ _ _ hrs] at *); grind [mem_removeL, nodup_removeL, removeL_nil]))
  case vtable =>
    first
      | (have f_vtable := hi.vtable; have f_virt := hi.virt; have f_fresh := hi.fresh; clear hi; (intros; (try simp only [hubf, rsSet_sid2rs _ _ _ hrs, rsSet_rs2sid _ _ _ hrs] at *); grind [mem_removeL, nodup_removeL, removeL_nil]))
      | (have f_fresh := hi.fresh; have f_mem_room := hi.mem_room; have f_room_mem := hi.room_mem; have f_nonempty := hi.nonempty; have f_nodup := hi.nodup; have f_roomL_iff := hi.roomL_iff; have f_roomL_nodup := hi.roomL_nodup; have f_userL_iff := hi.userL_iff; have f_userL_nodup := hi.userL_nodup; have f_sessL_iff := hi.sessL_iff; have f_rs_fwd := hi.rs_fwd; have f_rs_room := hi.rs_room; have f_virt := hi.virt; have f_children := hi.children; have f_vtable := hi.vtable; have f_conn_iff := hi.conn_iff; have f_conn_open := hi.conn_open; have f_eh := hi.eh; have f_expired := hi.expired; have f_anon := hi.anon; have f_dialout := hi.dialout; have f_count := hi.count; have f_orph_virt := hi.orph_virt; clear hi; (intros; (try simp only [hubf, rsSet_sid2rs _ _ _ hrs, rsSet_rs2sid _ _ _ hrs] at *); grind [mem_removeL, nodup_removeL, removeL_nil]))
  case conn_iff =>
    first
      | (have f_conn_iff := hi.conn_iff; have f_fresh := hi.fresh; have f_virt := hi.virt; clear hi; (intros; (try simp only [hubf, rsSet_sid2rs _ _ _ hrs, rsSet_rs2sid _ _ _ hrs] at *); grind [mem_removeL, nodup_removeL, removeL_nil]))
      | (have f_fresh := hi.fresh; have f_mem_room := hi.mem_room; have f_room_mem := hi.room_mem; have f_nonempty := hi.nonempty; have f_nodup := hi.nodup; have f_roomL_iff := hi.roomL_iff; have f_roomL_nodup := hi.roomL_nodup; have f_userL_iff := hi.userL_iff; have f_userL_nodup := hi.userL_nodup; have f_sessL_iff := hi.sessL_iff; have f_rs_fwd := hi.rs_fwd; have f_rs_room := hi.rs_room; have f_virt := hi.virt; have f_children := hi.children; have f_vtable := hi.vtable; have f_conn_iff := hi.conn_iff; have f_conn_open := hi.conn_open; have f_eh := hi.eh; have f_expired := hi.expired; have f_anon := hi.anon; have f_dialout := hi.dialout; have f_count := hi.count; have f_orph_virt := hi.orph_virt; clear hi; (intros; (try simp only [hubf, rsSet_sid2rs _ _ _ hrs, rsSet_rs2sid _ _ _ hrs] at *); grind [mem_removeL, nodup_removeL, removeL_nil]))
  case conn_open =>
    first
      | (have f_conn_open := hi.conn_open; have f_conn_iff := hi.conn_iff; clear hi; (intros; (try simp only [hubf, rsSet_sid2rs _ _ _ hrs, rsSet_rs2sid _ _ _ hrs] at *); grind [mem_removeL, nodup_removeL, removeL_nil]))
      | (have f_fresh := hi.fresh; have f_mem_room := hi.mem_room; have f_room_mem := hi.room_mem; have f_nonempty := hi.nonempty; have f_nodup := hi.nodup; have f_roomL_iff := hi.roomL_iff; have f_roomL_nodup := hi.roomL_nodup; have f_userL_iff := hi.userL_iff; have f_userL_nodup := hi.userL_nodup; have f_sessL_iff := hi.sessL_iff; have f_rs_fwd := hi.rs_fwd; have f_rs_room := hi.rs_room; have f_virt := hi.virt; have f_children := hi.children; have f_vtable := hi.vtable; have f_conn_iff := hi.conn_iff; have f_conn_open := hi.conn_open; have f_eh := hi.eh; have f_expired := hi.expired; have f_anon := hi.anon; have f_dialout := hi.dialout; have f_count := hi.count; have f_orph_virt := hi.orph_virt; clear hi; (intros; (try simp only [hubf, rsSet_sid2rs _ _ _ hrs, rsSet_rs2sid _ _ _ hrs] at *); grind [mem_removeL, nodup_removeL, removeL_nil]))
  case eh =>
    first
      | (have f_eh := hi.eh; have f_conn_iff := hi.conn_iff; have f_conn_open := hi.conn_open; clear hi; (intros; (try simp only [hubf, rsSet_sid2rs _ _ _ hrs, rsSet_rs2sid _ _ _ hrs] at *); grind [mem_removeL, nodup_removeL, removeL_nil]))
      | (have f_fresh := hi.fresh; have f_mem_room := hi.mem_room; have f_room_mem := hi.room_mem; have f_nonempty := hi.nonempty; have f_nodup := hi.nodup; have f_roomL_iff := hi.roomL_iff; have f_roomL_nodup := hi.roomL_nodup; have f_userL_iff := hi.userL_iff; have f_userL_nodup := hi.userL_nodup; have f_sessL_iff := hi.sessL_iff; have f_rs_fwd := hi.rs_fwd; have f_rs_room := hi.rs_room; have f_virt := hi.virt; have f_children := hi.children; have f_vtable := hi.vtable; have f_conn_iff := hi.conn_iff; have f_conn_open := hi.conn_open; have f_eh := hi.eh; have f_expired := hi.expired; have f_anon := hi.anon; have f_dialout := hi.dialout; have f_count := hi.count; have f_orph_virt := hi.orph_virt; clear hi; (intros; (try simp only [hubf, rsSet_sid2rs _ _ _ hrs, rsSet_rs2sid _ _ _ hrs] at *); grind [mem_removeL, nodup_removeL, removeL_nil]))
  case expired =>
    first
      | (have f_expired := hi.expired; have f_fresh := hi.fresh; clear hi; (intros; (try simp only [hubf, rsSet_sid2rs _ _ _ hrs, rsSet_rs2sid _ _ _ hrs] at *); grind [mem_removeL, nodup_removeL, removeL_nil]))
      | (have f_fresh := hi.fresh; have f_mem_room := hi.mem_room; have f_room_mem := hi.room_mem; have f_nonempty := hi.nonempty; have f_nodup := hi.nodup; have f_roomL_iff := hi.roomL_iff; have f_roomL_nodup := hi.roomL_nodup; have f_userL_iff := hi.userL_iff; have f_userL_nodup := hi.userL_nodup; have f_sessL_iff := hi.sessL_iff; have f_rs_fwd := hi.rs_fwd; have f_rs_room := hi.rs_room; have f_virt := hi.virt; have f_children := hi.children; have f_vtable := hi.vtable; have f_conn_iff := hi.conn_iff; have f_conn_open := hi.conn_open; have f_eh := hi.eh; have f_expired := hi.expired; have f_anon := hi.anon; have f_dialout := hi.dialout; have f_count := hi.count; have f_orph_virt := hi.orph_virt; clear hi; (intros; (try simp only [hubf, rsSet_sid2rs _ _ _ hrs, rsSet_rs2sid _ _ _ hrs] at *); grind [mem_removeL, nodup_removeL, removeL_nil]))
  case anon =>
    first
      | (have f_anon := hi.anon; have f_fresh := hi.fresh; clear hi; (intros; (try simp only [hubf, rsSet_sid2rs _ _ _ hrs, rsSet_rs2sid _ _ _ hrs] at *); grind [mem_removeL, nodup_removeL, removeL_nil]))
      | (have f_fresh := hi.fresh; have f_mem_room := hi.mem_room; have f_room_mem := hi.room_mem; have f_nonempty := hi.nonempty; have f_nodup := hi.nodup; have f_roomL_iff := hi.roomL_iff; have f_roomL_nodup := hi.roomL_nodup; have f_userL_iff := hi.userL_iff; have f_userL_nodup := hi.userL_nodup; have f_sessL_iff := hi.sessL_iff; have f_rs_fwd := hi.rs_fwd; have f_rs_room := hi.rs_room; have f_virt := hi.virt; have f_children := hi.children; have f_vtable := hi.vtable; have f_conn_iff := hi.conn_iff; have f_conn_open := hi.conn_open; have f_eh := hi.eh; have f_expired := hi.expired; have f_anon := hi.anon; have f_dialout := hi.dialout; have f_count := hi.count; have f_orph_virt := hi.orph_virt; clear hi; (intros; (try simp only [hubf, rsSet_sid2rs _ _ _ hrs, rsSet_rs2sid _ _ _ hrs] at *); grind [mem_removeL, nodup_removeL, removeL_nil]))
  case dialout =>
    first
      | (have f_dialout := hi.dialout; have f_fresh := hi.fresh; clear hi; (intros; (try simp only [hubf, rsSet_sid2rs _ _ _ hrs, rsSet_rs2sid _ _ _ hrs] at *); grind [mem_removeL, nodup_removeL, removeL_nil]))
      | (have f_fresh := hi.fresh; have f_mem_room := hi.mem_room; have f_room_mem := hi.room_mem; have f_nonempty := hi.nonempty; have f_nodup := hi.nodup; have f_roomL_iff := hi.roomL_iff; have f_roomL_nodup := hi.roomL_nodup; have f_userL_iff := hi.userL_iff; have f_userL_nodup := hi.userL_nodup; have f_sessL_iff := hi.sessL_iff; have f_rs_fwd := hi.rs_fwd; have f_rs_room := hi.rs_room; have f_virt := hi.virt; have f_children := hi.children; have f_vtable := hi.vtable; have f_conn_iff := hi.conn_iff; have f_conn_open := hi.conn_open; have f_eh := hi.eh; have f_expired := hi.expired; have f_anon := hi.anon; have f_dialout := hi.dialout; have f_count := hi.count; have f_orph_virt := hi.orph_virt; clear hi; (intros; (try simp only [hubf, rsSet_sid2rs _ _ _ hrs, rsSet_rs2sid _ _ _ hrs] at *); grind [mem_removeL, nodup_removeL, removeL_nil]))
  case count =>
    first
      | (have f_count := hi.count; have f_fresh := hi.fresh; clear hi; (intros; (try simp only [hubf, rsSet_sid2rs _ _ _ hrs, rsSet_rs2sid _ _ _ hrs] at *); grind [mem_removeL, nodup_removeL, removeL_nil]))
      | (have f_fresh := hi.fresh; have f_mem_room := hi.mem_room; have f_room_mem := hi.room_mem; have f_nonempty := hi.nonempty; have f_nodup := hi.nodup; have f_roomL_iff := hi.roomL_iff; have f_roomL_nodup := hi.roomL_nodup; have f_userL_iff := hi.userL_iff; have f_userL_nodup := hi.userL_nodup; have f_sessL_iff := hi.sessL_iff; have f_rs_fwd := hi.rs_fwd; have f_rs_room := hi.rs_room; have f_virt := hi.virt; have f_children := hi.children; have f_vtable := hi.vtable; have f_conn_iff := hi.conn_iff; have f_conn_open := hi.conn_open; have f_eh := hi.eh; have f_expired := hi.expired; have f_anon := hi.anon; have f_dialout := hi.dialout; have f_count := hi.count; have f_orph_virt := hi.orph_virt; clear hi; (intros; (try simp only [hubf, rsSet_sid2rs _ _ _ hrs, rsSet_rs2sid _ _ _ hrs] at *); grind [mem_removeL, nodup_removeL, removeL_nil]))
  case orph_virt =>
    first
      | (have f_orph_virt := hi.orph_virt; have f_fresh := hi.fresh; have f_children := hi.children; have f_virt := hi.virt; clear hi; (intros; (try simp only [hubf, rsSet_sid2rs _ _ _ hrs, rsSet_rs2sid _ _ _ hrs] at *); grind [mem_removeL, nodup_removeL, removeL_nil]))
      | (have f_fresh := hi.fresh; have f_mem_room := hi.mem_room; have f_room_mem := hi.room_mem; have f_nonempty := hi.nonempty; have f_nodup := hi.nodup; have f_roomL_iff := hi.roomL_iff; have f_roomL_nodup := hi.roomL_nodup; have f_userL_iff := hi.userL_iff; have f_userL_nodup := hi.userL_nodup; have f_sessL_iff := hi.sessL_iff; have f_rs_fwd := hi.rs_fwd; have f_rs_room := hi.rs_room; have f_virt := hi.virt; have f_children := hi.children; have f_vtable := hi.vtable; have f_conn_iff := hi.conn_iff; have f_conn_open := hi.conn_open; have f_eh := hi.eh; have f_expired := hi.expired; have f_anon := hi.anon; have f_dialout := hi.dialout; have f_count := hi.count; have f_orph_virt := hi.orph_virt; clear hi; (intros; (try simp only [hubf, rsSet_sid2rs _ _ _ hrs, rsSet_rs2sid _ _ _ hrs] at *); grind [mem_removeL, nodup_removeL, removeL_nil]))

theorem addVirtual_inv (a : Acc) (s : Nat) (r vkey user : String) (ic : Option Nat) (ok : Bool) (hi : Inv a.h) :
    Inv (addVirtual a s r vkey user ic ok).h := by
  unfold addVirtual
  cases hx : a.h.sess s with
  | none => exact hi
  | some x =>
    simp only []
    by_cases hk : x.kind = .internal
    · simp only [hk, ne_eq, not_true_eq_false, if_false]
      cases hrm : a.h.rooms x.backend r with
      | none => exact hi
      | some rm =>
        simp only []
        by_cases hok : ok = true
        · simp only [hok, Bool.not_true, Bool.false_eq_true, if_false]
          exact (virtual_inv hi hx hk r vkey user ic).congr (roomAddSession_core _ _ _ _ _ _)
        · have hok' : ok = false := by cases ok <;> simp_all
          simp only [hok', Bool.not_false, if_true]
          exact hi.congr (sendTo_core _ _ _)
    · simp only [hk, ne_eq, not_false_eq_true, if_true]; exact hi

theorem removeVirtual_inv (a : Acc) (s : Nat) (r vkey : String) (hi : Inv a.h) :
    Inv (removeVirtual a s r vkey).h := by
  unfold removeVirtual
  cases hx : a.h.sess s with
  | none => exact hi
  | some x =>
    simp only []
    by_cases hk : x.kind = .internal
    · simp only [hk, ne_eq, not_true_eq_false, if_false]
      cases hrm : a.h.rooms x.backend r with
      | none => exact hi
      | some rm =>
        simp only []
        cases hv : a.h.vtable s vkey with
        | none => exact hi
        | some v =>
          simp only []
          apply closeSession_inv
          -- forgetting a `Hub.virtualSessions` entry only weakens what the invariant has to show
          obtain ⟨f1, f2, f3, f4, f5, f6, f7, f8, f9, f10, f11, f12, f13, f14, f15, f16, f17, f18, f19, f20, f21, f22, f23⟩ := hi
          constructor
          all_goals first | assumption | skip
          · intro p k v' hv'
            simp only [] at hv'
            split at hv'
            · cases hv'
            · exact f15 p k v' hv'
    · simp only [hk, ne_eq, not_false_eq_true, if_true]; exact hi

end SigModel.Hub
