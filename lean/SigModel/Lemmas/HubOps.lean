/-
Hub lemmas, part 6: every operation preserves the invariant.
-/
import SigModel.Lemmas.HubJoin

namespace SigModel.Hub

theorem Inv.init : Inv ({} : Hub) := by
  constructor <;> intros <;> simp_all

theorem connect_inv (a : Acc) (c : Nat) (hi : Inv a.h) : Inv (connect a c).h := by
  unfold connect
  by_cases hc : a.h.connOpen c = true
  · simp only [hc, if_true]; exact hi
  · simp only [hc]
    obtain ⟨f1, f2, f3, f4, f5, f6, f7, f8, f9, f10, f11, f12, f13, f14, f15, f16, f17, f18, f19, f20, f21, f22, f23, f24, f25⟩ := hi
    constructor
    all_goals first | assumption | skip
    · intro c' s hs; have := f17 c' s hs; by_cases e : c' = c <;> simp [e, this]
    · intro c' hc'
      simp at hc'
      rcases hc' with h1 | rfl
      · exact f18 c' h1
      · show a.h.connSess c' = none
        cases hcs : a.h.connSess c' with
        | none => rfl
        | some s => exact absurd (f17 c' s hcs) hc

set_option maxHeartbeats 4000000 in
theorem helloTables_inv {h : Hub} (hi : Inv h) (c b : Nat) (kind : Kind) (user : String) (d i : Bool)
    (hk : kind ≠ .virtual) (hopen : h.connOpen c = true) (hfree : h.connSess c = none)
    (hl : limitReached h b kind = false) :
    Inv (helloTables h c b kind user d i) := by
  have hl' : kind ≠ .internal → h.limit b ≠ 0 → (h.count b).length < h.limit b := by
    intro h1 h2
    unfold limitReached at hl
    simp only [h1, h2, ne_eq, not_false_eq_true, decide_true, Bool.true_and, ge_iff_le, decide_eq_false_iff_not, Nat.not_le] at hl
    exact hl
  clear hl
  have hnew : h.sess h.nextSid = none := hi.fresh _ (Nat.le_refl _)
  unfold helloTables
  -- the new record, as an opaque term with known projections
  have p1 : (helloSess c b kind user d i).conn = some c := rfl
  have p2 : (helloSess c b kind user d i).backend = b := rfl
  have p3 : (helloSess c b kind user d i).kind = kind := rfl
  have p4 : (helloSess c b kind user d i).user = user := rfl
  have p5 : (helloSess c b kind user d i).room = none := rfl
  have p6 : (helloSess c b kind user d i).children = [] := rfl
  generalize helloSess c b kind user d i = X at *
  have hkc : kind ≠ .internal → kind = .client := by cases kind <;> simp_all
  constructor
  case fresh =>
    by_cases hu : user = "" <;> simp only [hu, ne_eq, not_true_eq_false, not_false_eq_true, if_true, if_false]
    all_goals first
      | (have f_fresh := hi.fresh; clear hi; (intros; (try simp only [hubf] at *); grind [mem_removeL, nodup_removeL, removeL_nil, length_removeL_le]))
      | (have f_fresh := hi.fresh; have f_mem_room := hi.mem_room; have f_room_mem := hi.room_mem; have f_nonempty := hi.nonempty; have f_nodup := hi.nodup; have f_roomL_iff := hi.roomL_iff; have f_roomL_nodup := hi.roomL_nodup; have f_userL_iff := hi.userL_iff; have f_userL_nodup := hi.userL_nodup; have f_sessL_iff := hi.sessL_iff; have f_rs_fwd := hi.rs_fwd; have f_rs_room := hi.rs_room; have f_virt := hi.virt; have f_children := hi.children; have f_vtable := hi.vtable; have f_conn_iff := hi.conn_iff; have f_conn_open := hi.conn_open; have f_eh := hi.eh; have f_expired := hi.expired; have f_anon := hi.anon; have f_dialout := hi.dialout; have f_count := hi.count; have f_orph_virt := hi.orph_virt; have f_incall := hi.incall; have f_count_le := hi.count_le; clear hi; (intros; (try simp only [hubf] at *); grind [mem_removeL, nodup_removeL, removeL_nil, length_removeL_le]))
  case mem_room =>
    by_cases hu : user = "" <;> simp only [hu, ne_eq, not_true_eq_false, not_false_eq_true, if_true, if_false]
    all_goals first
      | (have f_mem_room := hi.mem_room; have f_fresh := hi.fresh; clear hi; (intros; (try simp only [hubf] at *); grind [mem_removeL, nodup_removeL, removeL_nil, length_removeL_le]))
      | (have f_fresh := hi.fresh; have f_mem_room := hi.mem_room; have f_room_mem := hi.room_mem; have f_nonempty := hi.nonempty; have f_nodup := hi.nodup; have f_roomL_iff := hi.roomL_iff; have f_roomL_nodup := hi.roomL_nodup; have f_userL_iff := hi.userL_iff; have f_userL_nodup := hi.userL_nodup; have f_sessL_iff := hi.sessL_iff; have f_rs_fwd := hi.rs_fwd; have f_rs_room := hi.rs_room; have f_virt := hi.virt; have f_children := hi.children; have f_vtable := hi.vtable; have f_conn_iff := hi.conn_iff; have f_conn_open := hi.conn_open; have f_eh := hi.eh; have f_expired := hi.expired; have f_anon := hi.anon; have f_dialout := hi.dialout; have f_count := hi.count; have f_orph_virt := hi.orph_virt; have f_incall := hi.incall; have f_count_le := hi.count_le; clear hi; (intros; (try simp only [hubf] at *); grind [mem_removeL, nodup_removeL, removeL_nil, length_removeL_le]))
  case room_mem =>
    by_cases hu : user = "" <;> simp only [hu, ne_eq, not_true_eq_false, not_false_eq_true, if_true, if_false]
    all_goals first
      | (have f_room_mem := hi.room_mem; have f_mem_room := hi.mem_room; have f_fresh := hi.fresh; clear hi; (intros; (try simp only [hubf] at *); grind [mem_removeL, nodup_removeL, removeL_nil, length_removeL_le]))
      | (have f_fresh := hi.fresh; have f_mem_room := hi.mem_room; have f_room_mem := hi.room_mem; have f_nonempty := hi.nonempty; have f_nodup := hi.nodup; have f_roomL_iff := hi.roomL_iff; have f_roomL_nodup := hi.roomL_nodup; have f_userL_iff := hi.userL_iff; have f_userL_nodup := hi.userL_nodup; have f_sessL_iff := hi.sessL_iff; have f_rs_fwd := hi.rs_fwd; have f_rs_room := hi.rs_room; have f_virt := hi.virt; have f_children := hi.children; have f_vtable := hi.vtable; have f_conn_iff := hi.conn_iff; have f_conn_open := hi.conn_open; have f_eh := hi.eh; have f_expired := hi.expired; have f_anon := hi.anon; have f_dialout := hi.dialout; have f_count := hi.count; have f_orph_virt := hi.orph_virt; have f_incall := hi.incall; have f_count_le := hi.count_le; clear hi; (intros; (try simp only [hubf] at *); grind [mem_removeL, nodup_removeL, removeL_nil, length_removeL_le]))
  case nonempty =>
    by_cases hu : user = "" <;> simp only [hu, ne_eq, not_true_eq_false, not_false_eq_true, if_true, if_false]
    all_goals first
      | (have f_nonempty := hi.nonempty; have f_mem_room := hi.mem_room; clear hi; (intros; (try simp only [hubf] at *); grind [mem_removeL, nodup_removeL, removeL_nil, length_removeL_le]))
      | (have f_fresh := hi.fresh; have f_mem_room := hi.mem_room; have f_room_mem := hi.room_mem; have f_nonempty := hi.nonempty; have f_nodup := hi.nodup; have f_roomL_iff := hi.roomL_iff; have f_roomL_nodup := hi.roomL_nodup; have f_userL_iff := hi.userL_iff; have f_userL_nodup := hi.userL_nodup; have f_sessL_iff := hi.sessL_iff; have f_rs_fwd := hi.rs_fwd; have f_rs_room := hi.rs_room; have f_virt := hi.virt; have f_children := hi.children; have f_vtable := hi.vtable; have f_conn_iff := hi.conn_iff; have f_conn_open := hi.conn_open; have f_eh := hi.eh; have f_expired := hi.expired; have f_anon := hi.anon; have f_dialout := hi.dialout; have f_count := hi.count; have f_orph_virt := hi.orph_virt; have f_incall := hi.incall; have f_count_le := hi.count_le; clear hi; (intros; (try simp only [hubf] at *); grind [mem_removeL, nodup_removeL, removeL_nil, length_removeL_le]))
  case nodup =>
    by_cases hu : user = "" <;> simp only [hu, ne_eq, not_true_eq_false, not_false_eq_true, if_true, if_false]
    all_goals first
      | (have f_nodup := hi.nodup; clear hi; (intros; (try simp only [hubf] at *); grind [mem_removeL, nodup_removeL, removeL_nil, length_removeL_le]))
      | (have f_fresh := hi.fresh; have f_mem_room := hi.mem_room; have f_room_mem := hi.room_mem; have f_nonempty := hi.nonempty; have f_nodup := hi.nodup; have f_roomL_iff := hi.roomL_iff; have f_roomL_nodup := hi.roomL_nodup; have f_userL_iff := hi.userL_iff; have f_userL_nodup := hi.userL_nodup; have f_sessL_iff := hi.sessL_iff; have f_rs_fwd := hi.rs_fwd; have f_rs_room := hi.rs_room; have f_virt := hi.virt; have f_children := hi.children; have f_vtable := hi.vtable; have f_conn_iff := hi.conn_iff; have f_conn_open := hi.conn_open; have f_eh := hi.eh; have f_expired := hi.expired; have f_anon := hi.anon; have f_dialout := hi.dialout; have f_count := hi.count; have f_orph_virt := hi.orph_virt; have f_incall := hi.incall; have f_count_le := hi.count_le; clear hi; (intros; (try simp only [hubf] at *); grind [mem_removeL, nodup_removeL, removeL_nil, length_removeL_le]))
  case roomL_iff =>
    by_cases hu : user = "" <;> simp only [hu, ne_eq, not_true_eq_false, not_false_eq_true, if_true, if_false]
    all_goals first
      | (have f_roomL_iff := hi.roomL_iff; have f_fresh := hi.fresh; have f_room_mem := hi.room_mem; have f_mem_room := hi.mem_room; clear hi; (intros; (try simp only [hubf] at *); grind [mem_removeL, nodup_removeL, removeL_nil, length_removeL_le]))
      | (have f_fresh := hi.fresh; have f_mem_room := hi.mem_room; have f_room_mem := hi.room_mem; have f_nonempty := hi.nonempty; have f_nodup := hi.nodup; have f_roomL_iff := hi.roomL_iff; have f_roomL_nodup := hi.roomL_nodup; have f_userL_iff := hi.userL_iff; have f_userL_nodup := hi.userL_nodup; have f_sessL_iff := hi.sessL_iff; have f_rs_fwd := hi.rs_fwd; have f_rs_room := hi.rs_room; have f_virt := hi.virt; have f_children := hi.children; have f_vtable := hi.vtable; have f_conn_iff := hi.conn_iff; have f_conn_open := hi.conn_open; have f_eh := hi.eh; have f_expired := hi.expired; have f_anon := hi.anon; have f_dialout := hi.dialout; have f_count := hi.count; have f_orph_virt := hi.orph_virt; have f_incall := hi.incall; have f_count_le := hi.count_le; clear hi; (intros; (try simp only [hubf] at *); grind [mem_removeL, nodup_removeL, removeL_nil, length_removeL_le]))
  case roomL_nodup =>
    by_cases hu : user = "" <;> simp only [hu, ne_eq, not_true_eq_false, not_false_eq_true, if_true, if_false]
    all_goals first
      | (have f_roomL_nodup := hi.roomL_nodup; have f_roomL_iff := hi.roomL_iff; clear hi; (intros; (try simp only [hubf] at *); grind [mem_removeL, nodup_removeL, removeL_nil, length_removeL_le]))
      | (have f_fresh := hi.fresh; have f_mem_room := hi.mem_room; have f_room_mem := hi.room_mem; have f_nonempty := hi.nonempty; have f_nodup := hi.nodup; have f_roomL_iff := hi.roomL_iff; have f_roomL_nodup := hi.roomL_nodup; have f_userL_iff := hi.userL_iff; have f_userL_nodup := hi.userL_nodup; have f_sessL_iff := hi.sessL_iff; have f_rs_fwd := hi.rs_fwd; have f_rs_room := hi.rs_room; have f_virt := hi.virt; have f_children := hi.children; have f_vtable := hi.vtable; have f_conn_iff := hi.conn_iff; have f_conn_open := hi.conn_open; have f_eh := hi.eh; have f_expired := hi.expired; have f_anon := hi.anon; have f_dialout := hi.dialout; have f_count := hi.count; have f_orph_virt := hi.orph_virt; have f_incall := hi.incall; have f_count_le := hi.count_le; clear hi; (intros; (try simp only [hubf] at *); grind [mem_removeL, nodup_removeL, removeL_nil, length_removeL_le]))
  case userL_iff =>
    by_cases hu : user = "" <;> simp only [hu, ne_eq, not_true_eq_false, not_false_eq_true, if_true, if_false]
    all_goals first
      | (have f_userL_iff := hi.userL_iff; have f_fresh := hi.fresh; clear hi; (intros; (try simp only [hubf] at *); grind [mem_removeL, nodup_removeL, removeL_nil, length_removeL_le]))
      | (have f_fresh := hi.fresh; have f_mem_room := hi.mem_room; have f_room_mem := hi.room_mem; have f_nonempty := hi.nonempty; have f_nodup := hi.nodup; have f_roomL_iff := hi.roomL_iff; have f_roomL_nodup := hi.roomL_nodup; have f_userL_iff := hi.userL_iff; have f_userL_nodup := hi.userL_nodup; have f_sessL_iff := hi.sessL_iff; have f_rs_fwd := hi.rs_fwd; have f_rs_room := hi.rs_room; have f_virt := hi.virt; have f_children := hi.children; have f_vtable := hi.vtable; have f_conn_iff := hi.conn_iff; have f_conn_open := hi.conn_open; have f_eh := hi.eh; have f_expired := hi.expired; have f_anon := hi.anon; have f_dialout := hi.dialout; have f_count := hi.count; have f_orph_virt := hi.orph_virt; have f_incall := hi.incall; have f_count_le := hi.count_le; clear hi; (intros; (try simp only [hubf] at *); grind [mem_removeL, nodup_removeL, removeL_nil, length_removeL_le]))
  case userL_nodup =>
    by_cases hu : user = "" <;> simp only [hu, ne_eq, not_true_eq_false, not_false_eq_true, if_true, if_false]
    all_goals first
      | (have f_userL_nodup := hi.userL_nodup; have f_userL_iff := hi.userL_iff; clear hi; (intros; (try simp only [hubf] at *); grind [mem_removeL, nodup_removeL, removeL_nil, length_removeL_le]))
      | (have f_fresh := hi.fresh; have f_mem_room := hi.mem_room; have f_room_mem := hi.room_mem; have f_nonempty := hi.nonempty; have f_nodup := hi.nodup; have f_roomL_iff := hi.roomL_iff; have f_roomL_nodup := hi.roomL_nodup; have f_userL_iff := hi.userL_iff; have f_userL_nodup := hi.userL_nodup; have f_sessL_iff := hi.sessL_iff; have f_rs_fwd := hi.rs_fwd; have f_rs_room := hi.rs_room; have f_virt := hi.virt; have f_children := hi.children; have f_vtable := hi.vtable; have f_conn_iff := hi.conn_iff; have f_conn_open := hi.conn_open; have f_eh := hi.eh; have f_expired := hi.expired; have f_anon := hi.anon; have f_dialout := hi.dialout; have f_count := hi.count; have f_orph_virt := hi.orph_virt; have f_incall := hi.incall; have f_count_le := hi.count_le; clear hi; (intros; (try simp only [hubf] at *); grind [mem_removeL, nodup_removeL, removeL_nil, length_removeL_le]))
  case sessL_iff =>
    by_cases hu : user = "" <;> simp only [hu, ne_eq, not_true_eq_false, not_false_eq_true, if_true, if_false]
    all_goals first
      | (have f_sessL_iff := hi.sessL_iff; have f_fresh := hi.fresh; clear hi; (intros; (try simp only [hubf] at *); grind [mem_removeL, nodup_removeL, removeL_nil, length_removeL_le]))
      | (have f_fresh := hi.fresh; have f_mem_room := hi.mem_room; have f_room_mem := hi.room_mem; have f_nonempty := hi.nonempty; have f_nodup := hi.nodup; have f_roomL_iff := hi.roomL_iff; have f_roomL_nodup := hi.roomL_nodup; have f_userL_iff := hi.userL_iff; have f_userL_nodup := hi.userL_nodup; have f_sessL_iff := hi.sessL_iff; have f_rs_fwd := hi.rs_fwd; have f_rs_room := hi.rs_room; have f_virt := hi.virt; have f_children := hi.children; have f_vtable := hi.vtable; have f_conn_iff := hi.conn_iff; have f_conn_open := hi.conn_open; have f_eh := hi.eh; have f_expired := hi.expired; have f_anon := hi.anon; have f_dialout := hi.dialout; have f_count := hi.count; have f_orph_virt := hi.orph_virt; have f_incall := hi.incall; have f_count_le := hi.count_le; clear hi; (intros; (try simp only [hubf] at *); grind [mem_removeL, nodup_removeL, removeL_nil, length_removeL_le]))
  case rs_fwd =>
    by_cases hu : user = "" <;> simp only [hu, ne_eq, not_true_eq_false, not_false_eq_true, if_true, if_false]
    all_goals first
      | (have f_rs_fwd := hi.rs_fwd; have f_rs_room := hi.rs_room; have f_fresh := hi.fresh; clear hi; (intros; (try simp only [hubf] at *); grind [mem_removeL, nodup_removeL, removeL_nil, length_removeL_le]))
      | (have f_fresh := hi.fresh; have f_mem_room := hi.mem_room; have f_room_mem := hi.room_mem; have f_nonempty := hi.nonempty; have f_nodup := hi.nodup; have f_roomL_iff := hi.roomL_iff; have f_roomL_nodup := hi.roomL_nodup; have f_userL_iff := hi.userL_iff; have f_userL_nodup := hi.userL_nodup; have f_sessL_iff := hi.sessL_iff; have f_rs_fwd := hi.rs_fwd; have f_rs_room := hi.rs_room; have f_virt := hi.virt; have f_children := hi.children; have f_vtable := hi.vtable; have f_conn_iff := hi.conn_iff; have f_conn_open := hi.conn_open; have f_eh := hi.eh; have f_expired := hi.expired; have f_anon := hi.anon; have f_dialout := hi.dialout; have f_count := hi.count; have f_orph_virt := hi.orph_virt; have f_incall := hi.incall; have f_count_le := hi.count_le; clear hi; (intros; (try simp only [hubf] at *); grind [mem_removeL, nodup_removeL, removeL_nil, length_removeL_le]))
  case rs_room =>
    by_cases hu : user = "" <;> simp only [hu, ne_eq, not_true_eq_false, not_false_eq_true, if_true, if_false]
    all_goals first
      | (have f_rs_room := hi.rs_room; have f_rs_fwd := hi.rs_fwd; have f_fresh := hi.fresh; have f_room_mem := hi.room_mem; clear hi; (intros; (try simp only [hubf] at *); grind [mem_removeL, nodup_removeL, removeL_nil, length_removeL_le]))
      | (have f_fresh := hi.fresh; have f_mem_room := hi.mem_room; have f_room_mem := hi.room_mem; have f_nonempty := hi.nonempty; have f_nodup := hi.nodup; have f_roomL_iff := hi.roomL_iff; have f_roomL_nodup := hi.roomL_nodup; have f_userL_iff := hi.userL_iff; have f_userL_nodup := hi.userL_nodup; have f_sessL_iff := hi.sessL_iff; have f_rs_fwd := hi.rs_fwd; have f_rs_room := hi.rs_room; have f_virt := hi.virt; have f_children := hi.children; have f_vtable := hi.vtable; have f_conn_iff := hi.conn_iff; have f_conn_open := hi.conn_open; have f_eh := hi.eh; have f_expired := hi.expired; have f_anon := hi.anon; have f_dialout := hi.dialout; have f_count := hi.count; have f_orph_virt := hi.orph_virt; have f_incall := hi.incall; have f_count_le := hi.count_le; clear hi; (intros; (try simp only [hubf] at *); grind [mem_removeL, nodup_removeL, removeL_nil, length_removeL_le]))
  case virt =>
    by_cases hu : user = "" <;> simp only [hu, ne_eq, not_true_eq_false, not_false_eq_true, if_true, if_false]
    all_goals first
      | (have f_virt := hi.virt; have f_children := hi.children; have f_fresh := hi.fresh; clear hi; (intros; (try simp only [hubf] at *); grind [mem_removeL, nodup_removeL, removeL_nil, length_removeL_le]))
      | (have f_fresh := hi.fresh; have f_mem_room := hi.mem_room; have f_room_mem := hi.room_mem; have f_nonempty := hi.nonempty; have f_nodup := hi.nodup; have f_roomL_iff := hi.roomL_iff; have f_roomL_nodup := hi.roomL_nodup; have f_userL_iff := hi.userL_iff; have f_userL_nodup := hi.userL_nodup; have f_sessL_iff := hi.sessL_iff; have f_rs_fwd := hi.rs_fwd; have f_rs_room := hi.rs_room; have f_virt := hi.virt; have f_children := hi.children; have f_vtable := hi.vtable; have f_conn_iff := hi.conn_iff; have f_conn_open := hi.conn_open; have f_eh := hi.eh; have f_expired := hi.expired; have f_anon := hi.anon; have f_dialout := hi.dialout; have f_count := hi.count; have f_orph_virt := hi.orph_virt; have f_incall := hi.incall; have f_count_le := hi.count_le; clear hi; (intros; (try simp only [hubf] at *); grind [mem_removeL, nodup_removeL, removeL_nil, length_removeL_le]))
  case children =>
    by_cases hu : user = "" <;> simp only [hu, ne_eq, not_true_eq_false, not_false_eq_true, if_true, if_false]
    all_goals first
      | (have f_children := hi.children; have f_virt := hi.virt; have f_fresh := hi.fresh; clear hi; (intros; (try simp only [hubf] at *); grind [mem_removeL, nodup_removeL, removeL_nil, length_removeL_le]))
      | (have f_fresh := hi.fresh; have f_mem_room := hi.mem_room; have f_room_mem := hi.room_mem; have f_nonempty := hi.nonempty; have f_nodup := hi.nodup; have f_roomL_iff := hi.roomL_iff; have f_roomL_nodup := hi.roomL_nodup; have f_userL_iff := hi.userL_iff; have f_userL_nodup := hi.userL_nodup; have f_sessL_iff := hi.sessL_iff; have f_rs_fwd := hi.rs_fwd; have f_rs_room := hi.rs_room; have f_virt := hi.virt; have f_children := hi.children; have f_vtable := hi.vtable; have f_conn_iff := hi.conn_iff; have f_conn_open := hi.conn_open; have f_eh := hi.eh; have f_expired := hi.expired; have f_anon := hi.anon; have f_dialout := hi.dialout; have f_count := hi.count; have f_orph_virt := hi.orph_virt; have f_incall := hi.incall; have f_count_le := hi.count_le; clear hi; (intros; (try simp only [hubf] at *); grind [mem_removeL, nodup_removeL, removeL_nil, length_removeL_le]))
  case vtable =>
    by_cases hu : user = "" <;> simp only [hu, ne_eq, not_true_eq_false, not_false_eq_true, if_true, if_false]
    all_goals first
      | (have f_vtable := hi.vtable; have f_virt := hi.virt; have f_fresh := hi.fresh; clear hi; (intros; (try simp only [hubf] at *); grind [mem_removeL, nodup_removeL, removeL_nil, length_removeL_le]))
      | (have f_fresh := hi.fresh; have f_mem_room := hi.mem_room; have f_room_mem := hi.room_mem; have f_nonempty := hi.nonempty; have f_nodup := hi.nodup; have f_roomL_iff := hi.roomL_iff; have f_roomL_nodup := hi.roomL_nodup; have f_userL_iff := hi.userL_iff; have f_userL_nodup := hi.userL_nodup; have f_sessL_iff := hi.sessL_iff; have f_rs_fwd := hi.rs_fwd; have f_rs_room := hi.rs_room; have f_virt := hi.virt; have f_children := hi.children; have f_vtable := hi.vtable; have f_conn_iff := hi.conn_iff; have f_conn_open := hi.conn_open; have f_eh := hi.eh; have f_expired := hi.expired; have f_anon := hi.anon; have f_dialout := hi.dialout; have f_count := hi.count; have f_orph_virt := hi.orph_virt; have f_incall := hi.incall; have f_count_le := hi.count_le; clear hi; (intros; (try simp only [hubf] at *); grind [mem_removeL, nodup_removeL, removeL_nil, length_removeL_le]))
  case conn_iff =>
    by_cases hu : user = "" <;> simp only [hu, ne_eq, not_true_eq_false, not_false_eq_true, if_true, if_false]
    all_goals first
      | (have f_conn_iff := hi.conn_iff; have f_fresh := hi.fresh; have f_virt := hi.virt; clear hi; (intros; (try simp only [hubf] at *); grind [mem_removeL, nodup_removeL, removeL_nil, length_removeL_le]))
      | (have f_fresh := hi.fresh; have f_mem_room := hi.mem_room; have f_room_mem := hi.room_mem; have f_nonempty := hi.nonempty; have f_nodup := hi.nodup; have f_roomL_iff := hi.roomL_iff; have f_roomL_nodup := hi.roomL_nodup; have f_userL_iff := hi.userL_iff; have f_userL_nodup := hi.userL_nodup; have f_sessL_iff := hi.sessL_iff; have f_rs_fwd := hi.rs_fwd; have f_rs_room := hi.rs_room; have f_virt := hi.virt; have f_children := hi.children; have f_vtable := hi.vtable; have f_conn_iff := hi.conn_iff; have f_conn_open := hi.conn_open; have f_eh := hi.eh; have f_expired := hi.expired; have f_anon := hi.anon; have f_dialout := hi.dialout; have f_count := hi.count; have f_orph_virt := hi.orph_virt; have f_incall := hi.incall; have f_count_le := hi.count_le; clear hi; (intros; (try simp only [hubf] at *); grind [mem_removeL, nodup_removeL, removeL_nil, length_removeL_le]))
  case conn_open =>
    by_cases hu : user = "" <;> simp only [hu, ne_eq, not_true_eq_false, not_false_eq_true, if_true, if_false]
    all_goals first
      | (have f_conn_open := hi.conn_open; have f_conn_iff := hi.conn_iff; clear hi; (intros; (try simp only [hubf] at *); grind [mem_removeL, nodup_removeL, removeL_nil, length_removeL_le]))
      | (have f_fresh := hi.fresh; have f_mem_room := hi.mem_room; have f_room_mem := hi.room_mem; have f_nonempty := hi.nonempty; have f_nodup := hi.nodup; have f_roomL_iff := hi.roomL_iff; have f_roomL_nodup := hi.roomL_nodup; have f_userL_iff := hi.userL_iff; have f_userL_nodup := hi.userL_nodup; have f_sessL_iff := hi.sessL_iff; have f_rs_fwd := hi.rs_fwd; have f_rs_room := hi.rs_room; have f_virt := hi.virt; have f_children := hi.children; have f_vtable := hi.vtable; have f_conn_iff := hi.conn_iff; have f_conn_open := hi.conn_open; have f_eh := hi.eh; have f_expired := hi.expired; have f_anon := hi.anon; have f_dialout := hi.dialout; have f_count := hi.count; have f_orph_virt := hi.orph_virt; have f_incall := hi.incall; have f_count_le := hi.count_le; clear hi; (intros; (try simp only [hubf] at *); grind [mem_removeL, nodup_removeL, removeL_nil, length_removeL_le]))
  case eh =>
    by_cases hu : user = "" <;> simp only [hu, ne_eq, not_true_eq_false, not_false_eq_true, if_true, if_false]
    all_goals first
      | (have f_eh := hi.eh; have f_conn_iff := hi.conn_iff; have f_conn_open := hi.conn_open; clear hi; (intros; (try simp only [hubf] at *); grind [mem_removeL, nodup_removeL, removeL_nil, length_removeL_le]))
      | (have f_fresh := hi.fresh; have f_mem_room := hi.mem_room; have f_room_mem := hi.room_mem; have f_nonempty := hi.nonempty; have f_nodup := hi.nodup; have f_roomL_iff := hi.roomL_iff; have f_roomL_nodup := hi.roomL_nodup; have f_userL_iff := hi.userL_iff; have f_userL_nodup := hi.userL_nodup; have f_sessL_iff := hi.sessL_iff; have f_rs_fwd := hi.rs_fwd; have f_rs_room := hi.rs_room; have f_virt := hi.virt; have f_children := hi.children; have f_vtable := hi.vtable; have f_conn_iff := hi.conn_iff; have f_conn_open := hi.conn_open; have f_eh := hi.eh; have f_expired := hi.expired; have f_anon := hi.anon; have f_dialout := hi.dialout; have f_count := hi.count; have f_orph_virt := hi.orph_virt; have f_incall := hi.incall; have f_count_le := hi.count_le; clear hi; (intros; (try simp only [hubf] at *); grind [mem_removeL, nodup_removeL, removeL_nil, length_removeL_le]))
  case expired =>
    by_cases hu : user = "" <;> simp only [hu, ne_eq, not_true_eq_false, not_false_eq_true, if_true, if_false]
    all_goals first
      | (have f_expired := hi.expired; have f_fresh := hi.fresh; clear hi; (intros; (try simp only [hubf] at *); grind [mem_removeL, nodup_removeL, removeL_nil, length_removeL_le]))
      | (have f_fresh := hi.fresh; have f_mem_room := hi.mem_room; have f_room_mem := hi.room_mem; have f_nonempty := hi.nonempty; have f_nodup := hi.nodup; have f_roomL_iff := hi.roomL_iff; have f_roomL_nodup := hi.roomL_nodup; have f_userL_iff := hi.userL_iff; have f_userL_nodup := hi.userL_nodup; have f_sessL_iff := hi.sessL_iff; have f_rs_fwd := hi.rs_fwd; have f_rs_room := hi.rs_room; have f_virt := hi.virt; have f_children := hi.children; have f_vtable := hi.vtable; have f_conn_iff := hi.conn_iff; have f_conn_open := hi.conn_open; have f_eh := hi.eh; have f_expired := hi.expired; have f_anon := hi.anon; have f_dialout := hi.dialout; have f_count := hi.count; have f_orph_virt := hi.orph_virt; have f_incall := hi.incall; have f_count_le := hi.count_le; clear hi; (intros; (try simp only [hubf] at *); grind [mem_removeL, nodup_removeL, removeL_nil, length_removeL_le]))
  case anon =>
    by_cases hu : user = "" <;> simp only [hu, ne_eq, not_true_eq_false, not_false_eq_true, if_true, if_false]
    all_goals first
      | (have f_anon := hi.anon; have f_fresh := hi.fresh; clear hi; (intros; (try simp only [hubf] at *); grind [mem_removeL, nodup_removeL, removeL_nil, length_removeL_le]))
      | (have f_fresh := hi.fresh; have f_mem_room := hi.mem_room; have f_room_mem := hi.room_mem; have f_nonempty := hi.nonempty; have f_nodup := hi.nodup; have f_roomL_iff := hi.roomL_iff; have f_roomL_nodup := hi.roomL_nodup; have f_userL_iff := hi.userL_iff; have f_userL_nodup := hi.userL_nodup; have f_sessL_iff := hi.sessL_iff; have f_rs_fwd := hi.rs_fwd; have f_rs_room := hi.rs_room; have f_virt := hi.virt; have f_children := hi.children; have f_vtable := hi.vtable; have f_conn_iff := hi.conn_iff; have f_conn_open := hi.conn_open; have f_eh := hi.eh; have f_expired := hi.expired; have f_anon := hi.anon; have f_dialout := hi.dialout; have f_count := hi.count; have f_orph_virt := hi.orph_virt; have f_incall := hi.incall; have f_count_le := hi.count_le; clear hi; (intros; (try simp only [hubf] at *); grind [mem_removeL, nodup_removeL, removeL_nil, length_removeL_le]))
  case dialout =>
    by_cases hu : user = "" <;> simp only [hu, ne_eq, not_true_eq_false, not_false_eq_true, if_true, if_false]
    all_goals first
      | (have f_dialout := hi.dialout; have f_fresh := hi.fresh; clear hi; (intros; (try simp only [hubf] at *); grind [mem_removeL, nodup_removeL, removeL_nil, length_removeL_le]))
      | (have f_fresh := hi.fresh; have f_mem_room := hi.mem_room; have f_room_mem := hi.room_mem; have f_nonempty := hi.nonempty; have f_nodup := hi.nodup; have f_roomL_iff := hi.roomL_iff; have f_roomL_nodup := hi.roomL_nodup; have f_userL_iff := hi.userL_iff; have f_userL_nodup := hi.userL_nodup; have f_sessL_iff := hi.sessL_iff; have f_rs_fwd := hi.rs_fwd; have f_rs_room := hi.rs_room; have f_virt := hi.virt; have f_children := hi.children; have f_vtable := hi.vtable; have f_conn_iff := hi.conn_iff; have f_conn_open := hi.conn_open; have f_eh := hi.eh; have f_expired := hi.expired; have f_anon := hi.anon; have f_dialout := hi.dialout; have f_count := hi.count; have f_orph_virt := hi.orph_virt; have f_incall := hi.incall; have f_count_le := hi.count_le; clear hi; (intros; (try simp only [hubf] at *); grind [mem_removeL, nodup_removeL, removeL_nil, length_removeL_le]))
  case count =>
    by_cases hu : user = "" <;> simp only [hu, ne_eq, not_true_eq_false, not_false_eq_true, if_true, if_false]
    all_goals first
      | (have f_count := hi.count; have f_fresh := hi.fresh; clear hi; (intros; (try simp only [hubf] at *); grind [mem_removeL, nodup_removeL, removeL_nil, length_removeL_le]))
      | (have f_fresh := hi.fresh; have f_mem_room := hi.mem_room; have f_room_mem := hi.room_mem; have f_nonempty := hi.nonempty; have f_nodup := hi.nodup; have f_roomL_iff := hi.roomL_iff; have f_roomL_nodup := hi.roomL_nodup; have f_userL_iff := hi.userL_iff; have f_userL_nodup := hi.userL_nodup; have f_sessL_iff := hi.sessL_iff; have f_rs_fwd := hi.rs_fwd; have f_rs_room := hi.rs_room; have f_virt := hi.virt; have f_children := hi.children; have f_vtable := hi.vtable; have f_conn_iff := hi.conn_iff; have f_conn_open := hi.conn_open; have f_eh := hi.eh; have f_expired := hi.expired; have f_anon := hi.anon; have f_dialout := hi.dialout; have f_count := hi.count; have f_orph_virt := hi.orph_virt; have f_incall := hi.incall; have f_count_le := hi.count_le; clear hi; (intros; (try simp only [hubf] at *); grind [mem_removeL, nodup_removeL, removeL_nil, length_removeL_le]))
  case orph_virt =>
    by_cases hu : user = "" <;> simp only [hu, ne_eq, not_true_eq_false, not_false_eq_true, if_true, if_false]
    all_goals first
      | (have f_orph_virt := hi.orph_virt; have f_fresh := hi.fresh; have f_children := hi.children; have f_virt := hi.virt; clear hi; (intros; (try simp only [hubf] at *); grind [mem_removeL, nodup_removeL, removeL_nil, length_removeL_le]))
      | (have f_fresh := hi.fresh; have f_mem_room := hi.mem_room; have f_room_mem := hi.room_mem; have f_nonempty := hi.nonempty; have f_nodup := hi.nodup; have f_roomL_iff := hi.roomL_iff; have f_roomL_nodup := hi.roomL_nodup; have f_userL_iff := hi.userL_iff; have f_userL_nodup := hi.userL_nodup; have f_sessL_iff := hi.sessL_iff; have f_rs_fwd := hi.rs_fwd; have f_rs_room := hi.rs_room; have f_virt := hi.virt; have f_children := hi.children; have f_vtable := hi.vtable; have f_conn_iff := hi.conn_iff; have f_conn_open := hi.conn_open; have f_eh := hi.eh; have f_expired := hi.expired; have f_anon := hi.anon; have f_dialout := hi.dialout; have f_count := hi.count; have f_orph_virt := hi.orph_virt; have f_incall := hi.incall; have f_count_le := hi.count_le; clear hi; (intros; (try simp only [hubf] at *); grind [mem_removeL, nodup_removeL, removeL_nil, length_removeL_le]))
  case incall =>
    by_cases hu : user = "" <;> simp only [hu, ne_eq, not_true_eq_false, not_false_eq_true, if_true, if_false]
    all_goals first
      | (have f_incall := hi.incall; have f_mem_room := hi.mem_room; clear hi; (intros; (try simp only [hubf] at *); grind [mem_removeL, nodup_removeL, removeL_nil, length_removeL_le]))
      | (have f_fresh := hi.fresh; have f_mem_room := hi.mem_room; have f_room_mem := hi.room_mem; have f_nonempty := hi.nonempty; have f_nodup := hi.nodup; have f_roomL_iff := hi.roomL_iff; have f_roomL_nodup := hi.roomL_nodup; have f_userL_iff := hi.userL_iff; have f_userL_nodup := hi.userL_nodup; have f_sessL_iff := hi.sessL_iff; have f_rs_fwd := hi.rs_fwd; have f_rs_room := hi.rs_room; have f_virt := hi.virt; have f_children := hi.children; have f_vtable := hi.vtable; have f_conn_iff := hi.conn_iff; have f_conn_open := hi.conn_open; have f_eh := hi.eh; have f_expired := hi.expired; have f_anon := hi.anon; have f_dialout := hi.dialout; have f_count := hi.count; have f_orph_virt := hi.orph_virt; have f_incall := hi.incall; have f_count_le := hi.count_le; clear hi; (intros; (try simp only [hubf] at *); grind [mem_removeL, nodup_removeL, removeL_nil, length_removeL_le]))
  case count_le =>
    by_cases hu : user = "" <;> simp only [hu, ne_eq, not_true_eq_false, not_false_eq_true, if_true, if_false]
    all_goals first
      | (have f_count_le := hi.count_le; clear hi; (intros; (try simp only [hubf] at *); grind [mem_removeL, nodup_removeL, removeL_nil, length_removeL_le]))
      | (have f_fresh := hi.fresh; have f_mem_room := hi.mem_room; have f_room_mem := hi.room_mem; have f_nonempty := hi.nonempty; have f_nodup := hi.nodup; have f_roomL_iff := hi.roomL_iff; have f_roomL_nodup := hi.roomL_nodup; have f_userL_iff := hi.userL_iff; have f_userL_nodup := hi.userL_nodup; have f_sessL_iff := hi.sessL_iff; have f_rs_fwd := hi.rs_fwd; have f_rs_room := hi.rs_room; have f_virt := hi.virt; have f_children := hi.children; have f_vtable := hi.vtable; have f_conn_iff := hi.conn_iff; have f_conn_open := hi.conn_open; have f_eh := hi.eh; have f_expired := hi.expired; have f_anon := hi.anon; have f_dialout := hi.dialout; have f_count := hi.count; have f_orph_virt := hi.orph_virt; have f_incall := hi.incall; have f_count_le := hi.count_le; clear hi; (intros; (try simp only [hubf] at *); grind [mem_removeL, nodup_removeL, removeL_nil, length_removeL_le]))

theorem processHello_inv (a : Acc) (c b : Nat) (kind : Kind) (user : String) (d i : Bool)
    (hk : kind ≠ .virtual) (hi : Inv a.h) : Inv (processHello a c b kind user d i).h := by
  unfold processHello
  by_cases hg : (!a.h.connOpen c || (a.h.connSess c).isSome) = true
  · simp only [hg, if_true]; exact hi
  · simp only [hg]
    have hopen : a.h.connOpen c = true := by
      cases h : a.h.connOpen c <;> simp_all
    have hfree : a.h.connSess c = none := by
      cases h : a.h.connSess c <;> simp_all
    by_cases hl : limitReached a.h b kind = true
    · -- refused: only the waiting list changes
      simp only [hl, if_true]
      have f17 := hi.conn_open; have f18 := hi.eh
      obtain ⟨f1, f2, f3, f4, f5, f6, f7, f8, f9, f10, f11, f12, f13, f14, f15, f16, _, _, f19, f20, f21, f22, f23, f24, f25⟩ := hi
      constructor
      all_goals first | assumption | skip
      · intro c' hc'; simp at hc'; rcases hc' with h1 | rfl
        · exact f18 c' (mem_removeL.mp h1).1
        · exact hfree
    · have hl' : limitReached a.h b kind = false := by cases h : limitReached a.h b kind <;> simp_all
      simp only [hl', Bool.false_eq_true, if_false]; exact helloTables_inv hi c b kind user d i hk hopen hfree hl'

set_option maxHeartbeats 4000000 in
theorem resumeTables_inv {h : Hub} (hi : Inv h) {c s : Nat} {x : Sess} (hx : h.sess s = some x)
    (hk : x.kind ≠ .virtual) (hopen : h.connOpen c = true) (hfree : h.connSess c = none) :
    Inv (resumeTables h c s x) := by
  have hcu : ∀ c' s1 s2 x1 x2, h.sess s1 = some x1 → x1.conn = some c' → h.sess s2 = some x2 → x2.conn = some c' → s1 = s2 :=
    fun c' s1 s2 x1 x2 h1 h2 h3 h4 => conn_unique hi h1 h2 h3 h4
  unfold resumeTables
  constructor
  case fresh =>
    cases hc : x.conn <;> simp only []
    all_goals first
      | (have f_fresh := hi.fresh; clear hi; (intros; (try simp only [hubf] at *); grind [mem_removeL, nodup_removeL, removeL_nil, length_removeL_le]))
      | (have f_fresh := hi.fresh; have f_mem_room := hi.mem_room; have f_room_mem := hi.room_mem; have f_nonempty := hi.nonempty; have f_nodup := hi.nodup; have f_roomL_iff := hi.roomL_iff; have f_roomL_nodup := hi.roomL_nodup; have f_userL_iff := hi.userL_iff; have f_userL_nodup := hi.userL_nodup; have f_sessL_iff := hi.sessL_iff; have f_rs_fwd := hi.rs_fwd; have f_rs_room := hi.rs_room; have f_virt := hi.virt; have f_children := hi.children; have f_vtable := hi.vtable; have f_conn_iff := hi.conn_iff; have f_conn_open := hi.conn_open; have f_eh := hi.eh; have f_expired := hi.expired; have f_anon := hi.anon; have f_dialout := hi.dialout; have f_count := hi.count; have f_orph_virt := hi.orph_virt; have f_incall := hi.incall; have f_count_le := hi.count_le; clear hi; (intros; (try simp only [hubf] at *); grind [mem_removeL, nodup_removeL, removeL_nil, length_removeL_le]))
  case mem_room =>
    cases hc : x.conn <;> simp only []
    all_goals first
      | (have f_mem_room := hi.mem_room; have f_fresh := hi.fresh; clear hi; (intros; (try simp only [hubf] at *); grind [mem_removeL, nodup_removeL, removeL_nil, length_removeL_le]))
      | (have f_fresh := hi.fresh; have f_mem_room := hi.mem_room; have f_room_mem := hi.room_mem; have f_nonempty := hi.nonempty; have f_nodup := hi.nodup; have f_roomL_iff := hi.roomL_iff; have f_roomL_nodup := hi.roomL_nodup; have f_userL_iff := hi.userL_iff; have f_userL_nodup := hi.userL_nodup; have f_sessL_iff := hi.sessL_iff; have f_rs_fwd := hi.rs_fwd; have f_rs_room := hi.rs_room; have f_virt := hi.virt; have f_children := hi.children; have f_vtable := hi.vtable; have f_conn_iff := hi.conn_iff; have f_conn_open := hi.conn_open; have f_eh := hi.eh; have f_expired := hi.expired; have f_anon := hi.anon; have f_dialout := hi.dialout; have f_count := hi.count; have f_orph_virt := hi.orph_virt; have f_incall := hi.incall; have f_count_le := hi.count_le; clear hi; (intros; (try simp only [hubf] at *); grind [mem_removeL, nodup_removeL, removeL_nil, length_removeL_le]))
  case room_mem =>
    cases hc : x.conn <;> simp only []
    all_goals first
      | (have f_room_mem := hi.room_mem; have f_mem_room := hi.mem_room; have f_fresh := hi.fresh; clear hi; (intros; (try simp only [hubf] at *); grind [mem_removeL, nodup_removeL, removeL_nil, length_removeL_le]))
      | (have f_fresh := hi.fresh; have f_mem_room := hi.mem_room; have f_room_mem := hi.room_mem; have f_nonempty := hi.nonempty; have f_nodup := hi.nodup; have f_roomL_iff := hi.roomL_iff; have f_roomL_nodup := hi.roomL_nodup; have f_userL_iff := hi.userL_iff; have f_userL_nodup := hi.userL_nodup; have f_sessL_iff := hi.sessL_iff; have f_rs_fwd := hi.rs_fwd; have f_rs_room := hi.rs_room; have f_virt := hi.virt; have f_children := hi.children; have f_vtable := hi.vtable; have f_conn_iff := hi.conn_iff; have f_conn_open := hi.conn_open; have f_eh := hi.eh; have f_expired := hi.expired; have f_anon := hi.anon; have f_dialout := hi.dialout; have f_count := hi.count; have f_orph_virt := hi.orph_virt; have f_incall := hi.incall; have f_count_le := hi.count_le; clear hi; (intros; (try simp only [hubf] at *); grind [mem_removeL, nodup_removeL, removeL_nil, length_removeL_le]))
  case nonempty =>
    cases hc : x.conn <;> simp only []
    all_goals first
      | (have f_nonempty := hi.nonempty; have f_mem_room := hi.mem_room; clear hi; (intros; (try simp only [hubf] at *); grind [mem_removeL, nodup_removeL, removeL_nil, length_removeL_le]))
      | (have f_fresh := hi.fresh; have f_mem_room := hi.mem_room; have f_room_mem := hi.room_mem; have f_nonempty := hi.nonempty; have f_nodup := hi.nodup; have f_roomL_iff := hi.roomL_iff; have f_roomL_nodup := hi.roomL_nodup; have f_userL_iff := hi.userL_iff; have f_userL_nodup := hi.userL_nodup; have f_sessL_iff := hi.sessL_iff; have f_rs_fwd := hi.rs_fwd; have f_rs_room := hi.rs_room; have f_virt := hi.virt; have f_children := hi.children; have f_vtable := hi.vtable; have f_conn_iff := hi.conn_iff; have f_conn_open := hi.conn_open; have f_eh := hi.eh; have f_expired := hi.expired; have f_anon := hi.anon; have f_dialout := hi.dialout; have f_count := hi.count; have f_orph_virt := hi.orph_virt; have f_incall := hi.incall; have f_count_le := hi.count_le; clear hi; (intros; (try simp only [hubf] at *); grind [mem_removeL, nodup_removeL, removeL_nil, length_removeL_le]))
  case nodup =>
    cases hc : x.conn <;> simp only []
    all_goals first
      | (have f_nodup := hi.nodup; clear hi; (intros; (try simp only [hubf] at *); grind [mem_removeL, nodup_removeL, removeL_nil, length_removeL_le]))
      | (have f_fresh := hi.fresh; have f_mem_room := hi.mem_room; have f_room_mem := hi.room_mem; have f_nonempty := hi.nonempty; have f_nodup := hi.nodup; have f_roomL_iff := hi.roomL_iff; have f_roomL_nodup := hi.roomL_nodup; have f_userL_iff := hi.userL_iff; have f_userL_nodup := hi.userL_nodup; have f_sessL_iff := hi.sessL_iff; have f_rs_fwd := hi.rs_fwd; have f_rs_room := hi.rs_room; have f_virt := hi.virt; have f_children := hi.children; have f_vtable := hi.vtable; have f_conn_iff := hi.conn_iff; have f_conn_open := hi.conn_open; have f_eh := hi.eh; have f_expired := hi.expired; have f_anon := hi.anon; have f_dialout := hi.dialout; have f_count := hi.count; have f_orph_virt := hi.orph_virt; have f_incall := hi.incall; have f_count_le := hi.count_le; clear hi; (intros; (try simp only [hubf] at *); grind [mem_removeL, nodup_removeL, removeL_nil, length_removeL_le]))
  case roomL_iff =>
    cases hc : x.conn <;> simp only []
    all_goals first
      | (have f_roomL_iff := hi.roomL_iff; have f_fresh := hi.fresh; have f_room_mem := hi.room_mem; have f_mem_room := hi.mem_room; clear hi; (intros; (try simp only [hubf] at *); grind [mem_removeL, nodup_removeL, removeL_nil, length_removeL_le]))
      | (have f_fresh := hi.fresh; have f_mem_room := hi.mem_room; have f_room_mem := hi.room_mem; have f_nonempty := hi.nonempty; have f_nodup := hi.nodup; have f_roomL_iff := hi.roomL_iff; have f_roomL_nodup := hi.roomL_nodup; have f_userL_iff := hi.userL_iff; have f_userL_nodup := hi.userL_nodup; have f_sessL_iff := hi.sessL_iff; have f_rs_fwd := hi.rs_fwd; have f_rs_room := hi.rs_room; have f_virt := hi.virt; have f_children := hi.children; have f_vtable := hi.vtable; have f_conn_iff := hi.conn_iff; have f_conn_open := hi.conn_open; have f_eh := hi.eh; have f_expired := hi.expired; have f_anon := hi.anon; have f_dialout := hi.dialout; have f_count := hi.count; have f_orph_virt := hi.orph_virt; have f_incall := hi.incall; have f_count_le := hi.count_le; clear hi; (intros; (try simp only [hubf] at *); grind [mem_removeL, nodup_removeL, removeL_nil, length_removeL_le]))
  case roomL_nodup =>
    cases hc : x.conn <;> simp only []
    all_goals first
      | (have f_roomL_nodup := hi.roomL_nodup; have f_roomL_iff := hi.roomL_iff; clear hi; (intros; (try simp only [hubf] at *); grind [mem_removeL, nodup_removeL, removeL_nil, length_removeL_le]))
      | (have f_fresh := hi.fresh; have f_mem_room := hi.mem_room; have f_room_mem := hi.room_mem; have f_nonempty := hi.nonempty; have f_nodup := hi.nodup; have f_roomL_iff := hi.roomL_iff; have f_roomL_nodup := hi.roomL_nodup; have f_userL_iff := hi.userL_iff; have f_userL_nodup := hi.userL_nodup; have f_sessL_iff := hi.sessL_iff; have f_rs_fwd := hi.rs_fwd; have f_rs_room := hi.rs_room; have f_virt := hi.virt; have f_children := hi.children; have f_vtable := hi.vtable; have f_conn_iff := hi.conn_iff; have f_conn_open := hi.conn_open; have f_eh := hi.eh; have f_expired := hi.expired; have f_anon := hi.anon; have f_dialout := hi.dialout; have f_count := hi.count; have f_orph_virt := hi.orph_virt; have f_incall := hi.incall; have f_count_le := hi.count_le; clear hi; (intros; (try simp only [hubf] at *); grind [mem_removeL, nodup_removeL, removeL_nil, length_removeL_le]))
  case userL_iff =>
    cases hc : x.conn <;> simp only []
    all_goals first
      | (have f_userL_iff := hi.userL_iff; have f_fresh := hi.fresh; clear hi; (intros; (try simp only [hubf] at *); grind [mem_removeL, nodup_removeL, removeL_nil, length_removeL_le]))
      | (have f_fresh := hi.fresh; have f_mem_room := hi.mem_room; have f_room_mem := hi.room_mem; have f_nonempty := hi.nonempty; have f_nodup := hi.nodup; have f_roomL_iff := hi.roomL_iff; have f_roomL_nodup := hi.roomL_nodup; have f_userL_iff := hi.userL_iff; have f_userL_nodup := hi.userL_nodup; have f_sessL_iff := hi.sessL_iff; have f_rs_fwd := hi.rs_fwd; have f_rs_room := hi.rs_room; have f_virt := hi.virt; have f_children := hi.children; have f_vtable := hi.vtable; have f_conn_iff := hi.conn_iff; have f_conn_open := hi.conn_open; have f_eh := hi.eh; have f_expired := hi.expired; have f_anon := hi.anon; have f_dialout := hi.dialout; have f_count := hi.count; have f_orph_virt := hi.orph_virt; have f_incall := hi.incall; have f_count_le := hi.count_le; clear hi; (intros; (try simp only [hubf] at *); grind [mem_removeL, nodup_removeL, removeL_nil, length_removeL_le]))
  case userL_nodup =>
    cases hc : x.conn <;> simp only []
    all_goals first
      | (have f_userL_nodup := hi.userL_nodup; have f_userL_iff := hi.userL_iff; clear hi; (intros; (try simp only [hubf] at *); grind [mem_removeL, nodup_removeL, removeL_nil, length_removeL_le]))
      | (have f_fresh := hi.fresh; have f_mem_room := hi.mem_room; have f_room_mem := hi.room_mem; have f_nonempty := hi.nonempty; have f_nodup := hi.nodup; have f_roomL_iff := hi.roomL_iff; have f_roomL_nodup := hi.roomL_nodup; have f_userL_iff := hi.userL_iff; have f_userL_nodup := hi.userL_nodup; have f_sessL_iff := hi.sessL_iff; have f_rs_fwd := hi.rs_fwd; have f_rs_room := hi.rs_room; have f_virt := hi.virt; have f_children := hi.children; have f_vtable := hi.vtable; have f_conn_iff := hi.conn_iff; have f_conn_open := hi.conn_open; have f_eh := hi.eh; have f_expired := hi.expired; have f_anon := hi.anon; have f_dialout := hi.dialout; have f_count := hi.count; have f_orph_virt := hi.orph_virt; have f_incall := hi.incall; have f_count_le := hi.count_le; clear hi; (intros; (try simp only [hubf] at *); grind [mem_removeL, nodup_removeL, removeL_nil, length_removeL_le]))
  case sessL_iff =>
    cases hc : x.conn <;> simp only []
    all_goals first
      | (have f_sessL_iff := hi.sessL_iff; have f_fresh := hi.fresh; clear hi; (intros; (try simp only [hubf] at *); grind [mem_removeL, nodup_removeL, removeL_nil, length_removeL_le]))
      | (have f_fresh := hi.fresh; have f_mem_room := hi.mem_room; have f_room_mem := hi.room_mem; have f_nonempty := hi.nonempty; have f_nodup := hi.nodup; have f_roomL_iff := hi.roomL_iff; have f_roomL_nodup := hi.roomL_nodup; have f_userL_iff := hi.userL_iff; have f_userL_nodup := hi.userL_nodup; have f_sessL_iff := hi.sessL_iff; have f_rs_fwd := hi.rs_fwd; have f_rs_room := hi.rs_room; have f_virt := hi.virt; have f_children := hi.children; have f_vtable := hi.vtable; have f_conn_iff := hi.conn_iff; have f_conn_open := hi.conn_open; have f_eh := hi.eh; have f_expired := hi.expired; have f_anon := hi.anon; have f_dialout := hi.dialout; have f_count := hi.count; have f_orph_virt := hi.orph_virt; have f_incall := hi.incall; have f_count_le := hi.count_le; clear hi; (intros; (try simp only [hubf] at *); grind [mem_removeL, nodup_removeL, removeL_nil, length_removeL_le]))
  case rs_fwd =>
    cases hc : x.conn <;> simp only []
    all_goals first
      | (have f_rs_fwd := hi.rs_fwd; have f_rs_room := hi.rs_room; have f_fresh := hi.fresh; clear hi; (intros; (try simp only [hubf] at *); grind [mem_removeL, nodup_removeL, removeL_nil, length_removeL_le]))
      | (have f_fresh := hi.fresh; have f_mem_room := hi.mem_room; have f_room_mem := hi.room_mem; have f_nonempty := hi.nonempty; have f_nodup := hi.nodup; have f_roomL_iff := hi.roomL_iff; have f_roomL_nodup := hi.roomL_nodup; have f_userL_iff := hi.userL_iff; have f_userL_nodup := hi.userL_nodup; have f_sessL_iff := hi.sessL_iff; have f_rs_fwd := hi.rs_fwd; have f_rs_room := hi.rs_room; have f_virt := hi.virt; have f_children := hi.children; have f_vtable := hi.vtable; have f_conn_iff := hi.conn_iff; have f_conn_open := hi.conn_open; have f_eh := hi.eh; have f_expired := hi.expired; have f_anon := hi.anon; have f_dialout := hi.dialout; have f_count := hi.count; have f_orph_virt := hi.orph_virt; have f_incall := hi.incall; have f_count_le := hi.count_le; clear hi; (intros; (try simp only [hubf] at *); grind [mem_removeL, nodup_removeL, removeL_nil, length_removeL_le]))
  case rs_room =>
    cases hc : x.conn <;> simp only []
    all_goals first
      | (have f_rs_room := hi.rs_room; have f_rs_fwd := hi.rs_fwd; have f_fresh := hi.fresh; have f_room_mem := hi.room_mem; clear hi; (intros; (try simp only [hubf] at *); grind [mem_removeL, nodup_removeL, removeL_nil, length_removeL_le]))
      | (have f_fresh := hi.fresh; have f_mem_room := hi.mem_room; have f_room_mem := hi.room_mem; have f_nonempty := hi.nonempty; have f_nodup := hi.nodup; have f_roomL_iff := hi.roomL_iff; have f_roomL_nodup := hi.roomL_nodup; have f_userL_iff := hi.userL_iff; have f_userL_nodup := hi.userL_nodup; have f_sessL_iff := hi.sessL_iff; have f_rs_fwd := hi.rs_fwd; have f_rs_room := hi.rs_room; have f_virt := hi.virt; have f_children := hi.children; have f_vtable := hi.vtable; have f_conn_iff := hi.conn_iff; have f_conn_open := hi.conn_open; have f_eh := hi.eh; have f_expired := hi.expired; have f_anon := hi.anon; have f_dialout := hi.dialout; have f_count := hi.count; have f_orph_virt := hi.orph_virt; have f_incall := hi.incall; have f_count_le := hi.count_le; clear hi; (intros; (try simp only [hubf] at *); grind [mem_removeL, nodup_removeL, removeL_nil, length_removeL_le]))
  case virt =>
    cases hc : x.conn <;> simp only []
    all_goals first
      | (have f_virt := hi.virt; have f_children := hi.children; have f_fresh := hi.fresh; clear hi; (intros; (try simp only [hubf] at *); grind [mem_removeL, nodup_removeL, removeL_nil, length_removeL_le]))
      | (have f_fresh := hi.fresh; have f_mem_room := hi.mem_room; have f_room_mem := hi.room_mem; have f_nonempty := hi.nonempty; have f_nodup := hi.nodup; have f_roomL_iff := hi.roomL_iff; have f_roomL_nodup := hi.roomL_nodup; have f_userL_iff := hi.userL_iff; have f_userL_nodup := hi.userL_nodup; have f_sessL_iff := hi.sessL_iff; have f_rs_fwd := hi.rs_fwd; have f_rs_room := hi.rs_room; have f_virt := hi.virt; have f_children := hi.children; have f_vtable := hi.vtable; have f_conn_iff := hi.conn_iff; have f_conn_open := hi.conn_open; have f_eh := hi.eh; have f_expired := hi.expired; have f_anon := hi.anon; have f_dialout := hi.dialout; have f_count := hi.count; have f_orph_virt := hi.orph_virt; have f_incall := hi.incall; have f_count_le := hi.count_le; clear hi; (intros; (try simp only [hubf] at *); grind [mem_removeL, nodup_removeL, removeL_nil, length_removeL_le]))
  case children =>
    cases hc : x.conn <;> simp only []
    all_goals first
      | (have f_children := hi.children; have f_virt := hi.virt; have f_fresh := hi.fresh; clear hi; (intros; (try simp only [hubf] at *); grind [mem_removeL, nodup_removeL, removeL_nil, length_removeL_le]))
      | (have f_fresh := hi.fresh; have f_mem_room := hi.mem_room; have f_room_mem := hi.room_mem; have f_nonempty := hi.nonempty; have f_nodup := hi.nodup; have f_roomL_iff := hi.roomL_iff; have f_roomL_nodup := hi.roomL_nodup; have f_userL_iff := hi.userL_iff; have f_userL_nodup := hi.userL_nodup; have f_sessL_iff := hi.sessL_iff; have f_rs_fwd := hi.rs_fwd; have f_rs_room := hi.rs_room; have f_virt := hi.virt; have f_children := hi.children; have f_vtable := hi.vtable; have f_conn_iff := hi.conn_iff; have f_conn_open := hi.conn_open; have f_eh := hi.eh; have f_expired := hi.expired; have f_anon := hi.anon; have f_dialout := hi.dialout; have f_count := hi.count; have f_orph_virt := hi.orph_virt; have f_incall := hi.incall; have f_count_le := hi.count_le; clear hi; (intros; (try simp only [hubf] at *); grind [mem_removeL, nodup_removeL, removeL_nil, length_removeL_le]))
  case vtable =>
    cases hc : x.conn <;> simp only []
    all_goals first
      | (have f_vtable := hi.vtable; have f_virt := hi.virt; have f_fresh := hi.fresh; clear hi; (intros; (try simp only [hubf] at *); grind [mem_removeL, nodup_removeL, removeL_nil, length_removeL_le]))
      | (have f_fresh := hi.fresh; have f_mem_room := hi.mem_room; have f_room_mem := hi.room_mem; have f_nonempty := hi.nonempty; have f_nodup := hi.nodup; have f_roomL_iff := hi.roomL_iff; have f_roomL_nodup := hi.roomL_nodup; have f_userL_iff := hi.userL_iff; have f_userL_nodup := hi.userL_nodup; have f_sessL_iff := hi.sessL_iff; have f_rs_fwd := hi.rs_fwd; have f_rs_room := hi.rs_room; have f_virt := hi.virt; have f_children := hi.children; have f_vtable := hi.vtable; have f_conn_iff := hi.conn_iff; have f_conn_open := hi.conn_open; have f_eh := hi.eh; have f_expired := hi.expired; have f_anon := hi.anon; have f_dialout := hi.dialout; have f_count := hi.count; have f_orph_virt := hi.orph_virt; have f_incall := hi.incall; have f_count_le := hi.count_le; clear hi; (intros; (try simp only [hubf] at *); grind [mem_removeL, nodup_removeL, removeL_nil, length_removeL_le]))
  case conn_iff =>
    cases hc : x.conn <;> simp only []
    all_goals first
      | (have f_conn_iff := hi.conn_iff; have f_fresh := hi.fresh; have f_virt := hi.virt; clear hi; (intros; (try simp only [hubf] at *); grind [mem_removeL, nodup_removeL, removeL_nil, length_removeL_le]))
      | (have f_fresh := hi.fresh; have f_mem_room := hi.mem_room; have f_room_mem := hi.room_mem; have f_nonempty := hi.nonempty; have f_nodup := hi.nodup; have f_roomL_iff := hi.roomL_iff; have f_roomL_nodup := hi.roomL_nodup; have f_userL_iff := hi.userL_iff; have f_userL_nodup := hi.userL_nodup; have f_sessL_iff := hi.sessL_iff; have f_rs_fwd := hi.rs_fwd; have f_rs_room := hi.rs_room; have f_virt := hi.virt; have f_children := hi.children; have f_vtable := hi.vtable; have f_conn_iff := hi.conn_iff; have f_conn_open := hi.conn_open; have f_eh := hi.eh; have f_expired := hi.expired; have f_anon := hi.anon; have f_dialout := hi.dialout; have f_count := hi.count; have f_orph_virt := hi.orph_virt; have f_incall := hi.incall; have f_count_le := hi.count_le; clear hi; (intros; (try simp only [hubf] at *); grind [mem_removeL, nodup_removeL, removeL_nil, length_removeL_le]))
  case conn_open =>
    cases hc : x.conn <;> simp only []
    all_goals first
      | (have f_conn_open := hi.conn_open; have f_conn_iff := hi.conn_iff; clear hi; (intros; (try simp only [hubf] at *); grind [mem_removeL, nodup_removeL, removeL_nil, length_removeL_le]))
      | (have f_fresh := hi.fresh; have f_mem_room := hi.mem_room; have f_room_mem := hi.room_mem; have f_nonempty := hi.nonempty; have f_nodup := hi.nodup; have f_roomL_iff := hi.roomL_iff; have f_roomL_nodup := hi.roomL_nodup; have f_userL_iff := hi.userL_iff; have f_userL_nodup := hi.userL_nodup; have f_sessL_iff := hi.sessL_iff; have f_rs_fwd := hi.rs_fwd; have f_rs_room := hi.rs_room; have f_virt := hi.virt; have f_children := hi.children; have f_vtable := hi.vtable; have f_conn_iff := hi.conn_iff; have f_conn_open := hi.conn_open; have f_eh := hi.eh; have f_expired := hi.expired; have f_anon := hi.anon; have f_dialout := hi.dialout; have f_count := hi.count; have f_orph_virt := hi.orph_virt; have f_incall := hi.incall; have f_count_le := hi.count_le; clear hi; (intros; (try simp only [hubf] at *); grind [mem_removeL, nodup_removeL, removeL_nil, length_removeL_le]))
  case eh =>
    cases hc : x.conn <;> simp only []
    all_goals first
      | (have f_eh := hi.eh; have f_conn_iff := hi.conn_iff; have f_conn_open := hi.conn_open; clear hi; (intros; (try simp only [hubf] at *); grind [mem_removeL, nodup_removeL, removeL_nil, length_removeL_le]))
      | (have f_fresh := hi.fresh; have f_mem_room := hi.mem_room; have f_room_mem := hi.room_mem; have f_nonempty := hi.nonempty; have f_nodup := hi.nodup; have f_roomL_iff := hi.roomL_iff; have f_roomL_nodup := hi.roomL_nodup; have f_userL_iff := hi.userL_iff; have f_userL_nodup := hi.userL_nodup; have f_sessL_iff := hi.sessL_iff; have f_rs_fwd := hi.rs_fwd; have f_rs_room := hi.rs_room; have f_virt := hi.virt; have f_children := hi.children; have f_vtable := hi.vtable; have f_conn_iff := hi.conn_iff; have f_conn_open := hi.conn_open; have f_eh := hi.eh; have f_expired := hi.expired; have f_anon := hi.anon; have f_dialout := hi.dialout; have f_count := hi.count; have f_orph_virt := hi.orph_virt; have f_incall := hi.incall; have f_count_le := hi.count_le; clear hi; (intros; (try simp only [hubf] at *); grind [mem_removeL, nodup_removeL, removeL_nil, length_removeL_le]))
  case expired =>
    cases hc : x.conn <;> simp only []
    all_goals first
      | (have f_expired := hi.expired; have f_fresh := hi.fresh; clear hi; (intros; (try simp only [hubf] at *); grind [mem_removeL, nodup_removeL, removeL_nil, length_removeL_le]))
      | (have f_fresh := hi.fresh; have f_mem_room := hi.mem_room; have f_room_mem := hi.room_mem; have f_nonempty := hi.nonempty; have f_nodup := hi.nodup; have f_roomL_iff := hi.roomL_iff; have f_roomL_nodup := hi.roomL_nodup; have f_userL_iff := hi.userL_iff; have f_userL_nodup := hi.userL_nodup; have f_sessL_iff := hi.sessL_iff; have f_rs_fwd := hi.rs_fwd; have f_rs_room := hi.rs_room; have f_virt := hi.virt; have f_children := hi.children; have f_vtable := hi.vtable; have f_conn_iff := hi.conn_iff; have f_conn_open := hi.conn_open; have f_eh := hi.eh; have f_expired := hi.expired; have f_anon := hi.anon; have f_dialout := hi.dialout; have f_count := hi.count; have f_orph_virt := hi.orph_virt; have f_incall := hi.incall; have f_count_le := hi.count_le; clear hi; (intros; (try simp only [hubf] at *); grind [mem_removeL, nodup_removeL, removeL_nil, length_removeL_le]))
  case anon =>
    cases hc : x.conn <;> simp only []
    all_goals first
      | (have f_anon := hi.anon; have f_fresh := hi.fresh; clear hi; (intros; (try simp only [hubf] at *); grind [mem_removeL, nodup_removeL, removeL_nil, length_removeL_le]))
      | (have f_fresh := hi.fresh; have f_mem_room := hi.mem_room; have f_room_mem := hi.room_mem; have f_nonempty := hi.nonempty; have f_nodup := hi.nodup; have f_roomL_iff := hi.roomL_iff; have f_roomL_nodup := hi.roomL_nodup; have f_userL_iff := hi.userL_iff; have f_userL_nodup := hi.userL_nodup; have f_sessL_iff := hi.sessL_iff; have f_rs_fwd := hi.rs_fwd; have f_rs_room := hi.rs_room; have f_virt := hi.virt; have f_children := hi.children; have f_vtable := hi.vtable; have f_conn_iff := hi.conn_iff; have f_conn_open := hi.conn_open; have f_eh := hi.eh; have f_expired := hi.expired; have f_anon := hi.anon; have f_dialout := hi.dialout; have f_count := hi.count; have f_orph_virt := hi.orph_virt; have f_incall := hi.incall; have f_count_le := hi.count_le; clear hi; (intros; (try simp only [hubf] at *); grind [mem_removeL, nodup_removeL, removeL_nil, length_removeL_le]))
  case dialout =>
    cases hc : x.conn <;> simp only []
    all_goals first
      | (have f_dialout := hi.dialout; have f_fresh := hi.fresh; clear hi; (intros; (try simp only [hubf] at *); grind [mem_removeL, nodup_removeL, removeL_nil, length_removeL_le]))
      | (have f_fresh := hi.fresh; have f_mem_room := hi.mem_room; have f_room_mem := hi.room_mem; have f_nonempty := hi.nonempty; have f_nodup := hi.nodup; have f_roomL_iff := hi.roomL_iff; have f_roomL_nodup := hi.roomL_nodup; have f_userL_iff := hi.userL_iff; have f_userL_nodup := hi.userL_nodup; have f_sessL_iff := hi.sessL_iff; have f_rs_fwd := hi.rs_fwd; have f_rs_room := hi.rs_room; have f_virt := hi.virt; have f_children := hi.children; have f_vtable := hi.vtable; have f_conn_iff := hi.conn_iff; have f_conn_open := hi.conn_open; have f_eh := hi.eh; have f_expired := hi.expired; have f_anon := hi.anon; have f_dialout := hi.dialout; have f_count := hi.count; have f_orph_virt := hi.orph_virt; have f_incall := hi.incall; have f_count_le := hi.count_le; clear hi; (intros; (try simp only [hubf] at *); grind [mem_removeL, nodup_removeL, removeL_nil, length_removeL_le]))
  case count =>
    cases hc : x.conn <;> simp only []
    all_goals first
      | (have f_count := hi.count; have f_fresh := hi.fresh; clear hi; (intros; (try simp only [hubf] at *); grind [mem_removeL, nodup_removeL, removeL_nil, length_removeL_le]))
      | (have f_fresh := hi.fresh; have f_mem_room := hi.mem_room; have f_room_mem := hi.room_mem; have f_nonempty := hi.nonempty; have f_nodup := hi.nodup; have f_roomL_iff := hi.roomL_iff; have f_roomL_nodup := hi.roomL_nodup; have f_userL_iff := hi.userL_iff; have f_userL_nodup := hi.userL_nodup; have f_sessL_iff := hi.sessL_iff; have f_rs_fwd := hi.rs_fwd; have f_rs_room := hi.rs_room; have f_virt := hi.virt; have f_children := hi.children; have f_vtable := hi.vtable; have f_conn_iff := hi.conn_iff; have f_conn_open := hi.conn_open; have f_eh := hi.eh; have f_expired := hi.expired; have f_anon := hi.anon; have f_dialout := hi.dialout; have f_count := hi.count; have f_orph_virt := hi.orph_virt; have f_incall := hi.incall; have f_count_le := hi.count_le; clear hi; (intros; (try simp only [hubf] at *); grind [mem_removeL, nodup_removeL, removeL_nil, length_removeL_le]))
  case orph_virt =>
    cases hc : x.conn <;> simp only []
    all_goals first
      | (have f_orph_virt := hi.orph_virt; have f_fresh := hi.fresh; have f_children := hi.children; have f_virt := hi.virt; clear hi; (intros; (try simp only [hubf] at *); grind [mem_removeL, nodup_removeL, removeL_nil, length_removeL_le]))
      | (have f_fresh := hi.fresh; have f_mem_room := hi.mem_room; have f_room_mem := hi.room_mem; have f_nonempty := hi.nonempty; have f_nodup := hi.nodup; have f_roomL_iff := hi.roomL_iff; have f_roomL_nodup := hi.roomL_nodup; have f_userL_iff := hi.userL_iff; have f_userL_nodup := hi.userL_nodup; have f_sessL_iff := hi.sessL_iff; have f_rs_fwd := hi.rs_fwd; have f_rs_room := hi.rs_room; have f_virt := hi.virt; have f_children := hi.children; have f_vtable := hi.vtable; have f_conn_iff := hi.conn_iff; have f_conn_open := hi.conn_open; have f_eh := hi.eh; have f_expired := hi.expired; have f_anon := hi.anon; have f_dialout := hi.dialout; have f_count := hi.count; have f_orph_virt := hi.orph_virt; have f_incall := hi.incall; have f_count_le := hi.count_le; clear hi; (intros; (try simp only [hubf] at *); grind [mem_removeL, nodup_removeL, removeL_nil, length_removeL_le]))
  case incall =>
    cases hc : x.conn <;> simp only []
    all_goals first
      | (have f_incall := hi.incall; have f_mem_room := hi.mem_room; clear hi; (intros; (try simp only [hubf] at *); grind [mem_removeL, nodup_removeL, removeL_nil, length_removeL_le]))
      | (have f_fresh := hi.fresh; have f_mem_room := hi.mem_room; have f_room_mem := hi.room_mem; have f_nonempty := hi.nonempty; have f_nodup := hi.nodup; have f_roomL_iff := hi.roomL_iff; have f_roomL_nodup := hi.roomL_nodup; have f_userL_iff := hi.userL_iff; have f_userL_nodup := hi.userL_nodup; have f_sessL_iff := hi.sessL_iff; have f_rs_fwd := hi.rs_fwd; have f_rs_room := hi.rs_room; have f_virt := hi.virt; have f_children := hi.children; have f_vtable := hi.vtable; have f_conn_iff := hi.conn_iff; have f_conn_open := hi.conn_open; have f_eh := hi.eh; have f_expired := hi.expired; have f_anon := hi.anon; have f_dialout := hi.dialout; have f_count := hi.count; have f_orph_virt := hi.orph_virt; have f_incall := hi.incall; have f_count_le := hi.count_le; clear hi; (intros; (try simp only [hubf] at *); grind [mem_removeL, nodup_removeL, removeL_nil, length_removeL_le]))
  case count_le =>
    cases hc : x.conn <;> simp only []
    all_goals first
      | (have f_count_le := hi.count_le; clear hi; (intros; (try simp only [hubf] at *); grind [mem_removeL, nodup_removeL, removeL_nil, length_removeL_le]))
      | (have f_fresh := hi.fresh; have f_mem_room := hi.mem_room; have f_room_mem := hi.room_mem; have f_nonempty := hi.nonempty; have f_nodup := hi.nodup; have f_roomL_iff := hi.roomL_iff; have f_roomL_nodup := hi.roomL_nodup; have f_userL_iff := hi.userL_iff; have f_userL_nodup := hi.userL_nodup; have f_sessL_iff := hi.sessL_iff; have f_rs_fwd := hi.rs_fwd; have f_rs_room := hi.rs_room; have f_virt := hi.virt; have f_children := hi.children; have f_vtable := hi.vtable; have f_conn_iff := hi.conn_iff; have f_conn_open := hi.conn_open; have f_eh := hi.eh; have f_expired := hi.expired; have f_anon := hi.anon; have f_dialout := hi.dialout; have f_count := hi.count; have f_orph_virt := hi.orph_virt; have f_incall := hi.incall; have f_count_le := hi.count_le; clear hi; (intros; (try simp only [hubf] at *); grind [mem_removeL, nodup_removeL, removeL_nil, length_removeL_le]))

theorem flushPending_h (s : Nat) : ∀ (l : List Msg) (a : Acc), (flushPending a s l).h = a.h := by
  intro l
  induction l with
  | nil => intro a; rfl
  | cons m l ih =>
    intro a
    unfold flushPending at *
    simp only [List.foldl_cons]
    rw [ih]
    split
    · split <;> rfl
    · rfl

theorem processResume_inv (a : Acc) (c : Nat) (os : Option Nat) (hi : Inv a.h) : Inv (processResume a c os).h := by
  unfold processResume
  by_cases hg : (!a.h.connOpen c || (a.h.connSess c).isSome) = true
  · simp only [hg, if_true]; exact hi
  · simp only [hg]
    have hopen : a.h.connOpen c = true := by
      cases h : a.h.connOpen c <;> simp_all
    have hfree : a.h.connSess c = none := by
      cases h : a.h.connSess c <;> simp_all
    cases os with
    | none => exact hi
    | some s =>
      simp only []
      cases hx : a.h.sess s with
      | none => exact hi
      | some x =>
        simp only []
        by_cases hk : x.kind = .virtual
        · simp only [hk, if_true]; exact hi
        · simp only [hk, if_false]
          have hr := resumeTables_inv hi hx hk hopen hfree
          have hA : (flushPending (resumeAcc a c s x) s x.pending).h = resumeTables a.h c s x := by
            rw [flushPending_h]; rfl
          by_cases hn : needsParticipants x.pending = true
          · simp only [hn, if_true]
            exact hr.congr (coreOf (notifyResumed_core _ _) hA)
          · simp only [hn, Bool.false_eq_true, if_false]; rw [hA]; exact hr

set_option maxHeartbeats 4000000 in
theorem disconnectTables_inv {h : Hub} (hi : Inv h) {c s : Nat} (hcs : h.connSess c = some s) :
    Inv (disconnectTables h c s) := by
  obtain ⟨x, hx, hxc⟩ := (hi.conn_iff c s).mp hcs
  have hcu : ∀ c' s1 s2 x1 x2, h.sess s1 = some x1 → x1.conn = some c' → h.sess s2 = some x2 → x2.conn = some c' → s1 = s2 :=
    fun c' s1 s2 x1 x2 h1 h2 h3 h4 => conn_unique hi h1 h2 h3 h4
  have hm : modSess (closeConn h c) s (fun x => if x.conn = some c then { x with conn := none } else x)
      = setSess (closeConn h c) s (some { x with conn := none }) := by
    unfold modSess; simp only [hubf, hx, hxc, if_true]
  unfold disconnectTables
  simp only [hm]
  constructor
  case fresh =>
    first
      | (have f_fresh := hi.fresh; clear hi; (intros; (try simp only [hubf] at *); grind [mem_removeL, nodup_removeL, removeL_nil, length_removeL_le]))
      | (have f_fresh := hi.fresh; have f_mem_room := hi.mem_room; have f_room_mem := hi.room_mem; have f_nonempty := hi.nonempty; have f_nodup := hi.nodup; have f_roomL_iff := hi.roomL_iff; have f_roomL_nodup := hi.roomL_nodup; have f_userL_iff := hi.userL_iff; have f_userL_nodup := hi.userL_nodup; have f_sessL_iff := hi.sessL_iff; have f_rs_fwd := hi.rs_fwd; have f_rs_room := hi.rs_room; have f_virt := hi.virt; have f_children := hi.children; have f_vtable := hi.vtable; have f_conn_iff := hi.conn_iff; have f_conn_open := hi.conn_open; have f_eh := hi.eh; have f_expired := hi.expired; have f_anon := hi.anon; have f_dialout := hi.dialout; have f_count := hi.count; have f_orph_virt := hi.orph_virt; have f_incall := hi.incall; have f_count_le := hi.count_le; clear hi; (intros; (try simp only [hubf] at *); grind [mem_removeL, nodup_removeL, removeL_nil, length_removeL_le]))
  case mem_room =>
    first
      | (have f_mem_room := hi.mem_room; have f_fresh := hi.fresh; clear hi; (intros; (try simp only [hubf] at *); grind [mem_removeL, nodup_removeL, removeL_nil, length_removeL_le]))
      | (have f_fresh := hi.fresh; have f_mem_room := hi.mem_room; have f_room_mem := hi.room_mem; have f_nonempty := hi.nonempty; have f_nodup := hi.nodup; have f_roomL_iff := hi.roomL_iff; have f_roomL_nodup := hi.roomL_nodup; have f_userL_iff := hi.userL_iff; have f_userL_nodup := hi.userL_nodup; have f_sessL_iff := hi.sessL_iff; have f_rs_fwd := hi.rs_fwd; have f_rs_room := hi.rs_room; have f_virt := hi.virt; have f_children := hi.children; have f_vtable := hi.vtable; have f_conn_iff := hi.conn_iff; have f_conn_open := hi.conn_open; have f_eh := hi.eh; have f_expired := hi.expired; have f_anon := hi.anon; have f_dialout := hi.dialout; have f_count := hi.count; have f_orph_virt := hi.orph_virt; have f_incall := hi.incall; have f_count_le := hi.count_le; clear hi; (intros; (try simp only [hubf] at *); grind [mem_removeL, nodup_removeL, removeL_nil, length_removeL_le]))
  case room_mem =>
    first
      | (have f_room_mem := hi.room_mem; have f_mem_room := hi.mem_room; have f_fresh := hi.fresh; clear hi; (intros; (try simp only [hubf] at *); grind [mem_removeL, nodup_removeL, removeL_nil, length_removeL_le]))
      | (have f_fresh := hi.fresh; have f_mem_room := hi.mem_room; have f_room_mem := hi.room_mem; have f_nonempty := hi.nonempty; have f_nodup := hi.nodup; have f_roomL_iff := hi.roomL_iff; have f_roomL_nodup := hi.roomL_nodup; have f_userL_iff := hi.userL_iff; have f_userL_nodup := hi.userL_nodup; have f_sessL_iff := hi.sessL_iff; have f_rs_fwd := hi.rs_fwd; have f_rs_room := hi.rs_room; have f_virt := hi.virt; have f_children := hi.children; have f_vtable := hi.vtable; have f_conn_iff := hi.conn_iff; have f_conn_open := hi.conn_open; have f_eh := hi.eh; have f_expired := hi.expired; have f_anon := hi.anon; have f_dialout := hi.dialout; have f_count := hi.count; have f_orph_virt := hi.orph_virt; have f_incall := hi.incall; have f_count_le := hi.count_le; clear hi; (intros; (try simp only [hubf] at *); grind [mem_removeL, nodup_removeL, removeL_nil, length_removeL_le]))
  case nonempty =>
    first
      | (have f_nonempty := hi.nonempty; have f_mem_room := hi.mem_room; clear hi; (intros; (try simp only [hubf] at *); grind [mem_removeL, nodup_removeL, removeL_nil, length_removeL_le]))
      | (have f_fresh := hi.fresh; have f_mem_room := hi.mem_room; have f_room_mem := hi.room_mem; have f_nonempty := hi.nonempty; have f_nodup := hi.nodup; have f_roomL_iff := hi.roomL_iff; have f_roomL_nodup := hi.roomL_nodup; have f_userL_iff := hi.userL_iff; have f_userL_nodup := hi.userL_nodup; have f_sessL_iff := hi.sessL_iff; have f_rs_fwd := hi.rs_fwd; have f_rs_room := hi.rs_room; have f_virt := hi.virt; have f_children := hi.children; have f_vtable := hi.vtable; have f_conn_iff := hi.conn_iff; have f_conn_open := hi.conn_open; have f_eh := hi.eh; have f_expired := hi.expired; have f_anon := hi.anon; have f_dialout := hi.dialout; have f_count := hi.count; have f_orph_virt := hi.orph_virt; have f_incall := hi.incall; have f_count_le := hi.count_le; clear hi; (intros; (try simp only [hubf] at *); grind [mem_removeL, nodup_removeL, removeL_nil, length_removeL_le]))
  case nodup =>
    first
      | (have f_nodup := hi.nodup; clear hi; (intros; (try simp only [hubf] at *); grind [mem_removeL, nodup_removeL, removeL_nil, length_removeL_le]))
      | (have f_fresh := hi.fresh; have f_mem_room := hi.mem_room; have f_room_mem := hi.room_mem; have f_nonempty := hi.nonempty; have f_nodup := hi.nodup; have f_roomL_iff := hi.roomL_iff; have f_roomL_nodup := hi.roomL_nodup; have f_userL_iff := hi.userL_iff; have f_userL_nodup := hi.userL_nodup; have f_sessL_iff := hi.sessL_iff; have f_rs_fwd := hi.rs_fwd; have f_rs_room := hi.rs_room; have f_virt := hi.virt; have f_children := hi.children; have f_vtable := hi.vtable; have f_conn_iff := hi.conn_iff; have f_conn_open := hi.conn_open; have f_eh := hi.eh; have f_expired := hi.expired; have f_anon := hi.anon; have f_dialout := hi.dialout; have f_count := hi.count; have f_orph_virt := hi.orph_virt; have f_incall := hi.incall; have f_count_le := hi.count_le; clear hi; (intros; (try simp only [hubf] at *); grind [mem_removeL, nodup_removeL, removeL_nil, length_removeL_le]))
  case roomL_iff =>
    first
      | (have f_roomL_iff := hi.roomL_iff; have f_fresh := hi.fresh; have f_room_mem := hi.room_mem; have f_mem_room := hi.mem_room; clear hi; (intros; (try simp only [hubf] at *); grind [mem_removeL, nodup_removeL, removeL_nil, length_removeL_le]))
      | (have f_fresh := hi.fresh; have f_mem_room := hi.mem_room; have f_room_mem := hi.room_mem; have f_nonempty := hi.nonempty; have f_nodup := hi.nodup; have f_roomL_iff := hi.roomL_iff; have f_roomL_nodup := hi.roomL_nodup; have f_userL_iff := hi.userL_iff; have f_userL_nodup := hi.userL_nodup; have f_sessL_iff := hi.sessL_iff; have f_rs_fwd := hi.rs_fwd; have f_rs_room := hi.rs_room; have f_virt := hi.virt; have f_children := hi.children; have f_vtable := hi.vtable; have f_conn_iff := hi.conn_iff; have f_conn_open := hi.conn_open; have f_eh := hi.eh; have f_expired := hi.expired; have f_anon := hi.anon; have f_dialout := hi.dialout; have f_count := hi.count; have f_orph_virt := hi.orph_virt; have f_incall := hi.incall; have f_count_le := hi.count_le; clear hi; (intros; (try simp only [hubf] at *); grind [mem_removeL, nodup_removeL, removeL_nil, length_removeL_le]))
  case roomL_nodup =>
    first
      | (have f_roomL_nodup := hi.roomL_nodup; have f_roomL_iff := hi.roomL_iff; clear hi; (intros; (try simp only [hubf] at *); grind [mem_removeL, nodup_removeL, removeL_nil, length_removeL_le]))
      | (have f_fresh := hi.fresh; have f_mem_room := hi.mem_room; have f_room_mem := hi.room_mem; have f_nonempty := hi.nonempty; have f_nodup := hi.nodup; have f_roomL_iff := hi.roomL_iff; have f_roomL_nodup := hi.roomL_nodup; have f_userL_iff := hi.userL_iff; have f_userL_nodup := hi.userL_nodup; have f_sessL_iff := hi.sessL_iff; have f_rs_fwd := hi.rs_fwd; have f_rs_room := hi.rs_room; have f_virt := hi.virt; have f_children := hi.children; have f_vtable := hi.vtable; have f_conn_iff := hi.conn_iff; have f_conn_open := hi.conn_open; have f_eh := hi.eh; have f_expired := hi.expired; have f_anon := hi.anon; have f_dialout := hi.dialout; have f_count := hi.count; have f_orph_virt := hi.orph_virt; have f_incall := hi.incall; have f_count_le := hi.count_le; clear hi; (intros; (try simp only [hubf] at *); grind [mem_removeL, nodup_removeL, removeL_nil, length_removeL_le]))
  case userL_iff =>
    first
      | (have f_userL_iff := hi.userL_iff; have f_fresh := hi.fresh; clear hi; (intros; (try simp only [hubf] at *); grind [mem_removeL, nodup_removeL, removeL_nil, length_removeL_le]))
      | (have f_fresh := hi.fresh; have f_mem_room := hi.mem_room; have f_room_mem := hi.room_mem; have f_nonempty := hi.nonempty; have f_nodup := hi.nodup; have f_roomL_iff := hi.roomL_iff; have f_roomL_nodup := hi.roomL_nodup; have f_userL_iff := hi.userL_iff; have f_userL_nodup := hi.userL_nodup; have f_sessL_iff := hi.sessL_iff; have f_rs_fwd := hi.rs_fwd; have f_rs_room := hi.rs_room; have f_virt := hi.virt; have f_children := hi.children; have f_vtable := hi.vtable; have f_conn_iff := hi.conn_iff; have f_conn_open := hi.conn_open; have f_eh := hi.eh; have f_expired := hi.expired; have f_anon := hi.anon; have f_dialout := hi.dialout; have f_count := hi.count; have f_orph_virt := hi.orph_virt; have f_incall := hi.incall; have f_count_le := hi.count_le; clear hi; (intros; (try simp only [hubf] at *); grind [mem_removeL, nodup_removeL, removeL_nil, length_removeL_le]))
  case userL_nodup =>
    first
      | (have f_userL_nodup := hi.userL_nodup; have f_userL_iff := hi.userL_iff; clear hi; (intros; (try simp only [hubf] at *); grind [mem_removeL, nodup_removeL, removeL_nil, length_removeL_le]))
      | (have f_fresh := hi.fresh; have f_mem_room := hi.mem_room; have f_room_mem := hi.room_mem; have f_nonempty := hi.nonempty; have f_nodup := hi.nodup; have f_roomL_iff := hi.roomL_iff; have f_roomL_nodup := hi.roomL_nodup; have f_userL_iff := hi.userL_iff; have f_userL_nodup := hi.userL_nodup; have f_sessL_iff := hi.sessL_iff; have f_rs_fwd := hi.rs_fwd; have f_rs_room := hi.rs_room; have f_virt := hi.virt; have f_children := hi.children; have f_vtable := hi.vtable; have f_conn_iff := hi.conn_iff; have f_conn_open := hi.conn_open; have f_eh := hi.eh; have f_expired := hi.expired; have f_anon := hi.anon; have f_dialout := hi.dialout; have f_count := hi.count; have f_orph_virt := hi.orph_virt; have f_incall := hi.incall; have f_count_le := hi.count_le; clear hi; (intros; (try simp only [hubf] at *); grind [mem_removeL, nodup_removeL, removeL_nil, length_removeL_le]))
  case sessL_iff =>
    first
      | (have f_sessL_iff := hi.sessL_iff; have f_fresh := hi.fresh; clear hi; (intros; (try simp only [hubf] at *); grind [mem_removeL, nodup_removeL, removeL_nil, length_removeL_le]))
      | (have f_fresh := hi.fresh; have f_mem_room := hi.mem_room; have f_room_mem := hi.room_mem; have f_nonempty := hi.nonempty; have f_nodup := hi.nodup; have f_roomL_iff := hi.roomL_iff; have f_roomL_nodup := hi.roomL_nodup; have f_userL_iff := hi.userL_iff; have f_userL_nodup := hi.userL_nodup; have f_sessL_iff := hi.sessL_iff; have f_rs_fwd := hi.rs_fwd; have f_rs_room := hi.rs_room; have f_virt := hi.virt; have f_children := hi.children; have f_vtable := hi.vtable; have f_conn_iff := hi.conn_iff; have f_conn_open := hi.conn_open; have f_eh := hi.eh; have f_expired := hi.expired; have f_anon := hi.anon; have f_dialout := hi.dialout; have f_count := hi.count; have f_orph_virt := hi.orph_virt; have f_incall := hi.incall; have f_count_le := hi.count_le; clear hi; (intros; (try simp only [hubf] at *); grind [mem_removeL, nodup_removeL, removeL_nil, length_removeL_le]))
  case rs_fwd =>
    first
      | (have f_rs_fwd := hi.rs_fwd; have f_rs_room := hi.rs_room; have f_fresh := hi.fresh; clear hi; (intros; (try simp only [hubf] at *); grind [mem_removeL, nodup_removeL, removeL_nil, length_removeL_le]))
      | (have f_fresh := hi.fresh; have f_mem_room := hi.mem_room; have f_room_mem := hi.room_mem; have f_nonempty := hi.nonempty; have f_nodup := hi.nodup; have f_roomL_iff := hi.roomL_iff; have f_roomL_nodup := hi.roomL_nodup; have f_userL_iff := hi.userL_iff; have f_userL_nodup := hi.userL_nodup; have f_sessL_iff := hi.sessL_iff; have f_rs_fwd := hi.rs_fwd; have f_rs_room := hi.rs_room; have f_virt := hi.virt; have f_children := hi.children; have f_vtable := hi.vtable; have f_conn_iff := hi.conn_iff; have f_conn_open := hi.conn_open; have f_eh := hi.eh; have f_expired := hi.expired; have f_anon := hi.anon; have f_dialout := hi.dialout; have f_count := hi.count; have f_orph_virt := hi.orph_virt; have f_incall := hi.incall; have f_count_le := hi.count_le; clear hi; (intros; (try simp only [hubf] at *); grind [mem_removeL, nodup_removeL, removeL_nil, length_removeL_le]))
  case rs_room =>
    first
      | (have f_rs_room := hi.rs_room; have f_rs_fwd := hi.rs_fwd; have f_fresh := hi.fresh; have f_room_mem := hi.room_mem; clear hi; (intros; (try simp only [hubf] at *); grind [mem_removeL, nodup_removeL, removeL_nil, length_removeL_le]))
      | (have f_fresh := hi.fresh; have f_mem_room := hi.mem_room; have f_room_mem := hi.room_mem; have f_nonempty := hi.nonempty; have f_nodup := hi.nodup; have f_roomL_iff := hi.roomL_iff; have f_roomL_nodup := hi.roomL_nodup; have f_userL_iff := hi.userL_iff; have f_userL_nodup := hi.userL_nodup; have f_sessL_iff := hi.sessL_iff; have f_rs_fwd := hi.rs_fwd; have f_rs_room := hi.rs_room; have f_virt := hi.virt; have f_children := hi.children; have f_vtable := hi.vtable; have f_conn_iff := hi.conn_iff; have f_conn_open := hi.conn_open; have f_eh := hi.eh; have f_expired := hi.expired; have f_anon := hi.anon; have f_dialout := hi.dialout; have f_count := hi.count; have f_orph_virt := hi.orph_virt; have f_incall := hi.incall; have f_count_le := hi.count_le; clear hi; (intros; (try simp only [hubf] at *); grind [mem_removeL, nodup_removeL, removeL_nil, length_removeL_le]))
  case virt =>
    first
      | (have f_virt := hi.virt; have f_children := hi.children; have f_fresh := hi.fresh; clear hi; (intros; (try simp only [hubf] at *); grind [mem_removeL, nodup_removeL, removeL_nil, length_removeL_le]))
      | (have f_fresh := hi.fresh; have f_mem_room := hi.mem_room; have f_room_mem := hi.room_mem; have f_nonempty := hi.nonempty; have f_nodup := hi.nodup; have f_roomL_iff := hi.roomL_iff; have f_roomL_nodup := hi.roomL_nodup; have f_userL_iff := hi.userL_iff; have f_userL_nodup := hi.userL_nodup; have f_sessL_iff := hi.sessL_iff; have f_rs_fwd := hi.rs_fwd; have f_rs_room := hi.rs_room; have f_virt := hi.virt; have f_children := hi.children; have f_vtable := hi.vtable; have f_conn_iff := hi.conn_iff; have f_conn_open := hi.conn_open; have f_eh := hi.eh; have f_expired := hi.expired; have f_anon := hi.anon; have f_dialout := hi.dialout; have f_count := hi.count; have f_orph_virt := hi.orph_virt; have f_incall := hi.incall; have f_count_le := hi.count_le; clear hi; (intros; (try simp only [hubf] at *); grind [mem_removeL, nodup_removeL, removeL_nil, length_removeL_le]))
  case children =>
    first
      | (have f_children := hi.children; have f_virt := hi.virt; have f_fresh := hi.fresh; clear hi; (intros; (try simp only [hubf] at *); grind [mem_removeL, nodup_removeL, removeL_nil, length_removeL_le]))
      | (have f_fresh := hi.fresh; have f_mem_room := hi.mem_room; have f_room_mem := hi.room_mem; have f_nonempty := hi.nonempty; have f_nodup := hi.nodup; have f_roomL_iff := hi.roomL_iff; have f_roomL_nodup := hi.roomL_nodup; have f_userL_iff := hi.userL_iff; have f_userL_nodup := hi.userL_nodup; have f_sessL_iff := hi.sessL_iff; have f_rs_fwd := hi.rs_fwd; have f_rs_room := hi.rs_room; have f_virt := hi.virt; have f_children := hi.children; have f_vtable := hi.vtable; have f_conn_iff := hi.conn_iff; have f_conn_open := hi.conn_open; have f_eh := hi.eh; have f_expired := hi.expired; have f_anon := hi.anon; have f_dialout := hi.dialout; have f_count := hi.count; have f_orph_virt := hi.orph_virt; have f_incall := hi.incall; have f_count_le := hi.count_le; clear hi; (intros; (try simp only [hubf] at *); grind [mem_removeL, nodup_removeL, removeL_nil, length_removeL_le]))
  case vtable =>
    first
      | (have f_vtable := hi.vtable; have f_virt := hi.virt; have f_fresh := hi.fresh; clear hi; (intros; (try simp only [hubf] at *); grind [mem_removeL, nodup_removeL, removeL_nil, length_removeL_le]))
      | (have f_fresh := hi.fresh; have f_mem_room := hi.mem_room; have f_room_mem := hi.room_mem; have f_nonempty := hi.nonempty; have f_nodup := hi.nodup; have f_roomL_iff := hi.roomL_iff; have f_roomL_nodup := hi.roomL_nodup; have f_userL_iff := hi.userL_iff; have f_userL_nodup := hi.userL_nodup; have f_sessL_iff := hi.sessL_iff; have f_rs_fwd := hi.rs_fwd; have f_rs_room := hi.rs_room; have f_virt := hi.virt; have f_children := hi.children; have f_vtable := hi.vtable; have f_conn_iff := hi.conn_iff; have f_conn_open := hi.conn_open; have f_eh := hi.eh; have f_expired := hi.expired; have f_anon := hi.anon; have f_dialout := hi.dialout; have f_count := hi.count; have f_orph_virt := hi.orph_virt; have f_incall := hi.incall; have f_count_le := hi.count_le; clear hi; (intros; (try simp only [hubf] at *); grind [mem_removeL, nodup_removeL, removeL_nil, length_removeL_le]))
  case conn_iff =>
    first
      | (have f_conn_iff := hi.conn_iff; have f_fresh := hi.fresh; have f_virt := hi.virt; clear hi; (intros; (try simp only [hubf] at *); grind [mem_removeL, nodup_removeL, removeL_nil, length_removeL_le]))
      | (have f_fresh := hi.fresh; have f_mem_room := hi.mem_room; have f_room_mem := hi.room_mem; have f_nonempty := hi.nonempty; have f_nodup := hi.nodup; have f_roomL_iff := hi.roomL_iff; have f_roomL_nodup := hi.roomL_nodup; have f_userL_iff := hi.userL_iff; have f_userL_nodup := hi.userL_nodup; have f_sessL_iff := hi.sessL_iff; have f_rs_fwd := hi.rs_fwd; have f_rs_room := hi.rs_room; have f_virt := hi.virt; have f_children := hi.children; have f_vtable := hi.vtable; have f_conn_iff := hi.conn_iff; have f_conn_open := hi.conn_open; have f_eh := hi.eh; have f_expired := hi.expired; have f_anon := hi.anon; have f_dialout := hi.dialout; have f_count := hi.count; have f_orph_virt := hi.orph_virt; have f_incall := hi.incall; have f_count_le := hi.count_le; clear hi; (intros; (try simp only [hubf] at *); grind [mem_removeL, nodup_removeL, removeL_nil, length_removeL_le]))
  case conn_open =>
    first
      | (have f_conn_open := hi.conn_open; have f_conn_iff := hi.conn_iff; clear hi; (intros; (try simp only [hubf] at *); grind [mem_removeL, nodup_removeL, removeL_nil, length_removeL_le]))
      | (have f_fresh := hi.fresh; have f_mem_room := hi.mem_room; have f_room_mem := hi.room_mem; have f_nonempty := hi.nonempty; have f_nodup := hi.nodup; have f_roomL_iff := hi.roomL_iff; have f_roomL_nodup := hi.roomL_nodup; have f_userL_iff := hi.userL_iff; have f_userL_nodup := hi.userL_nodup; have f_sessL_iff := hi.sessL_iff; have f_rs_fwd := hi.rs_fwd; have f_rs_room := hi.rs_room; have f_virt := hi.virt; have f_children := hi.children; have f_vtable := hi.vtable; have f_conn_iff := hi.conn_iff; have f_conn_open := hi.conn_open; have f_eh := hi.eh; have f_expired := hi.expired; have f_anon := hi.anon; have f_dialout := hi.dialout; have f_count := hi.count; have f_orph_virt := hi.orph_virt; have f_incall := hi.incall; have f_count_le := hi.count_le; clear hi; (intros; (try simp only [hubf] at *); grind [mem_removeL, nodup_removeL, removeL_nil, length_removeL_le]))
  case eh =>
    first
      | (have f_eh := hi.eh; have f_conn_iff := hi.conn_iff; have f_conn_open := hi.conn_open; clear hi; (intros; (try simp only [hubf] at *); grind [mem_removeL, nodup_removeL, removeL_nil, length_removeL_le]))
      | (have f_fresh := hi.fresh; have f_mem_room := hi.mem_room; have f_room_mem := hi.room_mem; have f_nonempty := hi.nonempty; have f_nodup := hi.nodup; have f_roomL_iff := hi.roomL_iff; have f_roomL_nodup := hi.roomL_nodup; have f_userL_iff := hi.userL_iff; have f_userL_nodup := hi.userL_nodup; have f_sessL_iff := hi.sessL_iff; have f_rs_fwd := hi.rs_fwd; have f_rs_room := hi.rs_room; have f_virt := hi.virt; have f_children := hi.children; have f_vtable := hi.vtable; have f_conn_iff := hi.conn_iff; have f_conn_open := hi.conn_open; have f_eh := hi.eh; have f_expired := hi.expired; have f_anon := hi.anon; have f_dialout := hi.dialout; have f_count := hi.count; have f_orph_virt := hi.orph_virt; have f_incall := hi.incall; have f_count_le := hi.count_le; clear hi; (intros; (try simp only [hubf] at *); grind [mem_removeL, nodup_removeL, removeL_nil, length_removeL_le]))
  case expired =>
    first
      | (have f_expired := hi.expired; have f_fresh := hi.fresh; clear hi; (intros; (try simp only [hubf] at *); grind [mem_removeL, nodup_removeL, removeL_nil, length_removeL_le]))
      | (have f_fresh := hi.fresh; have f_mem_room := hi.mem_room; have f_room_mem := hi.room_mem; have f_nonempty := hi.nonempty; have f_nodup := hi.nodup; have f_roomL_iff := hi.roomL_iff; have f_roomL_nodup := hi.roomL_nodup; have f_userL_iff := hi.userL_iff; have f_userL_nodup := hi.userL_nodup; have f_sessL_iff := hi.sessL_iff; have f_rs_fwd := hi.rs_fwd; have f_rs_room := hi.rs_room; have f_virt := hi.virt; have f_children := hi.children; have f_vtable := hi.vtable; have f_conn_iff := hi.conn_iff; have f_conn_open := hi.conn_open; have f_eh := hi.eh; have f_expired := hi.expired; have f_anon := hi.anon; have f_dialout := hi.dialout; have f_count := hi.count; have f_orph_virt := hi.orph_virt; have f_incall := hi.incall; have f_count_le := hi.count_le; clear hi; (intros; (try simp only [hubf] at *); grind [mem_removeL, nodup_removeL, removeL_nil, length_removeL_le]))
  case anon =>
    first
      | (have f_anon := hi.anon; have f_fresh := hi.fresh; clear hi; (intros; (try simp only [hubf] at *); grind [mem_removeL, nodup_removeL, removeL_nil, length_removeL_le]))
      | (have f_fresh := hi.fresh; have f_mem_room := hi.mem_room; have f_room_mem := hi.room_mem; have f_nonempty := hi.nonempty; have f_nodup := hi.nodup; have f_roomL_iff := hi.roomL_iff; have f_roomL_nodup := hi.roomL_nodup; have f_userL_iff := hi.userL_iff; have f_userL_nodup := hi.userL_nodup; have f_sessL_iff := hi.sessL_iff; have f_rs_fwd := hi.rs_fwd; have f_rs_room := hi.rs_room; have f_virt := hi.virt; have f_children := hi.children; have f_vtable := hi.vtable; have f_conn_iff := hi.conn_iff; have f_conn_open := hi.conn_open; have f_eh := hi.eh; have f_expired := hi.expired; have f_anon := hi.anon; have f_dialout := hi.dialout; have f_count := hi.count; have f_orph_virt := hi.orph_virt; have f_incall := hi.incall; have f_count_le := hi.count_le; clear hi; (intros; (try simp only [hubf] at *); grind [mem_removeL, nodup_removeL, removeL_nil, length_removeL_le]))
  case dialout =>
    first
      | (have f_dialout := hi.dialout; have f_fresh := hi.fresh; clear hi; (intros; (try simp only [hubf] at *); grind [mem_removeL, nodup_removeL, removeL_nil, length_removeL_le]))
      | (have f_fresh := hi.fresh; have f_mem_room := hi.mem_room; have f_room_mem := hi.room_mem; have f_nonempty := hi.nonempty; have f_nodup := hi.nodup; have f_roomL_iff := hi.roomL_iff; have f_roomL_nodup := hi.roomL_nodup; have f_userL_iff := hi.userL_iff; have f_userL_nodup := hi.userL_nodup; have f_sessL_iff := hi.sessL_iff; have f_rs_fwd := hi.rs_fwd; have f_rs_room := hi.rs_room; have f_virt := hi.virt; have f_children := hi.children; have f_vtable := hi.vtable; have f_conn_iff := hi.conn_iff; have f_conn_open := hi.conn_open; have f_eh := hi.eh; have f_expired := hi.expired; have f_anon := hi.anon; have f_dialout := hi.dialout; have f_count := hi.count; have f_orph_virt := hi.orph_virt; have f_incall := hi.incall; have f_count_le := hi.count_le; clear hi; (intros; (try simp only [hubf] at *); grind [mem_removeL, nodup_removeL, removeL_nil, length_removeL_le]))
  case count =>
    first
      | (have f_count := hi.count; have f_fresh := hi.fresh; clear hi; (intros; (try simp only [hubf] at *); grind [mem_removeL, nodup_removeL, removeL_nil, length_removeL_le]))
      | (have f_fresh := hi.fresh; have f_mem_room := hi.mem_room; have f_room_mem := hi.room_mem; have f_nonempty := hi.nonempty; have f_nodup := hi.nodup; have f_roomL_iff := hi.roomL_iff; have f_roomL_nodup := hi.roomL_nodup; have f_userL_iff := hi.userL_iff; have f_userL_nodup := hi.userL_nodup; have f_sessL_iff := hi.sessL_iff; have f_rs_fwd := hi.rs_fwd; have f_rs_room := hi.rs_room; have f_virt := hi.virt; have f_children := hi.children; have f_vtable := hi.vtable; have f_conn_iff := hi.conn_iff; have f_conn_open := hi.conn_open; have f_eh := hi.eh; have f_expired := hi.expired; have f_anon := hi.anon; have f_dialout := hi.dialout; have f_count := hi.count; have f_orph_virt := hi.orph_virt; have f_incall := hi.incall; have f_count_le := hi.count_le; clear hi; (intros; (try simp only [hubf] at *); grind [mem_removeL, nodup_removeL, removeL_nil, length_removeL_le]))
  case orph_virt =>
    first
      | (have f_orph_virt := hi.orph_virt; have f_fresh := hi.fresh; have f_children := hi.children; have f_virt := hi.virt; clear hi; (intros; (try simp only [hubf] at *); grind [mem_removeL, nodup_removeL, removeL_nil, length_removeL_le]))
      | (have f_fresh := hi.fresh; have f_mem_room := hi.mem_room; have f_room_mem := hi.room_mem; have f_nonempty := hi.nonempty; have f_nodup := hi.nodup; have f_roomL_iff := hi.roomL_iff; have f_roomL_nodup := hi.roomL_nodup; have f_userL_iff := hi.userL_iff; have f_userL_nodup := hi.userL_nodup; have f_sessL_iff := hi.sessL_iff; have f_rs_fwd := hi.rs_fwd; have f_rs_room := hi.rs_room; have f_virt := hi.virt; have f_children := hi.children; have f_vtable := hi.vtable; have f_conn_iff := hi.conn_iff; have f_conn_open := hi.conn_open; have f_eh := hi.eh; have f_expired := hi.expired; have f_anon := hi.anon; have f_dialout := hi.dialout; have f_count := hi.count; have f_orph_virt := hi.orph_virt; have f_incall := hi.incall; have f_count_le := hi.count_le; clear hi; (intros; (try simp only [hubf] at *); grind [mem_removeL, nodup_removeL, removeL_nil, length_removeL_le]))
  case incall =>
    first
      | (have f_incall := hi.incall; have f_mem_room := hi.mem_room; clear hi; (intros; (try simp only [hubf] at *); grind [mem_removeL, nodup_removeL, removeL_nil, length_removeL_le]))
      | (have f_fresh := hi.fresh; have f_mem_room := hi.mem_room; have f_room_mem := hi.room_mem; have f_nonempty := hi.nonempty; have f_nodup := hi.nodup; have f_roomL_iff := hi.roomL_iff; have f_roomL_nodup := hi.roomL_nodup; have f_userL_iff := hi.userL_iff; have f_userL_nodup := hi.userL_nodup; have f_sessL_iff := hi.sessL_iff; have f_rs_fwd := hi.rs_fwd; have f_rs_room := hi.rs_room; have f_virt := hi.virt; have f_children := hi.children; have f_vtable := hi.vtable; have f_conn_iff := hi.conn_iff; have f_conn_open := hi.conn_open; have f_eh := hi.eh; have f_expired := hi.expired; have f_anon := hi.anon; have f_dialout := hi.dialout; have f_count := hi.count; have f_orph_virt := hi.orph_virt; have f_incall := hi.incall; have f_count_le := hi.count_le; clear hi; (intros; (try simp only [hubf] at *); grind [mem_removeL, nodup_removeL, removeL_nil, length_removeL_le]))
  case count_le =>
    first
      | (have f_count_le := hi.count_le; clear hi; (intros; (try simp only [hubf] at *); grind [mem_removeL, nodup_removeL, removeL_nil, length_removeL_le]))
      | (have f_fresh := hi.fresh; have f_mem_room := hi.mem_room; have f_room_mem := hi.room_mem; have f_nonempty := hi.nonempty; have f_nodup := hi.nodup; have f_roomL_iff := hi.roomL_iff; have f_roomL_nodup := hi.roomL_nodup; have f_userL_iff := hi.userL_iff; have f_userL_nodup := hi.userL_nodup; have f_sessL_iff := hi.sessL_iff; have f_rs_fwd := hi.rs_fwd; have f_rs_room := hi.rs_room; have f_virt := hi.virt; have f_children := hi.children; have f_vtable := hi.vtable; have f_conn_iff := hi.conn_iff; have f_conn_open := hi.conn_open; have f_eh := hi.eh; have f_expired := hi.expired; have f_anon := hi.anon; have f_dialout := hi.dialout; have f_count := hi.count; have f_orph_virt := hi.orph_virt; have f_incall := hi.incall; have f_count_le := hi.count_le; clear hi; (intros; (try simp only [hubf] at *); grind [mem_removeL, nodup_removeL, removeL_nil, length_removeL_le]))

theorem processDisconnect_inv (a : Acc) (c : Nat) (hi : Inv a.h) : Inv (processDisconnect a c).h := by
  unfold processDisconnect
  by_cases hg : (!a.h.connOpen c) = true
  · simp only [hg, if_true]; exact hi
  · simp only [hg]
    cases hcs : a.h.connSess c with
    | none =>
      apply closeConn_inv hi
      intro s x hx hxc
      have := (hi.conn_iff c s).mpr ⟨x, hx, hxc⟩
      rw [hcs] at this; cases this
    | some s => exact disconnectTables_inv hi hcs

theorem processBye_inv (a : Acc) (c : Nat) (hi : Inv a.h) : Inv (processBye a c).h := by
  unfold processBye
  cases hcs : a.h.connSess c with
  | none => simp only []; split <;> exact hi
  | some s =>
    simp only []
    exact closeSession_inv _ s (processDisconnect_inv _ c hi)

/-! ### housekeeping -/

theorem foldl_inv {α : Type} (f : Acc → α → Acc) (hf : ∀ a x, Inv a.h → Inv (f a x).h) :
    ∀ (l : List α) (a : Acc), Inv a.h → Inv (l.foldl f a).h := by
  intro l
  induction l with
  | nil => intro a hi; exact hi
  | cons x l ih => intro a hi; exact ih _ (hf a x hi)

theorem timeoutAnon_inv (a : Acc) (s : Nat) (hi : Inv a.h) : Inv (timeoutAnon a s).h := by
  unfold timeoutAnon
  cases hx : a.h.sess s with
  | none => exact hi
  | some x =>
    simp only []
    cases hc : x.conn with
    | none => exact closeSession_inv a s hi
    | some c =>
      exact closeSessionConn_inv { a with outs := a.outs ++ [⟨c, Msg.bye "room_join_timeout", some x.backend⟩] } s hi hx hc

/-- Closing connections that have no session, one after the other. -/
theorem foldl_timeoutHello_inv : ∀ (l : List Nat) (a : Acc), Inv a.h → (∀ c, c ∈ l → a.h.connSess c = none) →
    Inv (l.foldl timeoutHello a).h := by
  intro l
  induction l with
  | nil => intro a hi _; exact hi
  | cons c l ih =>
    intro a hi hl
    simp only [List.foldl_cons]
    apply ih
    · unfold timeoutHello
      apply closeConn_inv hi
      intro s x hx hxc
      have := (hi.conn_iff c s).mpr ⟨x, hx, hxc⟩
      rw [hl c List.mem_cons_self] at this; cases this
    · intro c' hc'
      unfold timeoutHello
      simp only [hubf]
      split
      · rfl
      · exact hl c' (List.mem_cons_of_mem _ hc')

theorem housekeeping_inv (a : Acc) (level : Nat) (hi : Inv a.h) : Inv (housekeeping a level).h := by
  unfold housekeeping
  simp only []
  have h1 : Inv (if level ≥ 3 then a.h.expired.foldl closeSession a else a).h := by
    split
    · exact foldl_inv closeSession (fun a s hi => closeSession_inv a s hi) _ _ hi
    · exact hi
  generalize (if level ≥ 3 then a.h.expired.foldl closeSession a else a) = a1 at h1 ⊢
  have h2 : Inv (if level ≥ 2 then a1.h.anon.foldl timeoutAnon a1 else a1).h := by
    split
    · exact foldl_inv timeoutAnon (fun a s hi => timeoutAnon_inv a s hi) _ _ h1
    · exact h1
  generalize (if level ≥ 2 then a1.h.anon.foldl timeoutAnon a1 else a1) = a2 at h2 ⊢
  split
  · exact foldl_timeoutHello_inv _ _ h2 (fun c hc => h2.eh c hc)
  · exact h2

/-! ### messages: deliveries only -/

/-- Closes goals `CoreEq a.h (…).h` whose right-hand side is a case tree over deliveries. -/
macro "core_auto" : tactic =>
  `(tactic| ((repeat' split) <;> first
      | exact CoreEq.refl _
      | exact sendTo_core _ _ _
      | exact pubUser_core _ _ _ _
      | exact pubRoom_core _ _ _ _
      | exact procSession_core _ _ _
      | exact procClient_core _ _ _))

theorem processMessage_core (a : Acc) (s : Nat) (ctl : Bool) (rc : Rcpt) (data : String) :
    CoreEq a.h (processMessage a s ctl rc data).h := by
  unfold processMessage
  core_auto

/-! ### virtual sessions -/

set_option maxHeartbeats 4000000 in
theorem virtual_inv {h : Hub} (hi : Inv h) {s : Nat} {x : Sess} (hx : h.sess s = some x) (hk : x.kind = .internal)
    (r vkey user : String) (ic : Option Nat) :
    Inv (addMember (virtualTables h s x r vkey user ic) x.backend r h.nextSid "") := by
  have hnew : h.sess h.nextSid = none := hi.fresh _ (Nat.le_refl _)
  have hsne : s ≠ h.nextSid := by intro e; rw [e, hnew] at hx; cases hx
  have hrs := pub_ne_empty h.nextSid
  have nm := newRoom_members (virtualTables h s x r vkey user ic) x.backend r h.nextSid ""
  have nnd := newRoom_nodup (virtualTables h s x r vkey user ic) x.backend r h.nextSid ""
  have nic := newRoom_inCall (virtualTables h s x r vkey user ic) x.backend r h.nextSid ""
  generalize hnr : newRoom (virtualTables h s x r vkey user ic) x.backend r h.nextSid "" = nr at nm nnd nic
  have hvr : (virtualTables h s x r vkey user ic).rooms = h.rooms := by
    unfold virtualTables; simp only [hubf]
  rw [hvr] at nm nnd nic
  have nnd' := nnd (fun rm hrm => hi.nodup _ _ rm hrm)
  unfold addMember
  rw [hnr]
  clear hnr nnd
  unfold virtualTables
  simp only []
  have p1 : (virtSess s x r vkey user ic).conn = none := rfl
  have p2 : (virtSess s x r vkey user ic).backend = x.backend := rfl
  have p3 : (virtSess s x r vkey user ic).kind = .virtual := rfl
  have p4 : (virtSess s x r vkey user ic).room = some r := rfl
  have p5 : (virtSess s x r vkey user ic).children = [] := rfl
  have p6 : (virtSess s x r vkey user ic).parent = s := rfl
  have p7 : (virtSess s x r vkey user ic).vkey = vkey := rfl
  generalize virtSess s x r vkey user ic = V at *
  generalize pubRs h.nextSid = pub at *
  constructor
  case fresh =>
    first
      | (have f_fresh := hi.fresh; clear hi; (intros; (try simp only [hubf, rsSet_sid2rs _ _ _ hrs, rsSet_rs2sid _ _ _ hrs] at *); grind [mem_removeL, nodup_removeL, removeL_nil, length_removeL_le]))
      | (have f_fresh := hi.fresh; have f_mem_room := hi.mem_room; have f_room_mem := hi.room_mem; have f_nonempty := hi.nonempty; have f_nodup := hi.nodup; have f_roomL_iff := hi.roomL_iff; have f_roomL_nodup := hi.roomL_nodup; have f_userL_iff := hi.userL_iff; have f_userL_nodup := hi.userL_nodup; have f_sessL_iff := hi.sessL_iff; have f_rs_fwd := hi.rs_fwd; have f_rs_room := hi.rs_room; have f_virt := hi.virt; have f_children := hi.children; have f_vtable := hi.vtable; have f_conn_iff := hi.conn_iff; have f_conn_open := hi.conn_open; have f_eh := hi.eh; have f_expired := hi.expired; have f_anon := hi.anon; have f_dialout := hi.dialout; have f_count := hi.count; have f_orph_virt := hi.orph_virt; have f_incall := hi.incall; have f_count_le := hi.count_le; clear hi; (intros; (try simp only [hubf, rsSet_sid2rs _ _ _ hrs, rsSet_rs2sid _ _ _ hrs] at *); grind [mem_removeL, nodup_removeL, removeL_nil, length_removeL_le]))
  case mem_room =>
    first
      | (have f_mem_room := hi.mem_room; have f_fresh := hi.fresh; clear hi; (intros; (try simp only [hubf, rsSet_sid2rs _ _ _ hrs, rsSet_rs2sid _ _ _ hrs] at *); grind [mem_removeL, nodup_removeL, removeL_nil, length_removeL_le]))
      | (have f_fresh := hi.fresh; have f_mem_room := hi.mem_room; have f_room_mem := hi.room_mem; have f_nonempty := hi.nonempty; have f_nodup := hi.nodup; have f_roomL_iff := hi.roomL_iff; have f_roomL_nodup := hi.roomL_nodup; have f_userL_iff := hi.userL_iff; have f_userL_nodup := hi.userL_nodup; have f_sessL_iff := hi.sessL_iff; have f_rs_fwd := hi.rs_fwd; have f_rs_room := hi.rs_room; have f_virt := hi.virt; have f_children := hi.children; have f_vtable := hi.vtable; have f_conn_iff := hi.conn_iff; have f_conn_open := hi.conn_open; have f_eh := hi.eh; have f_expired := hi.expired; have f_anon := hi.anon; have f_dialout := hi.dialout; have f_count := hi.count; have f_orph_virt := hi.orph_virt; have f_incall := hi.incall; have f_count_le := hi.count_le; clear hi; (intros; (try simp only [hubf, rsSet_sid2rs _ _ _ hrs, rsSet_rs2sid _ _ _ hrs] at *); grind [mem_removeL, nodup_removeL, removeL_nil, length_removeL_le]))
  case room_mem =>
    first
      | (have f_room_mem := hi.room_mem; have f_mem_room := hi.mem_room; have f_fresh := hi.fresh; clear hi; (intros; (try simp only [hubf, rsSet_sid2rs _ _ _ hrs, rsSet_rs2sid _ _ _ hrs] at *); grind [mem_removeL, nodup_removeL, removeL_nil, length_removeL_le]))
      | (have f_fresh := hi.fresh; have f_mem_room := hi.mem_room; have f_room_mem := hi.room_mem; have f_nonempty := hi.nonempty; have f_nodup := hi.nodup; have f_roomL_iff := hi.roomL_iff; have f_roomL_nodup := hi.roomL_nodup; have f_userL_iff := hi.userL_iff; have f_userL_nodup := hi.userL_nodup; have f_sessL_iff := hi.sessL_iff; have f_rs_fwd := hi.rs_fwd; have f_rs_room := hi.rs_room; have f_virt := hi.virt; have f_children := hi.children; have f_vtable := hi.vtable; have f_conn_iff := hi.conn_iff; have f_conn_open := hi.conn_open; have f_eh := hi.eh; have f_expired := hi.expired; have f_anon := hi.anon; have f_dialout := hi.dialout; have f_count := hi.count; have f_orph_virt := hi.orph_virt; have f_incall := hi.incall; have f_count_le := hi.count_le; clear hi; (intros; (try simp only [hubf, rsSet_sid2rs _ _ _ hrs, rsSet_rs2sid _ _ _ hrs] at *); grind [mem_removeL, nodup_removeL, removeL_nil, length_removeL_le]))
  case nonempty =>
    first
      | (have f_nonempty := hi.nonempty; have f_mem_room := hi.mem_room; clear hi; (intros; (try simp only [hubf, rsSet_sid2rs _ _ _ hrs, rsSet_rs2sid _ _ _ hrs] at *); grind [mem_removeL, nodup_removeL, removeL_nil, length_removeL_le]))
      | (have f_fresh := hi.fresh; have f_mem_room := hi.mem_room; have f_room_mem := hi.room_mem; have f_nonempty := hi.nonempty; have f_nodup := hi.nodup; have f_roomL_iff := hi.roomL_iff; have f_roomL_nodup := hi.roomL_nodup; have f_userL_iff := hi.userL_iff; have f_userL_nodup := hi.userL_nodup; have f_sessL_iff := hi.sessL_iff; have f_rs_fwd := hi.rs_fwd; have f_rs_room := hi.rs_room; have f_virt := hi.virt; have f_children := hi.children; have f_vtable := hi.vtable; have f_conn_iff := hi.conn_iff; have f_conn_open := hi.conn_open; have f_eh := hi.eh; have f_expired := hi.expired; have f_anon := hi.anon; have f_dialout := hi.dialout; have f_count := hi.count; have f_orph_virt := hi.orph_virt; have f_incall := hi.incall; have f_count_le := hi.count_le; clear hi; (intros; (try simp only [hubf, rsSet_sid2rs _ _ _ hrs, rsSet_rs2sid _ _ _ hrs] at *); grind [mem_removeL, nodup_removeL, removeL_nil, length_removeL_le]))
  case nodup =>
    first
      | (have f_nodup := hi.nodup; clear hi; (intros; (try simp only [hubf, rsSet_sid2rs _ _ _ hrs, rsSet_rs2sid _ _ _ hrs] at *); grind [mem_removeL, nodup_removeL, removeL_nil, length_removeL_le]))
      | (have f_fresh := hi.fresh; have f_mem_room := hi.mem_room; have f_room_mem := hi.room_mem; have f_nonempty := hi.nonempty; have f_nodup := hi.nodup; have f_roomL_iff := hi.roomL_iff; have f_roomL_nodup := hi.roomL_nodup; have f_userL_iff := hi.userL_iff; have f_userL_nodup := hi.userL_nodup; have f_sessL_iff := hi.sessL_iff; have f_rs_fwd := hi.rs_fwd; have f_rs_room := hi.rs_room; have f_virt := hi.virt; have f_children := hi.children; have f_vtable := hi.vtable; have f_conn_iff := hi.conn_iff; have f_conn_open := hi.conn_open; have f_eh := hi.eh; have f_expired := hi.expired; have f_anon := hi.anon; have f_dialout := hi.dialout; have f_count := hi.count; have f_orph_virt := hi.orph_virt; have f_incall := hi.incall; have f_count_le := hi.count_le; clear hi; (intros; (try simp only [hubf, rsSet_sid2rs _ _ _ hrs, rsSet_rs2sid _ _ _ hrs] at *); grind [mem_removeL, nodup_removeL, removeL_nil, length_removeL_le]))
  case roomL_iff =>
    first
      | (have f_roomL_iff := hi.roomL_iff; have f_fresh := hi.fresh; have f_room_mem := hi.room_mem; have f_mem_room := hi.mem_room; clear hi; (intros; (try simp only [hubf, rsSet_sid2rs _ _ _ hrs, rsSet_rs2sid _ _ _ hrs] at *); grind [mem_removeL, nodup_removeL, removeL_nil, length_removeL_le]))
      | (have f_fresh := hi.fresh; have f_mem_room := hi.mem_room; have f_room_mem := hi.room_mem; have f_nonempty := hi.nonempty; have f_nodup := hi.nodup; have f_roomL_iff := hi.roomL_iff; have f_roomL_nodup := hi.roomL_nodup; have f_userL_iff := hi.userL_iff; have f_userL_nodup := hi.userL_nodup; have f_sessL_iff := hi.sessL_iff; have f_rs_fwd := hi.rs_fwd; have f_rs_room := hi.rs_room; have f_virt := hi.virt; have f_children := hi.children; have f_vtable := hi.vtable; have f_conn_iff := hi.conn_iff; have f_conn_open := hi.conn_open; have f_eh := hi.eh; have f_expired := hi.expired; have f_anon := hi.anon; have f_dialout := hi.dialout; have f_count := hi.count; have f_orph_virt := hi.orph_virt; have f_incall := hi.incall; have f_count_le := hi.count_le; clear hi; (intros; (try simp only [hubf, rsSet_sid2rs _ _ _ hrs, rsSet_rs2sid _ _ _ hrs] at *); grind [mem_removeL, nodup_removeL, removeL_nil, length_removeL_le]))
  case roomL_nodup =>
    first
      | (have f_roomL_nodup := hi.roomL_nodup; have f_roomL_iff := hi.roomL_iff; clear hi; (intros; (try simp only [hubf, rsSet_sid2rs _ _ _ hrs, rsSet_rs2sid _ _ _ hrs] at *); grind [mem_removeL, nodup_removeL, removeL_nil, length_removeL_le]))
      | (have f_fresh := hi.fresh; have f_mem_room := hi.mem_room; have f_room_mem := hi.room_mem; have f_nonempty := hi.nonempty; have f_nodup := hi.nodup; have f_roomL_iff := hi.roomL_iff; have f_roomL_nodup := hi.roomL_nodup; have f_userL_iff := hi.userL_iff; have f_userL_nodup := hi.userL_nodup; have f_sessL_iff := hi.sessL_iff; have f_rs_fwd := hi.rs_fwd; have f_rs_room := hi.rs_room; have f_virt := hi.virt; have f_children := hi.children; have f_vtable := hi.vtable; have f_conn_iff := hi.conn_iff; have f_conn_open := hi.conn_open; have f_eh := hi.eh; have f_expired := hi.expired; have f_anon := hi.anon; have f_dialout := hi.dialout; have f_count := hi.count; have f_orph_virt := hi.orph_virt; have f_incall := hi.incall; have f_count_le := hi.count_le; clear hi; (intros; (try simp only [hubf, rsSet_sid2rs _ _ _ hrs, rsSet_rs2sid _ _ _ hrs] at *); grind [mem_removeL, nodup_removeL, removeL_nil, length_removeL_le]))
  case userL_iff =>
    first
      | (have f_userL_iff := hi.userL_iff; have f_fresh := hi.fresh; clear hi; (intros; (try simp only [hubf, rsSet_sid2rs _ _ _ hrs, rsSet_rs2sid _ _ _ hrs] at *); grind [mem_removeL, nodup_removeL, removeL_nil, length_removeL_le]))
      | (have f_fresh := hi.fresh; have f_mem_room := hi.mem_room; have f_room_mem := hi.room_mem; have f_nonempty := hi.nonempty; have f_nodup := hi.nodup; have f_roomL_iff := hi.roomL_iff; have f_roomL_nodup := hi.roomL_nodup; have f_userL_iff := hi.userL_iff; have f_userL_nodup := hi.userL_nodup; have f_sessL_iff := hi.sessL_iff; have f_rs_fwd := hi.rs_fwd; have f_rs_room := hi.rs_room; have f_virt := hi.virt; have f_children := hi.children; have f_vtable := hi.vtable; have f_conn_iff := hi.conn_iff; have f_conn_open := hi.conn_open; have f_eh := hi.eh; have f_expired := hi.expired; have f_anon := hi.anon; have f_dialout := hi.dialout; have f_count := hi.count; have f_orph_virt := hi.orph_virt; have f_incall := hi.incall; have f_count_le := hi.count_le; clear hi; (intros; (try simp only [hubf, rsSet_sid2rs _ _ _ hrs, rsSet_rs2sid _ _ _ hrs] at *); grind [mem_removeL, nodup_removeL, removeL_nil, length_removeL_le]))
  case userL_nodup =>
    first
      | (have f_userL_nodup := hi.userL_nodup; have f_userL_iff := hi.userL_iff; clear hi; (intros; (try simp only [hubf, rsSet_sid2rs _ _ _ hrs, rsSet_rs2sid _ _ _ hrs] at *); grind [mem_removeL, nodup_removeL, removeL_nil, length_removeL_le]))
      | (have f_fresh := hi.fresh; have f_mem_room := hi.mem_room; have f_room_mem := hi.room_mem; have f_nonempty := hi.nonempty; have f_nodup := hi.nodup; have f_roomL_iff := hi.roomL_iff; have f_roomL_nodup := hi.roomL_nodup; have f_userL_iff := hi.userL_iff; have f_userL_nodup := hi.userL_nodup; have f_sessL_iff := hi.sessL_iff; have f_rs_fwd := hi.rs_fwd; have f_rs_room := hi.rs_room; have f_virt := hi.virt; have f_children := hi.children; have f_vtable := hi.vtable; have f_conn_iff := hi.conn_iff; have f_conn_open := hi.conn_open; have f_eh := hi.eh; have f_expired := hi.expired; have f_anon := hi.anon; have f_dialout := hi.dialout; have f_count := hi.count; have f_orph_virt := hi.orph_virt; have f_incall := hi.incall; have f_count_le := hi.count_le; clear hi; (intros; (try simp only [hubf, rsSet_sid2rs _ _ _ hrs, rsSet_rs2sid _ _ _ hrs] at *); grind [mem_removeL, nodup_removeL, removeL_nil, length_removeL_le]))
  case sessL_iff =>
    first
      | (have f_sessL_iff := hi.sessL_iff; have f_fresh := hi.fresh; clear hi; (intros; (try simp only [hubf, rsSet_sid2rs _ _ _ hrs, rsSet_rs2sid _ _ _ hrs] at *); grind [mem_removeL, nodup_removeL, removeL_nil, length_removeL_le]))
      | (have f_fresh := hi.fresh; have f_mem_room := hi.mem_room; have f_room_mem := hi.room_mem; have f_nonempty := hi.nonempty; have f_nodup := hi.nodup; have f_roomL_iff := hi.roomL_iff; have f_roomL_nodup := hi.roomL_nodup; have f_userL_iff := hi.userL_iff; have f_userL_nodup := hi.userL_nodup; have f_sessL_iff := hi.sessL_iff; have f_rs_fwd := hi.rs_fwd; have f_rs_room := hi.rs_room; have f_virt := hi.virt; have f_children := hi.children; have f_vtable := hi.vtable; have f_conn_iff := hi.conn_iff; have f_conn_open := hi.conn_open; have f_eh := hi.eh; have f_expired := hi.expired; have f_anon := hi.anon; have f_dialout := hi.dialout; have f_count := hi.count; have f_orph_virt := hi.orph_virt; have f_incall := hi.incall; have f_count_le := hi.count_le; clear hi; (intros; (try simp only [hubf, rsSet_sid2rs _ _ _ hrs, rsSet_rs2sid _ _ _ hrs] at *); grind [mem_removeL, nodup_removeL, removeL_nil, length_removeL_le]))
  case rs_fwd =>
    first
      | (have f_rs_fwd := hi.rs_fwd; have f_rs_room := hi.rs_room; have f_fresh := hi.fresh; clear hi; (intros; (try simp only [hubf, rsSet_sid2rs _ _ _ hrs, rsSet_rs2sid _ _ _ hrs] at *); grind [mem_removeL, nodup_removeL, removeL_nil, length_removeL_le]))
      | (have f_fresh := hi.fresh; have f_mem_room := hi.mem_room; have f_room_mem := hi.room_mem; have f_nonempty := hi.nonempty; have f_nodup := hi.nodup; have f_roomL_iff := hi.roomL_iff; have f_roomL_nodup := hi.roomL_nodup; have f_userL_iff := hi.userL_iff; have f_userL_nodup := hi.userL_nodup; have f_sessL_iff := hi.sessL_iff; have f_rs_fwd := hi.rs_fwd; have f_rs_room := hi.rs_room; have f_virt := hi.virt; have f_children := hi.children; have f_vtable := hi.vtable; have f_conn_iff := hi.conn_iff; have f_conn_open := hi.conn_open; have f_eh := hi.eh; have f_expired := hi.expired; have f_anon := hi.anon; have f_dialout := hi.dialout; have f_count := hi.count; have f_orph_virt := hi.orph_virt; have f_incall := hi.incall; have f_count_le := hi.count_le; clear hi; (intros; (try simp only [hubf, rsSet_sid2rs _ _ _ hrs, rsSet_rs2sid _ _ _ hrs] at *); grind [mem_removeL, nodup_removeL, removeL_nil, length_removeL_le]))
  case rs_room =>
    first
      | (have f_rs_room := hi.rs_room; have f_rs_fwd := hi.rs_fwd; have f_fresh := hi.fresh; have f_room_mem := hi.room_mem; clear hi; (intros; (try simp only [hubf, rsSet_sid2rs _ _ _ hrs, rsSet_rs2sid _ _ _ hrs] at *); grind [mem_removeL, nodup_removeL, removeL_nil, length_removeL_le]))
      | (have f_fresh := hi.fresh; have f_mem_room := hi.mem_room; have f_room_mem := hi.room_mem; have f_nonempty := hi.nonempty; have f_nodup := hi.nodup; have f_roomL_iff := hi.roomL_iff; have f_roomL_nodup := hi.roomL_nodup; have f_userL_iff := hi.userL_iff; have f_userL_nodup := hi.userL_nodup; have f_sessL_iff := hi.sessL_iff; have f_rs_fwd := hi.rs_fwd; have f_rs_room := hi.rs_room; have f_virt := hi.virt; have f_children := hi.children; have f_vtable := hi.vtable; have f_conn_iff := hi.conn_iff; have f_conn_open := hi.conn_open; have f_eh := hi.eh; have f_expired := hi.expired; have f_anon := hi.anon; have f_dialout := hi.dialout; have f_count := hi.count; have f_orph_virt := hi.orph_virt; have f_incall := hi.incall; have f_count_le := hi.count_le; clear hi; (intros; (try simp only [hubf, rsSet_sid2rs _ _ _ hrs, rsSet_rs2sid _ _ _ hrs] at *); grind [mem_removeL, nodup_removeL, removeL_nil, length_removeL_le]))
  case virt =>
    first
      | (have f_virt := hi.virt; have f_children := hi.children; have f_fresh := hi.fresh; clear hi; (intros; (try simp only [hubf, rsSet_sid2rs _ _ _ hrs, rsSet_rs2sid _ _ _ hrs] at *); grind [mem_removeL, nodup_removeL, removeL_nil, length_removeL_le]))
      | (have f_fresh := hi.fresh; have f_mem_room := hi.mem_room; have f_room_mem := hi.room_mem; have f_nonempty := hi.nonempty; have f_nodup := hi.nodup; have f_roomL_iff := hi.roomL_iff; have f_roomL_nodup := hi.roomL_nodup; have f_userL_iff := hi.userL_iff; have f_userL_nodup := hi.userL_nodup; have f_sessL_iff := hi.sessL_iff; have f_rs_fwd := hi.rs_fwd; have f_rs_room := hi.rs_room; have f_virt := hi.virt; have f_children := hi.children; have f_vtable := hi.vtable; have f_conn_iff := hi.conn_iff; have f_conn_open := hi.conn_open; have f_eh := hi.eh; have f_expired := hi.expired; have f_anon := hi.anon; have f_dialout := hi.dialout; have f_count := hi.count; have f_orph_virt := hi.orph_virt; have f_incall := hi.incall; have f_count_le := hi.count_le; clear hi; (intros; (try simp only [hubf, rsSet_sid2rs _ _ _ hrs, rsSet_rs2sid _ _ _ hrs] at *); grind [mem_removeL, nodup_removeL, removeL_nil, length_removeL_le]))
  case children =>
    first
      | (have f_children := hi.children; have f_virt := hi.virt; have f_fresh := hi.fresh; clear hi; (intros; (try simp only [hubf, rsSet_sid2rs _ _ _ hrs, rsSet_rs2sid _ _ _ hrs] at *); grind [mem_removeL, nodup_removeL, removeL_nil, length_removeL_le]))
      | (have f_fresh := hi.fresh; have f_mem_room := hi.mem_room; have f_room_mem := hi.room_mem; have f_nonempty := hi.nonempty; have f_nodup := hi.nodup; have f_roomL_iff := hi.roomL_iff; have f_roomL_nodup := hi.roomL_nodup; have f_userL_iff := hi.userL_iff; have f_userL_nodup := hi.userL_nodup; have f_sessL_iff := hi.sessL_iff; have f_rs_fwd := hi.rs_fwd; have f_rs_room := hi.rs_room; have f_virt := hi.virt; have f_children := hi.children; have f_vtable := hi.vtable; have f_conn_iff := hi.conn_iff; have f_conn_open := hi.conn_open; have f_eh := hi.eh; have f_expired := hi.expired; have f_anon := hi.anon; have f_dialout := hi.dialout; have f_count := hi.count; have f_orph_virt := hi.orph_virt; have f_incall := hi.incall; have f_count_le := hi.count_le; clear hi; (intros; (try simp only [hubf, rsSet_sid2rs _ _ _ hrs, rsSet_rs2sid _ _ _ hrs] at *); grind [mem_removeL, nodup_removeL, removeL_nil, length_removeL_le]))
  case vtable =>
    first
      | (have f_vtable := hi.vtable; have f_virt := hi.virt; have f_fresh := hi.fresh; clear hi; (intros; (try simp only [hubf, rsSet_sid2rs _ _ _ hrs, rsSet_rs2sid _ _ _ hrs] at *); grind [mem_removeL, nodup_removeL, removeL_nil, length_removeL_le]))
      | (have f_fresh := hi.fresh; have f_mem_room := hi.mem_room; have f_room_mem := hi.room_mem; have f_nonempty := hi.nonempty; have f_nodup := hi.nodup; have f_roomL_iff := hi.roomL_iff; have f_roomL_nodup := hi.roomL_nodup; have f_userL_iff := hi.userL_iff; have f_userL_nodup := hi.userL_nodup; have f_sessL_iff := hi.sessL_iff; have f_rs_fwd := hi.rs_fwd; have f_rs_room := hi.rs_room; have f_virt := hi.virt; have f_children := hi.children; have f_vtable := hi.vtable; have f_conn_iff := hi.conn_iff; have f_conn_open := hi.conn_open; have f_eh := hi.eh; have f_expired := hi.expired; have f_anon := hi.anon; have f_dialout := hi.dialout; have f_count := hi.count; have f_orph_virt := hi.orph_virt; have f_incall := hi.incall; have f_count_le := hi.count_le; clear hi; (intros; (try simp only [hubf, rsSet_sid2rs _ _ _ hrs, rsSet_rs2sid _ _ _ hrs] at *); grind [mem_removeL, nodup_removeL, removeL_nil, length_removeL_le]))
  case conn_iff =>
    first
      | (have f_conn_iff := hi.conn_iff; have f_fresh := hi.fresh; have f_virt := hi.virt; clear hi; (intros; (try simp only [hubf, rsSet_sid2rs _ _ _ hrs, rsSet_rs2sid _ _ _ hrs] at *); grind [mem_removeL, nodup_removeL, removeL_nil, length_removeL_le]))
      | (have f_fresh := hi.fresh; have f_mem_room := hi.mem_room; have f_room_mem := hi.room_mem; have f_nonempty := hi.nonempty; have f_nodup := hi.nodup; have f_roomL_iff := hi.roomL_iff; have f_roomL_nodup := hi.roomL_nodup; have f_userL_iff := hi.userL_iff; have f_userL_nodup := hi.userL_nodup; have f_sessL_iff := hi.sessL_iff; have f_rs_fwd := hi.rs_fwd; have f_rs_room := hi.rs_room; have f_virt := hi.virt; have f_children := hi.children; have f_vtable := hi.vtable; have f_conn_iff := hi.conn_iff; have f_conn_open := hi.conn_open; have f_eh := hi.eh; have f_expired := hi.expired; have f_anon := hi.anon; have f_dialout := hi.dialout; have f_count := hi.count; have f_orph_virt := hi.orph_virt; have f_incall := hi.incall; have f_count_le := hi.count_le; clear hi; (intros; (try simp only [hubf, rsSet_sid2rs _ _ _ hrs, rsSet_rs2sid _ _ _ hrs] at *); grind [mem_removeL, nodup_removeL, removeL_nil, length_removeL_le]))
  case conn_open =>
    first
      | (have f_conn_open := hi.conn_open; have f_conn_iff := hi.conn_iff; clear hi; (intros; (try simp only [hubf, rsSet_sid2rs _ _ _ hrs, rsSet_rs2sid _ _ _ hrs] at *); grind [mem_removeL, nodup_removeL, removeL_nil, length_removeL_le]))
      | (have f_fresh := hi.fresh; have f_mem_room := hi.mem_room; have f_room_mem := hi.room_mem; have f_nonempty := hi.nonempty; have f_nodup := hi.nodup; have f_roomL_iff := hi.roomL_iff; have f_roomL_nodup := hi.roomL_nodup; have f_userL_iff := hi.userL_iff; have f_userL_nodup := hi.userL_nodup; have f_sessL_iff := hi.sessL_iff; have f_rs_fwd := hi.rs_fwd; have f_rs_room := hi.rs_room; have f_virt := hi.virt; have f_children := hi.children; have f_vtable := hi.vtable; have f_conn_iff := hi.conn_iff; have f_conn_open := hi.conn_open; have f_eh := hi.eh; have f_expired := hi.expired; have f_anon := hi.anon; have f_dialout := hi.dialout; have f_count := hi.count; have f_orph_virt := hi.orph_virt; have f_incall := hi.incall; have f_count_le := hi.count_le; clear hi; (intros; (try simp only [hubf, rsSet_sid2rs _ _ _ hrs, rsSet_rs2sid _ _ _ hrs] at *); grind [mem_removeL, nodup_removeL, removeL_nil, length_removeL_le]))
  case eh =>
    first
      | (have f_eh := hi.eh; have f_conn_iff := hi.conn_iff; have f_conn_open := hi.conn_open; clear hi; (intros; (try simp only [hubf, rsSet_sid2rs _ _ _ hrs, rsSet_rs2sid _ _ _ hrs] at *); grind [mem_removeL, nodup_removeL, removeL_nil, length_removeL_le]))
      | (have f_fresh := hi.fresh; have f_mem_room := hi.mem_room; have f_room_mem := hi.room_mem; have f_nonempty := hi.nonempty; have f_nodup := hi.nodup; have f_roomL_iff := hi.roomL_iff; have f_roomL_nodup := hi.roomL_nodup; have f_userL_iff := hi.userL_iff; have f_userL_nodup := hi.userL_nodup; have f_sessL_iff := hi.sessL_iff; have f_rs_fwd := hi.rs_fwd; have f_rs_room := hi.rs_room; have f_virt := hi.virt; have f_children := hi.children; have f_vtable := hi.vtable; have f_conn_iff := hi.conn_iff; have f_conn_open := hi.conn_open; have f_eh := hi.eh; have f_expired := hi.expired; have f_anon := hi.anon; have f_dialout := hi.dialout; have f_count := hi.count; have f_orph_virt := hi.orph_virt; have f_incall := hi.incall; have f_count_le := hi.count_le; clear hi; (intros; (try simp only [hubf, rsSet_sid2rs _ _ _ hrs, rsSet_rs2sid _ _ _ hrs] at *); grind [mem_removeL, nodup_removeL, removeL_nil, length_removeL_le]))
  case expired =>
    first
      | (have f_expired := hi.expired; have f_fresh := hi.fresh; clear hi; (intros; (try simp only [hubf, rsSet_sid2rs _ _ _ hrs, rsSet_rs2sid _ _ _ hrs] at *); grind [mem_removeL, nodup_removeL, removeL_nil, length_removeL_le]))
      | (have f_fresh := hi.fresh; have f_mem_room := hi.mem_room; have f_room_mem := hi.room_mem; have f_nonempty := hi.nonempty; have f_nodup := hi.nodup; have f_roomL_iff := hi.roomL_iff; have f_roomL_nodup := hi.roomL_nodup; have f_userL_iff := hi.userL_iff; have f_userL_nodup := hi.userL_nodup; have f_sessL_iff := hi.sessL_iff; have f_rs_fwd := hi.rs_fwd; have f_rs_room := hi.rs_room; have f_virt := hi.virt; have f_children := hi.children; have f_vtable := hi.vtable; have f_conn_iff := hi.conn_iff; have f_conn_open := hi.conn_open; have f_eh := hi.eh; have f_expired := hi.expired; have f_anon := hi.anon; have f_dialout := hi.dialout; have f_count := hi.count; have f_orph_virt := hi.orph_virt; have f_incall := hi.incall; have f_count_le := hi.count_le; clear hi; (intros; (try simp only [hubf, rsSet_sid2rs _ _ _ hrs, rsSet_rs2sid _ _ _ hrs] at *); grind [mem_removeL, nodup_removeL, removeL_nil, length_removeL_le]))
  case anon =>
    first
      | (have f_anon := hi.anon; have f_fresh := hi.fresh; clear hi; (intros; (try simp only [hubf, rsSet_sid2rs _ _ _ hrs, rsSet_rs2sid _ _ _ hrs] at *); grind [mem_removeL, nodup_removeL, removeL_nil, length_removeL_le]))
      | (have f_fresh := hi.fresh; have f_mem_room := hi.mem_room; have f_room_mem := hi.room_mem; have f_nonempty := hi.nonempty; have f_nodup := hi.nodup; have f_roomL_iff := hi.roomL_iff; have f_roomL_nodup := hi.roomL_nodup; have f_userL_iff := hi.userL_iff; have f_userL_nodup := hi.userL_nodup; have f_sessL_iff := hi.sessL_iff; have f_rs_fwd := hi.rs_fwd; have f_rs_room := hi.rs_room; have f_virt := hi.virt; have f_children := hi.children; have f_vtable := hi.vtable; have f_conn_iff := hi.conn_iff; have f_conn_open := hi.conn_open; have f_eh := hi.eh; have f_expired := hi.expired; have f_anon := hi.anon; have f_dialout := hi.dialout; have f_count := hi.count; have f_orph_virt := hi.orph_virt; have f_incall := hi.incall; have f_count_le := hi.count_le; clear hi; (intros; (try simp only [hubf, rsSet_sid2rs _ _ _ hrs, rsSet_rs2sid _ _ _ hrs] at *); grind [mem_removeL, nodup_removeL, removeL_nil, length_removeL_le]))
  case dialout =>
    first
      | (have f_dialout := hi.dialout; have f_fresh := hi.fresh; clear hi; (intros; (try simp only [hubf, rsSet_sid2rs _ _ _ hrs, rsSet_rs2sid _ _ _ hrs] at *); grind [mem_removeL, nodup_removeL, removeL_nil, length_removeL_le]))
      | (have f_fresh := hi.fresh; have f_mem_room := hi.mem_room; have f_room_mem := hi.room_mem; have f_nonempty := hi.nonempty; have f_nodup := hi.nodup; have f_roomL_iff := hi.roomL_iff; have f_roomL_nodup := hi.roomL_nodup; have f_userL_iff := hi.userL_iff; have f_userL_nodup := hi.userL_nodup; have f_sessL_iff := hi.sessL_iff; have f_rs_fwd := hi.rs_fwd; have f_rs_room := hi.rs_room; have f_virt := hi.virt; have f_children := hi.children; have f_vtable := hi.vtable; have f_conn_iff := hi.conn_iff; have f_conn_open := hi.conn_open; have f_eh := hi.eh; have f_expired := hi.expired; have f_anon := hi.anon; have f_dialout := hi.dialout; have f_count := hi.count; have f_orph_virt := hi.orph_virt; have f_incall := hi.incall; have f_count_le := hi.count_le; clear hi; (intros; (try simp only [hubf, rsSet_sid2rs _ _ _ hrs, rsSet_rs2sid _ _ _ hrs] at *); grind [mem_removeL, nodup_removeL, removeL_nil, length_removeL_le]))
  case count =>
    first
      | (have f_count := hi.count; have f_fresh := hi.fresh; clear hi; (intros; (try simp only [hubf, rsSet_sid2rs _ _ _ hrs, rsSet_rs2sid _ _ _ hrs] at *); grind [mem_removeL, nodup_removeL, removeL_nil, length_removeL_le]))
      | (have f_fresh := hi.fresh; have f_mem_room := hi.mem_room; have f_room_mem := hi.room_mem; have f_nonempty := hi.nonempty; have f_nodup := hi.nodup; have f_roomL_iff := hi.roomL_iff; have f_roomL_nodup := hi.roomL_nodup; have f_userL_iff := hi.userL_iff; have f_userL_nodup := hi.userL_nodup; have f_sessL_iff := hi.sessL_iff; have f_rs_fwd := hi.rs_fwd; have f_rs_room := hi.rs_room; have f_virt := hi.virt; have f_children := hi.children; have f_vtable := hi.vtable; have f_conn_iff := hi.conn_iff; have f_conn_open := hi.conn_open; have f_eh := hi.eh; have f_expired := hi.expired; have f_anon := hi.anon; have f_dialout := hi.dialout; have f_count := hi.count; have f_orph_virt := hi.orph_virt; have f_incall := hi.incall; have f_count_le := hi.count_le; clear hi; (intros; (try simp only [hubf, rsSet_sid2rs _ _ _ hrs, rsSet_rs2sid _ _ _ hrs] at *); grind [mem_removeL, nodup_removeL, removeL_nil, length_removeL_le]))
  case orph_virt =>
    first
      | (have f_orph_virt := hi.orph_virt; have f_fresh := hi.fresh; have f_children := hi.children; have f_virt := hi.virt; clear hi; (intros; (try simp only [hubf, rsSet_sid2rs _ _ _ hrs, rsSet_rs2sid _ _ _ hrs] at *); grind [mem_removeL, nodup_removeL, removeL_nil, length_removeL_le]))
      | (have f_fresh := hi.fresh; have f_mem_room := hi.mem_room; have f_room_mem := hi.room_mem; have f_nonempty := hi.nonempty; have f_nodup := hi.nodup; have f_roomL_iff := hi.roomL_iff; have f_roomL_nodup := hi.roomL_nodup; have f_userL_iff := hi.userL_iff; have f_userL_nodup := hi.userL_nodup; have f_sessL_iff := hi.sessL_iff; have f_rs_fwd := hi.rs_fwd; have f_rs_room := hi.rs_room; have f_virt := hi.virt; have f_children := hi.children; have f_vtable := hi.vtable; have f_conn_iff := hi.conn_iff; have f_conn_open := hi.conn_open; have f_eh := hi.eh; have f_expired := hi.expired; have f_anon := hi.anon; have f_dialout := hi.dialout; have f_count := hi.count; have f_orph_virt := hi.orph_virt; have f_incall := hi.incall; have f_count_le := hi.count_le; clear hi; (intros; (try simp only [hubf, rsSet_sid2rs _ _ _ hrs, rsSet_rs2sid _ _ _ hrs] at *); grind [mem_removeL, nodup_removeL, removeL_nil, length_removeL_le]))
  case incall =>
    first
      | (have f_incall := hi.incall; have f_mem_room := hi.mem_room; clear hi; (intros; (try simp only [hubf, rsSet_sid2rs _ _ _ hrs, rsSet_rs2sid _ _ _ hrs] at *); grind [mem_removeL, nodup_removeL, removeL_nil, length_removeL_le]))
      | (have f_fresh := hi.fresh; have f_mem_room := hi.mem_room; have f_room_mem := hi.room_mem; have f_nonempty := hi.nonempty; have f_nodup := hi.nodup; have f_roomL_iff := hi.roomL_iff; have f_roomL_nodup := hi.roomL_nodup; have f_userL_iff := hi.userL_iff; have f_userL_nodup := hi.userL_nodup; have f_sessL_iff := hi.sessL_iff; have f_rs_fwd := hi.rs_fwd; have f_rs_room := hi.rs_room; have f_virt := hi.virt; have f_children := hi.children; have f_vtable := hi.vtable; have f_conn_iff := hi.conn_iff; have f_conn_open := hi.conn_open; have f_eh := hi.eh; have f_expired := hi.expired; have f_anon := hi.anon; have f_dialout := hi.dialout; have f_count := hi.count; have f_orph_virt := hi.orph_virt; have f_incall := hi.incall; have f_count_le := hi.count_le; clear hi; (intros; (try simp only [hubf, rsSet_sid2rs _ _ _ hrs, rsSet_rs2sid _ _ _ hrs] at *); grind [mem_removeL, nodup_removeL, removeL_nil, length_removeL_le]))
  case count_le =>
    first
      | (have f_count_le := hi.count_le; clear hi; (intros; (try simp only [hubf, rsSet_sid2rs _ _ _ hrs, rsSet_rs2sid _ _ _ hrs] at *); grind [mem_removeL, nodup_removeL, removeL_nil, length_removeL_le]))
      | (have f_fresh := hi.fresh; have f_mem_room := hi.mem_room; have f_room_mem := hi.room_mem; have f_nonempty := hi.nonempty; have f_nodup := hi.nodup; have f_roomL_iff := hi.roomL_iff; have f_roomL_nodup := hi.roomL_nodup; have f_userL_iff := hi.userL_iff; have f_userL_nodup := hi.userL_nodup; have f_sessL_iff := hi.sessL_iff; have f_rs_fwd := hi.rs_fwd; have f_rs_room := hi.rs_room; have f_virt := hi.virt; have f_children := hi.children; have f_vtable := hi.vtable; have f_conn_iff := hi.conn_iff; have f_conn_open := hi.conn_open; have f_eh := hi.eh; have f_expired := hi.expired; have f_anon := hi.anon; have f_dialout := hi.dialout; have f_count := hi.count; have f_orph_virt := hi.orph_virt; have f_incall := hi.incall; have f_count_le := hi.count_le; clear hi; (intros; (try simp only [hubf, rsSet_sid2rs _ _ _ hrs, rsSet_rs2sid _ _ _ hrs] at *); grind [mem_removeL, nodup_removeL, removeL_nil, length_removeL_le]))

theorem addVirtual_inv (a : Acc) (s : Nat) (r vkey user : String) (ic : Option Nat) (ok : Bool) (hi : Inv a.h) :
    Inv (addVirtual a s r vkey user ic ok).h := by
  unfold addVirtual
  cases hx : a.h.sess s with
  | none => exact hi
  | some x =>
    simp only []
    by_cases hk : x.kind = .internal
    · simp only [hk, ne_eq, not_true_eq_false, if_false]
      cases hrm : a.h.rooms x.backend r with
      | none => exact hi
      | some rm =>
        simp only []
        by_cases hok : ok = true
        · simp only [hok, Bool.not_true, Bool.false_eq_true, if_false]
          exact (virtual_inv hi hx hk r vkey user ic).congr (roomAddSession_core _ _ _ _ _ _)
        · have hok' : ok = false := by cases ok <;> simp_all
          simp only [hok', Bool.not_false, if_true]
          exact hi.congr (sendTo_core _ _ _)
    · simp only [hk, ne_eq, not_false_eq_true, if_true]; exact hi

theorem removeVirtual_inv (a : Acc) (s : Nat) (r vkey : String) (hi : Inv a.h) :
    Inv (removeVirtual a s r vkey).h := by
  unfold removeVirtual
  cases hx : a.h.sess s with
  | none => exact hi
  | some x =>
    simp only []
    by_cases hk : x.kind = .internal
    · simp only [hk, ne_eq, not_true_eq_false, if_false]
      cases hrm : a.h.rooms x.backend r with
      | none => exact hi
      | some rm =>
        simp only []
        cases hv : a.h.vtable s vkey with
        | none => exact hi
        | some v =>
          simp only []
          apply closeSession_inv
          -- forgetting a `Hub.virtualSessions` entry only weakens what the invariant has to show
          obtain ⟨f1, f2, f3, f4, f5, f6, f7, f8, f9, f10, f11, f12, f13, f14, f15, f16, f17, f18, f19, f20, f21, f22, f23, f24, f25⟩ := hi
          constructor
          all_goals first | assumption | skip
          · intro p k v' hv'
            simp only [] at hv'
            split at hv'
            · cases hv'
            · exact f15 p k v' hv'
    · simp only [hk, ne_eq, not_false_eq_true, if_true]; exact hi

/-! ### updates that keep the structure -/

set_option maxHeartbeats 4000000 in
theorem InvG.setSess_same {orph : List Nat} {h : Hub} (hi : InvX orph h) {s : Nat} {x y : Sess} (hx : h.sess s = some x)
    (e1 : y.backend = x.backend) (e2 : y.kind = x.kind) (e3 : y.user = x.user) (e4 : y.room = x.room)
    (e5 : y.conn = x.conn) (e6 : y.parent = x.parent) (e7 : y.vkey = x.vkey) (e8 : y.children = x.children) :
    InvX orph (setSess h s (some y)) := by
  constructor
  case fresh =>
    first
      | (have f_fresh := hi.fresh; clear hi; (intros; (try simp only [hubf] at *); grind [mem_removeL, nodup_removeL, removeL_nil, length_removeL_le]))
      | (have f_fresh := hi.fresh; have f_mem_room := hi.mem_room; have f_room_mem := hi.room_mem; have f_nonempty := hi.nonempty; have f_nodup := hi.nodup; have f_roomL_iff := hi.roomL_iff; have f_roomL_nodup := hi.roomL_nodup; have f_userL_iff := hi.userL_iff; have f_userL_nodup := hi.userL_nodup; have f_sessL_iff := hi.sessL_iff; have f_rs_fwd := hi.rs_fwd; have f_rs_room := hi.rs_room; have f_virt := hi.virt; have f_children := hi.children; have f_vtable := hi.vtable; have f_conn_iff := hi.conn_iff; have f_conn_open := hi.conn_open; have f_eh := hi.eh; have f_expired := hi.expired; have f_anon := hi.anon; have f_dialout := hi.dialout; have f_count := hi.count; have f_orph_virt := hi.orph_virt; have f_incall := hi.incall; have f_count_le := hi.count_le; clear hi; (intros; (try simp only [hubf] at *); grind [mem_removeL, nodup_removeL, removeL_nil, length_removeL_le]))
  case mem_room =>
    first
      | (have f_mem_room := hi.mem_room; have f_fresh := hi.fresh; clear hi; (intros; (try simp only [hubf] at *); grind [mem_removeL, nodup_removeL, removeL_nil, length_removeL_le]))
      | (have f_fresh := hi.fresh; have f_mem_room := hi.mem_room; have f_room_mem := hi.room_mem; have f_nonempty := hi.nonempty; have f_nodup := hi.nodup; have f_roomL_iff := hi.roomL_iff; have f_roomL_nodup := hi.roomL_nodup; have f_userL_iff := hi.userL_iff; have f_userL_nodup := hi.userL_nodup; have f_sessL_iff := hi.sessL_iff; have f_rs_fwd := hi.rs_fwd; have f_rs_room := hi.rs_room; have f_virt := hi.virt; have f_children := hi.children; have f_vtable := hi.vtable; have f_conn_iff := hi.conn_iff; have f_conn_open := hi.conn_open; have f_eh := hi.eh; have f_expired := hi.expired; have f_anon := hi.anon; have f_dialout := hi.dialout; have f_count := hi.count; have f_orph_virt := hi.orph_virt; have f_incall := hi.incall; have f_count_le := hi.count_le; clear hi; (intros; (try simp only [hubf] at *); grind [mem_removeL, nodup_removeL, removeL_nil, length_removeL_le]))
  case room_mem =>
    first
      | (have f_room_mem := hi.room_mem; have f_mem_room := hi.mem_room; have f_fresh := hi.fresh; clear hi; (intros; (try simp only [hubf] at *); grind [mem_removeL, nodup_removeL, removeL_nil, length_removeL_le]))
      | (have f_fresh := hi.fresh; have f_mem_room := hi.mem_room; have f_room_mem := hi.room_mem; have f_nonempty := hi.nonempty; have f_nodup := hi.nodup; have f_roomL_iff := hi.roomL_iff; have f_roomL_nodup := hi.roomL_nodup; have f_userL_iff := hi.userL_iff; have f_userL_nodup := hi.userL_nodup; have f_sessL_iff := hi.sessL_iff; have f_rs_fwd := hi.rs_fwd; have f_rs_room := hi.rs_room; have f_virt := hi.virt; have f_children := hi.children; have f_vtable := hi.vtable; have f_conn_iff := hi.conn_iff; have f_conn_open := hi.conn_open; have f_eh := hi.eh; have f_expired := hi.expired; have f_anon := hi.anon; have f_dialout := hi.dialout; have f_count := hi.count; have f_orph_virt := hi.orph_virt; have f_incall := hi.incall; have f_count_le := hi.count_le; clear hi; (intros; (try simp only [hubf] at *); grind [mem_removeL, nodup_removeL, removeL_nil, length_removeL_le]))
  case nonempty =>
    first
      | (have f_nonempty := hi.nonempty; have f_mem_room := hi.mem_room; clear hi; (intros; (try simp only [hubf] at *); grind [mem_removeL, nodup_removeL, removeL_nil, length_removeL_le]))
      | (have f_fresh := hi.fresh; have f_mem_room := hi.mem_room; have f_room_mem := hi.room_mem; have f_nonempty := hi.nonempty; have f_nodup := hi.nodup; have f_roomL_iff := hi.roomL_iff; have f_roomL_nodup := hi.roomL_nodup; have f_userL_iff := hi.userL_iff; have f_userL_nodup := hi.userL_nodup; have f_sessL_iff := hi.sessL_iff; have f_rs_fwd := hi.rs_fwd; have f_rs_room := hi.rs_room; have f_virt := hi.virt; have f_children := hi.children; have f_vtable := hi.vtable; have f_conn_iff := hi.conn_iff; have f_conn_open := hi.conn_open; have f_eh := hi.eh; have f_expired := hi.expired; have f_anon := hi.anon; have f_dialout := hi.dialout; have f_count := hi.count; have f_orph_virt := hi.orph_virt; have f_incall := hi.incall; have f_count_le := hi.count_le; clear hi; (intros; (try simp only [hubf] at *); grind [mem_removeL, nodup_removeL, removeL_nil, length_removeL_le]))
  case nodup =>
    first
      | (have f_nodup := hi.nodup; clear hi; (intros; (try simp only [hubf] at *); grind [mem_removeL, nodup_removeL, removeL_nil, length_removeL_le]))
      | (have f_fresh := hi.fresh; have f_mem_room := hi.mem_room; have f_room_mem := hi.room_mem; have f_nonempty := hi.nonempty; have f_nodup := hi.nodup; have f_roomL_iff := hi.roomL_iff; have f_roomL_nodup := hi.roomL_nodup; have f_userL_iff := hi.userL_iff; have f_userL_nodup := hi.userL_nodup; have f_sessL_iff := hi.sessL_iff; have f_rs_fwd := hi.rs_fwd; have f_rs_room := hi.rs_room; have f_virt := hi.virt; have f_children := hi.children; have f_vtable := hi.vtable; have f_conn_iff := hi.conn_iff; have f_conn_open := hi.conn_open; have f_eh := hi.eh; have f_expired := hi.expired; have f_anon := hi.anon; have f_dialout := hi.dialout; have f_count := hi.count; have f_orph_virt := hi.orph_virt; have f_incall := hi.incall; have f_count_le := hi.count_le; clear hi; (intros; (try simp only [hubf] at *); grind [mem_removeL, nodup_removeL, removeL_nil, length_removeL_le]))
  case roomL_iff =>
    first
      | (have f_roomL_iff := hi.roomL_iff; have f_fresh := hi.fresh; have f_room_mem := hi.room_mem; have f_mem_room := hi.mem_room; clear hi; (intros; (try simp only [hubf] at *); grind [mem_removeL, nodup_removeL, removeL_nil, length_removeL_le]))
      | (have f_fresh := hi.fresh; have f_mem_room := hi.mem_room; have f_room_mem := hi.room_mem; have f_nonempty := hi.nonempty; have f_nodup := hi.nodup; have f_roomL_iff := hi.roomL_iff; have f_roomL_nodup := hi.roomL_nodup; have f_userL_iff := hi.userL_iff; have f_userL_nodup := hi.userL_nodup; have f_sessL_iff := hi.sessL_iff; have f_rs_fwd := hi.rs_fwd; have f_rs_room := hi.rs_room; have f_virt := hi.virt; have f_children := hi.children; have f_vtable := hi.vtable; have f_conn_iff := hi.conn_iff; have f_conn_open := hi.conn_open; have f_eh := hi.eh; have f_expired := hi.expired; have f_anon := hi.anon; have f_dialout := hi.dialout; have f_count := hi.count; have f_orph_virt := hi.orph_virt; have f_incall := hi.incall; have f_count_le := hi.count_le; clear hi; (intros; (try simp only [hubf] at *); grind [mem_removeL, nodup_removeL, removeL_nil, length_removeL_le]))
  case roomL_nodup =>
    first
      | (have f_roomL_nodup := hi.roomL_nodup; have f_roomL_iff := hi.roomL_iff; clear hi; (intros; (try simp only [hubf] at *); grind [mem_removeL, nodup_removeL, removeL_nil, length_removeL_le]))
      | (have f_fresh := hi.fresh; have f_mem_room := hi.mem_room; have f_room_mem := hi.room_mem; have f_nonempty := hi.nonempty; have f_nodup := hi.nodup; have f_roomL_iff := hi.roomL_iff; have f_roomL_nodup := hi.roomL_nodup; have f_userL_iff := hi.userL_iff; have f_userL_nodup := hi.userL_nodup; have f_sessL_iff := hi.sessL_iff; have f_rs_fwd := hi.rs_fwd; have f_rs_room := hi.rs_room; have f_virt := hi.virt; have f_children := hi.children; have f_vtable := hi.vtable; have f_conn_iff := hi.conn_iff; have f_conn_open := hi.conn_open; have f_eh := hi.eh; have f_expired := hi.expired; have f_anon := hi.anon; have f_dialout := hi.dialout; have f_count := hi.count; have f_orph_virt := hi.orph_virt; have f_incall := hi.incall; have f_count_le := hi.count_le; clear hi; (intros; (try simp only [hubf] at *); grind [mem_removeL, nodup_removeL, removeL_nil, length_removeL_le]))
  case userL_iff =>
    first
      | (have f_userL_iff := hi.userL_iff; have f_fresh := hi.fresh; clear hi; (intros; (try simp only [hubf] at *); grind [mem_removeL, nodup_removeL, removeL_nil, length_removeL_le]))
      | (have f_fresh := hi.fresh; have f_mem_room := hi.mem_room; have f_room_mem := hi.room_mem; have f_nonempty := hi.nonempty; have f_nodup := hi.nodup; have f_roomL_iff := hi.roomL_iff; have f_roomL_nodup := hi.roomL_nodup; have f_userL_iff := hi.userL_iff; have f_userL_nodup := hi.userL_nodup; have f_sessL_iff := hi.sessL_iff; have f_rs_fwd := hi.rs_fwd; have f_rs_room := hi.rs_room; have f_virt := hi.virt; have f_children := hi.children; have f_vtable := hi.vtable; have f_conn_iff := hi.conn_iff; have f_conn_open := hi.conn_open; have f_eh := hi.eh; have f_expired := hi.expired; have f_anon := hi.anon; have f_dialout := hi.dialout; have f_count := hi.count; have f_orph_virt := hi.orph_virt; have f_incall := hi.incall; have f_count_le := hi.count_le; clear hi; (intros; (try simp only [hubf] at *); grind [mem_removeL, nodup_removeL, removeL_nil, length_removeL_le]))
  case userL_nodup =>
    first
      | (have f_userL_nodup := hi.userL_nodup; have f_userL_iff := hi.userL_iff; clear hi; (intros; (try simp only [hubf] at *); grind [mem_removeL, nodup_removeL, removeL_nil, length_removeL_le]))
      | (have f_fresh := hi.fresh; have f_mem_room := hi.mem_room; have f_room_mem := hi.room_mem; have f_nonempty := hi.nonempty; have f_nodup := hi.nodup; have f_roomL_iff := hi.roomL_iff; have f_roomL_nodup := hi.roomL_nodup; have f_userL_iff := hi.userL_iff; have f_userL_nodup := hi.userL_nodup; have f_sessL_iff := hi.sessL_iff; have f_rs_fwd := hi.rs_fwd; have f_rs_room := hi.rs_room; have f_virt := hi.virt; have f_children := hi.children; have f_vtable := hi.vtable; have f_conn_iff := hi.conn_iff; have f_conn_open := hi.conn_open; have f_eh := hi.eh; have f_expired := hi.expired; have f_anon := hi.anon; have f_dialout := hi.dialout; have f_count := hi.count; have f_orph_virt := hi.orph_virt; have f_incall := hi.incall; have f_count_le := hi.count_le; clear hi; (intros; (try simp only [hubf] at *); grind [mem_removeL, nodup_removeL, removeL_nil, length_removeL_le]))
  case sessL_iff =>
    first
      | (have f_sessL_iff := hi.sessL_iff; have f_fresh := hi.fresh; clear hi; (intros; (try simp only [hubf] at *); grind [mem_removeL, nodup_removeL, removeL_nil, length_removeL_le]))
      | (have f_fresh := hi.fresh; have f_mem_room := hi.mem_room; have f_room_mem := hi.room_mem; have f_nonempty := hi.nonempty; have f_nodup := hi.nodup; have f_roomL_iff := hi.roomL_iff; have f_roomL_nodup := hi.roomL_nodup; have f_userL_iff := hi.userL_iff; have f_userL_nodup := hi.userL_nodup; have f_sessL_iff := hi.sessL_iff; have f_rs_fwd := hi.rs_fwd; have f_rs_room := hi.rs_room; have f_virt := hi.virt; have f_children := hi.children; have f_vtable := hi.vtable; have f_conn_iff := hi.conn_iff; have f_conn_open := hi.conn_open; have f_eh := hi.eh; have f_expired := hi.expired; have f_anon := hi.anon; have f_dialout := hi.dialout; have f_count := hi.count; have f_orph_virt := hi.orph_virt; have f_incall := hi.incall; have f_count_le := hi.count_le; clear hi; (intros; (try simp only [hubf] at *); grind [mem_removeL, nodup_removeL, removeL_nil, length_removeL_le]))
  case rs_fwd =>
    first
      | (have f_rs_fwd := hi.rs_fwd; have f_rs_room := hi.rs_room; have f_fresh := hi.fresh; clear hi; (intros; (try simp only [hubf] at *); grind [mem_removeL, nodup_removeL, removeL_nil, length_removeL_le]))
      | (have f_fresh := hi.fresh; have f_mem_room := hi.mem_room; have f_room_mem := hi.room_mem; have f_nonempty := hi.nonempty; have f_nodup := hi.nodup; have f_roomL_iff := hi.roomL_iff; have f_roomL_nodup := hi.roomL_nodup; have f_userL_iff := hi.userL_iff; have f_userL_nodup := hi.userL_nodup; have f_sessL_iff := hi.sessL_iff; have f_rs_fwd := hi.rs_fwd; have f_rs_room := hi.rs_room; have f_virt := hi.virt; have f_children := hi.children; have f_vtable := hi.vtable; have f_conn_iff := hi.conn_iff; have f_conn_open := hi.conn_open; have f_eh := hi.eh; have f_expired := hi.expired; have f_anon := hi.anon; have f_dialout := hi.dialout; have f_count := hi.count; have f_orph_virt := hi.orph_virt; have f_incall := hi.incall; have f_count_le := hi.count_le; clear hi; (intros; (try simp only [hubf] at *); grind [mem_removeL, nodup_removeL, removeL_nil, length_removeL_le]))
  case rs_room =>
    first
      | (have f_rs_room := hi.rs_room; have f_rs_fwd := hi.rs_fwd; have f_fresh := hi.fresh; have f_room_mem := hi.room_mem; clear hi; (intros; (try simp only [hubf] at *); grind [mem_removeL, nodup_removeL, removeL_nil, length_removeL_le]))
      | (have f_fresh := hi.fresh; have f_mem_room := hi.mem_room; have f_room_mem := hi.room_mem; have f_nonempty := hi.nonempty; have f_nodup := hi.nodup; have f_roomL_iff := hi.roomL_iff; have f_roomL_nodup := hi.roomL_nodup; have f_userL_iff := hi.userL_iff; have f_userL_nodup := hi.userL_nodup; have f_sessL_iff := hi.sessL_iff; have f_rs_fwd := hi.rs_fwd; have f_rs_room := hi.rs_room; have f_virt := hi.virt; have f_children := hi.children; have f_vtable := hi.vtable; have f_conn_iff := hi.conn_iff; have f_conn_open := hi.conn_open; have f_eh := hi.eh; have f_expired := hi.expired; have f_anon := hi.anon; have f_dialout := hi.dialout; have f_count := hi.count; have f_orph_virt := hi.orph_virt; have f_incall := hi.incall; have f_count_le := hi.count_le; clear hi; (intros; (try simp only [hubf] at *); grind [mem_removeL, nodup_removeL, removeL_nil, length_removeL_le]))
  case virt =>
    first
      | (have f_virt := hi.virt; have f_children := hi.children; have f_fresh := hi.fresh; clear hi; (intros; (try simp only [hubf] at *); grind [mem_removeL, nodup_removeL, removeL_nil, length_removeL_le]))
      | (have f_fresh := hi.fresh; have f_mem_room := hi.mem_room; have f_room_mem := hi.room_mem; have f_nonempty := hi.nonempty; have f_nodup := hi.nodup; have f_roomL_iff := hi.roomL_iff; have f_roomL_nodup := hi.roomL_nodup; have f_userL_iff := hi.userL_iff; have f_userL_nodup := hi.userL_nodup; have f_sessL_iff := hi.sessL_iff; have f_rs_fwd := hi.rs_fwd; have f_rs_room := hi.rs_room; have f_virt := hi.virt; have f_children := hi.children; have f_vtable := hi.vtable; have f_conn_iff := hi.conn_iff; have f_conn_open := hi.conn_open; have f_eh := hi.eh; have f_expired := hi.expired; have f_anon := hi.anon; have f_dialout := hi.dialout; have f_count := hi.count; have f_orph_virt := hi.orph_virt; have f_incall := hi.incall; have f_count_le := hi.count_le; clear hi; (intros; (try simp only [hubf] at *); grind [mem_removeL, nodup_removeL, removeL_nil, length_removeL_le]))
  case children =>
    first
      | (have f_children := hi.children; have f_virt := hi.virt; have f_fresh := hi.fresh; clear hi; (intros; (try simp only [hubf] at *); grind [mem_removeL, nodup_removeL, removeL_nil, length_removeL_le]))
      | (have f_fresh := hi.fresh; have f_mem_room := hi.mem_room; have f_room_mem := hi.room_mem; have f_nonempty := hi.nonempty; have f_nodup := hi.nodup; have f_roomL_iff := hi.roomL_iff; have f_roomL_nodup := hi.roomL_nodup; have f_userL_iff := hi.userL_iff; have f_userL_nodup := hi.userL_nodup; have f_sessL_iff := hi.sessL_iff; have f_rs_fwd := hi.rs_fwd; have f_rs_room := hi.rs_room; have f_virt := hi.virt; have f_children := hi.children; have f_vtable := hi.vtable; have f_conn_iff := hi.conn_iff; have f_conn_open := hi.conn_open; have f_eh := hi.eh; have f_expired := hi.expired; have f_anon := hi.anon; have f_dialout := hi.dialout; have f_count := hi.count; have f_orph_virt := hi.orph_virt; have f_incall := hi.incall; have f_count_le := hi.count_le; clear hi; (intros; (try simp only [hubf] at *); grind [mem_removeL, nodup_removeL, removeL_nil, length_removeL_le]))
  case vtable =>
    first
      | (have f_vtable := hi.vtable; have f_virt := hi.virt; have f_fresh := hi.fresh; clear hi; (intros; (try simp only [hubf] at *); grind [mem_removeL, nodup_removeL, removeL_nil, length_removeL_le]))
      | (have f_fresh := hi.fresh; have f_mem_room := hi.mem_room; have f_room_mem := hi.room_mem; have f_nonempty := hi.nonempty; have f_nodup := hi.nodup; have f_roomL_iff := hi.roomL_iff; have f_roomL_nodup := hi.roomL_nodup; have f_userL_iff := hi.userL_iff; have f_userL_nodup := hi.userL_nodup; have f_sessL_iff := hi.sessL_iff; have f_rs_fwd := hi.rs_fwd; have f_rs_room := hi.rs_room; have f_virt := hi.virt; have f_children := hi.children; have f_vtable := hi.vtable; have f_conn_iff := hi.conn_iff; have f_conn_open := hi.conn_open; have f_eh := hi.eh; have f_expired := hi.expired; have f_anon := hi.anon; have f_dialout := hi.dialout; have f_count := hi.count; have f_orph_virt := hi.orph_virt; have f_incall := hi.incall; have f_count_le := hi.count_le; clear hi; (intros; (try simp only [hubf] at *); grind [mem_removeL, nodup_removeL, removeL_nil, length_removeL_le]))
  case conn_iff =>
    first
      | (have f_conn_iff := hi.conn_iff; have f_fresh := hi.fresh; have f_virt := hi.virt; clear hi; (intros; (try simp only [hubf] at *); grind [mem_removeL, nodup_removeL, removeL_nil, length_removeL_le]))
      | (have f_fresh := hi.fresh; have f_mem_room := hi.mem_room; have f_room_mem := hi.room_mem; have f_nonempty := hi.nonempty; have f_nodup := hi.nodup; have f_roomL_iff := hi.roomL_iff; have f_roomL_nodup := hi.roomL_nodup; have f_userL_iff := hi.userL_iff; have f_userL_nodup := hi.userL_nodup; have f_sessL_iff := hi.sessL_iff; have f_rs_fwd := hi.rs_fwd; have f_rs_room := hi.rs_room; have f_virt := hi.virt; have f_children := hi.children; have f_vtable := hi.vtable; have f_conn_iff := hi.conn_iff; have f_conn_open := hi.conn_open; have f_eh := hi.eh; have f_expired := hi.expired; have f_anon := hi.anon; have f_dialout := hi.dialout; have f_count := hi.count; have f_orph_virt := hi.orph_virt; have f_incall := hi.incall; have f_count_le := hi.count_le; clear hi; (intros; (try simp only [hubf] at *); grind [mem_removeL, nodup_removeL, removeL_nil, length_removeL_le]))
  case conn_open =>
    first
      | (have f_conn_open := hi.conn_open; have f_conn_iff := hi.conn_iff; clear hi; (intros; (try simp only [hubf] at *); grind [mem_removeL, nodup_removeL, removeL_nil, length_removeL_le]))
      | (have f_fresh := hi.fresh; have f_mem_room := hi.mem_room; have f_room_mem := hi.room_mem; have f_nonempty := hi.nonempty; have f_nodup := hi.nodup; have f_roomL_iff := hi.roomL_iff; have f_roomL_nodup := hi.roomL_nodup; have f_userL_iff := hi.userL_iff; have f_userL_nodup := hi.userL_nodup; have f_sessL_iff := hi.sessL_iff; have f_rs_fwd := hi.rs_fwd; have f_rs_room := hi.rs_room; have f_virt := hi.virt; have f_children := hi.children; have f_vtable := hi.vtable; have f_conn_iff := hi.conn_iff; have f_conn_open := hi.conn_open; have f_eh := hi.eh; have f_expired := hi.expired; have f_anon := hi.anon; have f_dialout := hi.dialout; have f_count := hi.count; have f_orph_virt := hi.orph_virt; have f_incall := hi.incall; have f_count_le := hi.count_le; clear hi; (intros; (try simp only [hubf] at *); grind [mem_removeL, nodup_removeL, removeL_nil, length_removeL_le]))
  case eh =>
    first
      | (have f_eh := hi.eh; have f_conn_iff := hi.conn_iff; have f_conn_open := hi.conn_open; clear hi; (intros; (try simp only [hubf] at *); grind [mem_removeL, nodup_removeL, removeL_nil, length_removeL_le]))
      | (have f_fresh := hi.fresh; have f_mem_room := hi.mem_room; have f_room_mem := hi.room_mem; have f_nonempty := hi.nonempty; have f_nodup := hi.nodup; have f_roomL_iff := hi.roomL_iff; have f_roomL_nodup := hi.roomL_nodup; have f_userL_iff := hi.userL_iff; have f_userL_nodup := hi.userL_nodup; have f_sessL_iff := hi.sessL_iff; have f_rs_fwd := hi.rs_fwd; have f_rs_room := hi.rs_room; have f_virt := hi.virt; have f_children := hi.children; have f_vtable := hi.vtable; have f_conn_iff := hi.conn_iff; have f_conn_open := hi.conn_open; have f_eh := hi.eh; have f_expired := hi.expired; have f_anon := hi.anon; have f_dialout := hi.dialout; have f_count := hi.count; have f_orph_virt := hi.orph_virt; have f_incall := hi.incall; have f_count_le := hi.count_le; clear hi; (intros; (try simp only [hubf] at *); grind [mem_removeL, nodup_removeL, removeL_nil, length_removeL_le]))
  case expired =>
    first
      | (have f_expired := hi.expired; have f_fresh := hi.fresh; clear hi; (intros; (try simp only [hubf] at *); grind [mem_removeL, nodup_removeL, removeL_nil, length_removeL_le]))
      | (have f_fresh := hi.fresh; have f_mem_room := hi.mem_room; have f_room_mem := hi.room_mem; have f_nonempty := hi.nonempty; have f_nodup := hi.nodup; have f_roomL_iff := hi.roomL_iff; have f_roomL_nodup := hi.roomL_nodup; have f_userL_iff := hi.userL_iff; have f_userL_nodup := hi.userL_nodup; have f_sessL_iff := hi.sessL_iff; have f_rs_fwd := hi.rs_fwd; have f_rs_room := hi.rs_room; have f_virt := hi.virt; have f_children := hi.children; have f_vtable := hi.vtable; have f_conn_iff := hi.conn_iff; have f_conn_open := hi.conn_open; have f_eh := hi.eh; have f_expired := hi.expired; have f_anon := hi.anon; have f_dialout := hi.dialout; have f_count := hi.count; have f_orph_virt := hi.orph_virt; have f_incall := hi.incall; have f_count_le := hi.count_le; clear hi; (intros; (try simp only [hubf] at *); grind [mem_removeL, nodup_removeL, removeL_nil, length_removeL_le]))
  case anon =>
    first
      | (have f_anon := hi.anon; have f_fresh := hi.fresh; clear hi; (intros; (try simp only [hubf] at *); grind [mem_removeL, nodup_removeL, removeL_nil, length_removeL_le]))
      | (have f_fresh := hi.fresh; have f_mem_room := hi.mem_room; have f_room_mem := hi.room_mem; have f_nonempty := hi.nonempty; have f_nodup := hi.nodup; have f_roomL_iff := hi.roomL_iff; have f_roomL_nodup := hi.roomL_nodup; have f_userL_iff := hi.userL_iff; have f_userL_nodup := hi.userL_nodup; have f_sessL_iff := hi.sessL_iff; have f_rs_fwd := hi.rs_fwd; have f_rs_room := hi.rs_room; have f_virt := hi.virt; have f_children := hi.children; have f_vtable := hi.vtable; have f_conn_iff := hi.conn_iff; have f_conn_open := hi.conn_open; have f_eh := hi.eh; have f_expired := hi.expired; have f_anon := hi.anon; have f_dialout := hi.dialout; have f_count := hi.count; have f_orph_virt := hi.orph_virt; have f_incall := hi.incall; have f_count_le := hi.count_le; clear hi; (intros; (try simp only [hubf] at *); grind [mem_removeL, nodup_removeL, removeL_nil, length_removeL_le]))
  case dialout =>
    first
      | (have f_dialout := hi.dialout; have f_fresh := hi.fresh; clear hi; (intros; (try simp only [hubf] at *); grind [mem_removeL, nodup_removeL, removeL_nil, length_removeL_le]))
      | (have f_fresh := hi.fresh; have f_mem_room := hi.mem_room; have f_room_mem := hi.room_mem; have f_nonempty := hi.nonempty; have f_nodup := hi.nodup; have f_roomL_iff := hi.roomL_iff; have f_roomL_nodup := hi.roomL_nodup; have f_userL_iff := hi.userL_iff; have f_userL_nodup := hi.userL_nodup; have f_sessL_iff := hi.sessL_iff; have f_rs_fwd := hi.rs_fwd; have f_rs_room := hi.rs_room; have f_virt := hi.virt; have f_children := hi.children; have f_vtable := hi.vtable; have f_conn_iff := hi.conn_iff; have f_conn_open := hi.conn_open; have f_eh := hi.eh; have f_expired := hi.expired; have f_anon := hi.anon; have f_dialout := hi.dialout; have f_count := hi.count; have f_orph_virt := hi.orph_virt; have f_incall := hi.incall; have f_count_le := hi.count_le; clear hi; (intros; (try simp only [hubf] at *); grind [mem_removeL, nodup_removeL, removeL_nil, length_removeL_le]))
  case count =>
    first
      | (have f_count := hi.count; have f_fresh := hi.fresh; clear hi; (intros; (try simp only [hubf] at *); grind [mem_removeL, nodup_removeL, removeL_nil, length_removeL_le]))
      | (have f_fresh := hi.fresh; have f_mem_room := hi.mem_room; have f_room_mem := hi.room_mem; have f_nonempty := hi.nonempty; have f_nodup := hi.nodup; have f_roomL_iff := hi.roomL_iff; have f_roomL_nodup := hi.roomL_nodup; have f_userL_iff := hi.userL_iff; have f_userL_nodup := hi.userL_nodup; have f_sessL_iff := hi.sessL_iff; have f_rs_fwd := hi.rs_fwd; have f_rs_room := hi.rs_room; have f_virt := hi.virt; have f_children := hi.children; have f_vtable := hi.vtable; have f_conn_iff := hi.conn_iff; have f_conn_open := hi.conn_open; have f_eh := hi.eh; have f_expired := hi.expired; have f_anon := hi.anon; have f_dialout := hi.dialout; have f_count := hi.count; have f_orph_virt := hi.orph_virt; have f_incall := hi.incall; have f_count_le := hi.count_le; clear hi; (intros; (try simp only [hubf] at *); grind [mem_removeL, nodup_removeL, removeL_nil, length_removeL_le]))
  case orph_virt =>
    first
      | (have f_orph_virt := hi.orph_virt; have f_fresh := hi.fresh; have f_children := hi.children; have f_virt := hi.virt; clear hi; (intros; (try simp only [hubf] at *); grind [mem_removeL, nodup_removeL, removeL_nil, length_removeL_le]))
      | (have f_fresh := hi.fresh; have f_mem_room := hi.mem_room; have f_room_mem := hi.room_mem; have f_nonempty := hi.nonempty; have f_nodup := hi.nodup; have f_roomL_iff := hi.roomL_iff; have f_roomL_nodup := hi.roomL_nodup; have f_userL_iff := hi.userL_iff; have f_userL_nodup := hi.userL_nodup; have f_sessL_iff := hi.sessL_iff; have f_rs_fwd := hi.rs_fwd; have f_rs_room := hi.rs_room; have f_virt := hi.virt; have f_children := hi.children; have f_vtable := hi.vtable; have f_conn_iff := hi.conn_iff; have f_conn_open := hi.conn_open; have f_eh := hi.eh; have f_expired := hi.expired; have f_anon := hi.anon; have f_dialout := hi.dialout; have f_count := hi.count; have f_orph_virt := hi.orph_virt; have f_incall := hi.incall; have f_count_le := hi.count_le; clear hi; (intros; (try simp only [hubf] at *); grind [mem_removeL, nodup_removeL, removeL_nil, length_removeL_le]))
  case incall =>
    first
      | (have f_incall := hi.incall; have f_mem_room := hi.mem_room; clear hi; (intros; (try simp only [hubf] at *); grind [mem_removeL, nodup_removeL, removeL_nil, length_removeL_le]))
      | (have f_fresh := hi.fresh; have f_mem_room := hi.mem_room; have f_room_mem := hi.room_mem; have f_nonempty := hi.nonempty; have f_nodup := hi.nodup; have f_roomL_iff := hi.roomL_iff; have f_roomL_nodup := hi.roomL_nodup; have f_userL_iff := hi.userL_iff; have f_userL_nodup := hi.userL_nodup; have f_sessL_iff := hi.sessL_iff; have f_rs_fwd := hi.rs_fwd; have f_rs_room := hi.rs_room; have f_virt := hi.virt; have f_children := hi.children; have f_vtable := hi.vtable; have f_conn_iff := hi.conn_iff; have f_conn_open := hi.conn_open; have f_eh := hi.eh; have f_expired := hi.expired; have f_anon := hi.anon; have f_dialout := hi.dialout; have f_count := hi.count; have f_orph_virt := hi.orph_virt; have f_incall := hi.incall; have f_count_le := hi.count_le; clear hi; (intros; (try simp only [hubf] at *); grind [mem_removeL, nodup_removeL, removeL_nil, length_removeL_le]))
  case count_le =>
    first
      | (have f_count_le := hi.count_le; clear hi; (intros; (try simp only [hubf] at *); grind [mem_removeL, nodup_removeL, removeL_nil, length_removeL_le]))
      | (have f_fresh := hi.fresh; have f_mem_room := hi.mem_room; have f_room_mem := hi.room_mem; have f_nonempty := hi.nonempty; have f_nodup := hi.nodup; have f_roomL_iff := hi.roomL_iff; have f_roomL_nodup := hi.roomL_nodup; have f_userL_iff := hi.userL_iff; have f_userL_nodup := hi.userL_nodup; have f_sessL_iff := hi.sessL_iff; have f_rs_fwd := hi.rs_fwd; have f_rs_room := hi.rs_room; have f_virt := hi.virt; have f_children := hi.children; have f_vtable := hi.vtable; have f_conn_iff := hi.conn_iff; have f_conn_open := hi.conn_open; have f_eh := hi.eh; have f_expired := hi.expired; have f_anon := hi.anon; have f_dialout := hi.dialout; have f_count := hi.count; have f_orph_virt := hi.orph_virt; have f_incall := hi.incall; have f_count_le := hi.count_le; clear hi; (intros; (try simp only [hubf] at *); grind [mem_removeL, nodup_removeL, removeL_nil, length_removeL_le]))

set_option maxHeartbeats 4000000 in
theorem InvG.setRoom_same {orph : List Nat} {h : Hub} (hi : InvX orph h) {b : Nat} {r : String} {rm rm' : Room}
    (hrm : h.rooms b r = some rm) (hm : rm'.members = rm.members)
    (hic : ∀ s, s ∈ rm'.inCall → s ∈ rm.members) : InvX orph (setRoom h b r (some rm')) := by
  constructor
  case fresh =>
    first
      | (have f_fresh := hi.fresh; clear hi; (intros; (try simp only [hubf] at *); grind [mem_removeL, nodup_removeL, removeL_nil, length_removeL_le]))
      | (have f_fresh := hi.fresh; have f_mem_room := hi.mem_room; have f_room_mem := hi.room_mem; have f_nonempty := hi.nonempty; have f_nodup := hi.nodup; have f_roomL_iff := hi.roomL_iff; have f_roomL_nodup := hi.roomL_nodup; have f_userL_iff := hi.userL_iff; have f_userL_nodup := hi.userL_nodup; have f_sessL_iff := hi.sessL_iff; have f_rs_fwd := hi.rs_fwd; have f_rs_room := hi.rs_room; have f_virt := hi.virt; have f_children := hi.children; have f_vtable := hi.vtable; have f_conn_iff := hi.conn_iff; have f_conn_open := hi.conn_open; have f_eh := hi.eh; have f_expired := hi.expired; have f_anon := hi.anon; have f_dialout := hi.dialout; have f_count := hi.count; have f_orph_virt := hi.orph_virt; have f_incall := hi.incall; have f_count_le := hi.count_le; clear hi; (intros; (try simp only [hubf] at *); grind [mem_removeL, nodup_removeL, removeL_nil, length_removeL_le]))
  case mem_room =>
    first
      | (have f_mem_room := hi.mem_room; have f_fresh := hi.fresh; clear hi; (intros; (try simp only [hubf] at *); grind [mem_removeL, nodup_removeL, removeL_nil, length_removeL_le]))
      | (have f_fresh := hi.fresh; have f_mem_room := hi.mem_room; have f_room_mem := hi.room_mem; have f_nonempty := hi.nonempty; have f_nodup := hi.nodup; have f_roomL_iff := hi.roomL_iff; have f_roomL_nodup := hi.roomL_nodup; have f_userL_iff := hi.userL_iff; have f_userL_nodup := hi.userL_nodup; have f_sessL_iff := hi.sessL_iff; have f_rs_fwd := hi.rs_fwd; have f_rs_room := hi.rs_room; have f_virt := hi.virt; have f_children := hi.children; have f_vtable := hi.vtable; have f_conn_iff := hi.conn_iff; have f_conn_open := hi.conn_open; have f_eh := hi.eh; have f_expired := hi.expired; have f_anon := hi.anon; have f_dialout := hi.dialout; have f_count := hi.count; have f_orph_virt := hi.orph_virt; have f_incall := hi.incall; have f_count_le := hi.count_le; clear hi; (intros; (try simp only [hubf] at *); grind [mem_removeL, nodup_removeL, removeL_nil, length_removeL_le]))
  case room_mem =>
    first
      | (have f_room_mem := hi.room_mem; have f_mem_room := hi.mem_room; have f_fresh := hi.fresh; clear hi; (intros; (try simp only [hubf] at *); grind [mem_removeL, nodup_removeL, removeL_nil, length_removeL_le]))
      | (have f_fresh := hi.fresh; have f_mem_room := hi.mem_room; have f_room_mem := hi.room_mem; have f_nonempty := hi.nonempty; have f_nodup := hi.nodup; have f_roomL_iff := hi.roomL_iff; have f_roomL_nodup := hi.roomL_nodup; have f_userL_iff := hi.userL_iff; have f_userL_nodup := hi.userL_nodup; have f_sessL_iff := hi.sessL_iff; have f_rs_fwd := hi.rs_fwd; have f_rs_room := hi.rs_room; have f_virt := hi.virt; have f_children := hi.children; have f_vtable := hi.vtable; have f_conn_iff := hi.conn_iff; have f_conn_open := hi.conn_open; have f_eh := hi.eh; have f_expired := hi.expired; have f_anon := hi.anon; have f_dialout := hi.dialout; have f_count := hi.count; have f_orph_virt := hi.orph_virt; have f_incall := hi.incall; have f_count_le := hi.count_le; clear hi; (intros; (try simp only [hubf] at *); grind [mem_removeL, nodup_removeL, removeL_nil, length_removeL_le]))
  case nonempty =>
    first
      | (have f_nonempty := hi.nonempty; have f_mem_room := hi.mem_room; clear hi; (intros; (try simp only [hubf] at *); grind [mem_removeL, nodup_removeL, removeL_nil, length_removeL_le]))
      | (have f_fresh := hi.fresh; have f_mem_room := hi.mem_room; have f_room_mem := hi.room_mem; have f_nonempty := hi.nonempty; have f_nodup := hi.nodup; have f_roomL_iff := hi.roomL_iff; have f_roomL_nodup := hi.roomL_nodup; have f_userL_iff := hi.userL_iff; have f_userL_nodup := hi.userL_nodup; have f_sessL_iff := hi.sessL_iff; have f_rs_fwd := hi.rs_fwd; have f_rs_room := hi.rs_room; have f_virt := hi.virt; have f_children := hi.children; have f_vtable := hi.vtable; have f_conn_iff := hi.conn_iff; have f_conn_open := hi.conn_open; have f_eh := hi.eh; have f_expired := hi.expired; have f_anon := hi.anon; have f_dialout := hi.dialout; have f_count := hi.count; have f_orph_virt := hi.orph_virt; have f_incall := hi.incall; have f_count_le := hi.count_le; clear hi; (intros; (try simp only [hubf] at *); grind [mem_removeL, nodup_removeL, removeL_nil, length_removeL_le]))
  case nodup =>
    first
      | (have f_nodup := hi.nodup; clear hi; (intros; (try simp only [hubf] at *); grind [mem_removeL, nodup_removeL, removeL_nil, length_removeL_le]))
      | (have f_fresh := hi.fresh; have f_mem_room := hi.mem_room; have f_room_mem := hi.room_mem; have f_nonempty := hi.nonempty; have f_nodup := hi.nodup; have f_roomL_iff := hi.roomL_iff; have f_roomL_nodup := hi.roomL_nodup; have f_userL_iff := hi.userL_iff; have f_userL_nodup := hi.userL_nodup; have f_sessL_iff := hi.sessL_iff; have f_rs_fwd := hi.rs_fwd; have f_rs_room := hi.rs_room; have f_virt := hi.virt; have f_children := hi.children; have f_vtable := hi.vtable; have f_conn_iff := hi.conn_iff; have f_conn_open := hi.conn_open; have f_eh := hi.eh; have f_expired := hi.expired; have f_anon := hi.anon; have f_dialout := hi.dialout; have f_count := hi.count; have f_orph_virt := hi.orph_virt; have f_incall := hi.incall; have f_count_le := hi.count_le; clear hi; (intros; (try simp only [hubf] at *); grind [mem_removeL, nodup_removeL, removeL_nil, length_removeL_le]))
  case roomL_iff =>
    first
      | (have f_roomL_iff := hi.roomL_iff; have f_fresh := hi.fresh; have f_room_mem := hi.room_mem; have f_mem_room := hi.mem_room; clear hi; (intros; (try simp only [hubf] at *); grind [mem_removeL, nodup_removeL, removeL_nil, length_removeL_le]))
      | (have f_fresh := hi.fresh; have f_mem_room := hi.mem_room; have f_room_mem := hi.room_mem; have f_nonempty := hi.nonempty; have f_nodup := hi.nodup; have f_roomL_iff := hi.roomL_iff; have f_roomL_nodup := hi.roomL_nodup; have f_userL_iff := hi.userL_iff; have f_userL_nodup := hi.userL_nodup; have f_sessL_iff := hi.sessL_iff; have f_rs_fwd := hi.rs_fwd; have f_rs_room := hi.rs_room; have f_virt := hi.virt; have f_children := hi.children; have f_vtable := hi.vtable; have f_conn_iff := hi.conn_iff; have f_conn_open := hi.conn_open; have f_eh := hi.eh; have f_expired := hi.expired; have f_anon := hi.anon; have f_dialout := hi.dialout; have f_count := hi.count; have f_orph_virt := hi.orph_virt; have f_incall := hi.incall; have f_count_le := hi.count_le; clear hi; (intros; (try simp only [hubf] at *); grind [mem_removeL, nodup_removeL, removeL_nil, length_removeL_le]))
  case roomL_nodup =>
    first
      | (have f_roomL_nodup := hi.roomL_nodup; have f_roomL_iff := hi.roomL_iff; clear hi; (intros; (try simp only [hubf] at *); grind [mem_removeL, nodup_removeL, removeL_nil, length_removeL_le]))
      | (have f_fresh := hi.fresh; have f_mem_room := hi.mem_room; have f_room_mem := hi.room_mem; have f_nonempty := hi.nonempty; have f_nodup := hi.nodup; have f_roomL_iff := hi.roomL_iff; have f_roomL_nodup := hi.roomL_nodup; have f_userL_iff := hi.userL_iff; have f_userL_nodup := hi.userL_nodup; have f_sessL_iff := hi.sessL_iff; have f_rs_fwd := hi.rs_fwd; have f_rs_room := hi.rs_room; have f_virt := hi.virt; have f_children := hi.children; have f_vtable := hi.vtable; have f_conn_iff := hi.conn_iff; have f_conn_open := hi.conn_open; have f_eh := hi.eh; have f_expired := hi.expired; have f_anon := hi.anon; have f_dialout := hi.dialout; have f_count := hi.count; have f_orph_virt := hi.orph_virt; have f_incall := hi.incall; have f_count_le := hi.count_le; clear hi; (intros; (try simp only [hubf] at *); grind [mem_removeL, nodup_removeL, removeL_nil, length_removeL_le]))
  case userL_iff =>
    first
      | (have f_userL_iff := hi.userL_iff; have f_fresh := hi.fresh; clear hi; (intros; (try simp only [hubf] at *); grind [mem_removeL, nodup_removeL, removeL_nil, length_removeL_le]))
      | (have f_fresh := hi.fresh; have f_mem_room := hi.mem_room; have f_room_mem := hi.room_mem; have f_nonempty := hi.nonempty; have f_nodup := hi.nodup; have f_roomL_iff := hi.roomL_iff; have f_roomL_nodup := hi.roomL_nodup; have f_userL_iff := hi.userL_iff; have f_userL_nodup := hi.userL_nodup; have f_sessL_iff := hi.sessL_iff; have f_rs_fwd := hi.rs_fwd; have f_rs_room := hi.rs_room; have f_virt := hi.virt; have f_children := hi.children; have f_vtable := hi.vtable; have f_conn_iff := hi.conn_iff; have f_conn_open := hi.conn_open; have f_eh := hi.eh; have f_expired := hi.expired; have f_anon := hi.anon; have f_dialout := hi.dialout; have f_count := hi.count; have f_orph_virt := hi.orph_virt; have f_incall := hi.incall; have f_count_le := hi.count_le; clear hi; (intros; (try simp only [hubf] at *); grind [mem_removeL, nodup_removeL, removeL_nil, length_removeL_le]))
  case userL_nodup =>
    first
      | (have f_userL_nodup := hi.userL_nodup; have f_userL_iff := hi.userL_iff; clear hi; (intros; (try simp only [hubf] at *); grind [mem_removeL, nodup_removeL, removeL_nil, length_removeL_le]))
      | (have f_fresh := hi.fresh; have f_mem_room := hi.mem_room; have f_room_mem := hi.room_mem; have f_nonempty := hi.nonempty; have f_nodup := hi.nodup; have f_roomL_iff := hi.roomL_iff; have f_roomL_nodup := hi.roomL_nodup; have f_userL_iff := hi.userL_iff; have f_userL_nodup := hi.userL_nodup; have f_sessL_iff := hi.sessL_iff; have f_rs_fwd := hi.rs_fwd; have f_rs_room := hi.rs_room; have f_virt := hi.virt; have f_children := hi.children; have f_vtable := hi.vtable; have f_conn_iff := hi.conn_iff; have f_conn_open := hi.conn_open; have f_eh := hi.eh; have f_expired := hi.expired; have f_anon := hi.anon; have f_dialout := hi.dialout; have f_count := hi.count; have f_orph_virt := hi.orph_virt; have f_incall := hi.incall; have f_count_le := hi.count_le; clear hi; (intros; (try simp only [hubf] at *); grind [mem_removeL, nodup_removeL, removeL_nil, length_removeL_le]))
  case sessL_iff =>
    first
      | (have f_sessL_iff := hi.sessL_iff; have f_fresh := hi.fresh; clear hi; (intros; (try simp only [hubf] at *); grind [mem_removeL, nodup_removeL, removeL_nil, length_removeL_le]))
      | (have f_fresh := hi.fresh; have f_mem_room := hi.mem_room; have f_room_mem := hi.room_mem; have f_nonempty := hi.nonempty; have f_nodup := hi.nodup; have f_roomL_iff := hi.roomL_iff; have f_roomL_nodup := hi.roomL_nodup; have f_userL_iff := hi.userL_iff; have f_userL_nodup := hi.userL_nodup; have f_sessL_iff := hi.sessL_iff; have f_rs_fwd := hi.rs_fwd; have f_rs_room := hi.rs_room; have f_virt := hi.virt; have f_children := hi.children; have f_vtable := hi.vtable; have f_conn_iff := hi.conn_iff; have f_conn_open := hi.conn_open; have f_eh := hi.eh; have f_expired := hi.expired; have f_anon := hi.anon; have f_dialout := hi.dialout; have f_count := hi.count; have f_orph_virt := hi.orph_virt; have f_incall := hi.incall; have f_count_le := hi.count_le; clear hi; (intros; (try simp only [hubf] at *); grind [mem_removeL, nodup_removeL, removeL_nil, length_removeL_le]))
  case rs_fwd =>
    first
      | (have f_rs_fwd := hi.rs_fwd; have f_rs_room := hi.rs_room; have f_fresh := hi.fresh; clear hi; (intros; (try simp only [hubf] at *); grind [mem_removeL, nodup_removeL, removeL_nil, length_removeL_le]))
      | (have f_fresh := hi.fresh; have f_mem_room := hi.mem_room; have f_room_mem := hi.room_mem; have f_nonempty := hi.nonempty; have f_nodup := hi.nodup; have f_roomL_iff := hi.roomL_iff; have f_roomL_nodup := hi.roomL_nodup; have f_userL_iff := hi.userL_iff; have f_userL_nodup := hi.userL_nodup; have f_sessL_iff := hi.sessL_iff; have f_rs_fwd := hi.rs_fwd; have f_rs_room := hi.rs_room; have f_virt := hi.virt; have f_children := hi.children; have f_vtable := hi.vtable; have f_conn_iff := hi.conn_iff; have f_conn_open := hi.conn_open; have f_eh := hi.eh; have f_expired := hi.expired; have f_anon := hi.anon; have f_dialout := hi.dialout; have f_count := hi.count; have f_orph_virt := hi.orph_virt; have f_incall := hi.incall; have f_count_le := hi.count_le; clear hi; (intros; (try simp only [hubf] at *); grind [mem_removeL, nodup_removeL, removeL_nil, length_removeL_le]))
  case rs_room =>
    first
      | (have f_rs_room := hi.rs_room; have f_rs_fwd := hi.rs_fwd; have f_fresh := hi.fresh; have f_room_mem := hi.room_mem; clear hi; (intros; (try simp only [hubf] at *); grind [mem_removeL, nodup_removeL, removeL_nil, length_removeL_le]))
      | (have f_fresh := hi.fresh; have f_mem_room := hi.mem_room; have f_room_mem := hi.room_mem; have f_nonempty := hi.nonempty; have f_nodup := hi.nodup; have f_roomL_iff := hi.roomL_iff; have f_roomL_nodup := hi.roomL_nodup; have f_userL_iff := hi.userL_iff; have f_userL_nodup := hi.userL_nodup; have f_sessL_iff := hi.sessL_iff; have f_rs_fwd := hi.rs_fwd; have f_rs_room := hi.rs_room; have f_virt := hi.virt; have f_children := hi.children; have f_vtable := hi.vtable; have f_conn_iff := hi.conn_iff; have f_conn_open := hi.conn_open; have f_eh := hi.eh; have f_expired := hi.expired; have f_anon := hi.anon; have f_dialout := hi.dialout; have f_count := hi.count; have f_orph_virt := hi.orph_virt; have f_incall := hi.incall; have f_count_le := hi.count_le; clear hi; (intros; (try simp only [hubf] at *); grind [mem_removeL, nodup_removeL, removeL_nil, length_removeL_le]))
  case virt =>
    first
      | (have f_virt := hi.virt; have f_children := hi.children; have f_fresh := hi.fresh; clear hi; (intros; (try simp only [hubf] at *); grind [mem_removeL, nodup_removeL, removeL_nil, length_removeL_le]))
      | (have f_fresh := hi.fresh; have f_mem_room := hi.mem_room; have f_room_mem := hi.room_mem; have f_nonempty := hi.nonempty; have f_nodup := hi.nodup; have f_roomL_iff := hi.roomL_iff; have f_roomL_nodup := hi.roomL_nodup; have f_userL_iff := hi.userL_iff; have f_userL_nodup := hi.userL_nodup; have f_sessL_iff := hi.sessL_iff; have f_rs_fwd := hi.rs_fwd; have f_rs_room := hi.rs_room; have f_virt := hi.virt; have f_children := hi.children; have f_vtable := hi.vtable; have f_conn_iff := hi.conn_iff; have f_conn_open := hi.conn_open; have f_eh := hi.eh; have f_expired := hi.expired; have f_anon := hi.anon; have f_dialout := hi.dialout; have f_count := hi.count; have f_orph_virt := hi.orph_virt; have f_incall := hi.incall; have f_count_le := hi.count_le; clear hi; (intros; (try simp only [hubf] at *); grind [mem_removeL, nodup_removeL, removeL_nil, length_removeL_le]))
  case children =>
    first
      | (have f_children := hi.children; have f_virt := hi.virt; have f_fresh := hi.fresh; clear hi; (intros; (try simp only [hubf] at *); grind [mem_removeL, nodup_removeL, removeL_nil, length_removeL_le]))
      | (have f_fresh := hi.fresh; have f_mem_room := hi.mem_room; have f_room_mem := hi.room_mem; have f_nonempty := hi.nonempty; have f_nodup := hi.nodup; have f_roomL_iff := hi.roomL_iff; have f_roomL_nodup := hi.roomL_nodup; have f_userL_iff := hi.userL_iff; have f_userL_nodup := hi.userL_nodup; have f_sessL_iff := hi.sessL_iff; have f_rs_fwd := hi.rs_fwd; have f_rs_room := hi.rs_room; have f_virt := hi.virt; have f_children := hi.children; have f_vtable := hi.vtable; have f_conn_iff := hi.conn_iff; have f_conn_open := hi.conn_open; have f_eh := hi.eh; have f_expired := hi.expired; have f_anon := hi.anon; have f_dialout := hi.dialout; have f_count := hi.count; have f_orph_virt := hi.orph_virt; have f_incall := hi.incall; have f_count_le := hi.count_le; clear hi; (intros; (try simp only [hubf] at *); grind [mem_removeL, nodup_removeL, removeL_nil, length_removeL_le]))
  case vtable =>
    first
      | (have f_vtable := hi.vtable; have f_virt := hi.virt; have f_fresh := hi.fresh; clear hi; (intros; (try simp only [hubf] at *); grind [mem_removeL, nodup_removeL, removeL_nil, length_removeL_le]))
      | (have f_fresh := hi.fresh; have f_mem_room := hi.mem_room; have f_room_mem := hi.room_mem; have f_nonempty := hi.nonempty; have f_nodup := hi.nodup; have f_roomL_iff := hi.roomL_iff; have f_roomL_nodup := hi.roomL_nodup; have f_userL_iff := hi.userL_iff; have f_userL_nodup := hi.userL_nodup; have f_sessL_iff := hi.sessL_iff; have f_rs_fwd := hi.rs_fwd; have f_rs_room := hi.rs_room; have f_virt := hi.virt; have f_children := hi.children; have f_vtable := hi.vtable; have f_conn_iff := hi.conn_iff; have f_conn_open := hi.conn_open; have f_eh := hi.eh; have f_expired := hi.expired; have f_anon := hi.anon; have f_dialout := hi.dialout; have f_count := hi.count; have f_orph_virt := hi.orph_virt; have f_incall := hi.incall; have f_count_le := hi.count_le; clear hi; (intros; (try simp only [hubf] at *); grind [mem_removeL, nodup_removeL, removeL_nil, length_removeL_le]))
  case conn_iff =>
    first
      | (have f_conn_iff := hi.conn_iff; have f_fresh := hi.fresh; have f_virt := hi.virt; clear hi; (intros; (try simp only [hubf] at *); grind [mem_removeL, nodup_removeL, removeL_nil, length_removeL_le]))
      | (have f_fresh := hi.fresh; have f_mem_room := hi.mem_room; have f_room_mem := hi.room_mem; have f_nonempty := hi.nonempty; have f_nodup := hi.nodup; have f_roomL_iff := hi.roomL_iff; have f_roomL_nodup := hi.roomL_nodup; have f_userL_iff := hi.userL_iff; have f_userL_nodup := hi.userL_nodup; have f_sessL_iff := hi.sessL_iff; have f_rs_fwd := hi.rs_fwd; have f_rs_room := hi.rs_room; have f_virt := hi.virt; have f_children := hi.children; have f_vtable := hi.vtable; have f_conn_iff := hi.conn_iff; have f_conn_open := hi.conn_open; have f_eh := hi.eh; have f_expired := hi.expired; have f_anon := hi.anon; have f_dialout := hi.dialout; have f_count := hi.count; have f_orph_virt := hi.orph_virt; have f_incall := hi.incall; have f_count_le := hi.count_le; clear hi; (intros; (try simp only [hubf] at *); grind [mem_removeL, nodup_removeL, removeL_nil, length_removeL_le]))
  case conn_open =>
    first
      | (have f_conn_open := hi.conn_open; have f_conn_iff := hi.conn_iff; clear hi; (intros; (try simp only [hubf] at *); grind [mem_removeL, nodup_removeL, removeL_nil, length_removeL_le]))
      | (have f_fresh := hi.fresh; have f_mem_room := hi.mem_room; have f_room_mem := hi.room_mem; have f_nonempty := hi.nonempty; have f_nodup := hi.nodup; have f_roomL_iff := hi.roomL_iff; have f_roomL_nodup := hi.roomL_nodup; have f_userL_iff := hi.userL_iff; have f_userL_nodup := hi.userL_nodup; have f_sessL_iff := hi.sessL_iff; have f_rs_fwd := hi.rs_fwd; have f_rs_room := hi.rs_room; have f_virt := hi.virt; have f_children := hi.children; have f_vtable := hi.vtable; have f_conn_iff := hi.conn_iff; have f_conn_open := hi.conn_open; have f_eh := hi.eh; have f_expired := hi.expired; have f_anon := hi.anon; have f_dialout := hi.dialout; have f_count := hi.count; have f_orph_virt := hi.orph_virt; have f_incall := hi.incall; have f_count_le := hi.count_le; clear hi; (intros; (try simp only [hubf] at *); grind [mem_removeL, nodup_removeL, removeL_nil, length_removeL_le]))
  case eh =>
    first
      | (have f_eh := hi.eh; have f_conn_iff := hi.conn_iff; have f_conn_open := hi.conn_open; clear hi; (intros; (try simp only [hubf] at *); grind [mem_removeL, nodup_removeL, removeL_nil, length_removeL_le]))
      | (have f_fresh := hi.fresh; have f_mem_room := hi.mem_room; have f_room_mem := hi.room_mem; have f_nonempty := hi.nonempty; have f_nodup := hi.nodup; have f_roomL_iff := hi.roomL_iff; have f_roomL_nodup := hi.roomL_nodup; have f_userL_iff := hi.userL_iff; have f_userL_nodup := hi.userL_nodup; have f_sessL_iff := hi.sessL_iff; have f_rs_fwd := hi.rs_fwd; have f_rs_room := hi.rs_room; have f_virt := hi.virt; have f_children := hi.children; have f_vtable := hi.vtable; have f_conn_iff := hi.conn_iff; have f_conn_open := hi.conn_open; have f_eh := hi.eh; have f_expired := hi.expired; have f_anon := hi.anon; have f_dialout := hi.dialout; have f_count := hi.count; have f_orph_virt := hi.orph_virt; have f_incall := hi.incall; have f_count_le := hi.count_le; clear hi; (intros; (try simp only [hubf] at *); grind [mem_removeL, nodup_removeL, removeL_nil, length_removeL_le]))
  case expired =>
    first
      | (have f_expired := hi.expired; have f_fresh := hi.fresh; clear hi; (intros; (try simp only [hubf] at *); grind [mem_removeL, nodup_removeL, removeL_nil, length_removeL_le]))
      | (have f_fresh := hi.fresh; have f_mem_room := hi.mem_room; have f_room_mem := hi.room_mem; have f_nonempty := hi.nonempty; have f_nodup := hi.nodup; have f_roomL_iff := hi.roomL_iff; have f_roomL_nodup := hi.roomL_nodup; have f_userL_iff := hi.userL_iff; have f_userL_nodup := hi.userL_nodup; have f_sessL_iff := hi.sessL_iff; have f_rs_fwd := hi.rs_fwd; have f_rs_room := hi.rs_room; have f_virt := hi.virt; have f_children := hi.children; have f_vtable := hi.vtable; have f_conn_iff := hi.conn_iff; have f_conn_open := hi.conn_open; have f_eh := hi.eh; have f_expired := hi.expired; have f_anon := hi.anon; have f_dialout := hi.dialout; have f_count := hi.count; have f_orph_virt := hi.orph_virt; have f_incall := hi.incall; have f_count_le := hi.count_le; clear hi; (intros; (try simp only [hubf] at *); grind [mem_removeL, nodup_removeL, removeL_nil, length_removeL_le]))
  case anon =>
    first
      | (have f_anon := hi.anon; have f_fresh := hi.fresh; clear hi; (intros; (try simp only [hubf] at *); grind [mem_removeL, nodup_removeL, removeL_nil, length_removeL_le]))
      | (have f_fresh := hi.fresh; have f_mem_room := hi.mem_room; have f_room_mem := hi.room_mem; have f_nonempty := hi.nonempty; have f_nodup := hi.nodup; have f_roomL_iff := hi.roomL_iff; have f_roomL_nodup := hi.roomL_nodup; have f_userL_iff := hi.userL_iff; have f_userL_nodup := hi.userL_nodup; have f_sessL_iff := hi.sessL_iff; have f_rs_fwd := hi.rs_fwd; have f_rs_room := hi.rs_room; have f_virt := hi.virt; have f_children := hi.children; have f_vtable := hi.vtable; have f_conn_iff := hi.conn_iff; have f_conn_open := hi.conn_open; have f_eh := hi.eh; have f_expired := hi.expired; have f_anon := hi.anon; have f_dialout := hi.dialout; have f_count := hi.count; have f_orph_virt := hi.orph_virt; have f_incall := hi.incall; have f_count_le := hi.count_le; clear hi; (intros; (try simp only [hubf] at *); grind [mem_removeL, nodup_removeL, removeL_nil, length_removeL_le]))
  case dialout =>
    first
      | (have f_dialout := hi.dialout; have f_fresh := hi.fresh; clear hi; (intros; (try simp only [hubf] at *); grind [mem_removeL, nodup_removeL, removeL_nil, length_removeL_le]))
      | (have f_fresh := hi.fresh; have f_mem_room := hi.mem_room; have f_room_mem := hi.room_mem; have f_nonempty := hi.nonempty; have f_nodup := hi.nodup; have f_roomL_iff := hi.roomL_iff; have f_roomL_nodup := hi.roomL_nodup; have f_userL_iff := hi.userL_iff; have f_userL_nodup := hi.userL_nodup; have f_sessL_iff := hi.sessL_iff; have f_rs_fwd := hi.rs_fwd; have f_rs_room := hi.rs_room; have f_virt := hi.virt; have f_children := hi.children; have f_vtable := hi.vtable; have f_conn_iff := hi.conn_iff; have f_conn_open := hi.conn_open; have f_eh := hi.eh; have f_expired := hi.expired; have f_anon := hi.anon; have f_dialout := hi.dialout; have f_count := hi.count; have f_orph_virt := hi.orph_virt; have f_incall := hi.incall; have f_count_le := hi.count_le; clear hi; (intros; (try simp only [hubf] at *); grind [mem_removeL, nodup_removeL, removeL_nil, length_removeL_le]))
  case count =>
    first
      | (have f_count := hi.count; have f_fresh := hi.fresh; clear hi; (intros; (try simp only [hubf] at *); grind [mem_removeL, nodup_removeL, removeL_nil, length_removeL_le]))
      | (have f_fresh := hi.fresh; have f_mem_room := hi.mem_room; have f_room_mem := hi.room_mem; have f_nonempty := hi.nonempty; have f_nodup := hi.nodup; have f_roomL_iff := hi.roomL_iff; have f_roomL_nodup := hi.roomL_nodup; have f_userL_iff := hi.userL_iff; have f_userL_nodup := hi.userL_nodup; have f_sessL_iff := hi.sessL_iff; have f_rs_fwd := hi.rs_fwd; have f_rs_room := hi.rs_room; have f_virt := hi.virt; have f_children := hi.children; have f_vtable := hi.vtable; have f_conn_iff := hi.conn_iff; have f_conn_open := hi.conn_open; have f_eh := hi.eh; have f_expired := hi.expired; have f_anon := hi.anon; have f_dialout := hi.dialout; have f_count := hi.count; have f_orph_virt := hi.orph_virt; have f_incall := hi.incall; have f_count_le := hi.count_le; clear hi; (intros; (try simp only [hubf] at *); grind [mem_removeL, nodup_removeL, removeL_nil, length_removeL_le]))
  case orph_virt =>
    first
      | (have f_orph_virt := hi.orph_virt; have f_fresh := hi.fresh; have f_children := hi.children; have f_virt := hi.virt; clear hi; (intros; (try simp only [hubf] at *); grind [mem_removeL, nodup_removeL, removeL_nil, length_removeL_le]))
      | (have f_fresh := hi.fresh; have f_mem_room := hi.mem_room; have f_room_mem := hi.room_mem; have f_nonempty := hi.nonempty; have f_nodup := hi.nodup; have f_roomL_iff := hi.roomL_iff; have f_roomL_nodup := hi.roomL_nodup; have f_userL_iff := hi.userL_iff; have f_userL_nodup := hi.userL_nodup; have f_sessL_iff := hi.sessL_iff; have f_rs_fwd := hi.rs_fwd; have f_rs_room := hi.rs_room; have f_virt := hi.virt; have f_children := hi.children; have f_vtable := hi.vtable; have f_conn_iff := hi.conn_iff; have f_conn_open := hi.conn_open; have f_eh := hi.eh; have f_expired := hi.expired; have f_anon := hi.anon; have f_dialout := hi.dialout; have f_count := hi.count; have f_orph_virt := hi.orph_virt; have f_incall := hi.incall; have f_count_le := hi.count_le; clear hi; (intros; (try simp only [hubf] at *); grind [mem_removeL, nodup_removeL, removeL_nil, length_removeL_le]))
  case incall =>
    first
      | (have f_incall := hi.incall; have f_mem_room := hi.mem_room; clear hi; (intros; (try simp only [hubf] at *); grind [mem_removeL, nodup_removeL, removeL_nil, length_removeL_le]))
      | (have f_fresh := hi.fresh; have f_mem_room := hi.mem_room; have f_room_mem := hi.room_mem; have f_nonempty := hi.nonempty; have f_nodup := hi.nodup; have f_roomL_iff := hi.roomL_iff; have f_roomL_nodup := hi.roomL_nodup; have f_userL_iff := hi.userL_iff; have f_userL_nodup := hi.userL_nodup; have f_sessL_iff := hi.sessL_iff; have f_rs_fwd := hi.rs_fwd; have f_rs_room := hi.rs_room; have f_virt := hi.virt; have f_children := hi.children; have f_vtable := hi.vtable; have f_conn_iff := hi.conn_iff; have f_conn_open := hi.conn_open; have f_eh := hi.eh; have f_expired := hi.expired; have f_anon := hi.anon; have f_dialout := hi.dialout; have f_count := hi.count; have f_orph_virt := hi.orph_virt; have f_incall := hi.incall; have f_count_le := hi.count_le; clear hi; (intros; (try simp only [hubf] at *); grind [mem_removeL, nodup_removeL, removeL_nil, length_removeL_le]))
  case count_le =>
    first
      | (have f_count_le := hi.count_le; clear hi; (intros; (try simp only [hubf] at *); grind [mem_removeL, nodup_removeL, removeL_nil, length_removeL_le]))
      | (have f_fresh := hi.fresh; have f_mem_room := hi.mem_room; have f_room_mem := hi.room_mem; have f_nonempty := hi.nonempty; have f_nodup := hi.nodup; have f_roomL_iff := hi.roomL_iff; have f_roomL_nodup := hi.roomL_nodup; have f_userL_iff := hi.userL_iff; have f_userL_nodup := hi.userL_nodup; have f_sessL_iff := hi.sessL_iff; have f_rs_fwd := hi.rs_fwd; have f_rs_room := hi.rs_room; have f_virt := hi.virt; have f_children := hi.children; have f_vtable := hi.vtable; have f_conn_iff := hi.conn_iff; have f_conn_open := hi.conn_open; have f_eh := hi.eh; have f_expired := hi.expired; have f_anon := hi.anon; have f_dialout := hi.dialout; have f_count := hi.count; have f_orph_virt := hi.orph_virt; have f_incall := hi.incall; have f_count_le := hi.count_le; clear hi; (intros; (try simp only [hubf] at *); grind [mem_removeL, nodup_removeL, removeL_nil, length_removeL_le]))

theorem roomInCallUpdate_inv (a : Acc) (b : Nat) (room : Option String) (s ic : Nat) (hi : Inv a.h)
    (hs : ∀ r rm, room = some r → a.h.rooms b r = some rm → s ∈ rm.members) :
    Inv (roomInCallUpdate a b room s ic).h := by
  unfold roomInCallUpdate
  cases room with
  | none => exact hi
  | some r =>
    simp only []
    cases hrm : a.h.rooms b r with
    | none => exact hi
    | some rm =>
      simp only []
      have hsm := hs r rm rfl hrm
      have hin := fun t ht => hi.incall b r rm t hrm ht
      refine InvG.congr (coreOf (publishUsersChangedWithInternal_core _ _ _) rfl) ?_
      apply hi.setRoom_same hrm
      · split <;> rfl
      · intro t ht
        split at ht
        · simp only [] at ht
          split at ht
          · exact hin t ht
          · simp only [List.mem_append, List.mem_singleton] at ht
            rcases ht with h1 | rfl
            · exact hin t h1
            · exact hsm
        · simp only [] at ht
          exact hin t (mem_removeL.mp ht).1

theorem internalInCall_inv (a : Acc) (s : Nat) (ic : Nat) (hi : Inv a.h) : Inv (internalInCall a s ic).h := by
  unfold internalInCall
  cases hx : a.h.sess s with
  | none => exact hi
  | some x =>
    simp only []
    split
    · exact hi
    · split
      · exact hi
      · have h1 : Inv (setSess a.h s (some { x with inCall := ic })) :=
          hi.setSess_same hx rfl rfl rfl rfl rfl rfl rfl rfl
        apply roomInCallUpdate_inv _ _ _ _ _ h1
        intro r rm hr hrm
        simp only [hubf] at hrm
        obtain ⟨rm', h1, h2⟩ := hi.room_mem' s x r hx hr
        rw [hrm] at h1; cases h1; exact h2

/-! ### room API -/

theorem pubUsers_core (a : Acc) (b : Nat) (users : List String) (m : Msg) : CoreEq a.h (pubUsers a b users m).h :=
  foldl_core _ (fun a u => pubUser_core a b u (.msg m)) _ _

theorem sendToRs_core (b : Nat) (m : AMsg) (a : Acc) (rs : String) : CoreEq a.h (sendToRs b m a rs).h := by
  unfold sendToRs; split
  · exact procSession_core _ _ _
  · exact CoreEq.refl _

theorem sendAll_core (a : Acc) (ss : List Nat) (m : Msg) : CoreEq a.h (sendAll a ss m).h :=
  foldl_core _ (fun a s => sendTo_core a s m) _ _

theorem sendPerms_core (a : Acc) (e : Nat × Option (List String)) : CoreEq a.h (sendPerms a e).h := by
  unfold sendPerms; split
  · exact procSession_core _ _ _
  · exact CoreEq.refl _

theorem apiInvite_inv (a : Acc) (b : Nat) (r : String) (us all : List String) (hi : Inv a.h) :
    Inv (apiInvite a b r us all).h :=
  hi.congr ((pubUsers_core _ _ _ _).trans (pubUsers_core _ _ _ _))

theorem apiDisinvite_inv (a : Acc) (b : Nat) (r : String) (us rss all : List String) (hi : Inv a.h) :
    Inv (apiDisinvite a b r us rss all).h :=
  hi.congr (((pubUsers_core _ _ _ _).trans (foldl_core _ (sendToRs_core b _) _ _)).trans (pubUsers_core _ _ _ _))

theorem apiMessage_inv (a : Acc) (b : Nat) (r data : String) (hi : Inv a.h) : Inv (apiMessage a b r data).h := by
  refine hi.congr ?_
  unfold apiMessage
  core_auto

theorem apiSwitchto_inv (a : Acc) (b : Nat) (r room : String) (rss : List String) (hi : Inv a.h) :
    Inv (apiSwitchto a b r room rss).h := by
  refine hi.congr ?_
  unfold apiSwitchto
  simp only []
  split
  · exact CoreEq.refl _
  · split
    · exact CoreEq.refl _
    · exact foldl_core _ (fun a s => procSession_core a s _) _ _

theorem apiIncallAll_inv (a : Acc) (b : Nat) (r : String) (ic : Nat) (hi : Inv a.h) :
    Inv (apiIncallAll a b r ic).h := by
  unfold apiIncallAll
  cases hrm : a.h.rooms b r with
  | none => exact hi
  | some rm =>
    simp only []
    have hin := hi.incall b r rm
    split
    · split
      · exact hi
      · refine InvG.congr (coreOf (sendAll_core _ _ _) rfl) (hi.setRoom_same hrm rfl ?_)
        intro t ht
        simp only [List.mem_append, List.mem_filter] at ht
        rcases ht with h1 | h1
        · exact hin t hrm h1
        · exact h1.1.1.1
    · split
      · exact InvG.congr (coreOf (sendAll_core _ _ _) rfl) (hi.setRoom_same hrm rfl (by intro t ht; cases ht))
      · exact hi

theorem facts_incall : Generated.Hub.inCallMembersOnly = true := by decide

theorem incallFold_sub (members : List Nat) : ∀ (cs : List PUser) (ic : List Nat),
    (∀ u, u ∈ cs → u.sid ∈ members) → (∀ t, t ∈ ic → t ∈ members) →
    ∀ t, t ∈ cs.foldl (fun ic u => if u.inCall % 2 = 1 then (if ic.contains u.sid then ic else ic ++ [u.sid]) else removeL ic u.sid) ic →
      t ∈ members := by
  intro cs
  induction cs with
  | nil => intro ic _ h t ht; exact h t ht
  | cons u cs ih =>
    intro ic hcs hicm t ht
    simp only [List.foldl_cons] at ht
    apply ih _ (fun v hv => hcs v (List.mem_cons_of_mem _ hv)) _ t ht
    intro t' ht'
    split at ht'
    · split at ht'
      · exact hicm t' ht'
      · simp only [List.mem_append, List.mem_singleton] at ht'
        rcases ht' with h1 | rfl
        · exact hicm t' h1
        · exact hcs u List.mem_cons_self
    · exact hicm t' (mem_removeL.mp ht').1

theorem apiIncall_inv (a : Acc) (b : Nat) (r : String) (ch us : List (String × Nat)) (hi : Inv a.h) :
    Inv (apiIncall a b r ch us).h := by
  unfold apiIncall
  simp only []
  split
  · exact hi
  · cases hrm : a.h.rooms b r with
    | none => exact hi
    | some rm =>
      simp only [facts_incall, if_true]
      refine InvG.congr (coreOf (pubRoom_core _ _ _ _) rfl) (hi.setRoom_same hrm rfl ?_)
      intro t ht
      simp only [] at ht
      refine incallFold_sub rm.members _ _ ?_ (fun t' ht' => hi.incall b r rm t' hrm ht') t ht
      intro u hu
      have := (List.mem_filter.mp hu).2
      simpa using this

theorem apiParticipants_inv (a : Acc) (b : Nat) (r : String) (ch : List (String × Option (List String)))
    (us : List String) (hi : Inv a.h) : Inv (apiParticipants a b r ch us).h := by
  refine hi.congr ?_
  unfold apiParticipants
  simp only []
  split
  · exact CoreEq.refl _
  · have c1 := foldl_core sendPerms sendPerms_core
      (ch.filterMap fun (rs, p) => (lookupRs a.h b rs).map fun s => (s, p)) a
    split
    · exact c1
    · exact c1.trans (pubRoom_core _ _ _ _)

/-! #### deleting a room -/

/-- While room `(b, r)` is being deleted, the sessions in `ms` still name it as their room. -/
def Rdel (b : Nat) (r : String) (ms : List Nat) : Nat → Sess → String → Prop :=
  fun s x r' => x.backend = b ∧ r' = r ∧ s ∈ ms

theorem InvG.weaken {R R' : Nat → Sess → String → Prop} {orph : List Nat} {h : Hub}
    (hRR : ∀ s x r, R s x r → R' s x r) (hi : InvG R orph h) : InvG R' orph h := by
  obtain ⟨f1, f2, f3, f4, f5, f6, f7, f8, f9, f10, f11, f12, f13, f14, f15, f16, f17, f18, f19, f20, f21, f22, f23, f24, f25⟩ := hi
  constructor
  all_goals first | assumption | skip
  · intro s x r hx hr
    rcases f3 s x r hx hr with h1 | h1
    · exact Or.inl h1
    · exact Or.inr (hRR s x r h1)

set_option maxHeartbeats 4000000 in
/-- `Room.Close()`: the room leaves the table while its members still point to it. -/
theorem deleteStart_inv {h : Hub} (hi : Inv h) {b : Nat} {r : String} {rm : Room} (hrm : h.rooms b r = some rm) :
    InvG (Rdel b r rm.members) [] (setRoom h b r none) := by
  unfold Rdel
  constructor
  case fresh =>
    first
      | (have f_fresh := hi.fresh; clear hi; (intros; (try simp only [hubf] at *); grind [mem_removeL, nodup_removeL, removeL_nil, length_removeL_le]))
      | (have f_fresh := hi.fresh; have f_mem_room := hi.mem_room; have f_room_mem := hi.room_mem; have f_nonempty := hi.nonempty; have f_nodup := hi.nodup; have f_roomL_iff := hi.roomL_iff; have f_roomL_nodup := hi.roomL_nodup; have f_userL_iff := hi.userL_iff; have f_userL_nodup := hi.userL_nodup; have f_sessL_iff := hi.sessL_iff; have f_rs_fwd := hi.rs_fwd; have f_rs_room := hi.rs_room; have f_virt := hi.virt; have f_children := hi.children; have f_vtable := hi.vtable; have f_conn_iff := hi.conn_iff; have f_conn_open := hi.conn_open; have f_eh := hi.eh; have f_expired := hi.expired; have f_anon := hi.anon; have f_dialout := hi.dialout; have f_count := hi.count; have f_orph_virt := hi.orph_virt; have f_incall := hi.incall; have f_count_le := hi.count_le; clear hi; (intros; (try simp only [hubf] at *); grind [mem_removeL, nodup_removeL, removeL_nil, length_removeL_le]))
  case mem_room =>
    first
      | (have f_mem_room := hi.mem_room; have f_fresh := hi.fresh; clear hi; (intros; (try simp only [hubf] at *); grind [mem_removeL, nodup_removeL, removeL_nil, length_removeL_le]))
      | (have f_fresh := hi.fresh; have f_mem_room := hi.mem_room; have f_room_mem := hi.room_mem; have f_nonempty := hi.nonempty; have f_nodup := hi.nodup; have f_roomL_iff := hi.roomL_iff; have f_roomL_nodup := hi.roomL_nodup; have f_userL_iff := hi.userL_iff; have f_userL_nodup := hi.userL_nodup; have f_sessL_iff := hi.sessL_iff; have f_rs_fwd := hi.rs_fwd; have f_rs_room := hi.rs_room; have f_virt := hi.virt; have f_children := hi.children; have f_vtable := hi.vtable; have f_conn_iff := hi.conn_iff; have f_conn_open := hi.conn_open; have f_eh := hi.eh; have f_expired := hi.expired; have f_anon := hi.anon; have f_dialout := hi.dialout; have f_count := hi.count; have f_orph_virt := hi.orph_virt; have f_incall := hi.incall; have f_count_le := hi.count_le; clear hi; (intros; (try simp only [hubf] at *); grind [mem_removeL, nodup_removeL, removeL_nil, length_removeL_le]))
  case room_mem =>
    first
      | (have f_room_mem := hi.room_mem; have f_mem_room := hi.mem_room; have f_fresh := hi.fresh; clear hi; (intros; (try simp only [hubf] at *); grind [mem_removeL, nodup_removeL, removeL_nil, length_removeL_le]))
      | (have f_fresh := hi.fresh; have f_mem_room := hi.mem_room; have f_room_mem := hi.room_mem; have f_nonempty := hi.nonempty; have f_nodup := hi.nodup; have f_roomL_iff := hi.roomL_iff; have f_roomL_nodup := hi.roomL_nodup; have f_userL_iff := hi.userL_iff; have f_userL_nodup := hi.userL_nodup; have f_sessL_iff := hi.sessL_iff; have f_rs_fwd := hi.rs_fwd; have f_rs_room := hi.rs_room; have f_virt := hi.virt; have f_children := hi.children; have f_vtable := hi.vtable; have f_conn_iff := hi.conn_iff; have f_conn_open := hi.conn_open; have f_eh := hi.eh; have f_expired := hi.expired; have f_anon := hi.anon; have f_dialout := hi.dialout; have f_count := hi.count; have f_orph_virt := hi.orph_virt; have f_incall := hi.incall; have f_count_le := hi.count_le; clear hi; (intros; (try simp only [hubf] at *); grind [mem_removeL, nodup_removeL, removeL_nil, length_removeL_le]))
  case nonempty =>
    first
      | (have f_nonempty := hi.nonempty; have f_mem_room := hi.mem_room; clear hi; (intros; (try simp only [hubf] at *); grind [mem_removeL, nodup_removeL, removeL_nil, length_removeL_le]))
      | (have f_fresh := hi.fresh; have f_mem_room := hi.mem_room; have f_room_mem := hi.room_mem; have f_nonempty := hi.nonempty; have f_nodup := hi.nodup; have f_roomL_iff := hi.roomL_iff; have f_roomL_nodup := hi.roomL_nodup; have f_userL_iff := hi.userL_iff; have f_userL_nodup := hi.userL_nodup; have f_sessL_iff := hi.sessL_iff; have f_rs_fwd := hi.rs_fwd; have f_rs_room := hi.rs_room; have f_virt := hi.virt; have f_children := hi.children; have f_vtable := hi.vtable; have f_conn_iff := hi.conn_iff; have f_conn_open := hi.conn_open; have f_eh := hi.eh; have f_expired := hi.expired; have f_anon := hi.anon; have f_dialout := hi.dialout; have f_count := hi.count; have f_orph_virt := hi.orph_virt; have f_incall := hi.incall; have f_count_le := hi.count_le; clear hi; (intros; (try simp only [hubf] at *); grind [mem_removeL, nodup_removeL, removeL_nil, length_removeL_le]))
  case nodup =>
    first
      | (have f_nodup := hi.nodup; clear hi; (intros; (try simp only [hubf] at *); grind [mem_removeL, nodup_removeL, removeL_nil, length_removeL_le]))
      | (have f_fresh := hi.fresh; have f_mem_room := hi.mem_room; have f_room_mem := hi.room_mem; have f_nonempty := hi.nonempty; have f_nodup := hi.nodup; have f_roomL_iff := hi.roomL_iff; have f_roomL_nodup := hi.roomL_nodup; have f_userL_iff := hi.userL_iff; have f_userL_nodup := hi.userL_nodup; have f_sessL_iff := hi.sessL_iff; have f_rs_fwd := hi.rs_fwd; have f_rs_room := hi.rs_room; have f_virt := hi.virt; have f_children := hi.children; have f_vtable := hi.vtable; have f_conn_iff := hi.conn_iff; have f_conn_open := hi.conn_open; have f_eh := hi.eh; have f_expired := hi.expired; have f_anon := hi.anon; have f_dialout := hi.dialout; have f_count := hi.count; have f_orph_virt := hi.orph_virt; have f_incall := hi.incall; have f_count_le := hi.count_le; clear hi; (intros; (try simp only [hubf] at *); grind [mem_removeL, nodup_removeL, removeL_nil, length_removeL_le]))
  case roomL_iff =>
    first
      | (have f_roomL_iff := hi.roomL_iff; have f_fresh := hi.fresh; have f_room_mem := hi.room_mem; have f_mem_room := hi.mem_room; clear hi; (intros; (try simp only [hubf] at *); grind [mem_removeL, nodup_removeL, removeL_nil, length_removeL_le]))
      | (have f_fresh := hi.fresh; have f_mem_room := hi.mem_room; have f_room_mem := hi.room_mem; have f_nonempty := hi.nonempty; have f_nodup := hi.nodup; have f_roomL_iff := hi.roomL_iff; have f_roomL_nodup := hi.roomL_nodup; have f_userL_iff := hi.userL_iff; have f_userL_nodup := hi.userL_nodup; have f_sessL_iff := hi.sessL_iff; have f_rs_fwd := hi.rs_fwd; have f_rs_room := hi.rs_room; have f_virt := hi.virt; have f_children := hi.children; have f_vtable := hi.vtable; have f_conn_iff := hi.conn_iff; have f_conn_open := hi.conn_open; have f_eh := hi.eh; have f_expired := hi.expired; have f_anon := hi.anon; have f_dialout := hi.dialout; have f_count := hi.count; have f_orph_virt := hi.orph_virt; have f_incall := hi.incall; have f_count_le := hi.count_le; clear hi; (intros; (try simp only [hubf] at *); grind [mem_removeL, nodup_removeL, removeL_nil, length_removeL_le]))
  case roomL_nodup =>
    first
      | (have f_roomL_nodup := hi.roomL_nodup; have f_roomL_iff := hi.roomL_iff; clear hi; (intros; (try simp only [hubf] at *); grind [mem_removeL, nodup_removeL, removeL_nil, length_removeL_le]))
      | (have f_fresh := hi.fresh; have f_mem_room := hi.mem_room; have f_room_mem := hi.room_mem; have f_nonempty := hi.nonempty; have f_nodup := hi.nodup; have f_roomL_iff := hi.roomL_iff; have f_roomL_nodup := hi.roomL_nodup; have f_userL_iff := hi.userL_iff; have f_userL_nodup := hi.userL_nodup; have f_sessL_iff := hi.sessL_iff; have f_rs_fwd := hi.rs_fwd; have f_rs_room := hi.rs_room; have f_virt := hi.virt; have f_children := hi.children; have f_vtable := hi.vtable; have f_conn_iff := hi.conn_iff; have f_conn_open := hi.conn_open; have f_eh := hi.eh; have f_expired := hi.expired; have f_anon := hi.anon; have f_dialout := hi.dialout; have f_count := hi.count; have f_orph_virt := hi.orph_virt; have f_incall := hi.incall; have f_count_le := hi.count_le; clear hi; (intros; (try simp only [hubf] at *); grind [mem_removeL, nodup_removeL, removeL_nil, length_removeL_le]))
  case userL_iff =>
    first
      | (have f_userL_iff := hi.userL_iff; have f_fresh := hi.fresh; clear hi; (intros; (try simp only [hubf] at *); grind [mem_removeL, nodup_removeL, removeL_nil, length_removeL_le]))
      | (have f_fresh := hi.fresh; have f_mem_room := hi.mem_room; have f_room_mem := hi.room_mem; have f_nonempty := hi.nonempty; have f_nodup := hi.nodup; have f_roomL_iff := hi.roomL_iff; have f_roomL_nodup := hi.roomL_nodup; have f_userL_iff := hi.userL_iff; have f_userL_nodup := hi.userL_nodup; have f_sessL_iff := hi.sessL_iff; have f_rs_fwd := hi.rs_fwd; have f_rs_room := hi.rs_room; have f_virt := hi.virt; have f_children := hi.children; have f_vtable := hi.vtable; have f_conn_iff := hi.conn_iff; have f_conn_open := hi.conn_open; have f_eh := hi.eh; have f_expired := hi.expired; have f_anon := hi.anon; have f_dialout := hi.dialout; have f_count := hi.count; have f_orph_virt := hi.orph_virt; have f_incall := hi.incall; have f_count_le := hi.count_le; clear hi; (intros; (try simp only [hubf] at *); grind [mem_removeL, nodup_removeL, removeL_nil, length_removeL_le]))
  case userL_nodup =>
    first
      | (have f_userL_nodup := hi.userL_nodup; have f_userL_iff := hi.userL_iff; clear hi; (intros; (try simp only [hubf] at *); grind [mem_removeL, nodup_removeL, removeL_nil, length_removeL_le]))
      | (have f_fresh := hi.fresh; have f_mem_room := hi.mem_room; have f_room_mem := hi.room_mem; have f_nonempty := hi.nonempty; have f_nodup := hi.nodup; have f_roomL_iff := hi.roomL_iff; have f_roomL_nodup := hi.roomL_nodup; have f_userL_iff := hi.userL_iff; have f_userL_nodup := hi.userL_nodup; have f_sessL_iff := hi.sessL_iff; have f_rs_fwd := hi.rs_fwd; have f_rs_room := hi.rs_room; have f_virt := hi.virt; have f_children := hi.children; have f_vtable := hi.vtable; have f_conn_iff := hi.conn_iff; have f_conn_open := hi.conn_open; have f_eh := hi.eh; have f_expired := hi.expired; have f_anon := hi.anon; have f_dialout := hi.dialout; have f_count := hi.count; have f_orph_virt := hi.orph_virt; have f_incall := hi.incall; have f_count_le := hi.count_le; clear hi; (intros; (try simp only [hubf] at *); grind [mem_removeL, nodup_removeL, removeL_nil, length_removeL_le]))
  case sessL_iff =>
    first
      | (have f_sessL_iff := hi.sessL_iff; have f_fresh := hi.fresh; clear hi; (intros; (try simp only [hubf] at *); grind [mem_removeL, nodup_removeL, removeL_nil, length_removeL_le]))
      | (have f_fresh := hi.fresh; have f_mem_room := hi.mem_room; have f_room_mem := hi.room_mem; have f_nonempty := hi.nonempty; have f_nodup := hi.nodup; have f_roomL_iff := hi.roomL_iff; have f_roomL_nodup := hi.roomL_nodup; have f_userL_iff := hi.userL_iff; have f_userL_nodup := hi.userL_nodup; have f_sessL_iff := hi.sessL_iff; have f_rs_fwd := hi.rs_fwd; have f_rs_room := hi.rs_room; have f_virt := hi.virt; have f_children := hi.children; have f_vtable := hi.vtable; have f_conn_iff := hi.conn_iff; have f_conn_open := hi.conn_open; have f_eh := hi.eh; have f_expired := hi.expired; have f_anon := hi.anon; have f_dialout := hi.dialout; have f_count := hi.count; have f_orph_virt := hi.orph_virt; have f_incall := hi.incall; have f_count_le := hi.count_le; clear hi; (intros; (try simp only [hubf] at *); grind [mem_removeL, nodup_removeL, removeL_nil, length_removeL_le]))
  case rs_fwd =>
    first
      | (have f_rs_fwd := hi.rs_fwd; have f_rs_room := hi.rs_room; have f_fresh := hi.fresh; clear hi; (intros; (try simp only [hubf] at *); grind [mem_removeL, nodup_removeL, removeL_nil, length_removeL_le]))
      | (have f_fresh := hi.fresh; have f_mem_room := hi.mem_room; have f_room_mem := hi.room_mem; have f_nonempty := hi.nonempty; have f_nodup := hi.nodup; have f_roomL_iff := hi.roomL_iff; have f_roomL_nodup := hi.roomL_nodup; have f_userL_iff := hi.userL_iff; have f_userL_nodup := hi.userL_nodup; have f_sessL_iff := hi.sessL_iff; have f_rs_fwd := hi.rs_fwd; have f_rs_room := hi.rs_room; have f_virt := hi.virt; have f_children := hi.children; have f_vtable := hi.vtable; have f_conn_iff := hi.conn_iff; have f_conn_open := hi.conn_open; have f_eh := hi.eh; have f_expired := hi.expired; have f_anon := hi.anon; have f_dialout := hi.dialout; have f_count := hi.count; have f_orph_virt := hi.orph_virt; have f_incall := hi.incall; have f_count_le := hi.count_le; clear hi; (intros; (try simp only [hubf] at *); grind [mem_removeL, nodup_removeL, removeL_nil, length_removeL_le]))
  case rs_room =>
    first
      | (have f_rs_room := hi.rs_room; have f_rs_fwd := hi.rs_fwd; have f_fresh := hi.fresh; have f_room_mem := hi.room_mem; clear hi; (intros; (try simp only [hubf] at *); grind [mem_removeL, nodup_removeL, removeL_nil, length_removeL_le]))
      | (have f_fresh := hi.fresh; have f_mem_room := hi.mem_room; have f_room_mem := hi.room_mem; have f_nonempty := hi.nonempty; have f_nodup := hi.nodup; have f_roomL_iff := hi.roomL_iff; have f_roomL_nodup := hi.roomL_nodup; have f_userL_iff := hi.userL_iff; have f_userL_nodup := hi.userL_nodup; have f_sessL_iff := hi.sessL_iff; have f_rs_fwd := hi.rs_fwd; have f_rs_room := hi.rs_room; have f_virt := hi.virt; have f_children := hi.children; have f_vtable := hi.vtable; have f_conn_iff := hi.conn_iff; have f_conn_open := hi.conn_open; have f_eh := hi.eh; have f_expired := hi.expired; have f_anon := hi.anon; have f_dialout := hi.dialout; have f_count := hi.count; have f_orph_virt := hi.orph_virt; have f_incall := hi.incall; have f_count_le := hi.count_le; clear hi; (intros; (try simp only [hubf] at *); grind [mem_removeL, nodup_removeL, removeL_nil, length_removeL_le]))
  case virt =>
    first
      | (have f_virt := hi.virt; have f_children := hi.children; have f_fresh := hi.fresh; clear hi; (intros; (try simp only [hubf] at *); grind [mem_removeL, nodup_removeL, removeL_nil, length_removeL_le]))
      | (have f_fresh := hi.fresh; have f_mem_room := hi.mem_room; have f_room_mem := hi.room_mem; have f_nonempty := hi.nonempty; have f_nodup := hi.nodup; have f_roomL_iff := hi.roomL_iff; have f_roomL_nodup := hi.roomL_nodup; have f_userL_iff := hi.userL_iff; have f_userL_nodup := hi.userL_nodup; have f_sessL_iff := hi.sessL_iff; have f_rs_fwd := hi.rs_fwd; have f_rs_room := hi.rs_room; have f_virt := hi.virt; have f_children := hi.children; have f_vtable := hi.vtable; have f_conn_iff := hi.conn_iff; have f_conn_open := hi.conn_open; have f_eh := hi.eh; have f_expired := hi.expired; have f_anon := hi.anon; have f_dialout := hi.dialout; have f_count := hi.count; have f_orph_virt := hi.orph_virt; have f_incall := hi.incall; have f_count_le := hi.count_le; clear hi; (intros; (try simp only [hubf] at *); grind [mem_removeL, nodup_removeL, removeL_nil, length_removeL_le]))
  case children =>
    first
      | (have f_children := hi.children; have f_virt := hi.virt; have f_fresh := hi.fresh; clear hi; (intros; (try simp only [hubf] at *); grind [mem_removeL, nodup_removeL, removeL_nil, length_removeL_le]))
      | (have f_fresh := hi.fresh; have f_mem_room := hi.mem_room; have f_room_mem := hi.room_mem; have f_nonempty := hi.nonempty; have f_nodup := hi.nodup; have f_roomL_iff := hi.roomL_iff; have f_roomL_nodup := hi.roomL_nodup; have f_userL_iff := hi.userL_iff; have f_userL_nodup := hi.userL_nodup; have f_sessL_iff := hi.sessL_iff; have f_rs_fwd := hi.rs_fwd; have f_rs_room := hi.rs_room; have f_virt := hi.virt; have f_children := hi.children; have f_vtable := hi.vtable; have f_conn_iff := hi.conn_iff; have f_conn_open := hi.conn_open; have f_eh := hi.eh; have f_expired := hi.expired; have f_anon := hi.anon; have f_dialout := hi.dialout; have f_count := hi.count; have f_orph_virt := hi.orph_virt; have f_incall := hi.incall; have f_count_le := hi.count_le; clear hi; (intros; (try simp only [hubf] at *); grind [mem_removeL, nodup_removeL, removeL_nil, length_removeL_le]))
  case vtable =>
    first
      | (have f_vtable := hi.vtable; have f_virt := hi.virt; have f_fresh := hi.fresh; clear hi; (intros; (try simp only [hubf] at *); grind [mem_removeL, nodup_removeL, removeL_nil, length_removeL_le]))
      | (have f_fresh := hi.fresh; have f_mem_room := hi.mem_room; have f_room_mem := hi.room_mem; have f_nonempty := hi.nonempty; have f_nodup := hi.nodup; have f_roomL_iff := hi.roomL_iff; have f_roomL_nodup := hi.roomL_nodup; have f_userL_iff := hi.userL_iff; have f_userL_nodup := hi.userL_nodup; have f_sessL_iff := hi.sessL_iff; have f_rs_fwd := hi.rs_fwd; have f_rs_room := hi.rs_room; have f_virt := hi.virt; have f_children := hi.children; have f_vtable := hi.vtable; have f_conn_iff := hi.conn_iff; have f_conn_open := hi.conn_open; have f_eh := hi.eh; have f_expired := hi.expired; have f_anon := hi.anon; have f_dialout := hi.dialout; have f_count := hi.count; have f_orph_virt := hi.orph_virt; have f_incall := hi.incall; have f_count_le := hi.count_le; clear hi; (intros; (try simp only [hubf] at *); grind [mem_removeL, nodup_removeL, removeL_nil, length_removeL_le]))
  case conn_iff =>
    first
      | (have f_conn_iff := hi.conn_iff; have f_fresh := hi.fresh; have f_virt := hi.virt; clear hi; (intros; (try simp only [hubf] at *); grind [mem_removeL, nodup_removeL, removeL_nil, length_removeL_le]))
      | (have f_fresh := hi.fresh; have f_mem_room := hi.mem_room; have f_room_mem := hi.room_mem; have f_nonempty := hi.nonempty; have f_nodup := hi.nodup; have f_roomL_iff := hi.roomL_iff; have f_roomL_nodup := hi.roomL_nodup; have f_userL_iff := hi.userL_iff; have f_userL_nodup := hi.userL_nodup; have f_sessL_iff := hi.sessL_iff; have f_rs_fwd := hi.rs_fwd; have f_rs_room := hi.rs_room; have f_virt := hi.virt; have f_children := hi.children; have f_vtable := hi.vtable; have f_conn_iff := hi.conn_iff; have f_conn_open := hi.conn_open; have f_eh := hi.eh; have f_expired := hi.expired; have f_anon := hi.anon; have f_dialout := hi.dialout; have f_count := hi.count; have f_orph_virt := hi.orph_virt; have f_incall := hi.incall; have f_count_le := hi.count_le; clear hi; (intros; (try simp only [hubf] at *); grind [mem_removeL, nodup_removeL, removeL_nil, length_removeL_le]))
  case conn_open =>
    first
      | (have f_conn_open := hi.conn_open; have f_conn_iff := hi.conn_iff; clear hi; (intros; (try simp only [hubf] at *); grind [mem_removeL, nodup_removeL, removeL_nil, length_removeL_le]))
      | (have f_fresh := hi.fresh; have f_mem_room := hi.mem_room; have f_room_mem := hi.room_mem; have f_nonempty := hi.nonempty; have f_nodup := hi.nodup; have f_roomL_iff := hi.roomL_iff; have f_roomL_nodup := hi.roomL_nodup; have f_userL_iff := hi.userL_iff; have f_userL_nodup := hi.userL_nodup; have f_sessL_iff := hi.sessL_iff; have f_rs_fwd := hi.rs_fwd; have f_rs_room := hi.rs_room; have f_virt := hi.virt; have f_children := hi.children; have f_vtable := hi.vtable; have f_conn_iff := hi.conn_iff; have f_conn_open := hi.conn_open; have f_eh := hi.eh; have f_expired := hi.expired; have f_anon := hi.anon; have f_dialout := hi.dialout; have f_count := hi.count; have f_orph_virt := hi.orph_virt; have f_incall := hi.incall; have f_count_le := hi.count_le; clear hi; (intros; (try simp only [hubf] at *); grind [mem_removeL, nodup_removeL, removeL_nil, length_removeL_le]))
  case eh =>
    first
      | (have f_eh := hi.eh; have f_conn_iff := hi.conn_iff; have f_conn_open := hi.conn_open; clear hi; (intros; (try simp only [hubf] at *); grind [mem_removeL, nodup_removeL, removeL_nil, length_removeL_le]))
      | (have f_fresh := hi.fresh; have f_mem_room := hi.mem_room; have f_room_mem := hi.room_mem; have f_nonempty := hi.nonempty; have f_nodup := hi.nodup; have f_roomL_iff := hi.roomL_iff; have f_roomL_nodup := hi.roomL_nodup; have f_userL_iff := hi.userL_iff; have f_userL_nodup := hi.userL_nodup; have f_sessL_iff := hi.sessL_iff; have f_rs_fwd := hi.rs_fwd; have f_rs_room := hi.rs_room; have f_virt := hi.virt; have f_children := hi.children; have f_vtable := hi.vtable; have f_conn_iff := hi.conn_iff; have f_conn_open := hi.conn_open; have f_eh := hi.eh; have f_expired := hi.expired; have f_anon := hi.anon; have f_dialout := hi.dialout; have f_count := hi.count; have f_orph_virt := hi.orph_virt; have f_incall := hi.incall; have f_count_le := hi.count_le; clear hi; (intros; (try simp only [hubf] at *); grind [mem_removeL, nodup_removeL, removeL_nil, length_removeL_le]))
  case expired =>
    first
      | (have f_expired := hi.expired; have f_fresh := hi.fresh; clear hi; (intros; (try simp only [hubf] at *); grind [mem_removeL, nodup_removeL, removeL_nil, length_removeL_le]))
      | (have f_fresh := hi.fresh; have f_mem_room := hi.mem_room; have f_room_mem := hi.room_mem; have f_nonempty := hi.nonempty; have f_nodup := hi.nodup; have f_roomL_iff := hi.roomL_iff; have f_roomL_nodup := hi.roomL_nodup; have f_userL_iff := hi.userL_iff; have f_userL_nodup := hi.userL_nodup; have f_sessL_iff := hi.sessL_iff; have f_rs_fwd := hi.rs_fwd; have f_rs_room := hi.rs_room; have f_virt := hi.virt; have f_children := hi.children; have f_vtable := hi.vtable; have f_conn_iff := hi.conn_iff; have f_conn_open := hi.conn_open; have f_eh := hi.eh; have f_expired := hi.expired; have f_anon := hi.anon; have f_dialout := hi.dialout; have f_count := hi.count; have f_orph_virt := hi.orph_virt; have f_incall := hi.incall; have f_count_le := hi.count_le; clear hi; (intros; (try simp only [hubf] at *); grind [mem_removeL, nodup_removeL, removeL_nil, length_removeL_le]))
  case anon =>
    first
      | (have f_anon := hi.anon; have f_fresh := hi.fresh; clear hi; (intros; (try simp only [hubf] at *); grind [mem_removeL, nodup_removeL, removeL_nil, length_removeL_le]))
      | (have f_fresh := hi.fresh; have f_mem_room := hi.mem_room; have f_room_mem := hi.room_mem; have f_nonempty := hi.nonempty; have f_nodup := hi.nodup; have f_roomL_iff := hi.roomL_iff; have f_roomL_nodup := hi.roomL_nodup; have f_userL_iff := hi.userL_iff; have f_userL_nodup := hi.userL_nodup; have f_sessL_iff := hi.sessL_iff; have f_rs_fwd := hi.rs_fwd; have f_rs_room := hi.rs_room; have f_virt := hi.virt; have f_children := hi.children; have f_vtable := hi.vtable; have f_conn_iff := hi.conn_iff; have f_conn_open := hi.conn_open; have f_eh := hi.eh; have f_expired := hi.expired; have f_anon := hi.anon; have f_dialout := hi.dialout; have f_count := hi.count; have f_orph_virt := hi.orph_virt; have f_incall := hi.incall; have f_count_le := hi.count_le; clear hi; (intros; (try simp only [hubf] at *); grind [mem_removeL, nodup_removeL, removeL_nil, length_removeL_le]))
  case dialout =>
    first
      | (have f_dialout := hi.dialout; have f_fresh := hi.fresh; clear hi; (intros; (try simp only [hubf] at *); grind [mem_removeL, nodup_removeL, removeL_nil, length_removeL_le]))
      | (have f_fresh := hi.fresh; have f_mem_room := hi.mem_room; have f_room_mem := hi.room_mem; have f_nonempty := hi.nonempty; have f_nodup := hi.nodup; have f_roomL_iff := hi.roomL_iff; have f_roomL_nodup := hi.roomL_nodup; have f_userL_iff := hi.userL_iff; have f_userL_nodup := hi.userL_nodup; have f_sessL_iff := hi.sessL_iff; have f_rs_fwd := hi.rs_fwd; have f_rs_room := hi.rs_room; have f_virt := hi.virt; have f_children := hi.children; have f_vtable := hi.vtable; have f_conn_iff := hi.conn_iff; have f_conn_open := hi.conn_open; have f_eh := hi.eh; have f_expired := hi.expired; have f_anon := hi.anon; have f_dialout := hi.dialout; have f_count := hi.count; have f_orph_virt := hi.orph_virt; have f_incall := hi.incall; have f_count_le := hi.count_le; clear hi; (intros; (try simp only [hubf] at *); grind [mem_removeL, nodup_removeL, removeL_nil, length_removeL_le]))
  case count =>
    first
      | (have f_count := hi.count; have f_fresh := hi.fresh; clear hi; (intros; (try simp only [hubf] at *); grind [mem_removeL, nodup_removeL, removeL_nil, length_removeL_le]))
      | (have f_fresh := hi.fresh; have f_mem_room := hi.mem_room; have f_room_mem := hi.room_mem; have f_nonempty := hi.nonempty; have f_nodup := hi.nodup; have f_roomL_iff := hi.roomL_iff; have f_roomL_nodup := hi.roomL_nodup; have f_userL_iff := hi.userL_iff; have f_userL_nodup := hi.userL_nodup; have f_sessL_iff := hi.sessL_iff; have f_rs_fwd := hi.rs_fwd; have f_rs_room := hi.rs_room; have f_virt := hi.virt; have f_children := hi.children; have f_vtable := hi.vtable; have f_conn_iff := hi.conn_iff; have f_conn_open := hi.conn_open; have f_eh := hi.eh; have f_expired := hi.expired; have f_anon := hi.anon; have f_dialout := hi.dialout; have f_count := hi.count; have f_orph_virt := hi.orph_virt; have f_incall := hi.incall; have f_count_le := hi.count_le; clear hi; (intros; (try simp only [hubf] at *); grind [mem_removeL, nodup_removeL, removeL_nil, length_removeL_le]))
  case orph_virt =>
    first
      | (have f_orph_virt := hi.orph_virt; have f_fresh := hi.fresh; have f_children := hi.children; have f_virt := hi.virt; clear hi; (intros; (try simp only [hubf] at *); grind [mem_removeL, nodup_removeL, removeL_nil, length_removeL_le]))
      | (have f_fresh := hi.fresh; have f_mem_room := hi.mem_room; have f_room_mem := hi.room_mem; have f_nonempty := hi.nonempty; have f_nodup := hi.nodup; have f_roomL_iff := hi.roomL_iff; have f_roomL_nodup := hi.roomL_nodup; have f_userL_iff := hi.userL_iff; have f_userL_nodup := hi.userL_nodup; have f_sessL_iff := hi.sessL_iff; have f_rs_fwd := hi.rs_fwd; have f_rs_room := hi.rs_room; have f_virt := hi.virt; have f_children := hi.children; have f_vtable := hi.vtable; have f_conn_iff := hi.conn_iff; have f_conn_open := hi.conn_open; have f_eh := hi.eh; have f_expired := hi.expired; have f_anon := hi.anon; have f_dialout := hi.dialout; have f_count := hi.count; have f_orph_virt := hi.orph_virt; have f_incall := hi.incall; have f_count_le := hi.count_le; clear hi; (intros; (try simp only [hubf] at *); grind [mem_removeL, nodup_removeL, removeL_nil, length_removeL_le]))
  case incall =>
    first
      | (have f_incall := hi.incall; have f_mem_room := hi.mem_room; clear hi; (intros; (try simp only [hubf] at *); grind [mem_removeL, nodup_removeL, removeL_nil, length_removeL_le]))
      | (have f_fresh := hi.fresh; have f_mem_room := hi.mem_room; have f_room_mem := hi.room_mem; have f_nonempty := hi.nonempty; have f_nodup := hi.nodup; have f_roomL_iff := hi.roomL_iff; have f_roomL_nodup := hi.roomL_nodup; have f_userL_iff := hi.userL_iff; have f_userL_nodup := hi.userL_nodup; have f_sessL_iff := hi.sessL_iff; have f_rs_fwd := hi.rs_fwd; have f_rs_room := hi.rs_room; have f_virt := hi.virt; have f_children := hi.children; have f_vtable := hi.vtable; have f_conn_iff := hi.conn_iff; have f_conn_open := hi.conn_open; have f_eh := hi.eh; have f_expired := hi.expired; have f_anon := hi.anon; have f_dialout := hi.dialout; have f_count := hi.count; have f_orph_virt := hi.orph_virt; have f_incall := hi.incall; have f_count_le := hi.count_le; clear hi; (intros; (try simp only [hubf] at *); grind [mem_removeL, nodup_removeL, removeL_nil, length_removeL_le]))
  case count_le =>
    first
      | (have f_count_le := hi.count_le; clear hi; (intros; (try simp only [hubf] at *); grind [mem_removeL, nodup_removeL, removeL_nil, length_removeL_le]))
      | (have f_fresh := hi.fresh; have f_mem_room := hi.mem_room; have f_room_mem := hi.room_mem; have f_nonempty := hi.nonempty; have f_nodup := hi.nodup; have f_roomL_iff := hi.roomL_iff; have f_roomL_nodup := hi.roomL_nodup; have f_userL_iff := hi.userL_iff; have f_userL_nodup := hi.userL_nodup; have f_sessL_iff := hi.sessL_iff; have f_rs_fwd := hi.rs_fwd; have f_rs_room := hi.rs_room; have f_virt := hi.virt; have f_children := hi.children; have f_vtable := hi.vtable; have f_conn_iff := hi.conn_iff; have f_conn_open := hi.conn_open; have f_eh := hi.eh; have f_expired := hi.expired; have f_anon := hi.anon; have f_dialout := hi.dialout; have f_count := hi.count; have f_orph_virt := hi.orph_virt; have f_incall := hi.incall; have f_count_le := hi.count_le; clear hi; (intros; (try simp only [hubf] at *); grind [mem_removeL, nodup_removeL, removeL_nil, length_removeL_le]))

/-- What `leaveRoom` does to a session whose room is gone from the table. -/
def leaveGone (h : Hub) (s : Nat) (x : Sess) (r : String) : Hub :=
  setSess (rsDelete (if x.kind = .virtual then h else setRoomL h x.backend r (removeL (h.roomL x.backend r) s)) s) s
    (some { x with room := none, roomSess := "", seenJoin := [] })

theorem leaveRoom_gone (a : Acc) (s : Nat) {x : Sess} {r : String} (hx : a.h.sess s = some x) (hr : x.room = some r)
    (hrm : a.h.rooms x.backend r = none) : (leaveRoom a s).1.h = leaveGone a.h s x r := by
  unfold leaveRoom leaveGone roomRemoveSession
  simp only [hx, hr]
  have hrooms : (setSess (rsDelete (if x.kind = .virtual then a.h else
      setRoomL a.h x.backend r (removeL (a.h.roomL x.backend r) s)) s) s
      (some { x with room := none, roomSess := "", seenJoin := [] })).rooms x.backend r = none := by
    simp only [hubf]; split <;> simp [hrm, hubf]
  simp only [hrooms]

set_option maxHeartbeats 4000000 in
theorem leaveGone_inv {h : Hub} {b : Nat} {r : String} {ms : List Nat} (hi : InvG (Rdel b r ms) [] h)
    {s : Nat} {x : Sess} (hx : h.sess s = some x) (hb : x.backend = b) (hr : x.room = some r)
    (hgone : h.rooms b r = none) : InvG (Rdel b r (removeL ms s)) [] (leaveGone h s x r) := by
  unfold leaveGone Rdel at *
  constructor
  case fresh =>
    by_cases hk : x.kind = .virtual <;> simp only [hk, if_true, if_false]
    all_goals first
      | (have f_fresh := hi.fresh; clear hi; (intros; (try simp only [hubf] at *); grind [mem_removeL, nodup_removeL, removeL_nil, length_removeL_le]))
      | (have f_fresh := hi.fresh; have f_mem_room := hi.mem_room; have f_room_mem := hi.room_mem; have f_nonempty := hi.nonempty; have f_nodup := hi.nodup; have f_roomL_iff := hi.roomL_iff; have f_roomL_nodup := hi.roomL_nodup; have f_userL_iff := hi.userL_iff; have f_userL_nodup := hi.userL_nodup; have f_sessL_iff := hi.sessL_iff; have f_rs_fwd := hi.rs_fwd; have f_rs_room := hi.rs_room; have f_virt := hi.virt; have f_children := hi.children; have f_vtable := hi.vtable; have f_conn_iff := hi.conn_iff; have f_conn_open := hi.conn_open; have f_eh := hi.eh; have f_expired := hi.expired; have f_anon := hi.anon; have f_dialout := hi.dialout; have f_count := hi.count; have f_orph_virt := hi.orph_virt; have f_incall := hi.incall; have f_count_le := hi.count_le; clear hi; (intros; (try simp only [hubf] at *); grind [mem_removeL, nodup_removeL, removeL_nil, length_removeL_le]))
  case mem_room =>
    by_cases hk : x.kind = .virtual <;> simp only [hk, if_true, if_false]
    all_goals first
      | (have f_mem_room := hi.mem_room; have f_fresh := hi.fresh; clear hi; (intros; (try simp only [hubf] at *); grind [mem_removeL, nodup_removeL, removeL_nil, length_removeL_le]))
      | (have f_fresh := hi.fresh; have f_mem_room := hi.mem_room; have f_room_mem := hi.room_mem; have f_nonempty := hi.nonempty; have f_nodup := hi.nodup; have f_roomL_iff := hi.roomL_iff; have f_roomL_nodup := hi.roomL_nodup; have f_userL_iff := hi.userL_iff; have f_userL_nodup := hi.userL_nodup; have f_sessL_iff := hi.sessL_iff; have f_rs_fwd := hi.rs_fwd; have f_rs_room := hi.rs_room; have f_virt := hi.virt; have f_children := hi.children; have f_vtable := hi.vtable; have f_conn_iff := hi.conn_iff; have f_conn_open := hi.conn_open; have f_eh := hi.eh; have f_expired := hi.expired; have f_anon := hi.anon; have f_dialout := hi.dialout; have f_count := hi.count; have f_orph_virt := hi.orph_virt; have f_incall := hi.incall; have f_count_le := hi.count_le; clear hi; (intros; (try simp only [hubf] at *); grind [mem_removeL, nodup_removeL, removeL_nil, length_removeL_le]))
  case room_mem =>
    by_cases hk : x.kind = .virtual <;> simp only [hk, if_true, if_false]
    all_goals first
      | (have f_room_mem := hi.room_mem; have f_mem_room := hi.mem_room; have f_fresh := hi.fresh; clear hi; (intros; (try simp only [hubf] at *); grind [mem_removeL, nodup_removeL, removeL_nil, length_removeL_le]))
      | (have f_fresh := hi.fresh; have f_mem_room := hi.mem_room; have f_room_mem := hi.room_mem; have f_nonempty := hi.nonempty; have f_nodup := hi.nodup; have f_roomL_iff := hi.roomL_iff; have f_roomL_nodup := hi.roomL_nodup; have f_userL_iff := hi.userL_iff; have f_userL_nodup := hi.userL_nodup; have f_sessL_iff := hi.sessL_iff; have f_rs_fwd := hi.rs_fwd; have f_rs_room := hi.rs_room; have f_virt := hi.virt; have f_children := hi.children; have f_vtable := hi.vtable; have f_conn_iff := hi.conn_iff; have f_conn_open := hi.conn_open; have f_eh := hi.eh; have f_expired := hi.expired; have f_anon := hi.anon; have f_dialout := hi.dialout; have f_count := hi.count; have f_orph_virt := hi.orph_virt; have f_incall := hi.incall; have f_count_le := hi.count_le; clear hi; (intros; (try simp only [hubf] at *); grind [mem_removeL, nodup_removeL, removeL_nil, length_removeL_le]))
  case nonempty =>
    by_cases hk : x.kind = .virtual <;> simp only [hk, if_true, if_false]
    all_goals first
      | (have f_nonempty := hi.nonempty; have f_mem_room := hi.mem_room; clear hi; (intros; (try simp only [hubf] at *); grind [mem_removeL, nodup_removeL, removeL_nil, length_removeL_le]))
      | (have f_fresh := hi.fresh; have f_mem_room := hi.mem_room; have f_room_mem := hi.room_mem; have f_nonempty := hi.nonempty; have f_nodup := hi.nodup; have f_roomL_iff := hi.roomL_iff; have f_roomL_nodup := hi.roomL_nodup; have f_userL_iff := hi.userL_iff; have f_userL_nodup := hi.userL_nodup; have f_sessL_iff := hi.sessL_iff; have f_rs_fwd := hi.rs_fwd; have f_rs_room := hi.rs_room; have f_virt := hi.virt; have f_children := hi.children; have f_vtable := hi.vtable; have f_conn_iff := hi.conn_iff; have f_conn_open := hi.conn_open; have f_eh := hi.eh; have f_expired := hi.expired; have f_anon := hi.anon; have f_dialout := hi.dialout; have f_count := hi.count; have f_orph_virt := hi.orph_virt; have f_incall := hi.incall; have f_count_le := hi.count_le; clear hi; (intros; (try simp only [hubf] at *); grind [mem_removeL, nodup_removeL, removeL_nil, length_removeL_le]))
  case nodup =>
    by_cases hk : x.kind = .virtual <;> simp only [hk, if_true, if_false]
    all_goals first
      | (have f_nodup := hi.nodup; clear hi; (intros; (try simp only [hubf] at *); grind [mem_removeL, nodup_removeL, removeL_nil, length_removeL_le]))
      | (have f_fresh := hi.fresh; have f_mem_room := hi.mem_room; have f_room_mem := hi.room_mem; have f_nonempty := hi.nonempty; have f_nodup := hi.nodup; have f_roomL_iff := hi.roomL_iff; have f_roomL_nodup := hi.roomL_nodup; have f_userL_iff := hi.userL_iff; have f_userL_nodup := hi.userL_nodup; have f_sessL_iff := hi.sessL_iff; have f_rs_fwd := hi.rs_fwd; have f_rs_room := hi.rs_room; have f_virt := hi.virt; have f_children := hi.children; have f_vtable := hi.vtable; have f_conn_iff := hi.conn_iff; have f_conn_open := hi.conn_open; have f_eh := hi.eh; have f_expired := hi.expired; have f_anon := hi.anon; have f_dialout := hi.dialout; have f_count := hi.count; have f_orph_virt := hi.orph_virt; have f_incall := hi.incall; have f_count_le := hi.count_le; clear hi; (intros; (try simp only [hubf] at *); grind [mem_removeL, nodup_removeL, removeL_nil, length_removeL_le]))
  case roomL_iff =>
    by_cases hk : x.kind = .virtual <;> simp only [hk, if_true, if_false]
    all_goals first
      | (have f_roomL_iff := hi.roomL_iff; have f_fresh := hi.fresh; have f_room_mem := hi.room_mem; have f_mem_room := hi.mem_room; clear hi; (intros; (try simp only [hubf] at *); grind [mem_removeL, nodup_removeL, removeL_nil, length_removeL_le]))
      | (have f_fresh := hi.fresh; have f_mem_room := hi.mem_room; have f_room_mem := hi.room_mem; have f_nonempty := hi.nonempty; have f_nodup := hi.nodup; have f_roomL_iff := hi.roomL_iff; have f_roomL_nodup := hi.roomL_nodup; have f_userL_iff := hi.userL_iff; have f_userL_nodup := hi.userL_nodup; have f_sessL_iff := hi.sessL_iff; have f_rs_fwd := hi.rs_fwd; have f_rs_room := hi.rs_room; have f_virt := hi.virt; have f_children := hi.children; have f_vtable := hi.vtable; have f_conn_iff := hi.conn_iff; have f_conn_open := hi.conn_open; have f_eh := hi.eh; have f_expired := hi.expired; have f_anon := hi.anon; have f_dialout := hi.dialout; have f_count := hi.count; have f_orph_virt := hi.orph_virt; have f_incall := hi.incall; have f_count_le := hi.count_le; clear hi; (intros; (try simp only [hubf] at *); grind [mem_removeL, nodup_removeL, removeL_nil, length_removeL_le]))
  case roomL_nodup =>
    by_cases hk : x.kind = .virtual <;> simp only [hk, if_true, if_false]
    all_goals first
      | (have f_roomL_nodup := hi.roomL_nodup; have f_roomL_iff := hi.roomL_iff; clear hi; (intros; (try simp only [hubf] at *); grind [mem_removeL, nodup_removeL, removeL_nil, length_removeL_le]))
      | (have f_fresh := hi.fresh; have f_mem_room := hi.mem_room; have f_room_mem := hi.room_mem; have f_nonempty := hi.nonempty; have f_nodup := hi.nodup; have f_roomL_iff := hi.roomL_iff; have f_roomL_nodup := hi.roomL_nodup; have f_userL_iff := hi.userL_iff; have f_userL_nodup := hi.userL_nodup; have f_sessL_iff := hi.sessL_iff; have f_rs_fwd := hi.rs_fwd; have f_rs_room := hi.rs_room; have f_virt := hi.virt; have f_children := hi.children; have f_vtable := hi.vtable; have f_conn_iff := hi.conn_iff; have f_conn_open := hi.conn_open; have f_eh := hi.eh; have f_expired := hi.expired; have f_anon := hi.anon; have f_dialout := hi.dialout; have f_count := hi.count; have f_orph_virt := hi.orph_virt; have f_incall := hi.incall; have f_count_le := hi.count_le; clear hi; (intros; (try simp only [hubf] at *); grind [mem_removeL, nodup_removeL, removeL_nil, length_removeL_le]))
  case userL_iff =>
    by_cases hk : x.kind = .virtual <;> simp only [hk, if_true, if_false]
    all_goals first
      | (have f_userL_iff := hi.userL_iff; have f_fresh := hi.fresh; clear hi; (intros; (try simp only [hubf] at *); grind [mem_removeL, nodup_removeL, removeL_nil, length_removeL_le]))
      | (have f_fresh := hi.fresh; have f_mem_room := hi.mem_room; have f_room_mem := hi.room_mem; have f_nonempty := hi.nonempty; have f_nodup := hi.nodup; have f_roomL_iff := hi.roomL_iff; have f_roomL_nodup := hi.roomL_nodup; have f_userL_iff := hi.userL_iff; have f_userL_nodup := hi.userL_nodup; have f_sessL_iff := hi.sessL_iff; have f_rs_fwd := hi.rs_fwd; have f_rs_room := hi.rs_room; have f_virt := hi.virt; have f_children := hi.children; have f_vtable := hi.vtable; have f_conn_iff := hi.conn_iff; have f_conn_open := hi.conn_open; have f_eh := hi.eh; have f_expired := hi.expired; have f_anon := hi.anon; have f_dialout := hi.dialout; have f_count := hi.count; have f_orph_virt := hi.orph_virt; have f_incall := hi.incall; have f_count_le := hi.count_le; clear hi; (intros; (try simp only [hubf] at *); grind [mem_removeL, nodup_removeL, removeL_nil, length_removeL_le]))
  case userL_nodup =>
    by_cases hk : x.kind = .virtual <;> simp only [hk, if_true, if_false]
    all_goals first
      | (have f_userL_nodup := hi.userL_nodup; have f_userL_iff := hi.userL_iff; clear hi; (intros; (try simp only [hubf] at *); grind [mem_removeL, nodup_removeL, removeL_nil, length_removeL_le]))
      | (have f_fresh := hi.fresh; have f_mem_room := hi.mem_room; have f_room_mem := hi.room_mem; have f_nonempty := hi.nonempty; have f_nodup := hi.nodup; have f_roomL_iff := hi.roomL_iff; have f_roomL_nodup := hi.roomL_nodup; have f_userL_iff := hi.userL_iff; have f_userL_nodup := hi.userL_nodup; have f_sessL_iff := hi.sessL_iff; have f_rs_fwd := hi.rs_fwd; have f_rs_room := hi.rs_room; have f_virt := hi.virt; have f_children := hi.children; have f_vtable := hi.vtable; have f_conn_iff := hi.conn_iff; have f_conn_open := hi.conn_open; have f_eh := hi.eh; have f_expired := hi.expired; have f_anon := hi.anon; have f_dialout := hi.dialout; have f_count := hi.count; have f_orph_virt := hi.orph_virt; have f_incall := hi.incall; have f_count_le := hi.count_le; clear hi; (intros; (try simp only [hubf] at *); grind [mem_removeL, nodup_removeL, removeL_nil, length_removeL_le]))
  case sessL_iff =>
    by_cases hk : x.kind = .virtual <;> simp only [hk, if_true, if_false]
    all_goals first
      | (have f_sessL_iff := hi.sessL_iff; have f_fresh := hi.fresh; clear hi; (intros; (try simp only [hubf] at *); grind [mem_removeL, nodup_removeL, removeL_nil, length_removeL_le]))
      | (have f_fresh := hi.fresh; have f_mem_room := hi.mem_room; have f_room_mem := hi.room_mem; have f_nonempty := hi.nonempty; have f_nodup := hi.nodup; have f_roomL_iff := hi.roomL_iff; have f_roomL_nodup := hi.roomL_nodup; have f_userL_iff := hi.userL_iff; have f_userL_nodup := hi.userL_nodup; have f_sessL_iff := hi.sessL_iff; have f_rs_fwd := hi.rs_fwd; have f_rs_room := hi.rs_room; have f_virt := hi.virt; have f_children := hi.children; have f_vtable := hi.vtable; have f_conn_iff := hi.conn_iff; have f_conn_open := hi.conn_open; have f_eh := hi.eh; have f_expired := hi.expired; have f_anon := hi.anon; have f_dialout := hi.dialout; have f_count := hi.count; have f_orph_virt := hi.orph_virt; have f_incall := hi.incall; have f_count_le := hi.count_le; clear hi; (intros; (try simp only [hubf] at *); grind [mem_removeL, nodup_removeL, removeL_nil, length_removeL_le]))
  case rs_fwd =>
    by_cases hk : x.kind = .virtual <;> simp only [hk, if_true, if_false]
    all_goals first
      | (have f_rs_fwd := hi.rs_fwd; have f_rs_room := hi.rs_room; have f_fresh := hi.fresh; clear hi; (intros; (try simp only [hubf] at *); grind [mem_removeL, nodup_removeL, removeL_nil, length_removeL_le]))
      | (have f_fresh := hi.fresh; have f_mem_room := hi.mem_room; have f_room_mem := hi.room_mem; have f_nonempty := hi.nonempty; have f_nodup := hi.nodup; have f_roomL_iff := hi.roomL_iff; have f_roomL_nodup := hi.roomL_nodup; have f_userL_iff := hi.userL_iff; have f_userL_nodup := hi.userL_nodup; have f_sessL_iff := hi.sessL_iff; have f_rs_fwd := hi.rs_fwd; have f_rs_room := hi.rs_room; have f_virt := hi.virt; have f_children := hi.children; have f_vtable := hi.vtable; have f_conn_iff := hi.conn_iff; have f_conn_open := hi.conn_open; have f_eh := hi.eh; have f_expired := hi.expired; have f_anon := hi.anon; have f_dialout := hi.dialout; have f_count := hi.count; have f_orph_virt := hi.orph_virt; have f_incall := hi.incall; have f_count_le := hi.count_le; clear hi; (intros; (try simp only [hubf] at *); grind [mem_removeL, nodup_removeL, removeL_nil, length_removeL_le]))
  case rs_room =>
    by_cases hk : x.kind = .virtual <;> simp only [hk, if_true, if_false]
    all_goals first
      | (have f_rs_room := hi.rs_room; have f_rs_fwd := hi.rs_fwd; have f_fresh := hi.fresh; have f_room_mem := hi.room_mem; clear hi; (intros; (try simp only [hubf] at *); grind [mem_removeL, nodup_removeL, removeL_nil, length_removeL_le]))
      | (have f_fresh := hi.fresh; have f_mem_room := hi.mem_room; have f_room_mem := hi.room_mem; have f_nonempty := hi.nonempty; have f_nodup := hi.nodup; have f_roomL_iff := hi.roomL_iff; have f_roomL_nodup := hi.roomL_nodup; have f_userL_iff := hi.userL_iff; have f_userL_nodup := hi.userL_nodup; have f_sessL_iff := hi.sessL_iff; have f_rs_fwd := hi.rs_fwd; have f_rs_room := hi.rs_room; have f_virt := hi.virt; have f_children := hi.children; have f_vtable := hi.vtable; have f_conn_iff := hi.conn_iff; have f_conn_open := hi.conn_open; have f_eh := hi.eh; have f_expired := hi.expired; have f_anon := hi.anon; have f_dialout := hi.dialout; have f_count := hi.count; have f_orph_virt := hi.orph_virt; have f_incall := hi.incall; have f_count_le := hi.count_le; clear hi; (intros; (try simp only [hubf] at *); grind [mem_removeL, nodup_removeL, removeL_nil, length_removeL_le]))
  case virt =>
    by_cases hk : x.kind = .virtual <;> simp only [hk, if_true, if_false]
    all_goals first
      | (have f_virt := hi.virt; have f_children := hi.children; have f_fresh := hi.fresh; clear hi; (intros; (try simp only [hubf] at *); grind [mem_removeL, nodup_removeL, removeL_nil, length_removeL_le]))
      | (have f_fresh := hi.fresh; have f_mem_room := hi.mem_room; have f_room_mem := hi.room_mem; have f_nonempty := hi.nonempty; have f_nodup := hi.nodup; have f_roomL_iff := hi.roomL_iff; have f_roomL_nodup := hi.roomL_nodup; have f_userL_iff := hi.userL_iff; have f_userL_nodup := hi.userL_nodup; have f_sessL_iff := hi.sessL_iff; have f_rs_fwd := hi.rs_fwd; have f_rs_room := hi.rs_room; have f_virt := hi.virt; have f_children := hi.children; have f_vtable := hi.vtable; have f_conn_iff := hi.conn_iff; have f_conn_open := hi.conn_open; have f_eh := hi.eh; have f_expired := hi.expired; have f_anon := hi.anon; have f_dialout := hi.dialout; have f_count := hi.count; have f_orph_virt := hi.orph_virt; have f_incall := hi.incall; have f_count_le := hi.count_le; clear hi; (intros; (try simp only [hubf] at *); grind [mem_removeL, nodup_removeL, removeL_nil, length_removeL_le]))
  case children =>
    by_cases hk : x.kind = .virtual <;> simp only [hk, if_true, if_false]
    all_goals first
      | (have f_children := hi.children; have f_virt := hi.virt; have f_fresh := hi.fresh; clear hi; (intros; (try simp only [hubf] at *); grind [mem_removeL, nodup_removeL, removeL_nil, length_removeL_le]))
      | (have f_fresh := hi.fresh; have f_mem_room := hi.mem_room; have f_room_mem := hi.room_mem; have f_nonempty := hi.nonempty; have f_nodup := hi.nodup; have f_roomL_iff := hi.roomL_iff; have f_roomL_nodup := hi.roomL_nodup; have f_userL_iff := hi.userL_iff; have f_userL_nodup := hi.userL_nodup; have f_sessL_iff := hi.sessL_iff; have f_rs_fwd := hi.rs_fwd; have f_rs_room := hi.rs_room; have f_virt := hi.virt; have f_children := hi.children; have f_vtable := hi.vtable; have f_conn_iff := hi.conn_iff; have f_conn_open := hi.conn_open; have f_eh := hi.eh; have f_expired := hi.expired; have f_anon := hi.anon; have f_dialout := hi.dialout; have f_count := hi.count; have f_orph_virt := hi.orph_virt; have f_incall := hi.incall; have f_count_le := hi.count_le; clear hi; (intros; (try simp only [hubf] at *); grind [mem_removeL, nodup_removeL, removeL_nil, length_removeL_le]))
  case vtable =>
    by_cases hk : x.kind = .virtual <;> simp only [hk, if_true, if_false]
    all_goals first
      | (have f_vtable := hi.vtable; have f_virt := hi.virt; have f_fresh := hi.fresh; clear hi; (intros; (try simp only [hubf] at *); grind [mem_removeL, nodup_removeL, removeL_nil, length_removeL_le]))
      | (have f_fresh := hi.fresh; have f_mem_room := hi.mem_room; have f_room_mem := hi.room_mem; have f_nonempty := hi.nonempty; have f_nodup := hi.nodup; have f_roomL_iff := hi.roomL_iff; have f_roomL_nodup := hi.roomL_nodup; have f_userL_iff := hi.userL_iff; have f_userL_nodup := hi.userL_nodup; have f_sessL_iff := hi.sessL_iff; have f_rs_fwd := hi.rs_fwd; have f_rs_room := hi.rs_room; have f_virt := hi.virt; have f_children := hi.children; have f_vtable := hi.vtable; have f_conn_iff := hi.conn_iff; have f_conn_open := hi.conn_open; have f_eh := hi.eh; have f_expired := hi.expired; have f_anon := hi.anon; have f_dialout := hi.dialout; have f_count := hi.count; have f_orph_virt := hi.orph_virt; have f_incall := hi.incall; have f_count_le := hi.count_le; clear hi; (intros; (try simp only [hubf] at *); grind [mem_removeL, nodup_removeL, removeL_nil, length_removeL_le]))
  case conn_iff =>
    by_cases hk : x.kind = .virtual <;> simp only [hk, if_true, if_false]
    all_goals first
      | (have f_conn_iff := hi.conn_iff; have f_fresh := hi.fresh; have f_virt := hi.virt; clear hi; (intros; (try simp only [hubf] at *); grind [mem_removeL, nodup_removeL, removeL_nil, length_removeL_le]))
      | (have f_fresh := hi.fresh; have f_mem_room := hi.mem_room; have f_room_mem := hi.room_mem; have f_nonempty := hi.nonempty; have f_nodup := hi.nodup; have f_roomL_iff := hi.roomL_iff; have f_roomL_nodup := hi.roomL_nodup; have f_userL_iff := hi.userL_iff; have f_userL_nodup := hi.userL_nodup; have f_sessL_iff := hi.sessL_iff; have f_rs_fwd := hi.rs_fwd; have f_rs_room := hi.rs_room; have f_virt := hi.virt; have f_children := hi.children; have f_vtable := hi.vtable; have f_conn_iff := hi.conn_iff; have f_conn_open := hi.conn_open; have f_eh := hi.eh; have f_expired := hi.expired; have f_anon := hi.anon; have f_dialout := hi.dialout; have f_count := hi.count; have f_orph_virt := hi.orph_virt; have f_incall := hi.incall; have f_count_le := hi.count_le; clear hi; (intros; (try simp only [hubf] at *); grind [mem_removeL, nodup_removeL, removeL_nil, length_removeL_le]))
  case conn_open =>
    by_cases hk : x.kind = .virtual <;> simp only [hk, if_true, if_false]
    all_goals first
      | (have f_conn_open := hi.conn_open; have f_conn_iff := hi.conn_iff; clear hi; (intros; (try simp only [hubf] at *); grind [mem_removeL, nodup_removeL, removeL_nil, length_removeL_le]))
      | (have f_fresh := hi.fresh; have f_mem_room := hi.mem_room; have f_room_mem := hi.room_mem; have f_nonempty := hi.nonempty; have f_nodup := hi.nodup; have f_roomL_iff := hi.roomL_iff; have f_roomL_nodup := hi.roomL_nodup; have f_userL_iff := hi.userL_iff; have f_userL_nodup := hi.userL_nodup; have f_sessL_iff := hi.sessL_iff; have f_rs_fwd := hi.rs_fwd; have f_rs_room := hi.rs_room; have f_virt := hi.virt; have f_children := hi.children; have f_vtable := hi.vtable; have f_conn_iff := hi.conn_iff; have f_conn_open := hi.conn_open; have f_eh := hi.eh; have f_expired := hi.expired; have f_anon := hi.anon; have f_dialout := hi.dialout; have f_count := hi.count; have f_orph_virt := hi.orph_virt; have f_incall := hi.incall; have f_count_le := hi.count_le; clear hi; (intros; (try simp only [hubf] at *); grind [mem_removeL, nodup_removeL, removeL_nil, length_removeL_le]))
  case eh =>
    by_cases hk : x.kind = .virtual <;> simp only [hk, if_true, if_false]
    all_goals first
      | (have f_eh := hi.eh; have f_conn_iff := hi.conn_iff; have f_conn_open := hi.conn_open; clear hi; (intros; (try simp only [hubf] at *); grind [mem_removeL, nodup_removeL, removeL_nil, length_removeL_le]))
      | (have f_fresh := hi.fresh; have f_mem_room := hi.mem_room; have f_room_mem := hi.room_mem; have f_nonempty := hi.nonempty; have f_nodup := hi.nodup; have f_roomL_iff := hi.roomL_iff; have f_roomL_nodup := hi.roomL_nodup; have f_userL_iff := hi.userL_iff; have f_userL_nodup := hi.userL_nodup; have f_sessL_iff := hi.sessL_iff; have f_rs_fwd := hi.rs_fwd; have f_rs_room := hi.rs_room; have f_virt := hi.virt; have f_children := hi.children; have f_vtable := hi.vtable; have f_conn_iff := hi.conn_iff; have f_conn_open := hi.conn_open; have f_eh := hi.eh; have f_expired := hi.expired; have f_anon := hi.anon; have f_dialout := hi.dialout; have f_count := hi.count; have f_orph_virt := hi.orph_virt; have f_incall := hi.incall; have f_count_le := hi.count_le; clear hi; (intros; (try simp only [hubf] at *); grind [mem_removeL, nodup_removeL, removeL_nil, length_removeL_le]))
  case expired =>
    by_cases hk : x.kind = .virtual <;> simp only [hk, if_true, if_false]
    all_goals first
      | (have f_expired := hi.expired; have f_fresh := hi.fresh; clear hi; (intros; (try simp only [hubf] at *); grind [mem_removeL, nodup_removeL, removeL_nil, length_removeL_le]))
      | (have f_fresh := hi.fresh; have f_mem_room := hi.mem_room; have f_room_mem := hi.room_mem; have f_nonempty := hi.nonempty; have f_nodup := hi.nodup; have f_roomL_iff := hi.roomL_iff; have f_roomL_nodup := hi.roomL_nodup; have f_userL_iff := hi.userL_iff; have f_userL_nodup := hi.userL_nodup; have f_sessL_iff := hi.sessL_iff; have f_rs_fwd := hi.rs_fwd; have f_rs_room := hi.rs_room; have f_virt := hi.virt; have f_children := hi.children; have f_vtable := hi.vtable; have f_conn_iff := hi.conn_iff; have f_conn_open := hi.conn_open; have f_eh := hi.eh; have f_expired := hi.expired; have f_anon := hi.anon; have f_dialout := hi.dialout; have f_count := hi.count; have f_orph_virt := hi.orph_virt; have f_incall := hi.incall; have f_count_le := hi.count_le; clear hi; (intros; (try simp only [hubf] at *); grind [mem_removeL, nodup_removeL, removeL_nil, length_removeL_le]))
  case anon =>
    by_cases hk : x.kind = .virtual <;> simp only [hk, if_true, if_false]
    all_goals first
      | (have f_anon := hi.anon; have f_fresh := hi.fresh; clear hi; (intros; (try simp only [hubf] at *); grind [mem_removeL, nodup_removeL, removeL_nil, length_removeL_le]))
      | (have f_fresh := hi.fresh; have f_mem_room := hi.mem_room; have f_room_mem := hi.room_mem; have f_nonempty := hi.nonempty; have f_nodup := hi.nodup; have f_roomL_iff := hi.roomL_iff; have f_roomL_nodup := hi.roomL_nodup; have f_userL_iff := hi.userL_iff; have f_userL_nodup := hi.userL_nodup; have f_sessL_iff := hi.sessL_iff; have f_rs_fwd := hi.rs_fwd; have f_rs_room := hi.rs_room; have f_virt := hi.virt; have f_children := hi.children; have f_vtable := hi.vtable; have f_conn_iff := hi.conn_iff; have f_conn_open := hi.conn_open; have f_eh := hi.eh; have f_expired := hi.expired; have f_anon := hi.anon; have f_dialout := hi.dialout; have f_count := hi.count; have f_orph_virt := hi.orph_virt; have f_incall := hi.incall; have f_count_le := hi.count_le; clear hi; (intros; (try simp only [hubf] at *); grind [mem_removeL, nodup_removeL, removeL_nil, length_removeL_le]))
  case dialout =>
    by_cases hk : x.kind = .virtual <;> simp only [hk, if_true, if_false]
    all_goals first
      | (have f_dialout := hi.dialout; have f_fresh := hi.fresh; clear hi; (intros; (try simp only [hubf] at *); grind [mem_removeL, nodup_removeL, removeL_nil, length_removeL_le]))
      | (have f_fresh := hi.fresh; have f_mem_room := hi.mem_room; have f_room_mem := hi.room_mem; have f_nonempty := hi.nonempty; have f_nodup := hi.nodup; have f_roomL_iff := hi.roomL_iff; have f_roomL_nodup := hi.roomL_nodup; have f_userL_iff := hi.userL_iff; have f_userL_nodup := hi.userL_nodup; have f_sessL_iff := hi.sessL_iff; have f_rs_fwd := hi.rs_fwd; have f_rs_room := hi.rs_room; have f_virt := hi.virt; have f_children := hi.children; have f_vtable := hi.vtable; have f_conn_iff := hi.conn_iff; have f_conn_open := hi.conn_open; have f_eh := hi.eh; have f_expired := hi.expired; have f_anon := hi.anon; have f_dialout := hi.dialout; have f_count := hi.count; have f_orph_virt := hi.orph_virt; have f_incall := hi.incall; have f_count_le := hi.count_le; clear hi; (intros; (try simp only [hubf] at *); grind [mem_removeL, nodup_removeL, removeL_nil, length_removeL_le]))
  case count =>
    by_cases hk : x.kind = .virtual <;> simp only [hk, if_true, if_false]
    all_goals first
      | (have f_count := hi.count; have f_fresh := hi.fresh; clear hi; (intros; (try simp only [hubf] at *); grind [mem_removeL, nodup_removeL, removeL_nil, length_removeL_le]))
      | (have f_fresh := hi.fresh; have f_mem_room := hi.mem_room; have f_room_mem := hi.room_mem; have f_nonempty := hi.nonempty; have f_nodup := hi.nodup; have f_roomL_iff := hi.roomL_iff; have f_roomL_nodup := hi.roomL_nodup; have f_userL_iff := hi.userL_iff; have f_userL_nodup := hi.userL_nodup; have f_sessL_iff := hi.sessL_iff; have f_rs_fwd := hi.rs_fwd; have f_rs_room := hi.rs_room; have f_virt := hi.virt; have f_children := hi.children; have f_vtable := hi.vtable; have f_conn_iff := hi.conn_iff; have f_conn_open := hi.conn_open; have f_eh := hi.eh; have f_expired := hi.expired; have f_anon := hi.anon; have f_dialout := hi.dialout; have f_count := hi.count; have f_orph_virt := hi.orph_virt; have f_incall := hi.incall; have f_count_le := hi.count_le; clear hi; (intros; (try simp only [hubf] at *); grind [mem_removeL, nodup_removeL, removeL_nil, length_removeL_le]))
  case orph_virt =>
    by_cases hk : x.kind = .virtual <;> simp only [hk, if_true, if_false]
    all_goals first
      | (have f_orph_virt := hi.orph_virt; have f_fresh := hi.fresh; have f_children := hi.children; have f_virt := hi.virt; clear hi; (intros; (try simp only [hubf] at *); grind [mem_removeL, nodup_removeL, removeL_nil, length_removeL_le]))
      | (have f_fresh := hi.fresh; have f_mem_room := hi.mem_room; have f_room_mem := hi.room_mem; have f_nonempty := hi.nonempty; have f_nodup := hi.nodup; have f_roomL_iff := hi.roomL_iff; have f_roomL_nodup := hi.roomL_nodup; have f_userL_iff := hi.userL_iff; have f_userL_nodup := hi.userL_nodup; have f_sessL_iff := hi.sessL_iff; have f_rs_fwd := hi.rs_fwd; have f_rs_room := hi.rs_room; have f_virt := hi.virt; have f_children := hi.children; have f_vtable := hi.vtable; have f_conn_iff := hi.conn_iff; have f_conn_open := hi.conn_open; have f_eh := hi.eh; have f_expired := hi.expired; have f_anon := hi.anon; have f_dialout := hi.dialout; have f_count := hi.count; have f_orph_virt := hi.orph_virt; have f_incall := hi.incall; have f_count_le := hi.count_le; clear hi; (intros; (try simp only [hubf] at *); grind [mem_removeL, nodup_removeL, removeL_nil, length_removeL_le]))
  case incall =>
    by_cases hk : x.kind = .virtual <;> simp only [hk, if_true, if_false]
    all_goals first
      | (have f_incall := hi.incall; have f_mem_room := hi.mem_room; clear hi; (intros; (try simp only [hubf] at *); grind [mem_removeL, nodup_removeL, removeL_nil, length_removeL_le]))
      | (have f_fresh := hi.fresh; have f_mem_room := hi.mem_room; have f_room_mem := hi.room_mem; have f_nonempty := hi.nonempty; have f_nodup := hi.nodup; have f_roomL_iff := hi.roomL_iff; have f_roomL_nodup := hi.roomL_nodup; have f_userL_iff := hi.userL_iff; have f_userL_nodup := hi.userL_nodup; have f_sessL_iff := hi.sessL_iff; have f_rs_fwd := hi.rs_fwd; have f_rs_room := hi.rs_room; have f_virt := hi.virt; have f_children := hi.children; have f_vtable := hi.vtable; have f_conn_iff := hi.conn_iff; have f_conn_open := hi.conn_open; have f_eh := hi.eh; have f_expired := hi.expired; have f_anon := hi.anon; have f_dialout := hi.dialout; have f_count := hi.count; have f_orph_virt := hi.orph_virt; have f_incall := hi.incall; have f_count_le := hi.count_le; clear hi; (intros; (try simp only [hubf] at *); grind [mem_removeL, nodup_removeL, removeL_nil, length_removeL_le]))
  case count_le =>
    by_cases hk : x.kind = .virtual <;> simp only [hk, if_true, if_false]
    all_goals first
      | (have f_count_le := hi.count_le; clear hi; (intros; (try simp only [hubf] at *); grind [mem_removeL, nodup_removeL, removeL_nil, length_removeL_le]))
      | (have f_fresh := hi.fresh; have f_mem_room := hi.mem_room; have f_room_mem := hi.room_mem; have f_nonempty := hi.nonempty; have f_nodup := hi.nodup; have f_roomL_iff := hi.roomL_iff; have f_roomL_nodup := hi.roomL_nodup; have f_userL_iff := hi.userL_iff; have f_userL_nodup := hi.userL_nodup; have f_sessL_iff := hi.sessL_iff; have f_rs_fwd := hi.rs_fwd; have f_rs_room := hi.rs_room; have f_virt := hi.virt; have f_children := hi.children; have f_vtable := hi.vtable; have f_conn_iff := hi.conn_iff; have f_conn_open := hi.conn_open; have f_eh := hi.eh; have f_expired := hi.expired; have f_anon := hi.anon; have f_dialout := hi.dialout; have f_count := hi.count; have f_orph_virt := hi.orph_virt; have f_incall := hi.incall; have f_count_le := hi.count_le; clear hi; (intros; (try simp only [hubf] at *); grind [mem_removeL, nodup_removeL, removeL_nil, length_removeL_le]))

theorem InvG.weaken_room {R R' : Nat → Sess → String → Prop} {orph : List Nat} {h : Hub}
    (hRR : ∀ s x r, h.sess s = some x → x.room = some r → R s x r → R' s x r) (hi : InvG R orph h) : InvG R' orph h := by
  obtain ⟨f1, f2, f3, f4, f5, f6, f7, f8, f9, f10, f11, f12, f13, f14, f15, f16, f17, f18, f19, f20, f21, f22, f23, f24, f25⟩ := hi
  constructor
  all_goals first | assumption | skip
  · intro s x r hx hr
    rcases f3 s x r hx hr with h1 | h1
    · exact Or.inl h1
    · exact Or.inr (hRR s x r hx hr h1)

theorem Rdel_core {b : Nat} {r : String} {ms : List Nat} :
    ∀ (s : Nat) (x x' : Sess) (r' : String), x'.backend = x.backend → Rdel b r ms s x r' → Rdel b r ms s x' r' := by
  intro s x x' r' e h; unfold Rdel at *; rw [e]; exact h

/-- State of the loop over the former members of a deleted room: exactly the sessions still to be
processed point to the room, which is gone from the table. -/
structure DelState (b : Nat) (r : String) (l : List Nat) (h : Hub) : Prop where
  inv : InvG (Rdel b r l) [] h
  gone : h.rooms b r = none
  pend : ∀ t x, h.sess t = some x → t ∈ l → x.room = none ∨ (x.backend = b ∧ x.room = some r)

theorem deleteLeave_step (a : Acc) (s : Nat) (l : List Nat) {b : Nat} {r : String} (hnd : (s :: l).Nodup)
    (hd : DelState b r (s :: l) a.h) : DelState b r l (deleteLeave a s).h := by
  obtain ⟨hi, hgone, hQ⟩ := hd
  have hsl : s ∉ l := (List.nodup_cons.mp hnd).1
  unfold deleteLeave
  cases hx : a.h.sess s with
  | none =>
    refine ⟨?_, hgone, fun t x ht hm => hQ t x ht (List.mem_cons_of_mem _ hm)⟩
    apply InvG.weaken_room _ hi
    intro t x r' ht _ hR
    unfold Rdel at *
    refine ⟨hR.1, hR.2.1, ?_⟩
    rcases List.mem_cons.mp hR.2.2 with e | e
    · rw [e, hx] at ht; cases ht
    · exact e
  | some x =>
    simp only []
    rcases hQ s x hx List.mem_cons_self with hr | ⟨hb, hr⟩
    · -- no room: nothing to leave
      have e : (leaveRoom a s).1.h = a.h := by unfold leaveRoom; simp only [hx, hr]
      have base : DelState b r l a.h := by
        refine ⟨?_, hgone, fun t x ht hm => hQ t x ht (List.mem_cons_of_mem _ hm)⟩
        apply InvG.weaken_room _ hi
        intro t y r' ht hyr hR
        unfold Rdel at *
        refine ⟨hR.1, hR.2.1, ?_⟩
        rcases List.mem_cons.mp hR.2.2 with e' | e'
        · rw [e', hx] at ht; cases ht; rw [hr] at hyr; cases hyr
        · exact e'
      have hc : CoreEq a.h (if (x.kind ≠ .virtual && x.conn.isSome) = true then sendTo (leaveRoom a s).1 s (.room "")
          else (leaveRoom a s).1).h := by
        split
        · exact coreOf (sendTo_core _ _ _) e
        · rw [e]; exact CoreEq.refl _
      refine ⟨base.inv.congr hc Rdel_core, by rw [hc.rooms]; exact hgone, ?_⟩
      intro t y ht hm
      have := hc.sess_fields t
      have := base.pend t
      grind
    · -- the room is gone: the relaxed leave
      have hrm : a.h.rooms x.backend r = none := by rw [hb]; exact hgone
      have e := leaveRoom_gone a s hx hr hrm
      have hg := leaveGone_inv hi hx hb hr hgone
      have hrem : removeL (s :: l) s = l := by
        unfold removeL
        simp only [List.filter_cons, ne_eq, not_true_eq_false, decide_false, Bool.false_eq_true, if_false]
        apply List.filter_eq_self.mpr
        intro t ht; simp; intro e'; exact hsl (e' ▸ ht)
      rw [hrem] at hg
      have hc : CoreEq (leaveGone a.h s x r) (if (x.kind ≠ .virtual && x.conn.isSome) = true then sendTo (leaveRoom a s).1 s (.room "")
          else (leaveRoom a s).1).h := by
        split
        · exact coreOf (sendTo_core _ _ _) e
        · rw [e]; exact CoreEq.refl _
      have hgs : ∀ t, (leaveGone a.h s x r).sess t = if t = s then some { x with room := none, roomSess := "", seenJoin := [] } else a.h.sess t := by
        intro t; unfold leaveGone
        by_cases hk : x.kind = .virtual <;> simp only [hk, if_true, if_false, hubf]
      have hgr : (leaveGone a.h s x r).rooms = a.h.rooms := by
        unfold leaveGone
        by_cases hk : x.kind = .virtual <;> simp only [hk, if_true, if_false, hubf]
      refine ⟨hg.congr hc Rdel_core, by rw [hc.rooms, hgr]; exact hgone, ?_⟩
      intro t y ht hm
      have hts : t ≠ s := fun e' => hsl (e' ▸ hm)
      have := hc.sess_fields t
      have := hgs t
      have := hQ t
      grind

theorem foldl_deleteLeave {b : Nat} {r : String} : ∀ (l : List Nat) (a : Acc), l.Nodup → DelState b r l a.h →
    DelState b r [] (l.foldl deleteLeave a).h := by
  intro l
  induction l with
  | nil => intro a _ hd; exact hd
  | cons s l ih =>
    intro a hnd hd
    simp only [List.foldl_cons]
    exact ih _ (List.nodup_cons.mp hnd).2 (deleteLeave_step a s l hnd hd)

theorem apiDelete_inv (a : Acc) (b : Nat) (r : String) (hi : Inv a.h) : Inv (apiDelete a b r).h := by
  unfold apiDelete
  cases hrm : a.h.rooms b r with
  | none => exact hi
  | some rm =>
    simp only []
    have c1 : CoreEq a.h (rm.members.foldl notifyRoomDeleted a).h := by
      apply foldl_core
      intro a s; unfold notifyRoomDeleted; core_auto
    have hi1 := hi.congr c1
    have hrm1 : (rm.members.foldl notifyRoomDeleted a).h.rooms b r = some rm := by rw [c1.rooms]; exact hrm
    generalize rm.members.foldl notifyRoomDeleted a = a1 at hi1 hrm1 ⊢
    have hd : DelState b r rm.members ({ a1 with h := setRoom a1.h b r none } : Acc).h := by
      refine ⟨deleteStart_inv hi1 hrm1, by simp [hubf], ?_⟩
      intro t x ht hm
      simp only [hubf] at ht
      obtain ⟨y, hy, e1, e2⟩ := hi1.mem_room b r rm t hrm1 hm
      rw [ht] at hy; cases hy
      exact Or.inr ⟨e1, e2⟩
    have fin := foldl_deleteLeave rm.members _ (hi1.nodup b r rm hrm1) hd
    apply InvG.weaken_room _ fin.inv
    intro s x r' _ _ hR
    unfold Rdel at hR
    exact absurd hR.2.2 (by simp)

theorem processApi_inv (a : Acc) (b : Nat) (r : String) (req : Api) (hi : Inv a.h) : Inv (processApi a b r req).h := by
  cases req with
  | invite us all => exact apiInvite_inv a b r us all hi
  | disinvite us rss all => exact apiDisinvite_inv a b r us rss all hi
  | delete => exact apiDelete_inv a b r hi
  | message d => exact apiMessage_inv a b r d hi
  | incallAll ic => exact apiIncallAll_inv a b r ic hi
  | incall ch us => exact apiIncall_inv a b r ch us hi
  | participants ch us => exact apiParticipants_inv a b r ch us hi
  | switchto room rss => exact apiSwitchto_inv a b r room rss hi

/-! ### every operation, every history -/

theorem stepAcc_inv (a : Acc) (op : Op) (hi : Inv a.h) : Inv (stepAcc a op).h := by
  cases op with
  | connect c => exact connect_inv a c hi
  | hello c b kind user d i =>
    simp only [stepAcc]
    by_cases hk : kind = .virtual
    · simp only [hk, if_true]; exact hi
    · simp only [hk, if_false]; exact processHello_inv a c b kind user d i hk hi
  | resume c s => exact processResume_inv a c s hi
  | disconnect c => exact processDisconnect_inv a c hi
  | bye c => exact processBye_inv a c hi
  | housekeeping l => exact housekeeping_inv a l hi
  | join s r rs rep =>
    simp only [stepAcc]; split
    · exact processRoom_inv a s r rs rep hi
    · exact hi
  | message s ctl rc d =>
    simp only [stepAcc]
    refine hi.congr ?_
    split
    · exact CoreEq.refl _
    · split
      · exact sendTo_core _ _ _
      · exact processMessage_core _ _ _ _ _
  | addVirtual s r vk u ic ok =>
    simp only [stepAcc]; split
    · exact addVirtual_inv a s r vk u ic ok hi
    · exact hi
  | removeVirtual s r vk =>
    simp only [stepAcc]; split
    · exact removeVirtual_inv a s r vk hi
    · exact hi
  | internalInCall s ic =>
    simp only [stepAcc]; split
    · exact internalInCall_inv a s ic hi
    · exact hi
  | api b r req => exact processApi_inv a b r req hi
  | setLimit b l =>
    simp only [stepAcc]
    split
    · rename_i hl
      obtain ⟨f1, f2, f3, f4, f5, f6, f7, f8, f9, f10, f11, f12, f13, f14, f15, f16, f17, f18, f19, f20, f21, f22, f23, f24, f25⟩ := hi
      constructor
      all_goals first | assumption | skip
      · intro b' hb'
        simp only [] at hb' ⊢
        by_cases e : b' = b
        · subst e; simp only [if_true] at hb' ⊢; rcases hl with h0 | h0
          · exact absurd h0 hb'
          · exact h0
        · simp only [e, if_false] at hb' ⊢; exact f25 b' hb'
    · exact hi

theorem step_inv (h : Hub) (op : Op) (hi : Inv h) : Inv (step h op).1 := by
  unfold step
  exact flushCloses_inv _ (stepAcc_inv { h := h } op hi)

theorem run_inv : ∀ (ops : List Op) (h : Hub), Inv h → Inv (run h ops).1 := by
  intro ops
  induction ops with
  | nil => intro h hi; exact hi
  | cons op ops ih =>
    intro h hi
    simp only [run]
    exact ih _ (step_inv h op hi)

/-- Every state the hub model can reach from the empty hub satisfies the invariant. -/
theorem reachable_inv (ops : List Op) : Inv (run {} ops).1 := run_inv ops _ Inv.init

end SigModel.Hub
