/-
Hub lemmas, part 7: what a publication on a bus subject writes to connections (for C05).
-/
import SigModel.Lemmas.HubOps

namespace SigModel.Hub

/-- A client-to-client (control) message. -/
def isMessage : Msg → Bool
  | .message .. => true
  | _ => false

theorem filterMessage_message (x : Sess) (m : Msg) (hm : isMessage m = true) : filterMessage x m = (x, some m) := by
  cases m <;> simp_all [isMessage, filterMessage]

/-- What session `l` gets written to its connection when message `m` is handed to it by the bus in hub
state `h`: nothing if the receiver-side filter drops it or no connection is attached (it is queued). -/
def deliveredTo (h : Hub) (l : Nat) (m : Msg) : Option Out :=
  match h.sess l with
  | none => none
  | some x =>
    if passesAsyncFilter h l x m then
      match x.conn with
      | some c => some ⟨c, m, some x.backend⟩
      | none => none
    else none

theorem filterMap_congr' {α β : Type} {f g : α → Option β} : ∀ {l : List α}, (∀ a, a ∈ l → f a = g a) →
    l.filterMap f = l.filterMap g := by
  intro l
  induction l with
  | nil => intro _; rfl
  | cons a l ih =>
    intro h
    simp only [List.filterMap_cons, h a List.mem_cons_self, ih (fun b hb => h b (List.mem_cons_of_mem _ hb))]

theorem target_nonvirtual {h : Hub} {l : Nat} {x : Sess} (hx : h.sess l = some x) (hk : x.kind ≠ .virtual) :
    target h l = l := by
  unfold target; simp [hx, hk]

/-- Writing a message to a non-virtual session: the output, and nothing else of the state that other
sessions' deliveries depend on. -/
theorem sendTo_message (a : Acc) (l : Nat) (m : Msg) (hm : isMessage m = true) {x : Sess}
    (hx : a.h.sess l = some x) (hk : x.kind ≠ .virtual) :
    (sendTo a l m).outs = a.outs ++ (match x.conn with | some c => [⟨c, m, some x.backend⟩] | none => []) ∧
    (∀ t, t ≠ l → (sendTo a l m).h.sess t = a.h.sess t) ∧ (sendTo a l m).h.rooms = a.h.rooms := by
  unfold sendTo
  simp only [target_nonvirtual hx hk, hx, filterMessage_message x m hm]
  cases hc : x.conn with
  | some c =>
    simp only []
    refine ⟨by simp, ?_, by simp [hubf]⟩
    intro t ht; simp [hubf, ht]
  | none =>
    simp only []
    split
    · refine ⟨by simp, ?_, by simp [hubf]⟩
      intro t ht; simp [hubf, ht]
    · refine ⟨by simp, ?_, by simp [hubf]⟩
      intro t ht; simp [hubf, ht]

theorem procClient_message (a : Acc) (l : Nat) (m : Msg) (hm : isMessage m = true)
    (hk : ∀ x, a.h.sess l = some x → x.kind ≠ .virtual) :
    (procClient a l (.msg m)).outs = a.outs ++ (deliveredTo a.h l m).toList ∧
    (∀ t, t ≠ l → (procClient a l (.msg m)).h.sess t = a.h.sess t) ∧ (procClient a l (.msg m)).h.rooms = a.h.rooms := by
  unfold procClient deliveredTo
  cases hx : a.h.sess l with
  | none => simp
  | some x =>
    simp only []
    by_cases hp : passesAsyncFilter a.h l x m = true
    · simp only [hp, if_true]
      obtain ⟨h1, h2, h3⟩ := sendTo_message a l m hm hx (hk x hx)
      refine ⟨?_, h2, h3⟩
      rw [h1]; cases x.conn <;> rfl
    · simp only [hp]; simp

/-- The delivery to `t` only looks at `t`'s own record and at the rooms. -/
theorem deliveredTo_congr {h h' : Hub} (t : Nat) (m : Msg) (hs : h'.sess t = h.sess t) (hr : h'.rooms = h.rooms) :
    deliveredTo h' t m = deliveredTo h t m := by
  unfold deliveredTo
  rw [hs]
  cases h.sess t with
  | none => rfl
  | some x =>
    simp only []
    have : passesAsyncFilter h' t x m = passesAsyncFilter h t x m := by
      cases m <;> simp only [passesAsyncFilter]
      unfold roomInCall; rw [hr]
    rw [this]

/-- Publishing a message to a duplicate-free list of non-virtual listeners writes, for each of them
independently, what `deliveredTo` says in the state before the publication. -/
theorem foldl_procClient_message (m : Msg) (hm : isMessage m = true) :
    ∀ (ls : List Nat) (a : Acc), ls.Nodup → (∀ l, l ∈ ls → ∀ x, a.h.sess l = some x → x.kind ≠ .virtual) →
      (ls.foldl (fun a l => procClient a l (.msg m)) a).outs = a.outs ++ ls.filterMap (fun l => deliveredTo a.h l m) := by
  intro ls
  induction ls with
  | nil => intro a _ _; simp
  | cons l ls ih =>
    intro a hnd hk
    simp only [List.foldl_cons]
    obtain ⟨h1, h2, h3⟩ := procClient_message a l m hm (hk l List.mem_cons_self)
    have hl : l ∉ ls := (List.nodup_cons.mp hnd).1
    rw [ih _ (List.nodup_cons.mp hnd).2 ?_]
    · rw [h1, List.filterMap_cons]
      have hcongr : ls.filterMap (fun t => deliveredTo (procClient a l (.msg m)).h t m) = ls.filterMap (fun t => deliveredTo a.h t m) := by
        apply filterMap_congr'
        intro t ht
        exact deliveredTo_congr t m (h2 t (fun e => hl (e ▸ ht))) h3
      rw [hcongr]
      cases deliveredTo a.h l m <;> simp
    · intro t ht x hx
      rw [h2 t (fun e => hl (e ▸ ht))] at hx
      exact hk t (List.mem_cons_of_mem _ ht) x hx

end SigModel.Hub
