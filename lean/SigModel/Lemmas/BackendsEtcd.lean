/-
Lemmas for the etcd storage part of C13: after any history of events the table is the canonical
table of the current key/value map (per host: the entries of that host, strictly ordered by key),
hence independent of the history.
-/
import SigModel.Lemmas.Backends
import SigModel.Spec.Backends

namespace SigModel.Backends

/-! ### the info map -/

theorem iget_iset (m : Infos) (k k' : String) (v : Info) :
    iget (iset m k v) k' = if k' = k then some v else iget m k' := by
  induction m with
  | nil =>
    by_cases h : k' = k
    · subst h; simp [iset, iget]
    · have : ¬ k = k' := fun hh => h hh.symm
      simp [iset, iget, h, this]
  | cons e m ih =>
    obtain ⟨a, w⟩ := e
    by_cases ha : a = k
    · subst ha
      by_cases h : k' = a
      · subst h; simp [iset, iget]
      · have : ¬ a = k' := fun hh => h hh.symm
        simp [iset, iget, h, this]
    · by_cases h : a = k'
      · subst h; simp [iset, iget, ha]
      · simp [iset, iget, ha, h, ih]

theorem iget_idel (m : Infos) (k k' : String) :
    iget (idel m k) k' = if k' = k then none else iget m k' := by
  induction m with
  | nil => simp [idel, iget]
  | cons e m ih =>
    obtain ⟨a, w⟩ := e
    by_cases ha : a = k
    · subst ha
      by_cases h : k' = a
      · subst h; simp [idel, ih]
      · have : ¬ a = k' := fun hh => h hh.symm
        simp [idel, iget, ih, h, this]
    · by_cases h : a = k'
      · subst h; simp [idel, iget, ha]
      · simp [idel, iget, ha, h, ih]

/-! ### strictly sorted entry lists -/

def Sorted (es : List Backend) : Prop := es.Pairwise (fun a b => a.id < b.id)

theorem str_lt_of_not_lt_of_ne {a b : String} (h1 : ¬ a < b) (h2 : a ≠ b) : b < a := by
  have := String.not_lt.mp h1
  exact Decidable.byContradiction (fun hn => h2 (String.le_antisymm (String.not_lt.mp hn) this))

/-- Two strictly sorted lists with the same members are equal. -/
theorem sorted_unique : ∀ (l₁ l₂ : List Backend), Sorted l₁ → Sorted l₂ → (∀ b, b ∈ l₁ ↔ b ∈ l₂) → l₁ = l₂
  | [], [], _, _, _ => rfl
  | [], b :: _, _, _, h => by have := (h b).mpr (by simp); cases this
  | a :: _, [], _, _, h => by have := (h a).mp (by simp); cases this
  | a :: t₁, b :: t₂, h₁, h₂, h => by
    have ⟨ha, ht₁⟩ := List.pairwise_cons.mp h₁
    have ⟨hb, ht₂⟩ := List.pairwise_cons.mp h₂
    have hab : a = b := by
      have m1 := (h a).mp (by simp)
      have m2 := (h b).mpr (by simp)
      simp only [List.mem_cons] at m1 m2
      rcases m1 with e | m1
      · exact e
      · rcases m2 with e | m2
        · exact e.symm
        · exact absurd (hb a m1) (String.lt_asymm (ha b m2))
    subst hab
    have htl : ∀ x, x ∈ t₁ ↔ x ∈ t₂ := by
      intro x
      constructor
      · intro hx
        have := (h x).mp (by simp [hx])
        simp only [List.mem_cons] at this
        rcases this with e | m
        · subst e; exact absurd (ha x hx) (String.lt_irrefl _)
        · exact m
      · intro hx
        have := (h x).mpr (by simp [hx])
        simp only [List.mem_cons] at this
        rcases this with e | m
        · subst e; exact absurd (hb x hx) (String.lt_irrefl _)
        · exact m
    rw [sorted_unique t₁ t₂ ht₁ ht₂ htl]

theorem mem_insertSorted (b x : Backend) (es : List Backend) : x ∈ insertSorted b es ↔ x = b ∨ x ∈ es := by
  induction es with
  | nil => simp [insertSorted]
  | cons e es ih =>
    by_cases h : b.id < e.id
    · simp [insertSorted, h]
    · simp only [insertSorted, h, if_false, List.mem_cons, ih]
      constructor
      · rintro (h1 | h1 | h1) <;> simp [h1]
      · rintro (h1 | h1 | h1) <;> simp [h1]

theorem sorted_insertSorted (b : Backend) (es : List Backend) (hs : Sorted es) (hne : ∀ e ∈ es, e.id ≠ b.id) :
    Sorted (insertSorted b es) := by
  induction es with
  | nil => simp [insertSorted, Sorted]
  | cons e es ih =>
    have ⟨he, hes⟩ := List.pairwise_cons.mp hs
    by_cases h : b.id < e.id
    · simp only [insertSorted, h, if_true]
      apply List.pairwise_cons.mpr
      refine ⟨?_, hs⟩
      intro x hx
      simp only [List.mem_cons] at hx
      rcases hx with rfl | hx
      · exact h
      · exact String.lt_trans h (he x hx)
    · simp only [insertSorted, h, if_false]
      apply List.pairwise_cons.mpr
      refine ⟨?_, ih hes (fun x hx => hne x (by simp [hx]))⟩
      intro x hx
      rcases (mem_insertSorted b x es).mp hx with rfl | hx
      · exact str_lt_of_not_lt_of_ne h (fun hh => hne e (by simp) hh.symm)
      · exact he x hx

theorem mem_replaceFirst (b x : Backend) (es : List Backend) (hs : Sorted es) (hex : ∃ e ∈ es, e.id = b.id) :
    x ∈ replaceFirst b es ↔ x = b ∨ (x ∈ es ∧ x.id ≠ b.id) := by
  induction es with
  | nil => obtain ⟨e, he, _⟩ := hex; cases he
  | cons e es ih =>
    have ⟨he, hes⟩ := List.pairwise_cons.mp hs
    by_cases h : e.id = b.id
    · simp only [replaceFirst, h, if_true, List.mem_cons]
      constructor
      · rintro (h1 | h1)
        · exact Or.inl h1
        · right
          refine ⟨Or.inr h1, ?_⟩
          intro hx
          have := he x h1
          rw [hx, ← h] at this
          exact String.lt_irrefl _ this
      · rintro (h1 | ⟨h1 | h1, h2⟩)
        · exact Or.inl h1
        · subst h1; exact absurd h h2
        · exact Or.inr h1
    · have hex' : ∃ e' ∈ es, e'.id = b.id := by
        obtain ⟨e', he', hid⟩ := hex
        simp only [List.mem_cons] at he'
        rcases he' with rfl | he'
        · exact absurd hid h
        · exact ⟨e', he', hid⟩
      simp only [replaceFirst, h, if_false, List.mem_cons, ih hes hex']
      constructor
      · rintro (h1 | h1 | ⟨h1, h2⟩)
        · subst h1; exact Or.inr ⟨Or.inl rfl, h⟩
        · exact Or.inl h1
        · exact Or.inr ⟨Or.inr h1, h2⟩
      · rintro (h1 | ⟨h1 | h1, h2⟩)
        · exact Or.inr (Or.inl h1)
        · exact Or.inl h1
        · exact Or.inr (Or.inr ⟨h1, h2⟩)

theorem sorted_replaceFirst (b : Backend) (es : List Backend) (hs : Sorted es) : Sorted (replaceFirst b es) := by
  induction es with
  | nil => simp [replaceFirst, Sorted]
  | cons e es ih =>
    have ⟨he, hes⟩ := List.pairwise_cons.mp hs
    by_cases h : e.id = b.id
    · simp only [replaceFirst, h, if_true]
      apply List.pairwise_cons.mpr
      exact ⟨fun x hx => by rw [← h]; exact he x hx, hes⟩
    · simp only [replaceFirst, h, if_false]
      apply List.pairwise_cons.mpr
      refine ⟨?_, ih hes⟩
      intro x hx
      by_cases hex : ∃ e' ∈ es, e'.id = b.id
      · rcases (mem_replaceFirst b x es hes hex).mp hx with rfl | ⟨hx, _⟩
        · obtain ⟨e', he', hid⟩ := hex
          rw [← hid]; exact he e' he'
        · exact he x hx
      · -- nothing to replace: the list is unchanged
        have : replaceFirst b es = es := by
          clear ih hx hs he hes
          induction es with
          | nil => rfl
          | cons y ys ihy =>
            have hy : ¬ y.id = b.id := fun hh => hex ⟨y, by simp, hh⟩
            simp only [replaceFirst, hy, if_false]
            rw [ihy (fun ⟨e', he', hid⟩ => hex ⟨e', by simp [he'], hid⟩)]
        rw [this] at hx
        exact he x hx

/-! ### the table invariant, over the key/value map as a function -/

/-- `t` is the canonical table of the key/value map `f`. -/
structure TInv (t : Table) (f : String → Option Info) : Prop where
  sorted : ∀ h es, tget t h = some es → es ≠ [] ∧ Sorted es
  mem : ∀ h b, (∃ es, tget t h = some es ∧ b ∈ es) ↔ (∃ i, f b.id = some i ∧ i.host = h ∧ b = backendOf b.id i)

theorem tinv_empty : TInv [] (fun _ => none) :=
  ⟨fun h es he => by simp [tget] at he, fun h b => by simp [tget]⟩

/-- Canonical tables of the same map agree on every host. -/
theorem tinv_unique {t₁ t₂ : Table} {f : String → Option Info} (h₁ : TInv t₁ f) (h₂ : TInv t₂ f) (h : String) :
    tget t₁ h = tget t₂ h := by
  cases e₁ : tget t₁ h with
  | none =>
    cases e₂ : tget t₂ h with
    | none => rfl
    | some es₂ =>
      exfalso
      obtain ⟨hne, _⟩ := h₂.sorted h es₂ e₂
      cases es₂ with
      | nil => exact hne rfl
      | cons b _ =>
        obtain ⟨es, he, _⟩ := (h₁.mem h b).mpr ((h₂.mem h b).mp ⟨_, e₂, by simp⟩)
        rw [e₁] at he; cases he
  | some es₁ =>
    cases e₂ : tget t₂ h with
    | none =>
      exfalso
      obtain ⟨hne, _⟩ := h₁.sorted h es₁ e₁
      cases es₁ with
      | nil => exact hne rfl
      | cons b _ =>
        obtain ⟨es, he, _⟩ := (h₂.mem h b).mpr ((h₁.mem h b).mp ⟨_, e₁, by simp⟩)
        rw [e₂] at he; cases he
    | some es₂ =>
      congr 1
      apply sorted_unique _ _ (h₁.sorted h es₁ e₁).2 (h₂.sorted h es₂ e₂).2
      intro b
      constructor
      · intro hb
        obtain ⟨es, he, hm⟩ := (h₂.mem h b).mpr ((h₁.mem h b).mp ⟨_, e₁, hb⟩)
        rw [e₂] at he; cases he; exact hm
      · intro hb
        obtain ⟨es, he, hm⟩ := (h₁.mem h b).mpr ((h₂.mem h b).mp ⟨_, e₂, hb⟩)
        rw [e₁] at he; cases he; exact hm

theorem tinv_congr {t : Table} {f g : String → Option Info} (h : TInv t f) (hfg : ∀ k, f k = g k) : TInv t g := by
  have : f = g := funext hfg
  rw [← this]; exact h

theorem backendOf_id (k : String) (i : Info) : (backendOf k i).id = k := rfl

theorem mem_dropKey (key : String) (es : List Backend) (b : Backend) :
    b ∈ dropKey key es ↔ b ∈ es ∧ b.id ≠ key := by
  simp [dropKey, List.mem_filter]

theorem sorted_dropKey (key : String) (es : List Backend) (h : Sorted es) : Sorted (dropKey key es) :=
  List.Pairwise.filter _ h

theorem tget_removeKey (t : Table) (key host h : String) :
    tget (removeKey t key host) h =
      if h = host then
        match tget t host with
        | none => none
        | some es => if dropKey key es = [] then none else some (dropKey key es)
      else tget t h := by
  unfold removeKey
  cases e : tget t host with
  | none =>
    by_cases hh : h = host
    · subst hh; simp [e]
    · simp [hh]
  | some es =>
    by_cases hnil : dropKey key es = []
    · simp only [hnil, if_true]
      rw [tget_tdel]
    · simp only [hnil, if_false]
      rw [tget_tset]

/-- Removing the entry of a key: the table of the map without that key. -/
theorem tinv_removeKey {t : Table} {f : String → Option Info} (hi : TInv t f) (key : String) (old : Info)
    (hold : f key = some old) :
    TInv (removeKey t key old.host) (fun k => if k = key then none else f k) := by
  constructor
  · intro h es he
    rw [tget_removeKey] at he
    by_cases hh : h = old.host
    · rw [if_pos hh] at he
      cases e : tget t old.host with
      | none => rw [e] at he; cases he
      | some es₀ =>
        rw [e] at he
        by_cases hnil : dropKey key es₀ = []
        · simp only [hnil, if_true] at he; cases he
        · simp only [hnil, if_false, Option.some.injEq] at he
          subst he
          exact ⟨hnil, sorted_dropKey _ _ (hi.sorted _ _ e).2⟩
    · rw [if_neg hh] at he
      exact hi.sorted h es he
  · intro h b
    rw [tget_removeKey]
    by_cases hh : h = old.host
    · rw [if_pos hh]
      constructor
      · rintro ⟨es, he, hb⟩
        cases e : tget t old.host with
        | none => rw [e] at he; cases he
        | some es₀ =>
          rw [e] at he
          by_cases hnil : dropKey key es₀ = []
          · simp only [hnil, if_true] at he; cases he
          · simp only [hnil, if_false, Option.some.injEq] at he
            subst he
            have ⟨hb0, hbk⟩ := (mem_dropKey _ _ _).mp hb
            obtain ⟨i, hfi, hhost, hbe⟩ := (hi.mem old.host b).mp ⟨_, e, hb0⟩
            exact ⟨i, by simp [hbk, hfi], by rw [hh]; exact hhost, hbe⟩
      · rintro ⟨i, hfi, hhost, hbe⟩
        by_cases hbk : b.id = key
        · simp [hbk] at hfi
        · simp only [hbk, if_false] at hfi
          rw [hh] at hhost
          obtain ⟨es₀, e, hb0⟩ := (hi.mem old.host b).mpr ⟨i, hfi, hhost, hbe⟩
          have hbf : b ∈ dropKey key es₀ := (mem_dropKey _ _ _).mpr ⟨hb0, hbk⟩
          have hnil : dropKey key es₀ ≠ [] := fun hn => by rw [hn] at hbf; cases hbf
          exact ⟨_, by simp [e, hnil], hbf⟩
    · rw [if_neg hh]
      constructor
      · rintro ⟨es, he, hb⟩
        obtain ⟨i, hfi, hhost, hbe⟩ := (hi.mem h b).mp ⟨es, he, hb⟩
        have hbk : b.id ≠ key := by
          intro hk
          rw [hk, hold] at hfi
          cases hfi
          exact hh hhost.symm
        exact ⟨i, by simp [hbk, hfi], hhost, hbe⟩
      · rintro ⟨i, hfi, hhost, hbe⟩
        by_cases hbk : b.id = key
        · simp [hbk] at hfi
        · simp only [hbk, if_false] at hfi
          exact (hi.mem h b).mpr ⟨i, hfi, hhost, hbe⟩

/-- Filing the entry of a key that the map does not have yet. -/
theorem tinv_addKey {t : Table} {f : String → Option Info} (hi : TInv t f) (key : String) (i : Info)
    (hnone : f key = none) :
    TInv (tset t i.host (match tget t i.host with
                         | none => [backendOf key i]
                         | some es => replaceOrInsert (backendOf key i) es))
         (fun k => if k = key then some i else f k) := by
  -- no entry anywhere carries this key
  have hfresh : ∀ h es, tget t h = some es → ∀ e ∈ es, e.id ≠ key := by
    intro h es he e hm hk
    obtain ⟨j, hfj, _, _⟩ := (hi.mem h e).mp ⟨es, he, hm⟩
    rw [hk, hnone] at hfj; cases hfj
  have hnew : (match tget t i.host with
               | none => [backendOf key i]
               | some es => replaceOrInsert (backendOf key i) es)
      = insertSorted (backendOf key i) ((tget t i.host).getD []) := by
    cases e : tget t i.host with
    | none => simp [insertSorted]
    | some es =>
      have : es.any (fun x => decide (x.id = (backendOf key i).id)) = false := by
        rw [List.any_eq_false]
        intro x hx
        simp [backendOf_id, hfresh _ _ e x hx]
      simp [replaceOrInsert, this]
  rw [hnew]
  have hsorted0 : Sorted ((tget t i.host).getD []) := by
    cases e : tget t i.host with
    | none => simp [Sorted]
    | some es => exact (hi.sorted _ _ e).2
  have hne0 : ∀ e ∈ (tget t i.host).getD [], e.id ≠ (backendOf key i).id := by
    cases e : tget t i.host with
    | none => simp
    | some es => intro x hx; simpa [backendOf_id] using hfresh _ _ e x (by simpa using hx)
  constructor
  · intro h es he
    rw [tget_tset] at he
    by_cases hh : h = i.host
    · simp only [hh, if_true, Option.some.injEq] at he
      subst he
      refine ⟨?_, sorted_insertSorted _ _ hsorted0 hne0⟩
      intro hn
      have : backendOf key i ∈ insertSorted (backendOf key i) ((tget t i.host).getD []) :=
        (mem_insertSorted _ _ _).mpr (Or.inl rfl)
      rw [hn] at this; cases this
    · simp only [hh, if_false] at he
      exact hi.sorted h es he
  · intro h b
    rw [tget_tset]
    by_cases hh : h = i.host
    · simp only [hh, if_true]
      constructor
      · rintro ⟨es, he, hb⟩
        simp only [Option.some.injEq] at he
        subst he
        rcases (mem_insertSorted _ _ _).mp hb with rfl | hb
        · exact ⟨i, by simp [backendOf_id], rfl, rfl⟩
        · cases e : tget t i.host with
          | none => simp [e] at hb
          | some es₀ =>
            simp only [e, Option.getD_some] at hb
            obtain ⟨j, hfj, hhost, hbe⟩ := (hi.mem i.host b).mp ⟨_, e, hb⟩
            have hbk : b.id ≠ key := hfresh _ _ e b hb
            exact ⟨j, by simp [hbk, hfj], hhost, hbe⟩
      · rintro ⟨j, hfj, hhost, hbe⟩
        refine ⟨_, rfl, (mem_insertSorted _ _ _).mpr ?_⟩
        by_cases hbk : b.id = key
        · simp only [hbk, if_true, Option.some.injEq] at hfj
          subst hfj
          left; rw [hbe, hbk]
        · simp only [hbk, if_false] at hfj
          obtain ⟨es₀, e, hb0⟩ := (hi.mem i.host b).mpr ⟨j, hfj, hhost, hbe⟩
          right; simp [e, hb0]
    · simp only [hh, if_false]
      constructor
      · rintro ⟨es, he, hb⟩
        obtain ⟨j, hfj, hhost, hbe⟩ := (hi.mem h b).mp ⟨es, he, hb⟩
        have hbk : b.id ≠ key := hfresh _ _ he b hb
        exact ⟨j, by simp [hbk, hfj], hhost, hbe⟩
      · rintro ⟨j, hfj, hhost, hbe⟩
        by_cases hbk : b.id = key
        · simp only [hbk, if_true, Option.some.injEq] at hfj
          subst hfj
          exact absurd hhost.symm hh
        · simp only [hbk, if_false] at hfj
          exact (hi.mem h b).mpr ⟨j, hfj, hhost, hbe⟩

/-- Updating a key whose url stays on its host. -/
theorem tinv_replaceKey {t : Table} {f : String → Option Info} (hi : TInv t f) (key : String) (old i : Info)
    (hold : f key = some old) (hhost : old.host = i.host) :
    TInv (tset t i.host (match tget t i.host with
                         | none => [backendOf key i]
                         | some es => replaceOrInsert (backendOf key i) es))
         (fun k => if k = key then some i else f k) := by
  -- the old entry is in the list of that host
  obtain ⟨es₀, e₀, hold₀⟩ := (hi.mem i.host (backendOf key old)).mpr ⟨old, by simp [backendOf_id, hold], hhost, rfl⟩
  have hex : ∃ e ∈ es₀, e.id = (backendOf key i).id := ⟨_, hold₀, rfl⟩
  have hany : es₀.any (fun x => decide (x.id = (backendOf key i).id)) = true := by
    rw [List.any_eq_true]; exact ⟨_, hold₀, by simp [backendOf_id]⟩
  have hs₀ := (hi.sorted _ _ e₀).2
  simp only [e₀, replaceOrInsert, hany, if_true]
  constructor
  · intro h es he
    rw [tget_tset] at he
    by_cases hh : h = i.host
    · simp only [hh, if_true, Option.some.injEq] at he
      subst he
      refine ⟨?_, sorted_replaceFirst _ _ hs₀⟩
      intro hn
      have : backendOf key i ∈ replaceFirst (backendOf key i) es₀ := (mem_replaceFirst _ _ _ hs₀ hex).mpr (Or.inl rfl)
      rw [hn] at this; cases this
    · simp only [hh, if_false] at he
      exact hi.sorted h es he
  · intro h b
    rw [tget_tset]
    by_cases hh : h = i.host
    · simp only [hh, if_true]
      constructor
      · rintro ⟨es, he, hb⟩
        simp only [Option.some.injEq] at he
        subst he
        rcases (mem_replaceFirst _ _ _ hs₀ hex).mp hb with rfl | ⟨hb, hbk⟩
        · exact ⟨i, by simp [backendOf_id], rfl, rfl⟩
        · simp only [backendOf_id] at hbk
          obtain ⟨j, hfj, hhostj, hbe⟩ := (hi.mem i.host b).mp ⟨_, e₀, hb⟩
          exact ⟨j, by simp [hbk, hfj], hhostj, hbe⟩
      · rintro ⟨j, hfj, hhostj, hbe⟩
        refine ⟨_, rfl, (mem_replaceFirst _ _ _ hs₀ hex).mpr ?_⟩
        by_cases hbk : b.id = key
        · simp only [hbk, if_true, Option.some.injEq] at hfj
          subst hfj
          left; rw [hbe, hbk]
        · simp only [hbk, if_false] at hfj
          obtain ⟨es₁, e₁, hb1⟩ := (hi.mem i.host b).mpr ⟨j, hfj, hhostj, hbe⟩
          rw [e₀] at e₁; cases e₁
          right; exact ⟨hb1, by simpa [backendOf_id] using hbk⟩
    · simp only [hh, if_false]
      constructor
      · rintro ⟨es, he, hb⟩
        obtain ⟨j, hfj, hhostj, hbe⟩ := (hi.mem h b).mp ⟨es, he, hb⟩
        have hbk : b.id ≠ key := by
          intro hk
          rw [hk, hold] at hfj
          cases hfj
          exact hh (hhostj.symm.trans hhost)
        exact ⟨j, by simp [hbk, hfj], hhostj, hbe⟩
      · rintro ⟨j, hfj, hhostj, hbe⟩
        by_cases hbk : b.id = key
        · simp only [hbk, if_true, Option.some.injEq] at hfj
          subst hfj
          exact absurd hhostj.symm hh
        · simp only [hbk, if_false] at hfj
          exact (hi.mem h b).mpr ⟨j, hfj, hhostj, hbe⟩

/-! ### the storage operations keep the invariant -/

def EInv (s : EtcdSt) : Prop := TInv s.table (iget s.infos)

theorem einv_empty : EInv {} := by
  unfold EInv
  exact tinv_congr tinv_empty (fun k => by simp [iget])

theorem einv_delete {s : EtcdSt} (hi : EInv s) (key : String) : EInv (etcdDelete s key) := by
  unfold etcdDelete
  cases e : iget s.infos key with
  | none => exact hi
  | some old =>
    unfold EInv
    exact tinv_congr (tinv_removeKey hi key old e) (fun k => by simp [iget_idel])

theorem einv_put {s : EtcdSt} (hi : EInv s) (key : String) (v : Option Info) : EInv (etcdPut s key v) := by
  cases v with
  | none => exact einv_delete hi key
  | some i =>
    unfold etcdPut
    simp only
    cases e : iget s.infos key with
    | none =>
      have h := tinv_addKey hi key i e
      simp only
      cases e₁ : tget s.table i.host with
      | none =>
        simp only [e₁] at h
        exact tinv_congr h (fun k => by simp [iget_iset])
      | some es =>
        simp only [e₁] at h
        exact tinv_congr h (fun k => by simp [iget_iset])
    | some old =>
      by_cases hmove : old.host = i.host
      · have h := tinv_replaceKey hi key old i e hmove
        simp only [hmove, ne_eq, not_true_eq_false, if_false]
        cases e₁ : tget s.table i.host with
        | none =>
          simp only [e₁] at h
          exact tinv_congr h (fun k => by simp [iget_iset])
        | some es =>
          simp only [e₁] at h
          exact tinv_congr h (fun k => by simp [iget_iset])
      · have h₁ := tinv_removeKey hi key old e
        have h := tinv_addKey h₁ key i (by simp)
        simp only [ne_eq, hmove, not_false_eq_true, if_true]
        cases e₁ : tget (removeKey s.table key old.host) i.host with
        | none =>
          simp only [e₁] at h
          exact tinv_congr h (fun k => by
            simp only [iget_iset]
            by_cases hk : k = key <;> simp [hk])
        | some es =>
          simp only [e₁] at h
          exact tinv_congr h (fun k => by
            simp only [iget_iset]
            by_cases hk : k = key <;> simp [hk])

theorem einv_step {s : EtcdSt} (hi : EInv s) (op : EtcdOp) : EInv (etcdStep s op) := by
  cases op with
  | put k v => exact einv_put hi k v
  | del k => exact einv_delete hi k

theorem einv_run (ops : List EtcdOp) {s : EtcdSt} (hi : EInv s) : EInv (ops.foldl etcdStep s) := by
  induction ops generalizing s with
  | nil => exact hi
  | cons op ops ih => exact ih (einv_step hi op)

/-! ### the key/value map of the model is the one the statement talks about -/

theorem infos_put (s : EtcdSt) (key : String) (v : Option Info) (k : String) :
    iget (etcdPut s key v).infos k = iget (kvStep s.infos (.put key v)) k := by
  cases v with
  | none =>
    simp only [etcdPut, etcdDelete, kvStep]
    cases e : iget s.infos key with
    | none =>
      simp only [iget_idel]
      by_cases hk : k = key
      · subst hk; simp [e]
      · simp [hk]
    | some old => rfl
  | some i =>
    simp only [etcdPut, kvStep]
    split <;> rfl

theorem infos_delete (s : EtcdSt) (key : String) (k : String) :
    iget (etcdDelete s key).infos k = iget (kvStep s.infos (.del key)) k := by
  simp only [etcdDelete, kvStep]
  cases e : iget s.infos key with
  | none =>
    simp only [iget_idel]
    by_cases hk : k = key
    · subst hk; simp [e]
    · simp [hk]
  | some old => rfl

theorem kvStep_congr (m₁ m₂ : Infos) (h : ∀ k, iget m₁ k = iget m₂ k) (op : EtcdOp) (k : String) :
    iget (kvStep m₁ op) k = iget (kvStep m₂ op) k := by
  cases op with
  | put key v =>
    cases v with
    | none => simp [kvStep, iget_idel, h]
    | some i => simp [kvStep, iget_iset, h]
  | del key => simp [kvStep, iget_idel, h]

theorem infos_run (ops : List EtcdOp) (s : EtcdSt) (m : Infos) (h : ∀ k, iget s.infos k = iget m k) (k : String) :
    iget (ops.foldl etcdStep s).infos k = iget (ops.foldl kvStep m) k := by
  induction ops generalizing s m with
  | nil => exact h k
  | cons op ops ih =>
    simp only [List.foldl_cons]
    apply ih
    intro k'
    cases op with
    | put key v => rw [etcdStep, infos_put]; exact kvStep_congr _ _ h _ _
    | del key => rw [etcdStep, infos_delete]; exact kvStep_congr _ _ h _ _

/-! ### a fresh start from a key/value list -/

theorem einv_fresh (kvs : Infos) : EInv (etcdFresh kvs) := by
  unfold etcdFresh
  generalize hs : ({} : EtcdSt) = s
  have hi : EInv s := by rw [← hs]; exact einv_empty
  clear hs
  induction kvs generalizing s with
  | nil => exact hi
  | cons kv kvs ih => exact ih _ (einv_put hi kv.1 (some kv.2))

/-- Keys pairwise different. -/
def KeysNodup (kvs : Infos) : Prop := kvs.Pairwise (fun a b => a.1 ≠ b.1)

instance (kvs : Infos) : Decidable (KeysNodup kvs) := by unfold KeysNodup; infer_instance

theorem infos_fresh_aux (kvs : Infos) (s : EtcdSt) (hn : KeysNodup kvs) (k : String) :
    iget (kvs.foldl (fun s kv => etcdPut s kv.1 (some kv.2)) s).infos k
      = match iget kvs k with
        | some i => some i
        | none => iget s.infos k := by
  induction kvs generalizing s with
  | nil => simp [iget]
  | cons kv kvs ih =>
    obtain ⟨key, i⟩ := kv
    have ⟨hhead, htail⟩ := List.pairwise_cons.mp hn
    simp only [List.foldl_cons]
    rw [ih _ htail]
    have hput : ∀ k, iget (etcdPut s key (some i)).infos k = if k = key then some i else iget s.infos k := by
      intro k; rw [infos_put]; simp [kvStep, iget_iset]
    by_cases hk : key = k
    · subst hk
      have : iget kvs key = none := by
        clear ih htail hn hput
        induction kvs with
        | nil => rfl
        | cons e es ihe =>
          obtain ⟨a, w⟩ := e
          have hne : key ≠ a := hhead (a, w) (by simp)
          have : ¬ a = key := fun hh => hne hh.symm
          simp only [iget, this, if_false]
          exact ihe (fun x hx => hhead x (by simp [hx]))
      simp [iget, this, hput]
    · have : ¬ k = key := fun hh => hk hh.symm
      simp only [iget, hk, if_false, hput, this]

theorem infos_fresh (kvs : Infos) (hn : KeysNodup kvs) (k : String) : iget (etcdFresh kvs).infos k = iget kvs k := by
  unfold etcdFresh
  rw [infos_fresh_aux kvs {} hn k]
  cases iget kvs k <;> simp [iget]

end SigModel.Backends

namespace SigModel.Backends

/-! ### the final key/value list has no shadowed entries -/

theorem mem_iset_key {m : Infos} {k : String} {v : Info} {x : String × Info} (hx : x ∈ iset m k v) :
    x.1 = k ∨ x ∈ m := by
  induction m with
  | nil => simp [iset] at hx; subst hx; exact Or.inl rfl
  | cons e m ih =>
    obtain ⟨a, w⟩ := e
    by_cases ha : a = k
    · subst ha
      simp only [iset, if_true, List.mem_cons] at hx
      rcases hx with hx | hx
      · subst hx; exact Or.inl rfl
      · exact Or.inr (by simp [hx])
    · simp only [iset, ha, if_false, List.mem_cons] at hx
      rcases hx with hx | hx
      · subst hx; exact Or.inr (by simp)
      · rcases ih hx with h | h
        · exact Or.inl h
        · exact Or.inr (by simp [h])

theorem mem_idel {m : Infos} {k : String} {x : String × Info} (hx : x ∈ idel m k) : x ∈ m := by
  induction m with
  | nil => simp [idel] at hx
  | cons e m ih =>
    obtain ⟨a, w⟩ := e
    by_cases ha : a = k
    · simp only [idel, ha, if_true] at hx
      exact List.mem_cons_of_mem _ (ih hx)
    · simp only [idel, ha, if_false, List.mem_cons] at hx
      rcases hx with hx | hx
      · subst hx; simp
      · exact List.mem_cons_of_mem _ (ih hx)

theorem keysNodup_iset {m : Infos} (h : KeysNodup m) (k : String) (v : Info) : KeysNodup (iset m k v) := by
  induction m with
  | nil => simp [iset, KeysNodup]
  | cons e m ih =>
    obtain ⟨a, w⟩ := e
    have ⟨hhead, htail⟩ := List.pairwise_cons.mp h
    by_cases ha : a = k
    · subst ha
      simp only [iset, if_true]
      exact List.pairwise_cons.mpr ⟨hhead, htail⟩
    · simp only [iset, ha, if_false]
      apply List.pairwise_cons.mpr
      refine ⟨?_, ih htail⟩
      intro x hx
      rcases mem_iset_key hx with hk | hm
      · simpa [hk] using ha
      · exact hhead x hm

theorem keysNodup_idel {m : Infos} (h : KeysNodup m) (k : String) : KeysNodup (idel m k) := by
  induction m with
  | nil => simp [idel, KeysNodup]
  | cons e m ih =>
    obtain ⟨a, w⟩ := e
    have ⟨hhead, htail⟩ := List.pairwise_cons.mp h
    by_cases ha : a = k
    · simp only [idel, ha, if_true]; exact ih htail
    · simp only [idel, ha, if_false]
      exact List.pairwise_cons.mpr ⟨fun x hx => hhead x (mem_idel hx), ih htail⟩

theorem keysNodup_kvAfter (ops : List EtcdOp) : KeysNodup (kvAfter ops) := by
  unfold kvAfter
  generalize hm : ([] : Infos) = m
  have h : KeysNodup m := by rw [← hm]; simp [KeysNodup]
  clear hm
  induction ops generalizing m with
  | nil => exact h
  | cons op ops ih =>
    simp only [List.foldl_cons]
    apply ih
    cases op with
    | put k v =>
      cases v with
      | none => exact keysNodup_idel h k
      | some i => exact keysNodup_iset h k i
    | del k => exact keysNodup_idel h k

theorem mem_of_iget {m : Infos} {k : String} {i : Info} (h : iget m k = some i) : (k, i) ∈ m := by
  induction m with
  | nil => simp [iget] at h
  | cons e m ih =>
    obtain ⟨a, w⟩ := e
    by_cases ha : a = k
    · subst ha; simp [iget] at h; subst h; simp
    · simp only [iget, ha, if_false] at h
      exact List.mem_cons_of_mem _ (ih h)

theorem iget_of_mem {m : Infos} (hn : KeysNodup m) {k : String} {i : Info} (h : (k, i) ∈ m) : iget m k = some i := by
  induction m with
  | nil => cases h
  | cons e m ih =>
    obtain ⟨a, w⟩ := e
    have ⟨hhead, htail⟩ := List.pairwise_cons.mp hn
    simp only [List.mem_cons] at h
    rcases h with h | h
    · cases h; simp [iget]
    · have : a ≠ k := hhead (k, i) h
      simp only [iget, this, if_false]
      exact ih htail h

end SigModel.Backends

namespace SigModel.Backends

/-! ### `sortKV`: the key-ordered list a starting server is handed -/

theorem mem_insertKV (kv x : String × Info) (m : Infos) : x ∈ insertKV kv m ↔ x = kv ∨ x ∈ m := by
  induction m with
  | nil => simp [insertKV]
  | cons e m ih =>
    by_cases h : kv.1 < e.1
    · simp [insertKV, h]
    · simp only [insertKV, h, if_false, List.mem_cons, ih]
      constructor
      · rintro (h1 | h1 | h1) <;> simp [h1]
      · rintro (h1 | h1 | h1) <;> simp [h1]

theorem mem_sortKV (x : String × Info) (m : Infos) : x ∈ sortKV m ↔ x ∈ m := by
  induction m with
  | nil => simp [sortKV]
  | cons e m ih =>
    have : sortKV (e :: m) = insertKV e (sortKV m) := rfl
    rw [this, mem_insertKV, ih]; simp

theorem keysNodup_insertKV (kv : String × Info) (m : Infos) (h : KeysNodup m) (hne : ∀ x ∈ m, kv.1 ≠ x.1) :
    KeysNodup (insertKV kv m) := by
  induction m with
  | nil => simp [insertKV, KeysNodup]
  | cons e m ih =>
    have ⟨hhead, htail⟩ := List.pairwise_cons.mp h
    by_cases hlt : kv.1 < e.1
    · simp only [insertKV, hlt, if_true]
      exact List.pairwise_cons.mpr ⟨hne, h⟩
    · simp only [insertKV, hlt, if_false]
      apply List.pairwise_cons.mpr
      refine ⟨?_, ih htail (fun x hx => hne x (by simp [hx]))⟩
      intro x hx
      rcases (mem_insertKV kv x m).mp hx with rfl | hx
      · exact fun hh => hne e (by simp) hh.symm
      · exact hhead x hx

theorem keysNodup_sortKV (m : Infos) (h : KeysNodup m) : KeysNodup (sortKV m) := by
  induction m with
  | nil => simp [sortKV, KeysNodup]
  | cons e m ih =>
    have ⟨hhead, htail⟩ := List.pairwise_cons.mp h
    have : sortKV (e :: m) = insertKV e (sortKV m) := rfl
    rw [this]
    exact keysNodup_insertKV e _ (ih htail) (fun x hx => hhead x ((mem_sortKV x m).mp hx))

theorem iget_sortKV (m : Infos) (h : KeysNodup m) (k : String) : iget (sortKV m) k = iget m k := by
  cases e : iget m k with
  | some i => exact iget_of_mem (keysNodup_sortKV m h) ((mem_sortKV _ _).mpr (mem_of_iget e))
  | none =>
    cases e' : iget (sortKV m) k with
    | none => rfl
    | some i =>
      have := iget_of_mem h ((mem_sortKV _ _).mp (mem_of_iget e'))
      rw [e] at this; cases this

end SigModel.Backends
