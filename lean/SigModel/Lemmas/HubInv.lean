/-
Hub lemmas, part 2: the structural invariant `Inv` of the hub model and its
preservation by every operation (for all op sequences, see `Props/C04`, `C07`).

`InvG R orph h` is the general form: `R` relaxes the `room_mem` clause (used while a room is being
deleted), and `InvX orph h` (= `InvG (fun _ _ _ => False) orph h`) is `Inv` with one relaxation used while an internal client is
being closed: the virtual sessions in `orph` may (temporarily) have a parent
that is already gone.  `Inv h = InvX [] h`.
-/
import SigModel.Lemmas.HubFields

namespace SigModel.Hub

structure InvG (R : Nat → Sess → String → Prop) (orph : List Nat) (h : Hub) : Prop where
  fresh : ∀ s, h.nextSid ≤ s → h.sess s = none
  -- rooms and the sessions' own record of their room agree (C04)
  mem_room : ∀ b r rm s, h.rooms b r = some rm → s ∈ rm.members →
    ∃ x, h.sess s = some x ∧ x.backend = b ∧ x.room = some r
  room_mem : ∀ s x r, h.sess s = some x → x.room = some r →
    (∃ rm, h.rooms x.backend r = some rm ∧ s ∈ rm.members) ∨ R s x r
  nonempty : ∀ b r rm, h.rooms b r = some rm → rm.members ≠ []
  nodup : ∀ b r rm, h.rooms b r = some rm → rm.members.Nodup
  -- bus listeners are exactly the sessions that should listen (C05, C07)
  roomL_iff : ∀ b r s, s ∈ h.roomL b r ↔
    ∃ x, h.sess s = some x ∧ x.backend = b ∧ x.room = some r ∧ x.kind ≠ .virtual
  roomL_nodup : ∀ b r, (h.roomL b r).Nodup
  userL_iff : ∀ b u s, s ∈ h.userL b u ↔
    ∃ x, h.sess s = some x ∧ x.backend = b ∧ x.user = u ∧ u ≠ "" ∧ x.kind ≠ .virtual
  userL_nodup : ∀ b u, (h.userL b u).Nodup
  sessL_iff : ∀ s, h.sessL s = true ↔ (h.sess s).isSome = true
  -- room-session map
  rs_fwd : ∀ rs s, h.rs2sid rs = some s → h.sid2rs s = some rs
  rs_room : ∀ s rs, h.sid2rs s = some rs → ∃ x, h.sess s = some x ∧ x.room.isSome = true
  -- virtual sessions (C19)
  virt : ∀ v x, h.sess v = some x → x.kind = .virtual →
    x.conn = none ∧ x.children = [] ∧ x.parent ≠ v ∧
    (v ∈ orph ∨ ∃ p, h.sess x.parent = some p ∧ p.kind = .internal ∧ p.backend = x.backend ∧ v ∈ p.children)
  children : ∀ s x v, h.sess s = some x → v ∈ x.children →
    ∃ vx, h.sess v = some vx ∧ vx.kind = .virtual ∧ vx.parent = s
  vtable : ∀ p k v, h.vtable p k = some v →
    ∃ vx, h.sess v = some vx ∧ vx.kind = .virtual ∧ vx.parent = p ∧ vx.vkey = k
  -- connections
  conn_iff : ∀ c s, h.connSess c = some s ↔ ∃ x, h.sess s = some x ∧ x.conn = some c
  conn_open : ∀ c s, h.connSess c = some s → h.connOpen c = true
  eh : ∀ c, c ∈ h.expectHello → h.connSess c = none
  -- waiting lists and per-backend counts hold live sessions only (C07)
  expired : ∀ s, s ∈ h.expired → (h.sess s).isSome = true
  anon : ∀ s, s ∈ h.anon → (h.sess s).isSome = true
  dialout : ∀ s, s ∈ h.dialout → (h.sess s).isSome = true
  count : ∀ b s, s ∈ h.count b → ∃ x, h.sess s = some x ∧ x.backend = b ∧ x.kind = .client
  -- the relaxation: orphans are virtual sessions
  orph_virt : ∀ v, v ∈ orph → ∀ y, h.sess v = some y → y.kind = .virtual
  -- a room's in-call set holds members only (C07: nothing stays behind)
  incall : ∀ b r rm s, h.rooms b r = some rm → s ∈ rm.inCall → s ∈ rm.members
  -- the per-backend count of registered sessions respects the configured limit (C07)
  count_le : ∀ b, h.limit b ≠ 0 → (h.count b).length ≤ h.limit b

/-- The invariant proper: no relaxation of `room_mem`. -/
notation "InvX" => InvG (fun _ _ _ => False)

abbrev Inv (h : Hub) : Prop := InvX [] h

theorem InvG.room_mem' {orph : List Nat} {h : Hub} (hi : InvX orph h) (s : Nat) (x : Sess) (r : String)
    (hx : h.sess s = some x) (hr : x.room = some r) : ∃ rm, h.rooms x.backend r = some rm ∧ s ∈ rm.members := by
  rcases hi.room_mem s x r hx hr with h1 | h1
  · exact h1
  · exact h1.elim

/-! ### transport along `CoreEq` -/

/-- What `CoreEq` gives for one session id, in a form `grind` can use. -/
theorem CoreEq.sess_fields {h h' : Hub} (e : CoreEq h h') (s : Nat) :
    (h.sess s = none ∧ h'.sess s = none) ∨
    ∃ x x', h.sess s = some x ∧ h'.sess s = some x' ∧
      x'.backend = x.backend ∧ x'.kind = x.kind ∧ x'.user = x.user ∧ x'.room = x.room ∧ x'.roomSess = x.roomSess ∧
      x'.conn = x.conn ∧ x'.parent = x.parent ∧ x'.vkey = x.vkey ∧ x'.children = x.children := by
  cases hx : h.sess s with
  | none => exact Or.inl ⟨rfl, e.sess_none hx⟩
  | some x =>
    obtain ⟨x', hx', hs⟩ := e.sess_some hx
    have f := strip_fields hs
    exact Or.inr ⟨x, x', rfl, hx', f.1, f.2.1, f.2.2.1, f.2.2.2.1, f.2.2.2.2.1, f.2.2.2.2.2.1, f.2.2.2.2.2.2.1,
      f.2.2.2.2.2.2.2.1, f.2.2.2.2.2.2.2.2.1⟩

theorem InvG.congr {R : Nat → Sess → String → Prop} {orph : List Nat} {h h' : Hub} (e : CoreEq h h') (hi : InvG R orph h)
    (hR : ∀ s x x' r, x'.backend = x.backend → R s x r → R s x' r := by intros; assumption) : InvG R orph h' := by
  have es := e.sess_fields
  obtain ⟨_, e1, e2, e3, e4, e5, e6, e7, e8, e9, e10, e11, e12, e13, e14, e15, e16⟩ := e
  constructor
  · intro s hs; have := hi.fresh s; have := es s; grind
  · intro b r rm s h1 h2; have := hi.mem_room b r rm s; have := es s; grind
  · intro s x r h1 h2; have := es s
    rcases this with ⟨_, h0⟩ | ⟨y, y', hy, hy', f⟩
    · simp [h0] at h1
    · have := hi.room_mem s y r hy; have := hR s y x r; grind
  · intro b r rm h1; have := hi.nonempty b r rm; grind
  · intro b r rm h1; have := hi.nodup b r rm; grind
  · intro b r s; have := hi.roomL_iff b r s; have := es s; grind
  · intro b r; have := hi.roomL_nodup b r; grind
  · intro b u s; have := hi.userL_iff b u s; have := es s; grind
  · intro b u; have := hi.userL_nodup b u; grind
  · intro s; have := hi.sessL_iff s; have := es s; grind
  · intro rs s h1; have := hi.rs_fwd rs s; grind
  · intro s rs h1; have := hi.rs_room s rs; have := es s; grind
  · intro v x h1 h2
    have hv := es v
    rcases hv with ⟨_, h0⟩ | ⟨y, y', hy, hy', f⟩
    · simp [h0] at h1
    · have := hi.virt v y hy
      have hp := es y.parent
      grind
  · intro s x v h1 h2
    have hs := es s
    rcases hs with ⟨_, h0⟩ | ⟨y, y', hy, hy', f⟩
    · simp [h0] at h1
    · have := hi.children s y v hy
      have := es v
      grind
  · intro p k v h1; have := hi.vtable p k v; have := es v; grind
  · intro c s; have := hi.conn_iff c s; have := es s; grind
  · intro c s h1; have := hi.conn_open c s; grind
  · intro c h1; have := hi.eh c; grind
  · intro s h1; have := hi.expired s; have := es s; grind
  · intro s h1; have := hi.anon s; have := es s; grind
  · intro s h1; have := hi.dialout s; have := es s; grind
  · intro b s h1; have := hi.count b s; have := es s; grind
  · intro v hv y hy; have := hi.orph_virt v hv; have := es v; grind
  · intro b r rm s h1 h2; have := hi.incall b r rm s; grind
  · intro b hb; have := hi.count_le b; grind

end SigModel.Hub


