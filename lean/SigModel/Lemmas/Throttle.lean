import SigModel.Spec.Throttle

namespace SigModel.Throttle
open SigModel.Generated.Throttle

/-! ### the code's constants are the statement's -/

theorem consts_eq : maxBruteforceAttempts = stmtAttempts ∧ maxBruteforceDurationThreshold = stmtWindow ∧
    maxBruteforceAge = stmtAge ∧ maxThrottleDelay ≤ stmtMaxDelay := by decide

theorem inWindow_eq (now : Int) :
    inWindow now = fun t => decide (now - t ≤ (maxBruteforceDurationThreshold : Int)) := by
  funext t; simp [inWindow, consts_eq.2.1]

theorem inAge_eq (now : Int) : inAge now = fun t => decide (now - t ≤ (maxBruteforceAge : Int)) := by
  funext t; simp [inAge, consts_eq.2.2.1]

theorem specRefused_eq (now : Int) (F : List Int) :
    specRefused now F = decide (maxBruteforceAttempts ≤ windowCount now F) := by
  simp [specRefused, consts_eq.1]

theorem ageCmp_gt (a b : Int) : cmpInt ageCmp a b = decide (a > b) := by
  simp [cmpInt, ageCmp]

theorem windowCmp_le (a b : Int) : cmpInt windowCmp a b = decide (a ≤ b) := by
  simp [cmpInt, windowCmp]

theorem attemptsCmp_ge (a b : Nat) : cmpNat attemptsCmp a b = decide (a ≥ b) := by
  simp [cmpNat, cmpInt, attemptsCmp]

/-! ### delay -/

theorem getDelay_le_max (c : Nat) : getDelay c ≤ maxThrottleDelay := by
  unfold getDelay
  split
  · exact Nat.le_refl _
  · simp only []
    split <;> omega

theorem intPow_eq (n m : Nat) : intPow n m = n ^ m := by
  unfold intPow; split
  · subst_vars; simp
  · rfl

theorem getDelay_mono {c₁ c₂ : Nat} (h : c₁ ≤ c₂) : getDelay c₁ ≤ getDelay c₂ := by
  by_cases h2 : c₂ > overflowGuard
  · have : getDelay c₂ = maxThrottleDelay := by unfold getDelay; simp [h2]
    rw [this]; exact getDelay_le_max _
  · have h1 : ¬ c₁ > overflowGuard := by omega
    have hp : powBase ^ c₁ ≤ powBase ^ c₂ := Nat.pow_le_pow_right (by decide) h
    have hm : delayFactor * powBase ^ c₁ * delayUnit ≤ delayFactor * powBase ^ c₂ * delayUnit :=
      Nat.mul_le_mul_right _ (Nat.mul_le_mul_left _ hp)
    unfold getDelay
    simp only [h1, h2, if_false, intPow_eq]
    split <;> split <;> omega

/-! ### sorted lists and counting -/

/-- Entries in non-decreasing time order. -/
def Sorted (l : List Int) : Prop := l.Pairwise (· ≤ ·)

theorem Sorted.tail {a : Int} {l : List Int} (h : Sorted (a :: l)) : Sorted l :=
  (List.pairwise_cons.mp h).2

theorem Sorted.head_le {a : Int} {l : List Int} (h : Sorted (a :: l)) : ∀ t ∈ l, a ≤ t :=
  fun t ht => (List.pairwise_cons.mp h).1 t ht

theorem Sorted.append_one {l : List Int} {x : Int} (h : Sorted l) (hx : ∀ t ∈ l, t ≤ x) :
    Sorted (l ++ [x]) := by
  unfold Sorted at *
  rw [List.pairwise_append]
  refine ⟨h, List.pairwise_singleton _ _, ?_⟩
  intro a ha b hb
  simp at hb; subst hb; exact hx a ha

theorem Sorted.drop {l : List Int} (n : Nat) (h : Sorted l) : Sorted (l.drop n) :=
  List.Pairwise.sublist (List.drop_sublist n l) h

/-- `filterEntries` returns a suffix: it drops exactly the leading run of too-old entries. -/
theorem filterEntries_eq_drop (now : Int) (l : List Int) :
    ∃ n, filterEntries now l = l.drop n ∧ n ≤ l.length ∧
      (∀ t ∈ l.take n, now - t > (maxBruteforceAge : Int)) ∧
      (∀ t, (l.drop n).head? = some t → now - t ≤ (maxBruteforceAge : Int)) := by
  induction l with
  | nil => exact ⟨0, by simp [filterEntries]⟩
  | cons e es ih =>
    unfold filterEntries
    rw [ageCmp_gt]
    by_cases h : now - e > (maxBruteforceAge : Int)
    · obtain ⟨n, h1, h2, h3, h4⟩ := ih
      refine ⟨n+1, by simp [h, h1], by simp only [List.length_cons]; omega, ?_, by simpa using h4⟩
      intro t ht
      simp at ht
      rcases ht with rfl | ht
      · exact h
      · exact h3 t ht
    · refine ⟨0, by simp [h], by simp, by simp, ?_⟩
      intro t ht; simp at ht; subst ht; omega

/-- For a sorted list, everything after a young head is young. -/
theorem sorted_all_young {now : Int} {l : List Int} (hs : Sorted l) (bound : Int)
    (hh : ∀ t, l.head? = some t → now - t ≤ bound) : ∀ t ∈ l, now - t ≤ bound := by
  cases l with
  | nil => simp
  | cons a l =>
    intro t ht
    have ha : now - a ≤ bound := hh a rfl
    simp at ht
    rcases ht with rfl | ht
    · exact ha
    · have := hs.head_le t ht; omega

theorem filter_eq_self_of_all {p : Int → Bool} {l : List Int} (h : ∀ t ∈ l, p t = true) :
    l.filter p = l := List.filter_eq_self.mpr h

theorem filter_eq_nil_of_none {p : Int → Bool} {l : List Int} (h : ∀ t ∈ l, p t = false) :
    l.filter p = [] := by
  apply List.filter_eq_nil_iff.mpr
  intro t ht; simp [h t ht]

/-- Counting over a split list when the dropped part contributes nothing. -/
theorem filter_drop_of_old {p : Int → Bool} (l : List Int) (n : Nat)
    (h : ∀ t ∈ l.take n, p t = false) : (l.drop n).filter p = l.filter p := by
  conv => rhs; rw [← List.take_append_drop n l]
  rw [List.filter_append, filter_eq_nil_of_none h, List.nil_append]

/-- Core counting lemma, on the newest-first list: with entries in non-increasing
time order, at least `m+1` of them satisfy the (time-monotone) window predicate
iff the entry at index `m` exists and satisfies it. -/
theorem count_ge_iff_nth_desc (now bound : Int) :
    ∀ (rs : List Int) (m : Nat), rs.Pairwise (· ≥ ·) →
      (m + 1 ≤ (rs.filter (fun t => decide (now - t ≤ bound))).length ↔
        ∃ t, rs[m]? = some t ∧ now - t ≤ bound) := by
  intro rs
  induction rs with
  | nil => intro m _; simp
  | cons r rs ih =>
    intro m hp
    have hp' := List.pairwise_cons.mp hp
    by_cases hr : now - r ≤ bound
    · cases m with
      | zero => simp [List.filter, hr]
      | succ m =>
        have := ih m hp'.2
        simp only [List.filter, hr, decide_true, List.length_cons, List.getElem?_cons_succ]
        rw [← this]; omega
    · have hall : ∀ t ∈ rs, (fun t => decide (now - t ≤ bound)) t = false := by
        intro t ht; have : r ≥ t := hp'.1 t ht; simp; omega
      have hnil : (r :: rs).filter (fun t => decide (now - t ≤ bound)) = [] := by
        simp only [List.filter, hr, decide_false]
        exact filter_eq_nil_of_none hall
      rw [hnil]
      constructor
      · intro h; simp at h
      · rintro ⟨t, ht, hle⟩
        exfalso
        cases m with
        | zero => simp at ht; subst ht; exact hr hle
        | succ m =>
          simp at ht
          have hmem : t ∈ rs := List.mem_of_getElem? ht
          have : r ≥ t := hp'.1 t hmem; omega

theorem sorted_reverse {l : List Int} (h : Sorted l) : l.reverse.Pairwise (· ≥ ·) := by
  unfold Sorted at h
  rw [List.pairwise_reverse]
  exact h.imp (fun h => h)

/-- The refusal test of the code (`blocked`) on a sorted entry list is the
window count of the spec. -/
theorem blocked_iff_windowCount (now : Int) (es : List Int) (hs : Sorted es) :
    blocked now es = decide (maxBruteforceAttempts ≤ windowCount now es) := by
  have hpos : 0 < maxBruteforceAttempts := by decide
  have key := count_ge_iff_nth_desc now (maxBruteforceDurationThreshold : Int) es.reverse
    (maxBruteforceAttempts - 1) (sorted_reverse hs)
  have hcount : (es.reverse.filter (fun t => decide (now - t ≤ (maxBruteforceDurationThreshold : Int)))).length
      = windowCount now es := by
    unfold windowCount; simp only [inWindow_eq]
    rw [List.filter_reverse, List.length_reverse]
  rw [hcount] at key
  have hm : maxBruteforceAttempts - 1 + 1 = maxBruteforceAttempts := by omega
  rw [hm] at key
  unfold blocked
  simp only [attemptsCmp_ge, windowCmp_le, decide_eq_true_eq]
  by_cases hl : es.length ≥ maxBruteforceAttempts
  · simp only [hl, if_true]
    have hidx : es.reverse[maxBruteforceAttempts - 1]? = es[es.length - maxBruteforceAttempts]? := by
      rw [List.getElem?_reverse (by omega)]
      have : es.length - 1 - (maxBruteforceAttempts - 1) = es.length - maxBruteforceAttempts := by omega
      rw [this]
    rw [hidx] at key
    cases hget : es[es.length - maxBruteforceAttempts]? with
    | none =>
      rw [hget] at key
      simp only []
      have : ¬ maxBruteforceAttempts ≤ windowCount now es := by
        intro h; obtain ⟨t, ht, _⟩ := key.mp h; simp at ht
      simp [this]
    | some t =>
      rw [hget] at key
      simp only []
      by_cases hle : now - t ≤ (maxBruteforceDurationThreshold : Int)
      · have : maxBruteforceAttempts ≤ windowCount now es := key.mpr ⟨t, rfl, hle⟩
        simp [hle, this]
      · have : ¬ maxBruteforceAttempts ≤ windowCount now es := by
          intro h; obtain ⟨t', ht', hle'⟩ := key.mp h
          simp at ht'; subst ht'; exact hle hle'
        simp [hle, this]
  · simp only [hl, if_false]
    have : ¬ maxBruteforceAttempts ≤ windowCount now es := by
      intro h
      have : windowCount now es ≤ es.length := by
        unfold windowCount; exact List.length_filter_le _ _
      omega
    simp [this]

end SigModel.Throttle

namespace SigModel.Throttle
open SigModel.Generated.Throttle

/-! ### refinement relation between the code's pruned entry lists and the spec's full history -/

/-- `es` (what the code keeps for one key/action) is the full failure history `F`
minus a prefix of entries that were already older than `maxBruteforceAge` at
time `last`; `F` is in time order and nothing in it is later than `last`. -/
def RelL (es F : List Int) (last : Int) : Prop :=
  ∃ n, n ≤ F.length ∧ es = F.drop n ∧
    (∀ t ∈ F.take n, last - t > (maxBruteforceAge : Int)) ∧ Sorted F ∧ (∀ t ∈ F, t ≤ last)

theorem RelL.nil (last : Int) : RelL [] [] last :=
  ⟨0, by simp, by simp, by simp, List.Pairwise.nil, by simp⟩

theorem RelL.advance {es F : List Int} {last now : Int} (h : RelL es F last) (hl : last ≤ now) :
    RelL es F now := by
  obtain ⟨n, hn, heq, hold, hs, hle⟩ := h
  exact ⟨n, hn, heq, fun t ht => by have := hold t ht; omega, hs,
   fun t ht => by have := hle t ht; omega⟩

theorem RelL.es_sorted {es F : List Int} {last : Int} (h : RelL es F last) : Sorted es := by
  obtain ⟨n, hn, heq, hold, hs, hle⟩ := h
  rw [heq]; exact hs.drop _

theorem age_ge_window : (maxBruteforceDurationThreshold : Int) ≤ (maxBruteforceAge : Int) := by decide

theorem RelL.windowCount_eq {es F : List Int} {last now : Int} (h : RelL es F last) (hl : last ≤ now) :
    windowCount now es = windowCount now F := by
  obtain ⟨n, hn, heq, hold, hs, hle⟩ := h
  unfold windowCount
  rw [heq, filter_drop_of_old]
  intro t ht
  have := hold t ht
  have := age_ge_window
  simp [inWindow_eq]; omega

theorem RelL.ageCount_eq {es F : List Int} {last now : Int} (h : RelL es F last) (hl : last ≤ now) :
    ageCount now es = ageCount now F := by
  obtain ⟨n, hn, heq, hold, hs, hle⟩ := h
  unfold ageCount
  rw [heq, filter_drop_of_old]
  intro t ht
  have := hold t ht
  simp [inAge_eq]; omega

theorem RelL.blocked_eq {es F : List Int} {last now : Int} (h : RelL es F last) (hl : last ≤ now) :
    blocked now es = specRefused now F := by
  rw [blocked_iff_windowCount now es h.es_sorted, h.windowCount_eq hl, specRefused_eq]

/-- Pruning keeps the relation (at the new time) and leaves exactly the entries
the spec counts as "within 12 h". -/
theorem RelL.filter {es F : List Int} {last now : Int} (h : RelL es F last) (hl : last ≤ now) :
    RelL (filterEntries now es) F now ∧ (filterEntries now es).length = ageCount now F := by
  obtain ⟨m, hm1, hm2, hm3, hm4⟩ := filterEntries_eq_drop now es
  have hcount := h.ageCount_eq hl
  have hsorted := h.es_sorted
  obtain ⟨n, hn, heq, hold, hs, hle⟩ := h.advance hl
  have hes : es.drop m = F.drop (n + m) := by rw [heq, List.drop_drop]
  have hlen : es.length = F.length - n := by rw [heq]; simp
  constructor
  · refine ⟨n + m, by omega, by rw [hm1, hes], ?_, hs, hle⟩
    intro t ht
    rw [List.take_add] at ht
    simp only [List.mem_append] at ht
    rcases ht with ht | ht
    · exact hold t ht
    · rw [← heq] at ht; exact hm3 t ht
  · rw [← hcount]
    unfold ageCount
    have hyoung : ∀ t ∈ es.drop m, now - t ≤ (maxBruteforceAge : Int) :=
      sorted_all_young (hsorted.drop m) _ hm4
    have hold' : ∀ t ∈ es.take m, inAge now t = false := by
      intro t ht; have := hm3 t ht; simp [inAge_eq]; omega
    rw [← filter_drop_of_old es m hold', hm1]
    rw [filter_eq_self_of_all]
    intro t ht; simp [inAge_eq]; exact hyoung t ht

theorem RelL.append {es F : List Int} {now : Int} (h : RelL es F now) :
    RelL (es ++ [now]) (F ++ [now]) now := by
  obtain ⟨n, hn, heq, hold, hs, hle⟩ := h
  refine ⟨n, by simp; omega, ?_, ?_, hs.append_one hle, ?_⟩
  · rw [heq, List.drop_append_of_le_length hn]
  · intro t ht
    rw [List.take_append_of_le_length hn] at ht
    exact hold t ht
  · intro t ht
    simp at ht
    rcases ht with ht | rfl
    · exact hle t ht
    · exact Int.le_refl _

/-! ### one key/action: the code's attempt equals the spec's -/

/-- `check` then (maybe) `throttle` on one entry list: what `step (.attempt ..)` does to `st k a`. -/
def attemptL (now : Int) (es : List Int) (failed : Bool) : List Int × Out :=
  if es ≠ [] ∧ blocked now es then (es, .refused)
  else
    let es1 := filterEntries now es
    if failed then (es1 ++ [now], .delayed (getDelay ((es1 ++ [now]).length - 1)))
    else (es1, .passed)

theorem attemptL_refines {es F : List Int} {last now : Int} (h : RelL es F last) (hl : last ≤ now)
    (failed : Bool) :
    RelL (attemptL now es failed).1 (specAttempt now F failed).1 now ∧
    (attemptL now es failed).2 = (specAttempt now F failed).2 := by
  have hb := h.blocked_eq hl
  have hnil : es = [] → blocked now es = false := by
    intro h0; subst h0; simp [blocked]
  unfold attemptL specAttempt
  by_cases hr : specRefused now F = true
  · have hne : es ≠ [] := by
      intro h0; have := hnil h0; rw [hb, hr] at this; cases this
    simp [hr, hb, hne, h.advance hl]
  · have hr' : specRefused now F = false := by simpa using hr
    obtain ⟨hf, hlen⟩ := h.filter hl
    cases failed
    · simp [hr', hb, hf]
    · simp only [hr', hb, Bool.false_eq_true, and_false, if_false, if_true]
      refine ⟨hf.append, ?_⟩
      simp [hlen]

/-! ### `par`: n failures at once -/

theorem youngCount_eq (now : Int) (es : List Int) : youngCount now es = ageCount now es := by
  unfold youngCount ageCount
  congr 1
  apply List.filter_congr
  intro t _
  simp only [ageCmp_gt, inAge_eq]
  by_cases h : now - t ≤ (maxBruteforceAge : Int)
  · simp [h]
  · simp [h]; omega

theorem RelL.append_replicate {es F : List Int} {now : Int} (h : RelL es F now) (n : Nat) :
    RelL (es ++ List.replicate n now) (F ++ List.replicate n now) now := by
  induction n with
  | zero => simpa using h
  | succ n ih =>
    rw [List.replicate_succ', ← List.append_assoc, ← List.append_assoc]
    exact ih.append

/-- What `step (.par ..)` does to `st k a`. -/
def parL (now : Int) (es : List Int) (n : Nat) : List Int × Out :=
  if es ≠ [] ∧ blocked now es then (es, .rest 0 (youngCount now es) true [])
  else
    let es0 := filterEntries now es
    let es' := es0 ++ List.replicate n now
    (es', .rest n (youngCount now es') (blocked now es')
            ((List.range n).map fun i => getDelay (es0.length + i)))

theorem parL_refines {es F : List Int} {last now : Int} (h : RelL es F last) (hl : last ≤ now)
    (n : Nat) :
    RelL (parL now es n).1 (specPar now F n).1 now ∧ (parL now es n).2 = (specPar now F n).2 := by
  have hb := h.blocked_eq hl
  have hnil : es = [] → blocked now es = false := by
    intro h0; subst h0; simp [blocked]
  unfold parL specPar
  by_cases hr : specRefused now F = true
  · have hne : es ≠ [] := by
      intro h0; have := hnil h0; rw [hb, hr] at this; cases this
    simp [hr, hb, hne, h.advance hl, youngCount_eq, h.ageCount_eq hl]
  · have hr' : specRefused now F = false := by simpa using hr
    obtain ⟨hf, hlen⟩ := h.filter hl
    have hrel := hf.append_replicate n
    have hle : now ≤ now := Int.le_refl _
    simp only [hr', hb, Bool.false_eq_true, and_false, if_false]
    refine ⟨hrel, ?_⟩
    rw [youngCount_eq, hrel.ageCount_eq hle, hrel.blocked_eq hle, hlen]

end SigModel.Throttle

namespace SigModel.Throttle
open SigModel.Generated.Throttle

/-! ### the whole table -/

theorem step_par_at (st : State) (now : Int) (addr : Addr) (a : Action) (n : Nat) :
    (step st (.par now addr a n)).1 (throttleKey addr) a = (parL now (st (throttleKey addr) a) n).1 ∧
    (step st (.par now addr a n)).2 = (parL now (st (throttleKey addr) a) n).2 := by
  unfold step par parL check
  by_cases h0 : st (throttleKey addr) a = []
  · simp [h0, State.set, filterEntries]
  · by_cases hb : blocked now (st (throttleKey addr) a) = true
    · simp [h0, hb]
    · simp [h0, hb, State.set]

theorem step_par_frame (st : State) (now : Int) (addr : Addr) (a : Action) (n : Nat)
    (k' : Key) (a' : Action) (hne : ¬ (k' = throttleKey addr ∧ a' = a)) :
    (step st (.par now addr a n)).1 k' a' = st k' a' := by
  unfold step par check
  by_cases h0 : st (throttleKey addr) a = []
  · simp [h0, State.set, hne]
  · by_cases hb : blocked now (st (throttleKey addr) a) = true
    · simp [h0, hb]
    · simp [h0, hb, State.set, hne]

theorem step_attempt_at (st : State) (now : Int) (addr : Addr) (a : Action) (failed : Bool) :
    (step st (.attempt now addr a failed)).1 (throttleKey addr) a
        = (attemptL now (st (throttleKey addr) a) failed).1 ∧
    (step st (.attempt now addr a failed)).2 = (attemptL now (st (throttleKey addr) a) failed).2 := by
  unfold step attemptL check throttle
  by_cases h0 : st (throttleKey addr) a = []
  · cases failed <;> simp [h0, State.set, filterEntries]
  · by_cases hb : blocked now (st (throttleKey addr) a) = true
    · simp [h0, hb]
    · cases failed <;> simp [h0, hb, State.set]

theorem step_attempt_frame (st : State) (now : Int) (addr : Addr) (a : Action) (failed : Bool)
    (k' : Key) (a' : Action) (hne : ¬ (k' = throttleKey addr ∧ a' = a)) :
    (step st (.attempt now addr a failed)).1 k' a' = st k' a' := by
  unfold step check throttle
  by_cases h0 : st (throttleKey addr) a = []
  · cases failed <;> simp [h0, State.set, hne]
  · by_cases hb : blocked now (st (throttleKey addr) a) = true
    · simp [h0, hb]
    · cases failed <;> simp [h0, hb, State.set, hne]

def Rel (st : State) (h : Hist) (last : Int) : Prop := ∀ k a, RelL (st k a) (h k a) last

theorem Rel.empty (t0 : Int) : Rel State.empty Hist.empty t0 := fun _ _ => RelL.nil t0

theorem step_refines {st : State} {h : Hist} {last : Int} (hr : Rel st h last) (op : Op)
    (hl : last ≤ op.time) (hat : op.atomic = true) :
    Rel (step st op).1 (specStep h op).1 op.time ∧ (step st op).2 = (specStep h op).2 := by
  cases op with
  | attempt now addr a failed =>
    simp only [Op.time] at hl ⊢
    obtain ⟨h1, h2⟩ := step_attempt_at st now addr a failed
    obtain ⟨r1, r2⟩ := attemptL_refines (hr (throttleKey addr) a) hl failed
    constructor
    · intro k' a'
      by_cases hk : k' = throttleKey addr ∧ a' = a
      · obtain ⟨rfl, rfl⟩ := hk
        rw [h1]
        simpa [specStep, Hist.set] using r1
      · rw [step_attempt_frame st now addr a failed k' a' hk]
        simp only [specStep, Hist.set, hk, if_false]
        exact (hr k' a').advance hl
    · rw [h2, r2]; simp [specStep]
  | cleanup now =>
    simp only [Op.time] at hl ⊢
    refine ⟨?_, rfl⟩
    intro k a
    exact ((hr k a).filter hl).1
  | checkOnly _ _ _ => simp [Op.atomic] at hat
  | throttleOnly _ _ _ => simp [Op.atomic] at hat
  | par now addr a n =>
    simp only [Op.time] at hl ⊢
    obtain ⟨h1, h2⟩ := step_par_at st now addr a n
    obtain ⟨r1, r2⟩ := parL_refines (hr (throttleKey addr) a) hl n
    constructor
    · intro k' a'
      by_cases hk : k' = throttleKey addr ∧ a' = a
      · obtain ⟨rfl, rfl⟩ := hk
        rw [h1]
        simpa [specStep, Hist.set] using r1
      · rw [step_par_frame st now addr a n k' a' hk]
        simp only [specStep, Hist.set, hk, if_false]
        exact (hr k' a').advance hl
    · rw [h2, r2]; simp [specStep]

theorem run_refines : ∀ (ops : List Op) {st : State} {h : Hist} {last : Int},
    Rel st h last → Monotone last ops →
    (run st ops).2 = (specRun h ops).2 := by
  intro ops
  induction ops with
  | nil => intros; rfl
  | cons op ops ih =>
    intro st h last hr hm
    obtain ⟨hl, hat, hm'⟩ := hm
    obtain ⟨r1, r2⟩ := step_refines hr op hl hat
    simp only [run, specRun]
    rw [ih r1 hm', r2]

end SigModel.Throttle

namespace SigModel.Throttle
open SigModel.Generated.Throttle

/-! ### interleavings of concurrent `addEntry` calls

The regenerated critical sections of `addEntry` are one write-locked section that reads the entry list
and writes the extended list.  Whatever the scheduler does with `n` such threads, the shared list ends
up as the initial list followed by `n` new records. -/

/-- The regenerated fact, as the interleaving theorems use it (proved from the source's current
sections in `Props/C17.lean`, `C17_atomicity_facts`). -/
def AddEntryAtomic : Prop := addEntryPaths = [[("W", ["read", "write"])]]

theorem addEntryProgs_eq (hf : AddEntryAtomic) : addEntryProgs = [[[Acc.read, Acc.write]]] := by
  unfold addEntryProgs; rw [hf]; decide

/-- Invariant of every schedule of `n` threads that each record a failure at `now` with the one-section
program: as many records were appended as threads have finished. -/
def ConcInv (init : List Int) (now : Int) (n : Nat) (c : Conc) : Prop :=
  c.thr.length = n ∧
  (∀ t ∈ c.thr, t.entry = now ∧ (t.todo = [[Acc.read, Acc.write]] ∨ t.todo = [])) ∧
  c.shared = init ++ List.replicate (n - c.pending) now

theorem Conc.pending_le (c : Conc) : c.pending ≤ c.thr.length := List.countP_le_length

theorem Conc.sched_none {c : Conc} {i : Nat} (hi : c.thr[i]? = none) : c.sched i = c := by
  unfold Conc.sched; rw [hi]

theorem Conc.sched_done {c : Conc} {i : Nat} {t : Thr} (hi : c.thr[i]? = some t) (ht : t.todo = []) :
    c.sched i = c := by
  unfold Conc.sched; rw [hi]; simp only [ht]

theorem Conc.sched_section {c : Conc} {i : Nat} {t : Thr} {sec : List Acc} {rest : Prog}
    (hi : c.thr[i]? = some t) (ht : t.todo = sec :: rest) :
    c.sched i = ⟨(runSection t.entry c.shared t.loc sec).1,
      c.thr.set i ⟨t.entry, rest, (runSection t.entry c.shared t.loc sec).2⟩⟩ := by
  unfold Conc.sched; rw [hi]; simp only [ht]

theorem ConcInv.sched {init : List Int} {now : Int} {n : Nat} {c : Conc} (h : ConcInv init now n c)
    (i : Nat) : ConcInv init now n (c.sched i) := by
  obtain ⟨hlen, hthr, hsh⟩ := h
  cases hi : c.thr[i]? with
  | none => rw [Conc.sched_none hi]; exact ⟨hlen, hthr, hsh⟩
  | some t =>
    have hilt : i < c.thr.length := (List.getElem?_eq_some_iff.mp hi).1
    have hget : c.thr[i] = t := (List.getElem?_eq_some_iff.mp hi).2
    have hmem : t ∈ c.thr := List.mem_of_getElem? hi
    obtain ⟨hent, htodo⟩ := hthr t hmem
    rcases htodo with htodo | htodo
    · -- the thread runs its only section: read the list, write it back extended
      rw [Conc.sched_section hi htodo]
      have hrun : runSection t.entry c.shared t.loc [Acc.read, Acc.write] = (c.shared ++ [now], c.shared) := by
        simp [runSection, runAcc, hent]
      rw [hrun]
      have hp1 : (!(c.thr[i]).todo.isEmpty) = true := by rw [hget, htodo]; rfl
      have hpend : Conc.pending ⟨c.shared ++ [now], c.thr.set i ⟨t.entry, [], c.shared⟩⟩ = c.pending - 1 := by
        unfold Conc.pending
        simp only []
        rw [List.countP_set hilt]
        simp only [hp1]
        simp
      have hpos : 0 < c.pending := by
        unfold Conc.pending
        exact List.countP_pos_iff.mpr ⟨t, hmem, by rw [htodo]; rfl⟩
      have hple := c.pending_le
      refine ⟨by simpa using hlen, ?_, ?_⟩
      · intro t' ht'
        rcases List.mem_or_eq_of_mem_set ht' with h1 | h1
        · exact hthr t' h1
        · subst h1; exact ⟨hent, Or.inr rfl⟩
      · rw [hpend]
        simp only []
        rw [hsh, List.append_assoc, ← List.replicate_succ']
        congr 2
        omega
    · rw [Conc.sched_done hi htodo]
      exact ⟨hlen, hthr, hsh⟩

theorem ConcInv.run {init : List Int} {now : Int} {n : Nat} (schedule : List Nat) :
    ∀ {c : Conc}, ConcInv init now n c → ConcInv init now n (c.run schedule) := by
  induction schedule with
  | nil => intro c h; exact h
  | cons i is ih => intro c h; exact ih (h.sched i)

theorem ConcInv.start (hf : AddEntryAtomic) (init : List Int) (now : Int) (progs : List Prog)
    (hp : ∀ p ∈ progs, p ∈ addEntryProgs) : ConcInv init now progs.length (Conc.start init now progs) := by
  rw [addEntryProgs_eq hf] at hp
  have hall : ∀ p ∈ progs, p = [[Acc.read, Acc.write]] := fun p h => by simpa using hp p h
  refine ⟨by simp [Conc.start], ?_, ?_⟩
  · intro t ht
    simp only [Conc.start, List.mem_map] at ht
    obtain ⟨p, hpm, rfl⟩ := ht
    exact ⟨rfl, Or.inl (hall p hpm)⟩
  · have : (Conc.start init now progs).pending = progs.length := by
      unfold Conc.pending Conc.start
      simp only [List.countP_map]
      rw [List.countP_eq_length.mpr]
      intro p hpm
      simp [hall p hpm]
    rw [this]; simp [Conc.start]

/-- A list whose first entry is not older than twelve hours is left alone by `filterEntries`. -/
theorem filterEntries_young_head (now : Int) (l : List Int)
    (h : ∀ t, l.head? = some t → now - t ≤ (maxBruteforceAge : Int)) : filterEntries now l = l := by
  cases l with
  | nil => rfl
  | cons e es =>
    have := h e rfl
    unfold filterEntries
    rw [ageCmp_gt]
    simp; omega

/-- What a passed check leaves behind, extended by failures recorded at the same time, is not pruned
again. -/
theorem filterEntries_after_check (now : Int) (es : List Int) (j : Nat) :
    filterEntries now (filterEntries now es ++ List.replicate j now)
      = filterEntries now es ++ List.replicate j now := by
  apply filterEntries_young_head
  obtain ⟨m, h1, _, _, h4⟩ := filterEntries_eq_drop now es
  intro t ht
  rw [h1] at ht
  cases hd : es.drop m with
  | nil =>
    rw [hd] at ht
    cases j with
    | zero => simp at ht
    | succ j =>
      simp [List.replicate_succ] at ht
      subst ht
      have : (0 : Int) ≤ (maxBruteforceAge : Int) := by decide
      omega
  | cons e rest =>
    rw [hd] at ht
    simp at ht
    subst ht
    exact h4 e (by rw [hd]; rfl)

/-- `n` sequential `throttle` calls with the same captured time. -/
def throttleN (st : State) (now : Int) (k : Key) (a : Action) : Nat → State
  | 0 => st
  | n + 1 => throttleN (throttle st now k a).1 now k a n

theorem throttleN_at (st : State) (now : Int) (k : Key) (a : Action) (n : Nat) :
    throttleN st now k a n k a = st k a ++ List.replicate n now := by
  induction n generalizing st with
  | zero => simp [throttleN]
  | succ n ih =>
    simp only [throttleN]
    rw [ih]
    simp [throttle, State.set, List.replicate_succ]

end SigModel.Throttle
